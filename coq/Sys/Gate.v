(* Model of the inter-node entry points of server/cluster.go and of the ring
   signature they carry (C17: "nodes whose rings differ refuse each other's
   topic traffic").  Definitions only.

   Entry points of the RPC service "Cluster" (cluster.go), and what they carry:
     Cluster.TopicMaster(ClusterReq)    Signature, compared with c.ring.Signature()
                                         after the unknown-node test and after the
                                         Gone branch, before anything else
     Cluster.Route(ClusterRoute)        Signature, compared first
     Cluster.TopicProxy(ClusterResp)    NO signature field: master -> proxy responses
                                         are not gated (modelled below as they are)
     Cluster.UserCacheUpdate(UserCacheReq)  NO signature field, `rejected` is never set;
                                         user cache / push traffic, not topic traffic: not modelled
     Cluster.Ping(ClusterPing)          no signature (restart detection): not modelled
     Cluster.Health / Cluster.Vote       election, Sys/Election.v
   Senders: makeClusterReq (routeToTopicMaster, topicProxyGone) and
   routeToTopicIntraCluster stamp c.ring.Signature() of the moment the request is
   made; the destination is nodeForTopic(topic).

   State of one node = what these functions read and write: the node list the
   current ring was built from (Cluster.rehash), c.nodes, the ids of the
   multiplexing sessions in globals.sessionStore, ClusterNode.msess, and the
   topics of globals.hub (existence, isChan, supd != nil, isProxy).

   Not modelled: the sess.terminating test of routeToTopicMaster and the "load exceeded"
   answer of proxyToMasterAsync (p2mSender full) - both only stop a request from being made;
   gcProxySessionsForNode; the asynchrony of the proxy event pool (the write loop that a stop
   message schedules is taken to run at once); Hub.rehash.  A topic is stored in the hub under
   its own name (Topic.name = key), as hub.go does.

   Strings are byte lists (Ring.str).  The ring is abstracted by two Section
   variables: [sigf ns] = Ring.Signature() and [getf ns key] = Ring.Get(key) of
   the ring Cluster.rehash builds from the node list [ns]; Props/PropC17.v
   instantiates them with Pure/Ring.v.  Nothing is assumed about them. *)
From Coq Require Import NArith ZArith List Bool.
From Tinode Require Import Pure.Ring.
Import ListNotations.

(* strings.HasPrefix *)
Fixpoint has_prefix (p s : str) : bool :=
  match p, s with
  | [], _ => true
  | _ :: _, [] => false
  | a :: p', b :: s' => (a =? b)%N && has_prefix p' s'
  end.
Definition s_grp : str := [103; 114; 112]%N.
Definition s_chn : str := [99; 104; 110]%N.
Definition dash : N := 45%N.
(* types.IsChannel *)
Definition is_channel (name : str) : bool := has_prefix s_chn name.
(* types.GrpToChn: strings.Replace(grp, "grp", "chn", 1) on a name that starts with "grp" *)
Definition grp_to_chn (g : str) : str :=
  if has_prefix s_grp g then s_chn ++ skipn 3 g
  else if has_prefix s_chn g then g
  else [].

Definition smem (x : str) (l : list str) : bool := existsb (seqb x) l.
Definition sremove (x : str) (l : list str) : list str := filter (fun y => negb (seqb x y)) l.

(* ProxyReqType *)
Definition ProxyReqJoin : Z := 1.
Definition ProxyReqLeave : Z := 2.
Definition ProxyReqMeta : Z := 3.
Definition ProxyReqBroadcast : Z := 4.
Definition ProxyReqBgSession : Z := 5.
Definition ProxyReqMeUserAgent : Z := 6.

(* the fields of Topic read here *)
Record tinfo := mkT { t_chan : bool; t_supd : bool; t_proxy : bool }.

Record nstate := mkN {
  n_this : str;                       (* c.thisNodeName *)
  n_peers : list str;                 (* keys of c.nodes *)
  n_ring : list str;                  (* ringKeys of the last c.rehash *)
  n_store : list str;                 (* globals.sessionStore: ids of the multiplexing sessions *)
  n_msess : list (str * str);         (* (peer, msid): c.nodes[peer].msess *)
  n_topics : list (str * tinfo)       (* globals.hub.topics *)
}.

Fixpoint tlookup (t : str) (l : list (str * tinfo)) : option tinfo :=
  match l with
  | [] => None
  | (k, v) :: l' => if seqb t k then Some v else tlookup t l'
  end.

(* ClusterReq *)
Record creq := mkReq {
  q_node : str; q_sig : str; q_type : Z; q_rcpt : str;
  q_cli : option str;                 (* CliMsg != nil: Some CliMsg.Original *)
  q_sess : bool;                      (* Sess != nil *)
  q_gone : bool
}.
(* ClusterRoute *)
Record croute := mkRoute { r_node : str; r_sig : str; r_srv : bool (* SrvMsg != nil *); r_sess : bool }.
(* ClusterResp *)
Record cresp := mkResp { p_rcpt : str; p_srv : bool (* SrvMsg != nil *) }.

(* where a message ended up *)
Inductive delivery := DJoin | DLeave | DMeta | DBroadcast | DSupdBg | DSupdUa | DRouteSrv | DProxy.

Inductive outcome :=
| OUnknownNode            (* TopicMaster: c.nodes[msg.Node] == nil; nothing happens, rejected = false *)
| OGone                   (* TopicMaster: Gone branch (tear down), rejected = false *)
| ORejectedSig            (* the gate: *rejected = true, return *)
| ODelivered (d : delivery)   (* handed to the hub / the topic; rejected = false *)
| OBusy500                (* join/meta queue full: {ctrl 500} queued to the originating session; rejected = false *)
| OBusyDropped            (* broadcast queue full: logged and dropped; rejected = false *)
| ONoTopic                (* leave/meta/session update/response for a topic the hub does not have; rejected = false *)
| ORejectedType           (* unknown request type: *rejected = true *)
| ORejectedNil            (* Route: nil server message, rejected = true *)
| ORejectedBusy           (* Route: hub.routeSrv full, rejected = true *)
| OBlocks                 (* TopicProxy on a topic whose proxy channel is nil: the send never completes *)
| OPanic.                 (* nil dereference / logs.Err.Panicln *)

Definition with_store (s : nstate) (st : list str) (ms : list (str * str)) : nstate :=
  mkN (n_this s) (n_peers s) (n_ring s) st ms (n_topics s).
Definition set_ring (s : nstate) (r : list str) : nstate :=
  mkN (n_this s) (n_peers s) r (n_store s) (n_msess s) (n_topics s).
Definition with_topics (s : nstate) (ts : list (str * tinfo)) : nstate :=
  mkN (n_this s) (n_peers s) (n_ring s) (n_store s) (n_msess s) ts.

(* ClusterNode.stopMultiplexingSession(globals.sessionStore.Get(msid)) followed by the
   clusterWriteLoop the stop message schedules (it takes the nil from sess.stop and
   deletes the session from the store): nothing when the session is not in the store *)
Definition stop_msess (s : nstate) (peer msid : str) : nstate :=
  if smem msid (n_store s) then
    with_store s (sremove msid (n_store s))
               (filter (fun pm => negb (seqb peer (fst pm) && seqb msid (snd pm))) (n_msess s))
  else s.

(* globals.sessionStore.NewSession(node, msid); node.msess[msid] = struct{}{} *)
Definition add_msess (s : nstate) (peer msid : str) : nstate :=
  with_store s (msid :: n_store s)
             (if existsb (fun pm => seqb peer (fst pm) && seqb msid (snd pm)) (n_msess s) then n_msess s
              else (peer, msid) :: n_msess s).

Section Gate.
  Variable sigf : list str -> str.
  Variable getf : list str -> str -> str.

  (* c.ring.Signature() *)
  Definition cur_sig (s : nstate) : str := sigf (n_ring s).

  (* Cluster.rehash(nodes): nil = every configured node (c.nodes in map order, then
     this node: a permutation, fixed here as peers ++ [this]); otherwise the list as given *)
  Definition rehash (s : nstate) (nodes : option (list str)) : nstate :=
    match nodes with
    | None => set_ring s (n_peers s ++ [n_this s])
    | Some l => set_ring s l
    end.

  (* msid := (channel request ? CliMsg.Original : RcptTo) + "-" + msg.Node *)
  Definition msid_of (m : creq) : str :=
    (match q_cli m with
     | Some orig => if is_channel orig then orig else q_rcpt m
     | None => q_rcpt m
     end) ++ dash :: q_node m.

  (* Cluster.TopicMaster.  [full]: the bounded queue the request would go to
     (hub.join, topic.meta, hub.routeCli) has no room. *)
  Definition topic_master (s : nstate) (m : creq) (full : bool) : nstate * outcome :=
    if negb (smem (q_node m) (n_peers s)) then (s, OUnknownNode)
    else
      let msid := msid_of m in
      if q_gone m then
        let s1 := stop_msess s (q_node m) msid in
        let s2 := match tlookup (q_rcpt m) (n_topics s) with
                  | Some ti => if t_chan ti
                               then stop_msess s1 (q_node m) (grp_to_chn (q_rcpt m) ++ dash :: q_node m)
                               else s1
                  | None => s1
                  end in
        (s2, OGone)
      else if negb (seqb (q_sig m) (cur_sig s)) then (s, ORejectedSig)
      else
        let s1 := if smem msid (n_store s) then s else add_msess s (q_node m) msid in
        let has_cli := match q_cli m with Some _ => true | None => false end in
        let topic := tlookup (q_rcpt m) (n_topics s) in
        if (q_type m =? ProxyReqJoin)%Z then
          if full then (s1, if has_cli && q_sess m then OBusy500 else OPanic)
          else (s1, ODelivered DJoin)
        else if (q_type m =? ProxyReqLeave)%Z then
          match topic with Some _ => (s1, ODelivered DLeave) | None => (s1, ONoTopic) end
        else if (q_type m =? ProxyReqMeta)%Z then
          match topic with
          | Some _ => if full then (s1, if has_cli && q_sess m then OBusy500 else OPanic)
                      else (s1, ODelivered DMeta)
          | None => (s1, ONoTopic)
          end
        else if (q_type m =? ProxyReqBroadcast)%Z then
          if full then (s1, OBusyDropped) else (s1, ODelivered DBroadcast)
        else if (q_type m =? ProxyReqBgSession)%Z then
          match topic with
          | Some ti => if t_supd ti then (s1, ODelivered DSupdBg) else (s1, OPanic)
          | None => (s1, ONoTopic)
          end
        else if (q_type m =? ProxyReqMeUserAgent)%Z then
          match topic with
          | Some ti => if t_supd ti then (if q_sess m then (s1, ODelivered DSupdUa) else (s1, OPanic))
                       else (s1, OPanic)
          | None => (s1, ONoTopic)
          end
        else (s1, ORejectedType).

  (* Cluster.Route.  [full]: hub.routeSrv has no room *)
  Definition route (s : nstate) (r : croute) (full : bool) : outcome :=
    if negb (seqb (r_sig r) (cur_sig s)) then ORejectedSig
    else if negb (r_srv r) then ORejectedNil
    else if full then ORejectedBusy
    else ODelivered DRouteSrv.

  (* Cluster.TopicProxy: no signature to compare *)
  Definition topic_proxy (s : nstate) (p : cresp) : outcome :=
    match tlookup (p_rcpt p) (n_topics s) with
    | Some ti => if negb (p_srv p) then OPanic
                 else if t_proxy ti then ODelivered DProxy else OBlocks
    | None => ONoTopic
    end.

  (* nodeForTopic: nil for this node itself and for a name that is not in c.nodes *)
  Definition node_for (s : nstate) (topic : str) : option str :=
    let key := getf (n_ring s) topic in
    if seqb key (n_this s) then None
    else if smem key (n_peers s) then Some key else None.

  (* makeClusterReq *)
  Definition make_req (s : nstate) (rt : Z) (topic : str) (cli : option str) (sess : bool) : creq :=
    mkReq (n_this s) (cur_sig s) rt topic cli sess false.

  (* ---------------- the cluster: several nodes and the messages between them ---------------- *)
  Inductive msg :=
  | MReq (to : str) (q : creq)
  | MRoute (to : str) (r : croute)
  | MResp (to : str) (p : cresp).

  (* a message in flight; the ghost [origin] = the node list of the sender's ring when an
     honest sender made it (None: a message that came from anywhere else) *)
  Record flying := mkF { f_msg : msg; f_origin : option (list str) }.

  Record net := mkNet { nodes : list nstate; flight : list flying }.

  Fixpoint find_node (i : str) (l : list nstate) : option nstate :=
    match l with
    | [] => None
    | s :: l' => if seqb i (n_this s) then Some s else find_node i l'
    end.
  Fixpoint set_node (s' : nstate) (l : list nstate) : list nstate :=
    match l with
    | [] => []
    | s :: l' => if seqb (n_this s') (n_this s) then s' :: l' else s :: set_node s' l'
    end.

  Inductive gevent :=
  | ERehash (i : str) (ns : option (list str))            (* c.rehash at node i *)
  | ETopicPut (i : str) (t : str) (ti : tinfo)            (* the hub of i gets a topic (environment) *)
  | ETopicDel (i : str) (t : str)
  | ESendMaster (i : str) (rt : Z) (topic : str) (cli : option str) (sess : bool)   (* routeToTopicMaster *)
  | ESendGone (i : str) (topic : str)                     (* topicProxyGone *)
  | ESendRoute (i : str) (topic : str) (srv sess : bool)  (* routeToTopicIntraCluster *)
  | EForge (m : msg)                                      (* any message whatsoever shows up on the wire *)
  | EDeliver (k : nat) (full : bool)                      (* the k-th message in flight reaches its entry point *)
  | EDrop (k : nat).

  Inductive obs :=
  | ObNone                                    (* the event is not enabled: nothing happens *)
  | ObRehashed (sg : str)                     (* signature after the rehash *)
  | ObSent (to : str) (sg : str)              (* a message was put on the wire *)
  | ObNoRoute                                 (* "node for topic not found" *)
  | ObDelivered (o : outcome) (msess : bool)  (* outcome; the request's multiplexing session is in the store afterwards *)
  | ObLost.                                   (* no such receiver *)

  Fixpoint gremove_nth {A} (k : nat) (l : list A) : list A :=
    match l, k with
    | [], _ => []
    | _ :: l', O => l'
    | a :: l', S k' => a :: gremove_nth k' l'
    end.

  Definition msg_to (m : msg) : str :=
    match m with MReq to _ => to | MRoute to _ => to | MResp to _ => to end.
  (* the signature a message carries, if it has the field at all *)
  Definition msg_sig (m : msg) : option str :=
    match m with MReq _ q => Some (q_sig q) | MRoute _ r => Some (r_sig r) | MResp _ _ => None end.

  Definition send (n : net) (s : nstate) (m : msg) : net :=
    mkNet (nodes n) (flight n ++ [mkF m (Some (n_ring s))]).

  Definition gstep (n : net) (e : gevent) : net * obs :=
    match e with
    | ERehash i ns =>
      match find_node i (nodes n) with
      | Some s => let s' := rehash s ns in (mkNet (set_node s' (nodes n)) (flight n), ObRehashed (cur_sig s'))
      | None => (n, ObNone)
      end
    | ETopicPut i t ti =>
      match find_node i (nodes n) with
      | Some s => (mkNet (set_node (with_topics s ((t, ti) :: filter (fun kv => negb (seqb t (fst kv))) (n_topics s)))
                                   (nodes n)) (flight n), ObNone)
      | None => (n, ObNone)
      end
    | ETopicDel i t =>
      match find_node i (nodes n) with
      | Some s => (mkNet (set_node (with_topics s (filter (fun kv => negb (seqb t (fst kv))) (n_topics s)))
                                   (nodes n)) (flight n), ObNone)
      | None => (n, ObNone)
      end
    | ESendMaster i rt topic cli sess =>
      match find_node i (nodes n) with
      | Some s =>
        match node_for s topic with
        | Some to => (send n s (MReq to (make_req s rt topic cli sess)), ObSent to (cur_sig s))
        | None => (n, ObNoRoute)
        end
      | None => (n, ObNone)
      end
    | ESendGone i topic =>
      match find_node i (nodes n) with
      | Some s =>
        match node_for s topic with
        | Some to =>
          let q := make_req s ProxyReqLeave topic None false in
          (send n s (MReq to (mkReq (q_node q) (q_sig q) (q_type q) (q_rcpt q) (q_cli q) (q_sess q) true)),
           ObSent to (cur_sig s))
        | None => (n, ObNoRoute)
        end
      | None => (n, ObNone)
      end
    | ESendRoute i topic srv sess =>
      match find_node i (nodes n) with
      | Some s =>
        match node_for s topic with
        | Some to => (send n s (MRoute to (mkRoute (n_this s) (cur_sig s) srv sess)), ObSent to (cur_sig s))
        | None => (n, ObNoRoute)
        end
      | None => (n, ObNone)
      end
    | EForge m => (mkNet (nodes n) (flight n ++ [mkF m None]), ObNone)
    | EDrop k => (mkNet (nodes n) (gremove_nth k (flight n)), ObNone)
    | EDeliver k full =>
      match nth_error (flight n) k with
      | None => (n, ObNone)
      | Some f =>
        let fl := gremove_nth k (flight n) in
        match find_node (msg_to (f_msg f)) (nodes n) with
        | None => (mkNet (nodes n) fl, ObLost)
        | Some s =>
          match f_msg f with
          | MReq _ q =>
            let '(s', o) := topic_master s q full in
            (mkNet (set_node s' (nodes n)) fl, ObDelivered o (smem (msid_of q) (n_store s')))
          | MRoute _ r => (mkNet (nodes n) fl, ObDelivered (route s r full) false)
          | MResp _ p => (mkNet (nodes n) fl, ObDelivered (topic_proxy s p) false)
          end
        end
      end
    end.

  Fixpoint grun (n : net) (evs : list gevent) : net * list obs :=
    match evs with
    | [] => (n, [])
    | e :: evs' =>
      let '(n1, o) := gstep n e in
      let '(n2, os) := grun n1 evs' in
      (n2, o :: os)
    end.

  (* a node as clusterInit leaves it: ring over all configured nodes, nothing else *)
  Definition init_node (this : str) (peers : list str) : nstate :=
    rehash (mkN this peers [] [] [] []) None.
  Definition init_net (names : list str) : net :=
    mkNet (map (fun x => init_node x (sremove x names)) names) [].
End Gate.

(* an outcome that lies behind the gate: the request was looked at, handed on or answered *)
Definition passed_gate (o : outcome) : bool :=
  match o with
  | ODelivered _ | OBusy500 | OBusyDropped | ONoTopic | ORejectedType | ORejectedNil | ORejectedBusy | OPanic | OBlocks => true
  | OUnknownNode | OGone | ORejectedSig => false
  end.
Definition is_delivered (o : outcome) : bool := match o with ODelivered _ => true | _ => false end.
