(* C04, layer 2: the statements of Props/PropC04.v in their final form, for the instance of
   Sys/TopicInst.v (the range algebra of Pure/Ranges.v) and for every history. *)
From Coq Require Import ZArith NArith List Bool Lia Sorted.
From Tinode Require Import Base.Util Pure.Acs Pure.Ranges Pure.RangesProofs Sys.Topic Sys.TopicTac Sys.TopicFrame
  Sys.TopicNum Sys.TopicNumThm Sys.TopicInst Sys.TopicHist Sys.TopicHistProofs Sys.TopicHistInst.
Import ListNotations.
Open Scope Z_scope.

(* a new topic: no messages, no deletions *)
Definition hist_init (s : store) : Prop := msgs s = [] /\ t_seqid s = 0 /\ dellog s = [] /\ t_delid s = 0.

Lemma hist_init_fresh s : hist_init s -> fresh_hist s.
Proof. intros [A [B [C D]]]. split; [split; assumption|lia]. Qed.
Lemma hist_init_wf s : hist_init s -> dellog_wf s.
Proof. intros [A [B [C D]]]. split; [rewrite C; constructor|lia]. Qed.

Section Thm.
Variable sm : sessmap.

Definition reach (s0 : store) (h : list (fault * op)) : state := fst (run_i sm (mkState s0 None 0) h).

(* ---- the refinement ---- *)
Lemma history_refines s0 h : hist_init s0 -> hist_ok sm h ->
  heq (abs (st (reach s0 h))) (hs_run del_ranges_i norm_ranges_i sm (mkState s0 None 0) h (abs s0)).
Proof.
  intros HI HO. unfold reach, run_i.
  apply (run_refines del_ranges_i norm_ranges_i sm dr_exact_i h (mkState s0 None 0) (abs s0)).
  - apply fresh_inv_hist. apply hist_init_fresh. exact HI.
  - exact HO.
  - apply heq_refl.
Qed.

Lemma reach_inv_hist s0 h : hist_init s0 -> hist_ok sm h -> inv_hist (reach s0 h).
Proof.
  intros HI HO. unfold reach, run_i.
  apply (run_refines del_ranges_i norm_ranges_i sm dr_exact_i h (mkState s0 None 0) (abs s0)).
  - apply fresh_inv_hist. apply hist_init_fresh. exact HI.
  - exact HO.
  - apply heq_refl.
Qed.

(* with ANY faults and crashes: message numbers stay unique, log rows stay well formed *)
Lemma reach_nodup s0 h : hist_init s0 -> NoDup (seqs (st (reach s0 h))).
Proof.
  intros HI. unfold reach, run_i.
  pose proof (run_inv_num del_ranges_i norm_ranges_i sm h (mkState s0 None 0)) as R.
  destruct R as [_ [R _]]; [|exact R]. apply fresh_inv. apply hist_init_fresh in HI. apply HI.
Qed.
Lemma reach_wf s0 h : hist_init s0 -> dellog_wf (st (reach s0 h)).
Proof.
  intros HI. unfold reach, run_i. apply (run_dellog_wf del_ranges_i norm_ranges_i sm dr_wf_i).
  - apply hist_init_wf. exact HI.
  - exact I.
Qed.

(* ---- {get data} ---- *)
Lemma step_get_data f s c n0 sid since before limit : attached c sid = true ->
  snd (step_i sm f (mkState s (Some c) n0) (OGetData sid since before limit)) =
  h_out (get_data f s c 0 sid (sess_uid sm sid) since before limit).
Proof. intros AT. unfold step_i, step. cbn [st ca]. rewrite AT. reflexivity. Qed.

Lemma get_data_history s0 h c sid since before limit :
  hist_init s0 -> ca (reach s0 h) = Some c -> attached c sid = true ->
  is_reader (user_mode c (sess_uid sm sid)) = true ->
  let s := st (reach s0 h) in
  let u := sess_uid sm sid in
  let o := snd (step_i sm NoFault (reach s0 h) (OGetData sid since before limit)) in
  let fr := data_of o in
  let lim := Z.to_nat (eff_limit max_msg_results limit) in
  o = map (fun e => (sid, Data (fst (fst e)) (snd (fst e)) (snd e))) fr ++ [(sid, data_closing (length fr))] /\
  (length fr <= lim)%nat /\
  StronglySorted data_gt fr /\
  (forall x a ct, In (x, a, ct) fr -> in_window since before x = true /\ hs_visible (abs s) u x = Some (a, ct)) /\
  (forall x a ct, in_window since before x = true -> hs_visible (abs s) u x = Some (a, ct) ->
     In (x, a, ct) fr \/ (length fr = lim /\ forall e, In e fr -> x < fst (fst e))).
Proof.
  intros HI CA AT R. cbn zeta.
  pose proof (reach_nodup s0 h HI) as ND.
  destruct (reach s0 h) as [s cx n0]. cbn [st ca] in *. subst cx.
  rewrite (step_get_data NoFault s c n0 sid since before limit AT).
  exact (get_data_exact NoFault s c 0 sid (sess_uid sm sid) since before limit ND R eq_refl).
Qed.

Lemma get_data_needs_read f s c n0 sid since before limit : attached c sid = true ->
  is_reader (user_mode c (sess_uid sm sid)) = false ->
  snd (step_i sm f (mkState s (Some c) n0) (OGetData sid since before limit)) = [(sid, Ctrl 204 [(P_what, 1)])].
Proof. intros AT R. rewrite (step_get_data f s c n0 sid since before limit AT). apply get_data_no_read. exact R. Qed.

Lemma get_data_needs_attach f s cx n0 sid since before limit :
  match cx with Some c => attached c sid = false | None => True end ->
  step_i sm f (mkState s cx n0) (OGetData sid since before limit) = (mkState s cx 0, [(sid, Ctrl 403 [])]).
Proof. intros AT. unfold step_i, step. cbn [st ca]. destruct cx as [c|]; [rewrite AT|]; reflexivity. Qed.

Lemma limit_bound limit :
  0 < eff_limit max_msg_results limit <= max_msg_results /\ (0 < limit -> eff_limit max_msg_results limit <= limit).
Proof. apply eff_limit_bound. reflexivity. Qed.

(* ---- the specification says what the property says ---- *)
Lemma spec_soft_other a u v ids x : u <> v -> hs_visible (hs_step a (HDel v false ids)) u x = hs_visible a u x.
Proof. intros H. unfold hs_visible. cbn. replace (N.eqb u v) with false by (symmetry; apply N.eqb_neq; exact H). reflexivity. Qed.
Lemma spec_soft_self a u ids x :
  hs_visible (hs_step a (HDel u false ids)) u x = if ids x then None else hs_visible a u x.
Proof. unfold hs_visible. cbn. rewrite N.eqb_refl. cbn. destruct (ids x); reflexivity. Qed.
Lemma spec_hard_all a u v ids x :
  hs_visible (hs_step a (HDel u true ids)) v x = if ids x then None else hs_visible a v x.
Proof. unfold hs_visible. cbn. destruct (hs_soft a v x), (ids x); reflexivity. Qed.
Lemma spec_deleted_for a u v hard ids x : v <> 0%N ->
  hs_deleted_for (hs_step a (HDel u hard ids)) v x = ((hard || N.eqb v u) && ids x) || hs_deleted_for a v x.
Proof.
  intros _. unfold hs_deleted_for. destruct hard; cbn.
  - destruct (ids x), (hs_soft a v x), (hs_hard a x); reflexivity.
  - destruct (N.eqb v u), (ids x), (hs_soft a v x), (hs_hard a x); reflexivity.
Qed.
Lemma spec_pub a n au ct u : hs_soft a u n = false -> hs_visible (hs_step a (HPub n au ct)) u n = Some (au, ct).
Proof. intros H. unfold hs_visible. cbn. rewrite H, Z.eqb_refl. reflexivity. Qed.

(* ---- the delete request ---- *)
Lemma msgs_subs_update' s u up : msgs (ad_subs_update s u up) = msgs s.
Proof. unfold ad_subs_update. break_match; reflexivity. Qed.

(* message rows after an accepted request: soft leaves them alone; hard stamps the live rows
   in the ranges with the transaction number and erases their content, no other row *)
Lemma del_accepted_rows s c sid u req hard0 h : u <> 0%N ->
  del_accepted del_ranges_i s c sid u req hard0 h ->
  t_delid (h_st h) = c_delid c + 1 /\
  if hard0 && is_deleter (user_mode c u)
  then msgs (h_st h) = map (fun m => if (m_delid m =? 0) && req_ids (c_lastid c) req (m_seq m)
                                     then mkMsg (m_seq m) (m_from m) 0%N (c_delid c + 1) else m) (msgs s)
  else msgs (h_st h) = msgs s.
Proof.
  intros Hu [_ [rs [DR A]]]. cbn zeta in A. destruct A as [_ [ES _]]. rewrite ES. split.
  - destruct (hsame_subs_update (st_delid (c_delid c + 1) (ad_msg_delete_list s (c_delid c + 1)
              (if hard0 && is_deleter (user_mode c u) then 0%N else u) rs))
              (if hard0 && is_deleter (user_mode c u) then 0%N else u) (mkUpd None None None None (Some (c_delid c + 1)))) as [_ [_ ->]].
    reflexivity.
  - rewrite msgs_subs_update'. unfold ad_msg_delete_list.
    destruct (hard0 && is_deleter (user_mode c u)); cbn [N.eqb msgs st_delid st_msgs st_dellog].
    + apply map_ext. intros m. fold (covers rs (m_seq m)). now rewrite (dr_exact_i _ _ _ DR).
    + replace (u =? 0)%N with false by (symmetry; apply N.eqb_neq; exact Hu). reflexivity.
Qed.

Lemma step_del_msg f s c n0 sid req hard : attached c sid = true ->
  step_i sm f (mkState s (Some c) n0) (ODelMsg sid req hard) =
  (let h := del_msg del_ranges_i f s c 0 sid (sess_uid sm sid) req hard in
   (mkState (h_st h) (Some (h_ca h)) (h_n h), h_out h)).
Proof. intros AT. unfold step_i, step. cbn [st ca]. rewrite AT. reflexivity. Qed.

(* the number given to an accepted request is the stored counter + 1, in every state reached
   by a history whose delete requests are not cut short by a store fault *)
Lemma delid_next s0 h c : hist_init s0 -> hist_ok sm h -> ca (reach s0 h) = Some c ->
  c_delid c = t_delid (st (reach s0 h)) /\ 0 <= t_delid (st (reach s0 h)).
Proof.
  intros HI HO CA. destruct (reach_inv_hist s0 h HI HO) as [_ [I0 IC]]. rewrite CA in IC. destruct IC as [E _]. auto.
Qed.

(* ---- {get del} ---- *)
Lemma step_get_del f s c n0 sid since before limit : attached c sid = true ->
  snd (step_i sm f (mkState s (Some c) n0) (OGetDel sid since before limit)) =
  h_out (get_del norm_ranges_i f s c 0 sid (sess_uid sm sid) since before limit).
Proof. intros AT. unfold step_i, step. cbn [st ca]. rewrite AT. reflexivity. Qed.

Lemma get_del_history s0 h c sid since before limit :
  hist_init s0 -> ca (reach s0 h) = Some c -> attached c sid = true ->
  is_reader (user_mode c (sess_uid sm sid)) = true ->
  let s := st (reach s0 h) in
  let u := sess_uid sm sid in
  let o := snd (step_i sm NoFault (reach s0 h) (OGetDel sid since before limit)) in
  (length (filter (del_sel u since before) (dellog s)) <= Z.to_nat (eff_limit max_results limit))%nat ->
  (o = [(sid, Ctrl 204 [(P_what, 3)])] /\ forall x, logged_sel s u since before x = false) \/
  (exists maxid rs, o = [(sid, MetaDel maxid rs)] /\
     (forall x, covers rs x = logged_sel s u since before x) /\
     (forall d, In d (dellog s) -> del_sel u since before d = true -> d_delid d <= maxid) /\
     (exists d, In d (dellog s) /\ del_sel u since before d = true /\ d_delid d = maxid)).
Proof.
  intros HI CA AT R. cbn zeta. intros L.
  pose proof (reach_wf s0 h HI) as W.
  destruct (reach s0 h) as [s cx n0]. cbn [st ca] in *. subst cx.
  rewrite (step_get_del NoFault s c n0 sid since before limit AT).
  destruct (get_deleted_rows s (sess_uid sm sid) since before limit) as [_ [RW EX]]. cbn zeta in RW, EX.
  specialize (EX L).
  destruct (get_del_exact norm_ranges_i nr_exact_i NoFault s c 0 sid (sess_uid sm sid) since before limit W R eq_refl)
    as [[E1 E2]|[maxid [rs [E1 [E2 [E3 E4]]]]]].
  - left. split; [exact E2|]. intros x. rewrite <- EX, E1. reflexivity.
  - right. exists maxid, rs. split; [exact E1|]. split; [intros x; rewrite E4; apply EX|]. split.
    + intros d Hd Sd. apply E2.
      (* every selected row is among the rows read: the limit is not reached *)
      rewrite get_deleted_filter. rewrite firstn_all2.
      * apply (Permutation.Permutation_in _ (Permutation.Permutation_sym (sort_del_perm _))). apply filter_In. split; assumption.
      * rewrite (Permutation.Permutation_length (sort_del_perm _)). exact L.
    + destruct E3 as [d [Hd Ed]]. exists d. destruct (RW d Hd) as [A B]. auto.
Qed.

Lemma get_del_needs_read f s c n0 sid since before limit : attached c sid = true ->
  is_reader (user_mode c (sess_uid sm sid)) = false ->
  snd (step_i sm f (mkState s (Some c) n0) (OGetDel sid since before limit)) = [(sid, Ctrl 204 [(P_what, 3)])].
Proof. intros AT R. rewrite (step_get_del f s c n0 sid since before limit AT). apply get_del_no_read. exact R. Qed.

Lemma logged_open s0 h u since before x : hist_init s0 -> since <= 0 -> before <= 1 ->
  logged_sel (st (reach s0 h)) u since before x = hs_deleted_for (abs (st (reach s0 h))) u x.
Proof. intros HI H1 H2. apply logged_sel_open; [apply reach_wf; exact HI|exact H1|exact H2]. Qed.
End Thm.

(* ------------------------------------------------------------------ *)
(* "soft deletion requires read permission": the code asks for R only when D is missing *)

Definition soft_needs_read_statement : Prop :=
  forall f s c sid u req d,
    h_out (del_msg del_ranges_i f s c 0 sid u req false) = [(sid, Ctrl 200 [(P_del, d)])] ->
    is_reader (user_mode c u) = true.

Definition wit_cache : cache :=
  mkCache 1 0 1%N 47%N 0%N [(1%N, mkPud 255 255 0 0 0 1); (2%N, mkPud 69 69 0 0 0 1)] [(1%N, (1%N, false)); (2%N, (2%N, false))].
Definition wit_store : store :=
  mkStore true 1 0 1%N 47%N 0%N [mkSub 1 255 255 0 0 0 false; mkSub 2 69 69 0 0 0 false] [mkMsg 1 1%N 7%N 0] [] [(1%N, 47%N); (2%N, 47%N)].

(* user 2 has JWD (no R): his soft delete of message 1 is accepted *)
Lemma soft_needs_read_refuted : ~ soft_needs_read_statement.
Proof.
  intros H. specialize (H NoFault wit_store wit_cache 2%N 2%N [(1, 0)] 1).
  assert (is_reader (user_mode wit_cache 2%N) = true) as R by (apply H; vm_compute; reflexivity).
  vm_compute in R. discriminate.
Qed.

(* for a requester without D the statement holds, whatever the faults *)
Lemma soft_needs_read_partial f s c sid u req hard d :
  is_deleter (user_mode c u) = false ->
  h_out (del_msg del_ranges_i f s c 0 sid u req hard) = [(sid, Ctrl 200 [(P_del, d)])] ->
  is_reader (user_mode c u) = true.
Proof.
  intros D. unfold del_msg. rewrite D. cbn [negb andb]. destruct (is_reader (user_mode c u)); [reflexivity|].
  cbn. intros H. inv H.
Qed.

(* ------------------------------------------------------------------ *)
(* the refinement does not survive a store fault in the middle of a delete request: the
   log rows and the erased message rows of the failed request stay *)

Definition refines_any_fault_statement : Prop :=
  forall sm s0 h, hist_init s0 -> Forall (fun fo => op_ok sm (snd fo)) h ->
    heq (abs (st (reach sm s0 h))) (hs_run del_ranges_i norm_ranges_i sm (mkState s0 None 0) h (abs s0)).

Definition wit_s0 : store := ad_sub_create (mkStore true 0 0 0%N 47%N 0%N [] [] [] [(1%N, 47%N)]) 1%N 255%N 255%N.
Definition wit_hist : list (fault * op) :=
  [(NoFault, OSub 1 [] false); (NoFault, OPub 1 7 false); (FailAt 2, ODelMsg 1 [(1, 0)] true)].

Lemma refines_any_fault_refuted : ~ refines_any_fault_statement.
Proof.
  intros H. specialize (H [(1%N, 1%N)] wit_s0 wit_hist).
  destruct H as [L _].
  - vm_compute. repeat split.
  - repeat constructor; cbn; discriminate.
  - specialize (L 1). vm_compute in L. discriminate.
Qed.

(* non-vacuity: a history with publishes, a soft delete by a member without D who asked for a
   hard one, a hard delete by the owner, history and deletion log read by both *)
Definition ex_s0 : store :=
  ad_sub_create (ad_sub_create (mkStore true 0 0 0%N 47%N 0%N [] [] [] [(1%N, 47%N); (2%N, 47%N)]) 1%N 255%N 255%N) 2%N 47%N 47%N.
Definition ex_hist : list (fault * op) :=
  map (fun o => (NoFault, o))
    [OSub 1 [] false; OSub 2 [] false; OPub 1 7 false; OPub 2 8 false; OPub 1 9 false;
     ODelMsg 2 [(1, 3)] true;             (* user 2 has no D: soft, for user 2 only *)
     OGetData 2 0 0 0; OGetData 1 0 0 0;
     ODelMsg 1 [(3, 0); (2, 0)] true;     (* owner: hard *)
     OGetData 1 0 0 0; OGetDel 2 0 0 0; OGetDel 1 0 0 0].
Lemma history_example :
  let r := run_i [(1%N, 1%N); (2%N, 2%N)] (mkState ex_s0 None 0) ex_hist in
  map (fun o => map (fun e => fst (fst e)) (data_of o)) (skipn 5 (snd r)) =
    [[]; [3]; [3; 2; 1]; []; [1]; []; []] /\
  nth 5 (snd r) [] = [(2%N, Ctrl 200 [(P_del, 1)])] /\
  nth 8 (snd r) [] = [(1%N, Ctrl 200 [(P_del, 2)])] /\
  nth 10 (snd r) [] = [(2%N, MetaDel 2 [(1, 4)])] /\
  nth 11 (snd r) [] = [(1%N, MetaDel 2 [(2, 4)])] /\
  map m_delid (msgs (st (fst r))) = [0; 2; 2].
Proof. vm_compute. repeat split. Qed.
