(* C04: the layer-2 hypotheses about the range functions (Sys/TopicHistProofs.v) hold for the
   instance of Sys/TopicInst.v, i.e. for the range algebra of layer 1 (Pure/Ranges.v):
   replyDelMsg's validation + sort + Normalize and GetDeleted's sort + Normalize. *)
From Coq Require Import ZArith NArith List Bool Lia.
From Tinode Require Import Base.Util Pure.Acs Pure.Ranges Pure.RangesProofs Sys.Topic Sys.TopicInst Sys.TopicHist
  Sys.TopicHistProofs.
Import ListNotations.
Open Scope Z_scope.

Lemma bool_eq_iff (a b : bool) : (a = true <-> b = true) -> a = b.
Proof. intros [H1 H2]. destruct a, b; auto; first [symmetry; apply H1; reflexivity|apply H2; reflexivity]. Qed.

Lemma covers_of_range l x : covers (map of_range l) x = in_ranges x l.
Proof.
  unfold covers, in_ranges. rewrite existsb_map. apply existsb_ext_in. intros r _.
  unfold of_range. cbn [fst snd]. rewrite in_range_spec. unfold Topic.in_range, norm_hi, upper. reflexivity.
Qed.

Lemma covers_to_range rs x : in_ranges x (map to_range rs) = covers rs x.
Proof.
  rewrite <- covers_of_range. rewrite map_map. f_equal. rewrite <- (map_id rs) at 2. apply map_ext.
  intros [a b]. reflexivity.
Qed.

Lemma dr_exact_i last req out : del_ranges_i last req = Some out ->
  forall x, covers out x = req_ids last req x.
Proof.
  unfold del_ranges_i. destruct (Ranges.del_ranges last req) as [out0|] eqn:D; [|discriminate].
  cbn. intros H x. inversion H; subst; clear H. rewrite covers_of_range. apply bool_eq_iff.
  rewrite (del_ranges_exact last req out0 D x). unfold req_ids. rewrite existsb_exists.
  split; intros [q [Hq C]]; exists q; (split; [exact Hq|]); destruct q as [lo h]; unfold req_covers in *; cbn [fst snd] in *.
  - destruct ((h =? 0) || (h =? lo)); lia.
  - destruct ((h =? 0) || (h =? lo)); lia.
Qed.

Lemma dr_wf_i last req out : del_ranges_i last req = Some out -> Forall range_wf out.
Proof.
  unfold del_ranges_i. destruct (Ranges.del_ranges last req) as [out0|] eqn:D; [|discriminate].
  cbn. intros H. inversion H; subst; clear H. apply del_ranges_normal in D. destruct D as [W _].
  apply Forall_forall. intros r Hr. apply in_map_iff in Hr. destruct Hr as [r0 [<- Hr0]].
  rewrite Forall_forall in W. exact (W r0 Hr0).
Qed.

Lemma nr_exact_i rs : Forall range_wf rs -> forall x, covers (norm_ranges_i rs) x = covers rs x.
Proof.
  intros W x. unfold norm_ranges_i. rewrite covers_of_range. rewrite normalize_exact; [apply covers_to_range|].
  apply Forall_forall. intros r Hr. apply in_map_iff in Hr. destruct Hr as [p [<- Hp]].
  rewrite Forall_forall in W. destruct (W p Hp) as [A _]. exact A.
Qed.
