(* C10: lemmas about the presence model Sys/Pres.v. *)
From Coq Require Import List NArith ZArith Bool Lia.
From Tinode Require Import Sys.Pres.
Import ListNotations.
Open Scope N_scope.

(* ------------------------------------------------------------------ names, association lists *)

Lemma tname_eqb_eq x y : tname_eqb x y = true <-> x = y.
Proof.
  destruct x, y; simpl; try (split; [discriminate | intros H; discriminate H]).
  - rewrite N.eqb_eq. split; [intros ->; reflexivity | intros [= ->]; reflexivity].
  - rewrite andb_true_iff, !N.eqb_eq. split; [intros [-> ->]; reflexivity | intros [= -> ->]; auto].
  - rewrite N.eqb_eq. split; [intros ->; reflexivity | intros [= ->]; reflexivity].
Qed.

Lemma tname_eqb_refl x : tname_eqb x x = true.
Proof. apply tname_eqb_eq. reflexivity. Qed.

Section AssocLemmas.
  Context {K V : Type} (eqb : K -> K -> bool) (eqb_eq : forall a b, eqb a b = true <-> a = b).

  Lemma aget_in k v (l : list (K * V)) : aget eqb k l = Some v -> In (k, v) l.
  Proof.
    induction l as [|[k' v'] r IH]; simpl; [discriminate|].
    destruct (eqb k k') eqn:E.
    - intros [= ->]. apply eqb_eq in E. subst. now left.
    - intros H. right. auto.
  Qed.

  Lemma aget_forall (P : V -> Prop) k v (l : list (K * V)) :
    Forall (fun e => P (snd e)) l -> aget eqb k l = Some v -> P v.
  Proof.
    intros HF HG. apply aget_in in HG. rewrite Forall_forall in HF. apply (HF (k, v) HG).
  Qed.

  Lemma aset_forall (P : V -> Prop) k v (l : list (K * V)) :
    Forall (fun e => P (snd e)) l -> P v -> Forall (fun e => P (snd e)) (aset eqb k v l).
  Proof.
    intros HF HP. induction l as [|[k' v'] r IH]; simpl.
    - constructor; auto.
    - inversion HF; subst. destruct (eqb k k'); constructor; auto.
  Qed.

  Lemma adel_forall (P : K * V -> Prop) k (l : list (K * V)) :
    Forall P l -> Forall P (adel eqb k l).
  Proof.
    induction 1 as [|[k' v'] r H HF IH]; simpl; [constructor|].
    destruct (eqb k k'); auto.
  Qed.

  Lemma aget_aset_same k v (l : list (K * V)) : aget eqb k (aset eqb k v l) = Some v.
  Proof.
    assert (R : eqb k k = true) by (apply eqb_eq; reflexivity).
    induction l as [|[k' v'] r IH]; simpl; [now rewrite R|].
    destruct (eqb k k') eqn:E; simpl; [now rewrite R | now rewrite E].
  Qed.

  Lemma aget_aset_other k k' v (l : list (K * V)) : eqb k' k = false -> aget eqb k' (aset eqb k v l) = aget eqb k' l.
  Proof.
    intros NE. induction l as [|[k2 v2] r IH]; simpl; [now rewrite NE|].
    destruct (eqb k k2) eqn:E; simpl.
    - apply eqb_eq in E. subst k2. now rewrite NE.
    - destruct (eqb k' k2); auto.
  Qed.
End AssocLemmas.

Lemma Neqb_eq a b : N.eqb a b = true <-> a = b.
Proof. apply N.eqb_eq. Qed.

(* ------------------------------------------------------------------ c10_no_leak: the filters *)

Definition exempt (w : what) : bool := what_eqb w WAcs || what_eqb w WGone.

(* passesPresenceFilters lets a non-exempt notification through only with P *)
Lemma passes_filters_presencer mode w f :
  passes_presence_filters mode w f = true -> exempt w = false -> is_presencer mode = true.
Proof.
  unfold passes_presence_filters, exempt. intros H E.
  apply andb_true_iff in H as [H _]. apply andb_true_iff in H as [H _].
  apply orb_false_iff in E as [E1 E2]. rewrite E1, E2 in H.
  now rewrite !orb_false_r in H.
Qed.

(* presOfflineFilter: exemptions are exactly acs, gone, and upd for joiners *)
Lemma offline_filter_presencer mode w pf :
  pres_offline_filter mode w pf = true -> exempt w = false ->
  is_presencer mode = true \/ (w = WUpd /\ is_joiner mode = true).
Proof.
  unfold pres_offline_filter, exempt. intros H E.
  destruct w; simpl in *; try discriminate;
    try (apply andb_true_iff in H as [H _]; now left).
  apply orb_true_iff in H as [H | H]; [right; split; auto | left].
  apply andb_true_iff in H. tauto.
Qed.

(* what the session of a frame is entitled to, in the state `s` in which the delivering topic runs its handler *)
Definition entitled (s : state) (o : out) : Prop :=
  match o with
  | Frame sid user top src w =>
    match top with
    | TMe u => user = u /\ exists m, get_me s u = Some m /\ In sid (me_sess m)
    | t => exists x, get_top s t = Some x /\ In (sid, user) (t_sess x) /\
                     (is_info w = false -> exempt w = false -> is_presencer (p_mode (get_pud x user)) = true)
    end
  | _ => True
  end.

(* a frame which a p2p/group topic makes from a {note} of one of its own sessions: an {info} for an attached
   session of a user whose mode has R *)
Definition entitled_note (s : state) (o : out) : Prop :=
  match o with
  | Frame sid user top src w =>
    is_info w = true /\
    match top with
    | TMe _ => False
    | t => exists x, get_top s t = Some x /\ In (sid, user) (t_sess x) /\ is_reader (p_mode (get_pud x user)) = true
    end
  | _ => True
  end.

Definition no_frames (l : list out) : Prop :=
  Forall (fun o => match o with Frame _ _ _ _ _ => False | _ => True end) l.

Lemma no_frames_entitled s l : no_frames l -> Forall (entitled s) l.
Proof.
  unfold no_frames. rewrite !Forall_forall. intros H o Ho. specialize (H o Ho). destruct o; simpl; auto. contradiction.
Qed.

Lemma bcast_top_entitled s0 s t x g w :
  (match t with TMe _ => False | _ => True end) ->
  get_top s t = Some x -> Forall (entitled s) (bcast_top s0 t x g w).
Proof.
  intros Ht Hx. unfold bcast_top. rewrite Forall_forall. intros o Ho.
  apply in_flat_map in Ho as [[sid uid] [Hin Ho]].
  repeat match type of Ho with
         | In _ (if ?c then _ else _) => destruct c eqn:?; [contradiction|]
         end.
  destruct Ho as [<- | []]. simpl.
  match goal with H : negb (passes_presence_filters _ _ _) = false |- _ => apply negb_false_iff in H; rename H into HP end.
  destruct t; try contradiction; (exists x; split; [auto|split; [auto|]]);
    intros _ E; eapply passes_filters_presencer; eauto.
Qed.

Lemma bcast_top_info_routed_entitled s0 s t x g :
  (match t with TMe _ => False | _ => True end) -> is_info (m_what g) = true ->
  get_top s t = Some x -> Forall (entitled s) (bcast_top_info_routed s0 t x g).
Proof.
  intros Ht Hi Hx. unfold bcast_top_info_routed. rewrite Forall_forall. intros o Ho.
  apply in_flat_map in Ho as [[sid uid] [Hin Ho]].
  repeat match type of Ho with
         | In _ (if ?c then _ else _) => destruct c eqn:?; [contradiction|]
         end.
  destruct Ho as [<- | []]. simpl.
  destruct t; try contradiction; (exists x; split; [auto|split; [auto|]]); intros E; rewrite Hi in E; discriminate.
Qed.

Lemma bcast_me_info_entitled s0 s u m g :
  get_me s u = Some m -> Forall (entitled s) (bcast_me_info s0 u m g).
Proof.
  intros Hm. unfold bcast_me_info. rewrite Forall_forall. intros o Ho.
  apply in_flat_map in Ho as [sid [Hin Ho]].
  repeat match type of Ho with
         | In _ (if ?c then _ else _) => destruct c eqn:?; [contradiction|]
         end.
  destruct Ho as [<- | []]. simpl. split; auto. exists m. split; auto.
Qed.

Lemma bcast_me_entitled s0 s u m m0 g w :
  get_me s u = Some m0 -> me_sess m0 = me_sess m -> Forall (entitled s) (bcast_me s0 u m g w).
Proof.
  intros Hm Hs. unfold bcast_me. rewrite Forall_forall. intros o Ho.
  apply in_flat_map in Ho as [sid [Hin Ho]].
  repeat match type of Ho with
         | In _ (if ?c then _ else _) => destruct c eqn:?; [contradiction|]
         end.
  destruct Ho as [<- | []]. simpl. split; auto. exists m0. split; auto. now rewrite Hs.
Qed.

Lemma get_top_set_net f s t : get_top (set_net f s) t = get_top s t.
Proof. reflexivity. Qed.
Lemma get_me_set_net f s u : get_me (set_net f s) u = get_me s u.
Proof. reflexivity. Qed.

Lemma deliver_entitled s g : Forall (entitled s) (snd (deliver_msg s g)).
Proof.
  unfold deliver_msg. destruct (m_dst g) eqn:D.
  - destruct (get_me s u) eqn:M; simpl; [|constructor].
    destruct (is_info (m_what g)) eqn:II; [simpl; eapply bcast_me_info_entitled; eauto|simpl].
    repeat match goal with
           | |- Forall _ (match ?x with _ => _ end) => destruct x eqn:?
           | |- Forall _ (if ?x then _ else _) => destruct x eqn:?
           end; try constructor.
    all: eapply bcast_me_entitled; eauto.
  - destruct (get_top s (TP2P a b)) eqn:X; simpl; [|constructor].
    destruct (t_loaded t); simpl; [|constructor].
    destruct (is_info (m_what g)) eqn:II; [simpl; eapply bcast_top_info_routed_entitled; eauto; exact I|simpl].
    repeat match goal with
           | |- Forall _ (match ?x with _ => _ end) => destruct x eqn:?
           | |- Forall _ (if ?x then _ else _) => destruct x eqn:?
           end; try constructor.
    all: eapply bcast_top_entitled; eauto; exact I.
  - destruct (get_top s (TGrp g0)) eqn:X; simpl; [|constructor].
    destruct (t_loaded t); simpl; [|constructor].
    destruct (is_info (m_what g)) eqn:II; [simpl; eapply bcast_top_info_routed_entitled; eauto; exact I|simpl].
    repeat match goal with
           | |- Forall _ (match ?x with _ => _ end) => destruct x eqn:?
           | |- Forall _ (if ?x then _ else _) => destruct x eqn:?
           end; try constructor.
    all: eapply bcast_top_entitled; eauto; exact I.
Qed.

(* only Deliver hands frames to sessions *)
Ltac nf :=
  repeat (match goal with
          | |- no_frames (snd (match ?x with _ => _ end)) => destruct x eqn:?
          | |- no_frames (snd (if ?x then _ else _)) => destruct x eqn:?
          end); simpl; unfold no_frames; repeat constructor.

Lemma nf_att_me s sid u b : no_frames (snd (att_me s sid u b)).
Proof. unfold att_me. nf. Qed.
Lemma nf_att_p2p s sid u v b : no_frames (snd (att_p2p s sid u v b)).
Proof. unfold att_p2p. nf. Qed.
Lemma nf_att_grp s sid u g b : no_frames (snd (att_grp s sid u g b)).
Proof. unfold att_grp. nf. Qed.
Lemma nf_want rep s sid u t m : no_frames (snd (want_op_gen rep s sid u t m)).
Proof. unfold want_op_gen. nf. Qed.
Lemma nf_given rep s sid u t v m : no_frames (snd (given_op_gen rep s sid u t v m)).
Proof. unfold given_op_gen. nf. Qed.
Lemma nf_evict s sid u t v : no_frames (snd (evict_op s sid u t v)).
Proof. unfold evict_op. nf. Qed.
Lemma nf_unsub s sid u t : no_frames (snd (unsub_op s sid u t)).
Proof. unfold unsub_op. nf. Qed.
Lemma nf_pub s sid u t : no_frames (snd (pub_op s sid u t)).
Proof. unfold pub_op. nf. Qed.
Lemma nf_delmsg s sid u t h : no_frames (snd (delmsg_op s sid u t h)).
Proof. unfold delmsg_op. nf. Qed.

Lemma p_mode_set_marks a b c d p : p_mode (p_set_marks a b c d p) = p_mode p.
Proof. reflexivity. Qed.

(* the frames of a {note}: attached sessions of readers, evaluated in the state right after the note *)
Lemma note_entitled s sid u t w seq :
  (match t with TMe _ => False | _ => True end) ->
  Forall (entitled_note (fst (note_op s sid u t w seq))) (snd (note_op s sid u t w seq)).
Proof.
  intros Ht. unfold note_op.
  repeat match goal with
         | |- Forall _ (snd (if ?c then _ else _)) => destruct c eqn:?; [simpl; repeat constructor|]
         end.
  destruct (get_top s t) as [x|] eqn:G; [|repeat constructor].
  repeat match goal with
         | |- Forall _ (snd (if ?c then _ else _)) => destruct c eqn:?; [simpl; repeat constructor|]
         | |- Forall (entitled_note (fst (if ?c then _ else _))) _ => destruct c eqn:?; [simpl; repeat constructor|]
         end.
  cbn [fst snd].
  match goal with |- Forall _ (bcast_top_info t ?y u sid w) => set (x1 := y) end.
  assert (G1 : forall ms, get_top (send ms (put_top t x1 s)) t = Some x1).
  { intros ms. unfold get_top, send, put_top. simpl. apply (aget_aset_same tname_eqb tname_eqb_eq). }
  assert (Hw : is_info w = true).
  { destruct w; try reflexivity; discriminate. }
  unfold bcast_top_info. rewrite Forall_forall. intros o Ho.
  apply in_flat_map in Ho as [[sid' uid] [Hin Ho]].
  repeat match type of Ho with
         | In _ (if ?c then _ else _) => destruct c eqn:?; [contradiction|]
         end.
  destruct Ho as [<- | []]. simpl. split; [exact Hw|].
  match goal with H : negb (is_reader _) = false |- _ => apply negb_false_iff in H; rename H into HR end.
  assert (Hs : In (sid', uid) (t_sess x1)) by exact Hin.
  destruct t; try contradiction; (exists x1; split; [apply G1|split; [exact Hs|exact HR]]).
Qed.

Lemma resolve_not_me u r : r <> RMe -> match resolve u r with TMe _ => False | _ => True end.
Proof. destruct r; simpl; try congruence; intros _; [unfold p2p_name; destruct (u <? v)|]; exact I. Qed.

Lemma step_entitled_gen rep s o :
  match o with
  | Deliver i => match take_nth i [] (s_net s) with
                 | Some (g, rest) => Forall (entitled (set_net (fun _ => rest) s)) (snd (step_gen rep s o))
                 | None => no_frames (snd (step_gen rep s o)) end
  | Note _ _ _ _ _ => Forall (entitled_note (fst (step_gen rep s o))) (snd (step_gen rep s o))
  | _ => no_frames (snd (step_gen rep s o))
  end.
Proof.
  destruct o; simpl.
  - nf.
  - destruct (open_sess s sid u bkg) as [[s1 b]|]; [|nf]. destruct r; [apply nf_att_me|apply nf_att_p2p|apply nf_att_grp].
  - nf.
  - destruct (sess_user s sid); [apply nf_unsub|nf].
  - nf.
  - nf.
  - destruct (sess_user s sid); [|nf]. destruct r; [nf|apply nf_want|apply nf_want].
  - destruct (sess_user s sid); [|nf]. destruct r; [nf| |]; (destruct (n =? v); [apply nf_want|apply nf_given]).
  - destruct (sess_user s sid); [|nf]. destruct r; [nf|apply nf_evict|apply nf_evict].
  - destruct (sess_user s sid); [|nf]. destruct r; [nf|apply nf_pub|apply nf_pub].
  - match goal with |- Forall _ (snd (if ?c then _ else _)) => destruct c; [simpl; repeat constructor|] end.
    destruct r; [simpl; repeat constructor| |]; apply note_entitled; apply resolve_not_me; discriminate.
  - destruct (sess_user s sid); [|nf]. destruct r; [nf|apply nf_delmsg|apply nf_delmsg].
  - nf.
  - nf.
  - nf.
  - destruct (take_nth i [] (s_net s)) as [[g rest]|]; [apply deliver_entitled|nf].
Qed.

(* the notifications a p2p/group topic addresses to its subscribers' 'me' topics are filtered at the source *)
Lemma pres_subs_offline_addressed z t x w c fsrc ftgt sk oo g :
  In g (pres_subs_offline z t x w c fsrc ftgt sk oo) ->
  exists uid p, m_dst g = TMe uid /\ In (uid, p) (t_users x) /\ p_deleted p = false /\ m_what g = w /\
    (exempt w = false -> is_presencer (p_mode p) = true \/ (w = WUpd /\ is_joiner (p_mode p) = true)).
Proof.
  unfold pres_subs_offline. intros H. apply in_flat_map in H as [[uid p] [Hin H]].
  destruct (p_deleted p) eqn:D; simpl in H; [contradiction|].
  destruct (pres_offline_filter (p_mode p) w (Some fsrc)) eqn:F; simpl in H; [|contradiction].
  destruct H as [<- | []]. exists uid, p. simpl. repeat split; auto.
  intros E. eapply offline_filter_presencer; eauto.
Qed.

Lemma pres_single_offline_addressed t uid mode w c sk oo g :
  In g (pres_single_offline t uid mode w c sk oo) ->
  exists m, mode = Some m /\ m_dst g = TMe uid /\ m_what g = w /\
    (exempt w = false -> is_presencer m = true \/ (w = WUpd /\ is_joiner m = true)).
Proof.
  unfold pres_single_offline. destruct mode as [m|]; [|intros []].
  destruct (pres_offline_filter m w None) eqn:F; [|intros []].
  intros [<- | []]. exists m. simpl. repeat split; auto. intros E. eapply offline_filter_presencer; eauto.
Qed.

(* on a 'me' topic an on/off of a contact reaches the sessions only through an enabled entry
   ("on+rem", which no code path emits, is the one combination that bypasses the flag) *)
Lemma proc_me_gate self subs from w c wr w' :
  r_what (proc_pres_req true self subs from w c wr) = Some w' ->
  (w = WOn \/ w = WOff) ->
  match aget tname_eqb from subs with
  | Some p => ps_en p = true \/ c = CEn \/ (c = CRem /\ w = WOn)
  | None => c = CEn
  end.
Proof.
  intros H Hw. unfold proc_pres_req in H.
  destruct Hw as [-> | ->]; simpl in H;
    destruct (aget tname_eqb from subs) as [p|] eqn:G; destruct c; simpl in H; auto; try discriminate;
    try (destruct (ps_en p) eqn:E; simpl in H; auto; try discriminate);
    repeat match type of H with context[if ?x then _ else _] => destruct x; simpl in H end; try discriminate; auto.
Qed.

(* ------------------------------------------------------------------ statements *)

Definition fg_count_me (s : state) (m : metop) : Z :=
  Z.of_nat (length (filter (fun sid => negb (sess_bkg s sid)) (me_sess m))).
Definition fg_count_top (s : state) (x : topic) (u : N) : Z :=
  Z.of_nat (length (filter (fun e => (snd e =? u) && negb (sess_bkg s (fst e))) (t_sess x))).

(* online(u, t) = number of attached foreground sessions of u in t (hence >= 0), in 'me', p2p and group topics *)
Definition online_ok (s : state) : Prop :=
  (forall u m, get_me s u = Some m -> me_online m = fg_count_me s m) /\
  (forall t x u, get_top s t = Some x -> p_online (get_pud x u) = fg_count_top s x u).

Definition c10_online_count_statement : Prop := forall s, reach s -> online_ok s.

(* histories without background sessions *)
Definition op_fg (o : op) : Prop :=
  match o with New _ _ _ b => b = false | Att _ _ _ b => b = false | _ => True end.
Definition fg_only (h : list op) : Prop := Forall op_fg h.

(* attached sessions belong to current (non-deleted) subscribers *)
Definition members_ok (s : state) : Prop :=
  forall t x sid uid, get_top s t = Some x -> In (sid, uid) (t_sess x) -> cached x uid = true.

(* quiescence: nothing in flight, no pending fan-out, every idle topic unloaded *)
Definition quiescent (s : state) : Prop :=
  s_net s = [] /\ s_zomb s = [] /\ forall t, idle s t = false.

Definition has_P (s : state) (t : tname) (u : N) : Prop :=
  exists x p, get_top s t = Some x /\ aget N.eqb u (t_users x) = Some p /\ p_deleted p = false /\
              is_presencer (p_mode p) = true.
Definition told_on (m : metop) (c : tname) : bool :=
  match aget tname_eqb c (me_subs m) with Some p => ps_on p | None => false end.
Definition me_fg (s : state) (u : N) : Prop :=
  exists m sid, get_me s u = Some m /\ In sid (me_sess m) /\ sess_bkg s sid = false.
Definition grp_attached (s : state) (g : N) : Prop :=
  exists x e, get_top s (TGrp g) = Some x /\ t_loaded x = true /\ In e (t_sess x).

Definition converged (s : state) : Prop :=
  (forall u v m, u <> v -> has_P s (p2p_name u v) u -> has_P s (p2p_name u v) v -> get_me s v = Some m ->
                 (told_on m (TMe u) = true <-> me_fg s u)) /\
  (forall g u m, has_P s (TGrp g) u -> get_me s u = Some m ->
                 (told_on m (TGrp g) = true <-> grp_attached s g)).

Definition reach_gen (rep : bool) (s : state) : Prop := exists h, s = fst (run_gen rep init h).
Definition converges_statement_gen (rep : bool) : Prop := forall s, reach_gen rep s -> quiescent s -> converged s.
Definition c10_converges_statement : Prop := forall s, reach s -> quiescent s -> converged s.
(* the same statement about the code BEFORE the repair findings/C10_p2p_unmute.diff *)
Definition c10_converges_statement_unrepaired : Prop := converges_statement_gen false.

(* executable quiescence test *)
Definition quiescent_b (s : state) : bool :=
  match s_net s, s_zomb s with
  | [], [] => forallb (fun t => negb (idle s t)) (map (fun e => TMe (fst e)) (s_me s) ++ map fst (s_top s))
  | _, _ => false
  end.

Lemma quiescent_b_sound s : quiescent_b s = true -> quiescent s.
Proof.
  unfold quiescent_b, quiescent. destruct (s_net s); [|discriminate]. destruct (s_zomb s); [|discriminate].
  intros H. repeat split. intros t. destruct (idle s t) eqn:I; [|reflexivity]. exfalso.
  rewrite forallb_forall in H.
  assert (Hin : In t (map (fun e => TMe (fst e)) (s_me s) ++ map fst (s_top s))).
  { apply in_or_app. unfold idle in I. destruct t.
    - left. unfold get_me in I. destruct (aget N.eqb u (s_me s)) eqn:G; [|discriminate].
      apply (aget_in N.eqb Neqb_eq) in G. apply in_map_iff. exists (u, m). auto.
    - right. unfold get_top in I. destruct (aget tname_eqb (TP2P a b) (s_top s)) eqn:G; [|discriminate].
      apply (aget_in tname_eqb tname_eqb_eq) in G. apply in_map_iff. exists (TP2P a b, t). auto.
    - right. unfold get_top in I. destruct (aget tname_eqb (TGrp g) (s_top s)) eqn:G; [|discriminate].
      apply (aget_in tname_eqb tname_eqb_eq) in G. apply in_map_iff. exists (TGrp g, t). auto. }
  specialize (H t Hin). rewrite I in H. discriminate.
Qed.

(* ------------------------------------------------------------------ refutations (concrete histories) *)

Definition D := Deliver 0.

(* FINDING p2p-unmute: user 1 mutes the p2p topic with user 2 and un-mutes it again; both sides hold P,
   user 2 is online, yet user 1's contact entry for user 2 stays disabled/offline. *)
Definition h_unmute : list op :=
  [Att 1 1 RMe false; Att 2 2 RMe false; Att 1 1 (RP2P 2) false; D; D; D; D;
   Want 1 (RP2P 2) 23; D; Want 1 (RP2P 2) 31].

(* FINDING unload race: the "off" fan-out of an unregistered 'me' instance (handleTopicTimeout after line 495)
   overtakes the "on" of the re-created 'me' topic of the same user. *)
Definition h_race : list op :=
  [Att 1 1 RMe false; Att 2 2 RMe false; Att 1 1 (RP2P 2) false; D; D; D; D;
   Det 2 RMe; UnloadHub (TMe 2); Att 2 2 RMe false; D; D; UnloadOff (TMe 2); D].

(* FINDING background disconnect: cleanUp clears Session.background before unsubAll, so the leave of a
   background session decrements a counter it never incremented. *)
Definition h_bkg : list op := [Att 1 1 RMe false; Att 2 1 RMe true; Disc 2].

Lemma has_P_intro s t u x p :
  get_top s t = Some x -> aget N.eqb u (t_users x) = Some p -> p_deleted p = false ->
  is_presencer (p_mode p) = true -> has_P s t u.
Proof. intros. exists x, p. auto. Qed.

Lemma converges_refuted_by (rep : bool) (h : list op) (u v : N) :
  quiescent_b (fst (run_gen rep init h)) = true ->
  u <> v ->
  (exists x p q m sid,
      get_top (fst (run_gen rep init h)) (p2p_name u v) = Some x /\
      aget N.eqb u (t_users x) = Some p /\ p_deleted p = false /\ is_presencer (p_mode p) = true /\
      aget N.eqb v (t_users x) = Some q /\ p_deleted q = false /\ is_presencer (p_mode q) = true /\
      get_me (fst (run_gen rep init h)) v = Some m /\ told_on m (TMe u) = false /\
      (exists mu, get_me (fst (run_gen rep init h)) u = Some mu /\ In sid (me_sess mu)) /\
      sess_bkg (fst (run_gen rep init h)) sid = false) ->
  ~ converges_statement_gen rep.
Proof.
  intros Q NE (x & p & q & m & sid & Hx & Hp & Dp & Pp & Hq & Dq & Pq & Hm & Told & (mu & Hmu & Hin) & Hb) ST.
  destruct (ST (fst (run_gen rep init h))) as [C _].
  - exists h. reflexivity.
  - now apply quiescent_b_sound.
  - specialize (C u v m NE (has_P_intro _ _ _ _ _ Hx Hp Dp Pp) (has_P_intro _ _ _ _ _ Hx Hq Dq Pq) Hm).
    destruct C as [_ C]. rewrite Told in C. assert (F : false = true) by (apply C; exists mu, sid; auto). discriminate.
Qed.

(* before the repair: mute + un-mute of a p2p subscription leaves the contact disabled *)
Lemma converges_p2p_unmute_unrepaired_refuted : ~ c10_converges_statement_unrepaired.
Proof.
  apply (converges_refuted_by false h_unmute 2 1); [vm_compute; reflexivity | discriminate |].
  vm_compute. do 5 eexists. repeat split; try reflexivity.
  - eexists. split; [reflexivity|]. left. reflexivity.
  - reflexivity.
Qed.

(* with the repair the same history (plus the deliveries of the new handshake) ends converged:
   user 1's entry for user 2 is enabled and online again *)
Lemma p2p_unmute_repaired :
  quiescent_b (fst (run init (h_unmute ++ [D; D; D]))) = true /\
  exists m, get_me (fst (run init (h_unmute ++ [D; D; D]))) 1 = Some m /\
            aget tname_eqb (TMe 2) (me_subs m) = Some (mkPsd true true).
Proof. split; [vm_compute; reflexivity|]. vm_compute. eexists. split; reflexivity. Qed.

Lemma converges_refuted_race : ~ c10_converges_statement.
Proof.
  apply (converges_refuted_by true h_race 2 1); [vm_compute; reflexivity | discriminate |].
  vm_compute. do 5 eexists. repeat split; try reflexivity.
  - eexists. split; [reflexivity|]. left. reflexivity.
  - reflexivity.
Qed.

Lemma online_count_refuted : ~ c10_online_count_statement.
Proof.
  intros ST. destruct (ST (fst (run init h_bkg))) as [M _]; [exists h_bkg; reflexivity|].
  specialize (M 1 (mkMe true 0 [1] [])). vm_compute in M. discriminate M. reflexivity.
Qed.

(* FINDING banned-but-notified: an admin removes J (ban) but leaves P in `given`: the user is evicted from the
   topic, yet "msg"/"on"/"off" notifications keep flowing to the user's 'me' sessions: presOfflineFilter looks
   at P only. *)
Definition h_banned : list op :=
  [Att 1 1 RMe false; Att 2 2 RMe false; New 1 1 1 false; D; D; Given 1 (RGrp 1) 2 47; D; D; D; D;
   Given 1 (RGrp 1) 2 46; D; D; Pub 1 (RGrp 1); D; D].

Lemma banned_still_notified :
  In (Frame 2 2 (TMe 2) (TGrp 1) WMsg) (snd (run init h_banned)) /\
  exists x p, get_top (fst (run init h_banned)) (TGrp 1) = Some x /\ aget N.eqb 2 (t_users x) = Some p /\
              p_deleted p = false /\ is_joiner (p_given p) = false /\ s_net (fst (run init h_banned)) = [].
Proof.
  split.
  - vm_compute. repeat (first [left; reflexivity | right]).
  - vm_compute. do 2 eexists. repeat split; reflexivity.
Qed.

(* the statement for all histories: a frame is entitled in the state in which its topic handled the notification *)
Definition entitled_at (s : state) (o : op) (f : out) : Prop :=
  match o with
  | Deliver i => match take_nth i [] (s_net s) with
                 | Some (g, rest) => entitled (set_net (fun _ => rest) s) f
                 | None => match f with Frame _ _ _ _ _ => False | _ => True end
                 end
  | Note _ _ _ _ _ => entitled_note (fst (step s o)) f
  | _ => match f with Frame _ _ _ _ _ => False | _ => True end
  end.

Lemma no_leak_all s o : Forall (entitled_at s o) (snd (step s o)).
Proof.
  pose proof (step_entitled_gen true s o) as H. unfold entitled_at.
  destruct o; try exact H.
  destruct (take_nth i [] (s_net s)) as [[g rest]|]; exact H.
Qed.

(* ------------------------------------------------------------------ attached sessions belong to current subscribers *)

Definition mem_ok (x : topic) : Prop := forall e, In e (t_sess x) -> cached x (snd e) = true.
Definition tops_ok (s : state) : Prop := Forall (fun e => mem_ok (snd e)) (s_top s).

Lemma cached_set_pud u p x u' :
  cached (set_pud u p x) u' = if u' =? u then negb (p_deleted p) else cached x u'.
Proof.
  unfold cached, set_pud. simpl. destruct (u' =? u) eqn:E.
  - apply N.eqb_eq in E. subst. now rewrite (aget_aset_same N.eqb Neqb_eq).
  - now rewrite (aget_aset_other N.eqb Neqb_eq) by exact E.
Qed.

Lemma mem_set_pud u p x : mem_ok x -> (cached x u = true -> p_deleted p = false) -> mem_ok (set_pud u p x).
Proof.
  intros H Hp e He. rewrite cached_set_pud. specialize (H e He).
  destruct (snd e =? u) eqn:E; auto. apply N.eqb_eq in E. rewrite E in H. rewrite (Hp H). reflexivity.
Qed.

Lemma mem_set_tsess l x : mem_ok x -> (forall e, In e l -> In e (t_sess x)) -> mem_ok (set_tsess l x).
Proof. intros H Hl e He. apply (H e). apply Hl. exact He. Qed.

Lemma mem_attach sid u x : mem_ok x -> cached x u = true -> mem_ok (set_tsess (t_sess x ++ [(sid, u)]) x).
Proof.
  intros H Hc e He. simpl in He. apply in_app_or in He as [He | [<- | []]]; [apply (H e He) | exact Hc].
Qed.

Lemma mem_set_tmarked b x : mem_ok x -> mem_ok (set_tmarked b x).
Proof. intros H e He. apply (H e He). Qed.

Lemma adel_subset {V} k (l : list (N * V)) e : In e (adel N.eqb k l) -> In e l.
Proof.
  induction l as [|[k' v'] r IH]; simpl; auto. destruct (k =? k'); simpl; intros H; auto. destruct H; auto.
Qed.

Lemma mem_evict x uid unsub : mem_ok x -> mem_ok (fst (evict_user x uid unsub)).
Proof.
  intros H. unfold evict_user. destruct (cached x uid) eqn:C; simpl; intros e He; simpl in He;
    apply filter_In in He as [He Hne]; apply negb_true_iff in Hne.
  - change (cached (set_pud uid (p_set_deleted 0 unsub (get_pud x uid)) x) (snd e) = true).
    rewrite cached_set_pud, Hne. apply (H e He).
  - apply (H e He).
Qed.

Lemma mem_unload x : mem_ok (unload_top x).
Proof. intros e []. Qed.
Lemma mem_load x : mem_ok (load_top x).
Proof. intros e []. Qed.

Lemma tops_get s t x : tops_ok s -> get_top s t = Some x -> mem_ok x.
Proof. intros H G. exact (aget_forall tname_eqb tname_eqb_eq mem_ok t x _ H G). Qed.

Lemma tops_put s t x : tops_ok s -> mem_ok x -> tops_ok (put_top t x s).
Proof. intros H Hx. unfold tops_ok, put_top. simpl. now apply aset_forall. Qed.

Lemma sub_notif_grp_mem t x u sid : mem_ok x -> mem_ok (fst (sub_notif_grp t x u sid)).
Proof.
  intros H. unfold sub_notif_grp. destruct (negb (t_marked x)); simpl; [now apply mem_set_tmarked|].
  destruct (p_online (get_pud x u) =? 1)%Z; exact H.
Qed.

Lemma cached_get_pud_deleted x u : cached x u = true -> p_deleted (get_pud x u) = false.
Proof.
  unfold cached, get_pud. destruct (aget N.eqb u (t_users x)); [|discriminate]. now intros ->%negb_true_iff.
Qed.

Lemma tops_send ms s : tops_ok s -> tops_ok (send ms s).
Proof. intros H; exact H. Qed.

Lemma notif_pair (b : bool) t x1 u sid x2 (ms : list msg) :
  (if b then (x1, []) else sub_notif_grp t x1 u sid) = (x2, ms) -> mem_ok x1 -> mem_ok x2.
Proof.
  destruct b; intros E H.
  - now inversion E; subst.
  - replace x2 with (fst (sub_notif_grp t x1 u sid)) by now rewrite E. now apply sub_notif_grp_mem.
Qed.

Ltac brk :=
  repeat match goal with
         | |- tops_ok (fst (match ?x with _ => _ end)) => destruct x eqn:?
         | |- tops_ok (fst (if ?x then _ else _)) => destruct x eqn:?
         end; simpl.

Lemma mem_loaded_or x0 : mem_ok x0 -> mem_ok (if t_loaded x0 then x0 else load_top x0).
Proof. intros H. destruct (t_loaded x0); [exact H | apply mem_load]. Qed.

Lemma mem_attach_set sid u p x :
  mem_ok x -> p_deleted p = false -> mem_ok (set_pud u p (set_tsess (t_sess x ++ [(sid, u)]) x)).
Proof.
  intros H Hp e He. simpl in He.
  change (cached (set_pud u p x) (snd e) = true). rewrite cached_set_pud, Hp. simpl.
  apply in_app_or in He as [He | [<- | []]].
  - destruct (snd e =? u); auto.
  - simpl. now rewrite N.eqb_refl.
Qed.

Lemma tops_att_grp s sid u g b : tops_ok s -> tops_ok (fst (att_grp s sid u g b)).
Proof.
  intros H. unfold att_grp. destruct (get_top s (TGrp g)) as [x0|] eqn:G; [|exact H].
  pose proof (mem_loaded_or x0 (tops_get _ _ _ H G)) as Hx.
  set (x := if t_loaded x0 then x0 else load_top x0) in *. clearbody x.
  brk; auto; try (apply tops_send); apply tops_put; auto;
    (eapply notif_pair; [eassumption|]); apply mem_attach_set; auto.
  simpl. now apply cached_get_pud_deleted.
Qed.

Lemma tops_att_p2p s sid u v b : tops_ok s -> tops_ok (fst (att_p2p s sid u v b)).
Proof.
  intros H. unfold att_p2p. destruct (u =? v); [exact H|].
  destruct (get_top s (p2p_name u v)) as [x0|] eqn:G.
  - pose proof (mem_loaded_or x0 (tops_get _ _ _ H G)) as Hx.
    set (x := if t_loaded x0 then x0 else load_top x0) in *. clearbody x.
    brk; auto; try apply tops_send; apply tops_put; auto; apply mem_attach_set; auto.
    simpl. apply cached_get_pud_deleted. now apply negb_false_iff.
  - simpl. apply tops_send, tops_put; auto. intros e [<- | []]. simpl. unfold cached. simpl. now rewrite N.eqb_refl.
Qed.

Lemma tops_att_me s sid u b : tops_ok s -> tops_ok (fst (att_me s sid u b)).
Proof.
  intros H. unfold att_me.
  repeat match goal with
         | |- tops_ok (fst (match ?x with _ => _ end)) => destruct x eqn:?
         | |- tops_ok (fst (if ?x then _ else _)) => destruct x eqn:?
         end; simpl; exact H.
Qed.

Lemma mem_modes x u w g : mem_ok x -> mem_ok (set_pud u (p_set_modes w g (get_pud x u)) x).
Proof. intros H. apply mem_set_pud; auto. simpl. apply cached_get_pud_deleted. Qed.

Lemma tops_want rep s sid u t m : tops_ok s -> tops_ok (fst (want_op_gen rep s sid u t m)).
Proof.
  intros H. unfold want_op_gen. destruct (get_top s t) as [x|] eqn:G; [|exact H].
  pose proof (tops_get _ _ _ H G) as Hx.
  brk; auto. apply tops_send, tops_put; auto. now apply mem_modes.
Qed.

Lemma mem_if_evict (c : bool) x v : mem_ok x -> mem_ok (if c then x else fst (evict_user x v false)).
Proof. intros H. destruct c; auto. now apply mem_evict. Qed.

Lemma tops_given rep s sid u t v m : tops_ok s -> tops_ok (fst (given_op_gen rep s sid u t v m)).
Proof.
  intros H. unfold given_op_gen. destruct (get_top s t) as [x|] eqn:G; [|exact H].
  pose proof (tops_get _ _ _ H G) as Hx.
  brk; auto; apply tops_send, tops_put; auto; apply mem_if_evict.
  - now apply mem_modes.
  - apply mem_set_pud; auto.
Qed.

Lemma tops_evict s sid u t v : tops_ok s -> tops_ok (fst (evict_op s sid u t v)).
Proof.
  intros H. unfold evict_op. destruct (get_top s t) as [x|] eqn:G; [|exact H].
  pose proof (tops_get _ _ _ H G) as Hx.
  brk; auto. apply tops_send, tops_put; auto. now apply mem_evict.
Qed.

Lemma tops_unsub s sid u t : tops_ok s -> tops_ok (fst (unsub_op s sid u t)).
Proof.
  intros H. unfold unsub_op. destruct (get_top s t) as [x|] eqn:G; [|exact H].
  pose proof (tops_get _ _ _ H G) as Hx.
  brk; auto; apply tops_send;
    first [apply tops_put; auto; now apply mem_evict | unfold tops_ok; simpl; now apply adel_forall].
Qed.

Lemma mem_set_lastid z x : mem_ok x -> mem_ok (set_lastid z x).
Proof. intros H e He. apply (H e He). Qed.

Lemma mem_marks x u a b c d : mem_ok x -> mem_ok (set_pud u (p_set_marks a b c d (get_pud x u)) x).
Proof. intros H. apply mem_set_pud; auto. simpl. apply cached_get_pud_deleted. Qed.

Lemma tops_pub s sid u t : tops_ok s -> tops_ok (fst (pub_op s sid u t)).
Proof.
  intros H. unfold pub_op. destruct (get_top s t) as [x|] eqn:G; [|exact H].
  pose proof (tops_get _ _ _ H G) as Hx.
  brk; auto. apply tops_send, tops_put; auto.
  destruct (found t x u); [|now apply mem_set_lastid].
  apply mem_set_pud; [now apply mem_set_lastid|]. intros C.
  destruct (is_reader _); simpl; apply cached_get_pud_deleted; exact C.
Qed.

Lemma tops_note s sid u t w seq : tops_ok s -> tops_ok (fst (note_op s sid u t w seq)).
Proof.
  intros H. unfold note_op.
  destruct (negb (sess_on s sid t) && negb (what_eqb w WIRecv)); [exact H|].
  match goal with |- tops_ok (fst (if ?c then _ else _)) => destruct c; [exact H|] end.
  destruct (get_top s t) as [x|] eqn:G; [|exact H].
  pose proof (tops_get _ _ _ H G) as Hx.
  brk; auto; apply tops_send, tops_put; auto.
  all: destruct w; auto; apply mem_set_pud; auto; intros C; simpl;
    (destruct (found t x u); [now apply cached_get_pud_deleted | reflexivity]).
Qed.

Lemma tops_delmsg s sid u t h : tops_ok s -> tops_ok (fst (delmsg_op s sid u t h)).
Proof.
  intros H. unfold delmsg_op. destruct (get_top s t) as [x|] eqn:G; [|exact H]. brk; auto.
Qed.

Lemma tops_put_me u m s : tops_ok s -> tops_ok (put_me u m s).
Proof. intros H; exact H. Qed.

Lemma tops_leave s sid u t b : tops_ok s -> tops_ok (leave s sid u t b).
Proof.
  intros H. unfold leave. destruct t.
  - unfold leave_me. destruct (get_me s u); [|exact H]. destruct (negb _); exact H.
  - unfold leave_top. destruct (get_top s (TP2P a b0)) as [x|] eqn:G; [|exact H].
    destruct (aget N.eqb sid (t_sess x)) as [uid|] eqn:A; [|exact H].
    apply tops_send, tops_put; auto. pose proof (tops_get _ _ _ H G) as Hx.
    apply mem_set_pud.
    + apply mem_set_tsess; auto. intros e. apply adel_subset.
    + intros C. simpl. apply cached_get_pud_deleted. exact C.
  - unfold leave_top. destruct (get_top s (TGrp g)) as [x|] eqn:G; [|exact H].
    destruct (aget N.eqb sid (t_sess x)) as [uid|] eqn:A; [|exact H].
    apply tops_send, tops_put; auto. pose proof (tops_get _ _ _ H G) as Hx.
    apply mem_set_pud.
    + apply mem_set_tsess; auto. intros e. apply adel_subset.
    + intros C. simpl. apply cached_get_pud_deleted. exact C.
Qed.

Lemma tops_fold_leave l s sid u : tops_ok s -> tops_ok (fold_left (fun acc t => leave acc sid u t false) l s).
Proof. revert s. induction l; simpl; intros s H; auto. apply IHl. now apply tops_leave. Qed.

Lemma tops_to_fg s sid u t : tops_ok s -> tops_ok (to_fg s sid u t).
Proof.
  intros H. unfold to_fg. destruct t.
  - destruct (get_me s u); [|exact H]. destruct (sub_notif_me _ _ _). exact H.
  - exact H.
  - destruct (get_top s (TGrp g)) as [x|] eqn:G; [|exact H]. destruct (negb (t_supd x)); [exact H|].
    pose proof (tops_get _ _ _ H G) as Hx.
    destruct (sub_notif_grp _ _ _ _) as [x2 ms] eqn:E.
    apply tops_send, tops_put; auto.
    replace x2 with (fst (sub_notif_grp (TGrp g) (set_pud u (p_set_online (p_online (get_pud x u) + 1) (get_pud x u)) x) u sid))
      by now rewrite E.
    apply sub_notif_grp_mem. apply mem_set_pud; auto. simpl. apply cached_get_pud_deleted.
Qed.

Lemma tops_fold_fg l s sid u : tops_ok s -> tops_ok (fold_left (fun acc t => to_fg acc sid u t) l s).
Proof. revert s. induction l; simpl; intros s H; auto. apply IHl. now apply tops_to_fg. Qed.

Lemma tops_set_sess f s : tops_ok s -> tops_ok (set_sess f s).
Proof. intros H; exact H. Qed.

Lemma tops_open s sid u b s1 b1 : tops_ok s -> open_sess s sid u b = Some (s1, b1) -> tops_ok s1.
Proof.
  intros H. unfold open_sess. destruct (get_sess s sid).
  - destruct (negb _); [discriminate|]. destruct (sess_count_me s sid); intros [= <- <-]; exact H.
  - intros [= <- <-]. exact H.
Qed.

Lemma tops_drop s t : tops_ok s -> tops_ok (drop_topic s t).
Proof.
  intros H. unfold drop_topic. destruct t; [exact H| |];
    (destruct (get_top s _) eqn:G; [apply tops_put; auto; apply mem_unload | exact H]).
Qed.

Lemma tops_deliver s g : tops_ok s -> tops_ok (fst (deliver_msg s g)).
Proof.
  intros H. unfold deliver_msg. destruct (m_dst g).
  - destruct (get_me s u); [|exact H]. destruct (is_info _); [exact H|]. simpl. destruct (r_reply _); exact H.
  - destruct (get_top s (TP2P a b)); [|exact H]. destruct (negb (t_loaded t)); [exact H|].
    destruct (is_info _); [exact H|]. simpl. destruct (r_reply _); exact H.
  - destruct (get_top s (TGrp g0)); [|exact H]. destruct (negb (t_loaded t)); [exact H|].
    destruct (is_info _); [exact H|]. simpl. destruct (r_reply _); exact H.
Qed.

Lemma tops_step rep s o : tops_ok s -> tops_ok (fst (step_gen rep s o)).
Proof.
  intros H. destruct o; simpl.
  - destruct (open_sess s sid u bkg) as [[s1 b]|] eqn:O; [|exact H].
    destruct (get_top s (TGrp g)); [exact H|].
    pose proof (tops_open _ _ _ _ _ _ H O) as H1.
    destruct (if b then _ else _) as [x2 ms] eqn:E. simpl.
    apply tops_send, tops_put; auto. eapply notif_pair; [exact E|].
    intros e [<- | []]. simpl. unfold cached. simpl. now rewrite N.eqb_refl.
  - destruct (open_sess s sid u bkg) as [[s1 b]|] eqn:O; [|exact H].
    pose proof (tops_open _ _ _ _ _ _ H O) as H1.
    destruct r; [now apply tops_att_me | now apply tops_att_p2p | now apply tops_att_grp].
  - destruct (sess_user s sid); [|exact H]. destruct (sess_on s sid _); [|exact H]. simpl. now apply tops_leave.
  - destruct (sess_user s sid); [|exact H]. now apply tops_unsub.
  - destruct (sess_user s sid); [|exact H]. simpl. apply tops_set_sess. now apply tops_fold_leave.
  - destruct (get_sess s sid); [|exact H]. destruct (negb _); [exact H|]. simpl. now apply tops_fold_fg.
  - destruct (sess_user s sid); [|exact H]. destruct r; [exact H| |]; now apply tops_want.
  - destruct (sess_user s sid); [|exact H]. destruct r; [exact H| |];
      (destruct (n =? v); [now apply tops_want | now apply tops_given]).
  - destruct (sess_user s sid); [|exact H]. destruct r; [exact H| |]; now apply tops_evict.
  - destruct (sess_user s sid); [|exact H]. destruct r; [exact H| |]; now apply tops_pub.
  - match goal with |- tops_ok (fst (if ?c then _ else _)) => destruct c; [exact H|] end.
    destruct r; [exact H| |]; now apply tops_note.
  - destruct (sess_user s sid); [|exact H]. destruct r; [exact H| |]; now apply tops_delmsg.
  - destruct (idle s t); [|exact H]. simpl. apply tops_send. now apply tops_drop.
  - destruct (idle s t); [|exact H]. simpl. now apply tops_drop.
  - destruct (aget tname_eqb t (s_zomb s)); exact H.
  - destruct (take_nth i [] (s_net s)) as [[g rest]|]; [|exact H]. now apply tops_deliver.
Qed.

Lemma tops_run rep h : forall s, tops_ok s -> tops_ok (fst (run_gen rep s h)).
Proof.
  induction h as [|o r IH]; simpl; intros s H; auto.
  pose proof (tops_step rep s o H) as H1. destruct (step_gen rep s o) as [s1 o1]. simpl in H1.
  specialize (IH s1 H1). destruct (run_gen rep s1 r) as [s2 o2]. exact IH.
Qed.

Lemma members_ok_reach s : reach s -> members_ok s.
Proof.
  intros [h ->]. assert (T : tops_ok (fst (run init h))) by (apply (tops_run true); constructor).
  intros t x sid uid G Hin. exact (tops_get _ _ _ T G (sid, uid) Hin).
Qed.

(* never leaks, on reachable states: the recipient is a current, non-deleted subscriber *)
Lemma no_leak_reach s i g rest sid user top src w :
  reach s -> take_nth i [] (s_net s) = Some (g, rest) ->
  In (Frame sid user top src w) (snd (step s (Deliver i))) ->
  match top with
  | TMe u => user = u
  | t => exists x, get_top s t = Some x /\ In (sid, user) (t_sess x) /\ cached x user = true /\
                   (is_info w = false -> exempt w = false -> is_presencer (p_mode (get_pud x user)) = true)
  end.
Proof.
  intros R T Hin. pose proof (no_leak_all s (Deliver i)) as A. rewrite Forall_forall in A.
  specialize (A _ Hin). unfold entitled_at in A. rewrite T in A. simpl in A.
  pose proof (members_ok_reach s R) as M.
  destruct top.
  - tauto.
  - destruct A as (x & G & I & P). exists x. repeat split; auto. exact (M _ _ _ _ G I).
  - destruct A as (x & G & I & P). exists x. repeat split; auto. exact (M _ _ _ _ G I).
Qed.
