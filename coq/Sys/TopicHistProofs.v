(* C04, layer 2: proofs about what a topic's history shows (Sys/TopicHist.v).
   1. which handlers can touch message rows, deletion-log rows, the delete counter;
   2. the invariant of every reachable state that the refinement needs;
   3. one request of the product model refines one transition of the specification;
   4. lifted to every history;
   5. the answers of {get data} and {get del} in terms of the specification state. *)
From Coq Require Import ZArith NArith List Bool Lia Sorted Permutation.
From Tinode Require Import Base.Util Pure.Acs Sys.Topic Sys.TopicTac Sys.TopicFrame Sys.TopicNum Sys.TopicOut
  Sys.TopicNumThm Sys.TopicMeta Sys.TopicHist.
Import ListNotations.
Open Scope Z_scope.

(* ------------------------------------------------------------------ *)
(* lists                                                                *)

Lemma find_app {A} (p : A -> bool) l1 l2 :
  find p (l1 ++ l2) = match find p l1 with Some x => Some x | None => find p l2 end.
Proof. induction l1 as [|a l1 IH]; cbn; [reflexivity|]. destruct (p a); auto. Qed.

Lemma find_map {A} (p : A -> bool) (g : A -> A) l :
  (forall a, p (g a) = p a) -> find p (map g l) = option_map g (find p l).
Proof. intros H. induction l as [|a l IH]; cbn; [reflexivity|]. rewrite H. destruct (p a); auto. Qed.

Lemma find_none_notin (s : store) x : ~ In x (seqs s) -> find_msg s x = None.
Proof.
  unfold find_msg, seqs. induction (msgs s) as [|m l IH]; cbn; [reflexivity|]. intros H.
  destruct (m_seq m =? x) eqn:E; [exfalso; apply H; left; lia|]. apply IH. intros Hin. apply H. now right.
Qed.

Lemma existsb_filter {A} (p q : A -> bool) l :
  existsb p (filter q l) = existsb (fun a => q a && p a) l.
Proof. induction l as [|a l IH]; cbn; [reflexivity|]. destruct (q a); cbn; rewrite IH; reflexivity. Qed.

Lemma existsb_map {A B} (p : B -> bool) (g : A -> B) l : existsb p (map g l) = existsb (fun a => p (g a)) l.
Proof. induction l as [|a l IH]; cbn; [reflexivity|]. now rewrite IH. Qed.

Lemma existsb_ext_in {A} (p q : A -> bool) l : (forall a, In a l -> p a = q a) -> existsb p l = existsb q l.
Proof. induction l as [|a l IH]; cbn; intros H; [reflexivity|]. rewrite (H a), IH; auto. Qed.

Lemma existsb_false {A} (p : A -> bool) l : (forall a, In a l -> p a = false) -> existsb p l = false.
Proof. induction l as [|a l IH]; cbn; intros H; [reflexivity|]. rewrite (H a), IH; auto. Qed.

Lemma In_aset {A} (k : N) (v : A) l x : In x (aset k v l) -> x = (k, v) \/ In x l.
Proof.
  induction l as [|[k' v'] l IH]; cbn; [intuition|].
  destruct (N.eqb k k'); cbn; intuition.
Qed.
Lemma In_aremove {A} (k : N) (l : list (N * A)) x : In x (aremove k l) -> In x l.
Proof.
  induction l as [|[k' v'] l IH]; cbn; [intuition|].
  destruct (N.eqb k k'); cbn; intuition.
Qed.
Lemma alookup_In {A} (k : N) (l : list (N * A)) v : alookup k l = Some v -> In (k, v) l.
Proof.
  induction l as [|[k' v'] l IH]; cbn; [discriminate|].
  destruct (N.eqb k k') eqn:E; intros H.
  - inv H. apply N.eqb_eq in E. subst. now left.
  - right. auto.
Qed.

(* ------------------------------------------------------------------ *)
(* 1. the history rows: message rows, deletion-log rows, delete counter *)

Definition hsame (s s' : store) : Prop :=
  msgs s' = msgs s /\ dellog s' = dellog s /\ t_delid s' = t_delid s.

Lemma hsame_refl s : hsame s s. Proof. repeat split. Qed.
Lemma hsame_trans a b c : hsame a b -> hsame b c -> hsame a c.
Proof. unfold hsame. intuition congruence. Qed.
Lemma hsame_subs f s : hsame s (st_subs f s). Proof. repeat split. Qed.
Lemma hsame_owner v s : hsame s (st_owner v s). Proof. repeat split. Qed.
Lemma hsame_seqid v s : hsame s (st_seqid v s). Proof. repeat split. Qed.
Lemma hsame_sub_create s u w g : hsame s (ad_sub_create s u w g).
Proof. unfold ad_sub_create. repeat break_match; repeat split. Qed.
Lemma hsame_subs_update s u up : hsame s (ad_subs_update s u up).
Proof. unfold ad_subs_update. break_match; repeat split. Qed.

(* sessions attached after a handler are among those attached before *)
Definition sess_incl (c c' : cache) : Prop := incl (c_sess c') (c_sess c).
Lemma sess_incl_refl c : sess_incl c c. Proof. apply incl_refl. Qed.
Lemma sess_incl_trans a b c : sess_incl a b -> sess_incl b c -> sess_incl a c.
Proof. unfold sess_incl. intros H1 H2. eapply incl_tran; eauto. Qed.
Lemma sess_incl_users f c : sess_incl c (c_set_users f c). Proof. apply incl_refl. Qed.
Lemma sess_incl_owner v c : sess_incl c (c_set_owner v c). Proof. apply incl_refl. Qed.
Lemma sess_incl_lastid v c : sess_incl c (c_set_lastid v c). Proof. apply incl_refl. Qed.
Lemma sess_incl_delid v c : sess_incl c (c_set_delid v c). Proof. apply incl_refl. Qed.
Lemma sess_incl_filter p c : sess_incl c (c_set_sess (filter p) c).
Proof. unfold sess_incl. cbn. apply incl_filter. Qed.
Lemma sess_incl_aremove k c : sess_incl c (c_set_sess (aremove k) c).
Proof. unfold sess_incl. cbn. intros x. apply In_aremove. Qed.

Lemma evict_sess c u b k c' o : evict_user c u b k = (c', o) -> sess_incl c c'.
Proof.
  unfold evict_user. intros H. inv H.
  repeat break_match; (eapply sess_incl_trans; [apply sess_incl_filter|]);
    first [apply sess_incl_users | apply sess_incl_refl].
Qed.

Definition h4 (s : store) (c : cache) (h : hres) : Prop := hsame s (h_st h) /\ sess_incl c (h_ca h).

Ltac solve_hsame :=
  first [ assumption | apply hsame_refl
        | eapply hsame_trans; [| first [apply hsame_subs | apply hsame_owner | apply hsame_seqid
                                        | apply hsame_sub_create | apply hsame_subs_update | eassumption]]; solve_hsame ].
Ltac solve_sess :=
  first [ assumption | apply sess_incl_refl
        | eapply sess_incl_trans; [| first [apply sess_incl_users | apply sess_incl_owner | apply sess_incl_lastid
                                            | apply sess_incl_delid | apply sess_incl_filter | apply sess_incl_aremove
                                            | eassumption]]; solve_sess ].
Ltac h4_post :=
  repeat match goal with
         | H : evict_user _ _ _ _ = (_, _) |- _ => apply evict_sess in H
         end.
Ltac h4_solve := cbn [fst snd h_st h_ca h_n h_out o_st o_n o_out]; h4_post; split; [solve_hsame | solve_sess].

Lemma tus_h4 f s c n sid u want nb : h4 s c (fst (this_user_sub f s c n sid u want nb)).
Proof. unfold this_user_sub, h4. repeat break_match; h4_solve. Qed.
Lemma aus_h4 f s c n sid u target mode : h4 s c (fst (another_user_sub f s c n sid u target mode)).
Proof. unfold another_user_sub, h4. repeat break_match; h4_solve. Qed.
Lemma note_h4 f s c n sid u what seq : h4 s c (note f s c n sid u what seq).
Proof. unfold note, h4. repeat break_match; h4_solve. Qed.
Lemma msg_save_rows s seq u ct s' : ad_msg_save s seq u ct = Some s' ->
  dellog s' = dellog s /\ t_delid s' = t_delid s.
Proof. unfold ad_msg_save. break_match; intros H; inv H. split; reflexivity. Qed.

Lemma publish_h4 f s c n sid u content noecho :
  dellog (h_st (publish f s c n sid u content noecho)) = dellog s /\
  t_delid (h_st (publish f s c n sid u content noecho)) = t_delid s /\
  c_delid (h_ca (publish f s c n sid u content noecho)) = c_delid c /\
  sess_incl c (h_ca (publish f s c n sid u content noecho)).
Proof.
  unfold publish.
  destruct (negb (is_writer (pud_mode (get_pud c u)))); [cbn; repeat split; apply sess_incl_refl|].
  destruct (call f n) as [ok1 n1]. destruct (negb ok1); [cbn; repeat split; apply sess_incl_refl|].
  destruct (call f n1) as [ok2 n2]. destruct (negb ok2); [cbn; repeat split; apply sess_incl_refl|].
  destruct (ad_msg_save (st_seqid (c_lastid c + 1) s) (c_lastid c + 1) u content) as [s2|] eqn:SV;
    [|cbn; repeat split; apply sess_incl_refl].
  apply msg_save_rows in SV. cbn [dellog t_delid st_seqid] in SV. destruct SV as [E1 E2].
  destruct (is_reader (pud_mode (get_pud c u))); [destruct (call f n2) as [ok3 n3]|]; cbn [h_st h_ca];
    repeat match goal with |- context [if ?b then _ else _] => destruct b end;
    repeat match goal with |- context [ad_subs_update ?s ?u ?up] =>
      destruct (hsame_subs_update s u up) as [_ [-> ->]] end;
    (split; [exact E1|]); (split; [exact E2|]); (split; [reflexivity|]); solve_sess.
Qed.

Lemma set_sub_h4 f s c n sid u target mode : h4 s c (set_sub f s c n sid u target mode).
Proof.
  unfold set_sub.
  pose proof (tus_h4 f s c n sid u mode false) as [Hs1 Hc1].
  pose proof (aus_h4 f s c n sid u target mode) as [Hs2 Hc2].
  destruct ((target =? 0)%N || (target =? u)%N);
    [destruct (this_user_sub f s c n sid u mode false) as [h r]
    |destruct (another_user_sub f s c n sid u target mode) as [h r]];
    cbn [fst] in *; unfold h4; repeat break_match; h4_solve.
Qed.

Lemma offline_set_sub_hsame f s sid u t m : hsame s (o_st (offline_set_sub f s sid u t m)).
Proof. unfold offline_set_sub. repeat break_match; cbn [o_st]; solve_hsame. Qed.

(* attaching: the sessions afterwards are those before plus, possibly, (sid, (u, bkg)) *)
Lemma sub_reply_h4 f s c n sid u want bkg :
  hsame s (h_st (sub_reply f s c n sid u want bkg)) /\
  forall e, In e (c_sess (h_ca (sub_reply f s c n sid u want bkg))) -> e = (sid, (u, bkg)) \/ In e (c_sess c).
Proof.
  unfold sub_reply.
  pose proof (tus_h4 f s c n sid u want
                (match alookup u (c_users c) with Some _ => false | None => true end)) as [Hs Hc].
  destruct (this_user_sub f s c n sid u want _) as [h r]. cbn [fst] in *.
  repeat break_match; cbn [h_st h_ca]; (split; [solve_hsame|]); intros e He; cbn [c_sess c_set_users c_set_sess] in He;
    try (apply In_aset in He; destruct He as [He|He]; [now left|]); right; apply Hc; exact He.
Qed.

(* unsubscribing: the subscription row goes and with it the user's own deletion-log rows *)
Definition unsub_rows (u : N) (s s' : store) : Prop :=
  msgs s' = msgs s /\ t_delid s' = t_delid s /\
  dellog s' = filter (fun d => negb (N.eqb (d_for d) u)) (dellog s).

Lemma subs_delete_rows s u s' : ad_subs_delete s u = Some s' -> unsub_rows u s s'.
Proof. unfold ad_subs_delete. break_match; intros H; inv H. repeat split. Qed.

Lemma leave_unsub_cases f s c n sid u :
  let h := leave_unsub f s c n sid u in
  sess_incl c (h_ca h) /\ c_delid (h_ca h) = c_delid c /\
  ((head_frame (h_out h) = Some (Ctrl 200 []) /\ unsub_rows u s (h_st h))
   \/ (exists code, head_frame (h_out h) = Some (Ctrl code []) /\ code <> 200 /\ h_st h = s)).
Proof.
  cbn zeta. unfold leave_unsub.
  destruct (N.eqb (c_owner c) u).
  { cbn. repeat split; [apply sess_incl_refl|]. right. exists 403. repeat split. lia. }
  destruct (call f n) as [ok1 n1]. destruct (negb ok1).
  { cbn. repeat split; [apply sess_incl_refl|]. right. exists 500. repeat split. lia. }
  destruct (ad_subs_delete s u) as [s1|] eqn:D.
  - destruct (evict_user c u true sid) as [c1 o1] eqn:E. cbn [h_st h_ca h_out head_frame].
    split; [eapply evict_sess; exact E|]. split; [apply evict_frame in E; apply E|].
    left. split; [reflexivity|]. apply subs_delete_rows. exact D.
  - cbn. repeat split; [apply sess_incl_refl|]. right. exists 304. repeat split. lia.
Qed.

Lemma del_sub_cases f s c n sid u target :
  let h := del_sub f s c n sid u target in
  sess_incl c (h_ca h) /\ c_delid (h_ca h) = c_delid c /\
  ((head_frame (h_out h) = Some (Ctrl 200 []) /\ target <> 0%N /\ unsub_rows target s (h_st h))
   \/ (exists code, head_frame (h_out h) = Some (Ctrl code []) /\ code <> 200 /\ h_st h = s)).
Proof.
  cbn zeta. unfold del_sub.
  assert (forall code, code <> 200 ->
    sess_incl c c /\ c_delid c = c_delid c /\
    ((head_frame [(sid, Ctrl code [])] = Some (Ctrl 200 []) /\ target <> 0%N /\ unsub_rows target s s)
     \/ (exists code0, head_frame [(sid, Ctrl code [])] = Some (Ctrl code0 []) /\ code0 <> 200 /\ s = s))) as DENY.
  { intros code Hc. split; [apply sess_incl_refl|]. split; [reflexivity|]. right. exists code. repeat split. exact Hc. }
  destruct (negb (is_admin (user_mode c u))); [apply DENY; lia|].
  destruct ((target =? 0)%N || (target =? u)%N) eqn:T0; [apply DENY; lia|].
  destruct (alookup target (c_users c)) as [pt|]; [|apply DENY; lia].
  destruct (is_owner (pud_mode pt)); [apply DENY; lia|].
  destruct (negb (is_joiner (p_want pt))); [apply DENY; lia|].
  destruct (call f n) as [ok1 n1]. destruct (negb ok1); [apply DENY; lia|].
  assert (target <> 0%N) as TN.
  { apply orb_false_iff in T0. destruct T0 as [T0 _]. apply N.eqb_neq in T0. exact T0. }
  destruct (ad_subs_delete s target) as [s1|] eqn:D;
    destruct (evict_user c target true 0%N) as [c1 o1] eqn:E; cbn [h_st h_ca h_out head_frame];
    (split; [eapply evict_sess; exact E|]); (split; [apply evict_frame in E; apply E|]).
  - left. split; [reflexivity|]. split; [exact TN|]. apply subs_delete_rows. exact D.
  - right. exists 304. repeat split. lia.
Qed.

Lemma leave_sess c sid u : sess_incl c (fst (leave c sid u)).
Proof. unfold leave. repeat break_match; cbn [fst]; solve_sess. Qed.

(* ------------------------------------------------------------------ *)
(* equality of specification states                                     *)

Lemma heq_refl a : heq a a. Proof. repeat split. Qed.
Lemma heq_sym a b : heq a b -> heq b a.
Proof. intros [A [B [C D]]]. repeat split; intros; symmetry; auto. Qed.
Lemma heq_trans a b c : heq a b -> heq b c -> heq a c.
Proof.
  intros [A [B [C D]]] [A' [B' [C' D']]]. repeat split; intros.
  - now rewrite A. - rewrite B by assumption. now apply B'. - now rewrite C. - congruence.
Qed.

Lemma hs_step_heq a b e : heq a b -> heq (hs_step a e) (hs_step b e).
Proof.
  intros [A [B [C D]]]. destruct e as [n au ct|u [|] ids|u|]; cbn; repeat split; cbn; intros;
    try rewrite A; try rewrite C; try rewrite D; try (rewrite B by assumption); auto.
Qed.

Lemma hs_step_del_ext a u hard i1 i2 :
  (forall x, i1 x = i2 x) -> heq (hs_step a (HDel u hard i1)) (hs_step a (HDel u hard i2)).
Proof. intros E. destruct hard; cbn; repeat split; cbn; intros; rewrite E; reflexivity. Qed.

Lemma abs_hsame s s' : hsame s s' -> heq (abs s') (abs s).
Proof.
  intros [E1 [E2 E3]]. unfold abs, heq, find_msg, logged_for. cbn. rewrite E1, E2, E3. repeat split.
Qed.

(* ------------------------------------------------------------------ *)
(* the store primitives seen through [abs]                              *)

Lemma logged_for_app s u x rows :
  existsb (fun d => N.eqb (d_for d) u && in_range x (d_low d) (d_hi d)) (dellog s ++ rows) =
  logged_for s u x || existsb (fun d => N.eqb (d_for d) u && in_range x (d_low d) (d_hi d)) rows.
Proof. unfold logged_for. apply existsb_app. Qed.

Lemma new_rows_for d fu rs v x :
  existsb (fun r => N.eqb (d_for r) v && in_range x (d_low r) (d_hi r))
          (map (fun r => mkDel d fu (fst r) (norm_hi (fst r) (snd r))) rs) =
  N.eqb fu v && covers rs x.
Proof.
  rewrite existsb_map. cbn [d_for d_low d_hi]. unfold covers.
  destruct (N.eqb fu v); cbn [andb]; [reflexivity|]. apply existsb_false. reflexivity.
Qed.

(* the store after an accepted delete transaction [d] of user [u] *)
Lemma abs_delete (s : store) (d : Z) (u : N) (hard : bool) (rs : list (Z * Z)) (up : subupd) :
  d <> 0 -> u <> 0%N ->
  let fu := if hard then 0%N else u in
  heq (abs (ad_subs_update (st_delid d (ad_msg_delete_list s d fu rs)) fu up))
      (mkHS (hs_live (hs_step (abs s) (HDel u hard (covers rs))))
            (hs_soft (hs_step (abs s) (HDel u hard (covers rs))))
            (hs_hard (hs_step (abs s) (HDel u hard (covers rs)))) d).
Proof.
  intros Hd Hu fu.
  eapply heq_trans; [apply abs_hsame; apply hsame_subs_update|].
  unfold ad_msg_delete_list. subst fu. destruct hard; cbn [N.eqb].
  - (* hard: for everyone, rows erased *)
    unfold abs, heq, find_msg, logged_for.
    cbn [hs_live hs_soft hs_hard hs_delid hs_step msgs dellog t_delid st_delid st_msgs st_dellog].
    repeat split.
    + intros x. rewrite find_map by (intros a; destruct ((m_delid a =? 0) && _); reflexivity).
      destruct (find (fun m => m_seq m =? x) (msgs s)) as [m|] eqn:F; cbn [option_map].
      * apply find_some in F. destruct F as [_ F]. assert (m_seq m = x) as -> by lia.
        fold (covers rs x).
        destruct (m_delid m =? 0) eqn:E0; cbn [andb].
        -- destruct (covers rs x); cbn [m_delid]; [|now rewrite E0].
           destruct (d =? 0) eqn:Ed; [lia|reflexivity].
        -- rewrite E0. now destruct (covers rs x).
      * now destruct (covers rs x).
    + intros v x Hv. rewrite existsb_app, new_rows_for.
      replace (N.eqb 0 v) with false by (symmetry; apply N.eqb_neq; auto). cbn. apply orb_false_r.
    + intros x. rewrite existsb_app, new_rows_for. cbn. apply orb_comm.
  - (* soft: for the requester only, message rows untouched *)
    replace (N.eqb u 0) with false by (symmetry; apply N.eqb_neq; auto).
    unfold abs, heq, find_msg, logged_for.
    cbn [hs_live hs_soft hs_hard hs_delid hs_step msgs dellog t_delid st_delid st_msgs st_dellog].
    repeat split.
    + intros v x Hv. rewrite existsb_app, new_rows_for. rewrite orb_comm. now rewrite (N.eqb_sym u v).
    + intros x. rewrite existsb_app, new_rows_for.
      replace (N.eqb u 0) with false by (symmetry; apply N.eqb_neq; auto). cbn. apply orb_false_r.
Qed.

Lemma abs_unsub s s' u : u <> 0%N -> unsub_rows u s s' -> heq (abs s') (hs_step (abs s) (HUnsub u)).
Proof.
  intros Hu [E1 [E2 E3]]. unfold abs, heq, find_msg, logged_for. cbn. rewrite E1, E2, E3. repeat split.
  - intros v x Hv. rewrite existsb_filter. destruct (N.eqb v u) eqn:E.
    + apply N.eqb_eq in E. subst v. apply existsb_false. intros d _. destruct (N.eqb (d_for d) u); reflexivity.
    + apply existsb_ext_in. intros d _. destruct (N.eqb (d_for d) v) eqn:E'; cbn; [|apply andb_false_r].
      apply N.eqb_eq in E'. rewrite E', E. reflexivity.
  - intros x. rewrite existsb_filter. apply existsb_ext_in. intros d _.
    destruct (N.eqb (d_for d) 0) eqn:E'; cbn; [|apply andb_false_r].
    apply N.eqb_eq in E'. rewrite E'. replace (N.eqb 0 u) with false by (symmetry; apply N.eqb_neq; auto). reflexivity.
Qed.

Lemma abs_publish s s' n au ct :
  ~ In n (seqs s) -> msgs s' = msgs s ++ [mkMsg n au ct 0] -> dellog s' = dellog s -> t_delid s' = t_delid s ->
  heq (abs s') (hs_step (abs s) (HPub n au ct)).
Proof.
  intros NI E1 E2 E3. unfold abs, heq, find_msg, logged_for. cbn. rewrite E1, E2, E3. repeat split.
  intros x. rewrite find_app. cbn [find m_seq].
  destruct (x =? n) eqn:E.
  - assert (x = n) as -> by lia. pose proof (find_none_notin s n NI) as FN. unfold find_msg in FN. rewrite FN.
    rewrite Z.eqb_refl. reflexivity.
  - destruct (find (fun m => m_seq m =? x) (msgs s)); [reflexivity|].
    replace (n =? x) with false by lia. reflexivity.
Qed.

(* ------------------------------------------------------------------ *)
(* 2. the delete request                                                *)

Section Del.
Variable dr : Z -> list (Z * Z) -> option (list (Z * Z)).

(* the four outcomes of replyDelMsg + messagesMapper.DeleteList.  [n] = 0: the calls of the
   request are adapter calls 1 (MessageDeleteList), 2 (TopicUpdate), 3 (SubsUpdate). *)
Definition del_denied (s : store) (c : cache) (sid u : N) (h : hres) : Prop :=
  is_deleter (user_mode c u) = false /\ is_reader (user_mode c u) = false /\
  h_out h = [(sid, Ctrl 403 [])] /\ h_st h = s /\ h_ca h = c.
Definition del_malformed (s : store) (c : cache) (sid u : N) (req : list (Z * Z)) (h : hres) : Prop :=
  (is_deleter (user_mode c u) = true \/ is_reader (user_mode c u) = true) /\
  dr (c_lastid c) req = None /\ h_out h = [(sid, Ctrl 400 [])] /\ h_st h = s /\ h_ca h = c.
Definition del_store_failed (s : store) (c : cache) (sid u : N) (req : list (Z * Z)) (h : hres) : Prop :=
  (is_deleter (user_mode c u) = true \/ is_reader (user_mode c u) = true) /\
  dr (c_lastid c) req <> None /\ h_out h = [(sid, Ctrl 500 [])] /\ h_st h = s /\ h_ca h = c.
Definition del_accepted (s : store) (c : cache) (sid u : N) (req : list (Z * Z)) (hard0 : bool) (h : hres) : Prop :=
  (is_deleter (user_mode c u) = true \/ is_reader (user_mode c u) = true) /\
  exists ranges, dr (c_lastid c) req = Some ranges /\
    let hard := hard0 && is_deleter (user_mode c u) in     (* without D the request is silently soft *)
    let fu := if hard then 0%N else u in
    let d := c_delid c + 1 in                              (* the next delete-transaction number *)
    h_out h = [(sid, Ctrl 200 [(P_del, d)])] /\
    h_st h = ad_subs_update (st_delid d (ad_msg_delete_list s d fu ranges)) fu (mkUpd None None None None (Some d)) /\
    c_delid (h_ca h) = d /\ c_lastid (h_ca h) = c_lastid c /\ c_sess (h_ca h) = c_sess c.

Lemma del_msg_cases f s c sid u req hard0 :
  fails f 1 = true \/ (fails f 2 = false /\ fails f 3 = false) ->
  let h := del_msg dr f s c 0 sid u req hard0 in
  del_denied s c sid u h \/ del_malformed s c sid u req h \/ del_store_failed s c sid u req h \/
  del_accepted s c sid u req hard0 h.
Proof.
  intros FO. cbn zeta. unfold del_msg.
  destruct (is_deleter (user_mode c u)) eqn:ED; destruct (is_reader (user_mode c u)) eqn:ER; cbn [negb andb];
    try (left; unfold del_denied; rewrite ED, ER; repeat split; fail).
  all: assert (is_deleter (user_mode c u) = true \/ is_reader (user_mode c u) = true) as PERM by (rewrite ED, ER; auto).
  all: destruct (dr (c_lastid c) req) as [ranges|] eqn:DR;
    [|right; left; unfold del_malformed; rewrite DR; repeat split; auto].
  all: unfold call; cbn [negb].
  all: destruct (fails f 1) eqn:F1; cbn [negb];
    [right; right; left; unfold del_store_failed; rewrite DR; repeat split; auto; discriminate|].
  all: destruct FO as [FO|[F2 F3]]; [discriminate|]; rewrite F2, F3; cbn [negb].
  all: right; right; right; unfold del_accepted; split; [exact PERM|]; exists ranges; rewrite ED;
    split; [exact DR|]; cbn zeta; rewrite ?andb_true_r, ?andb_false_r;
    destruct hard0; cbn [h_out h_st h_ca c_delid c_set_delid c_set_users c_lastid c_sess andb]; repeat split.
Qed.
End Del.

(* ------------------------------------------------------------------ *)
(* 3. the invariant, and one request as one transition of the specification *)

Definition sess_ok (c : cache) : Prop := forall sid a b, In (sid, (a, b)) (c_sess c) -> a <> 0%N.

Definition inv_del (x : state) : Prop :=
  0 <= t_delid (st x) /\
  match ca x with Some c => c_delid c = t_delid (st x) /\ sess_ok c | None => True end.

Definition inv_hist (x : state) : Prop := inv_num x /\ inv_del x.

Lemma sess_ok_incl c c' : sess_incl c c' -> sess_ok c -> sess_ok c'.
Proof. intros H K sid a b Hin. eapply K. apply H. exact Hin. Qed.

Lemma event_none_code sm x o sid code : code <> 200 -> code <> 202 ->
  event_of sm x o [(sid, Ctrl code [])] = HNone.
Proof.
  intros H1 H2. unfold event_of. destruct (ca x); [|reflexivity].
  destruct o; cbn [head_frame]; try reflexivity.
  - destruct unsub; [|reflexivity]. replace (code =? 200) with false by lia. reflexivity.
  - replace (code =? 200) with false by lia. reflexivity.
Qed.

Section Sim.
Variable dr : Z -> list (Z * Z) -> option (list (Z * Z)).
Variable nr : list (Z * Z) -> list (Z * Z).
Variable sm : sessmap.
(* the ranges handed to the store cover exactly the ids the request denotes (layer 1:
   Ranges.del_ranges_exact for the instance of TopicInst.v) *)
Hypothesis dr_exact : forall last req out, dr last req = Some out -> forall x, covers out x = req_ids last req x.

Definition sim (f : fault) (x : state) (o : op) : Prop :=
  heq (abs (st (fst (step dr nr sm f x o)))) (hs_step (abs (st x)) (event_of sm x o (snd (step dr nr sm f x o))))
  /\ inv_del (fst (step dr nr sm f x o)).

(* a request that leaves the history rows alone and yields no event *)
Lemma sim_keep s s' cx' n' ev :
  hsame s s' -> ev = HNone -> 0 <= t_delid s ->
  match cx' with Some c' => c_delid c' = t_delid s /\ sess_ok c' | None => True end ->
  heq (abs (st (mkState s' cx' n'))) (hs_step (abs s) ev) /\ inv_del (mkState s' cx' n').
Proof.
  intros H -> H0 HC. cbn [st hs_step]. split; [apply abs_hsame; exact H|].
  destruct H as [_ [_ E]]. unfold inv_del. cbn [st ca]. rewrite E. split; [exact H0|exact HC].
Qed.

Lemma hframe_delid s c h : hframe s c h -> c_delid (h_ca h) = c_delid c.
Proof. intros [_ [_ [H _]]]. exact H. Qed.

Lemma step_sim f x o : inv_hist x -> op_ok sm o -> fault_ok f o -> sim f x o.
Proof.
  intros [IN [I0 IC]] OK FO. destruct x as [s cx n0]. cbn [st ca] in *. unfold sim.
  destruct o; unfold step; cbn [st ca].
  - (* OSub *)
    unfold op_ok in OK. cbn [op_sid] in OK.
    destruct cx as [c|].
    + destruct IC as [ID IS].
      destruct (attached c sid); cbn [fst snd].
      * apply sim_keep; [apply hsame_refl|reflexivity|exact I0|split; assumption].
      * destruct (sub_reply_h4 f s c 0 sid (sess_uid sm sid) want bkg) as [HS HC].
        apply sim_keep; [exact HS|reflexivity|exact I0|].
        rewrite (hframe_delid _ _ _ (sub_reply_frame f s c 0 sid (sess_uid sm sid) want bkg)).
        split; [exact ID|]. intros sid' a b Hin. apply HC in Hin. destruct Hin as [Hin|Hin]; [inv Hin; exact OK|eapply IS; exact Hin].
    + destruct (try_load f s 0) as [n1 [c|code]] eqn:TL; cbn [fst snd].
      * apply try_load_cases in TL. subst c.
        destruct (sub_reply_h4 f s (load s) n1 sid (sess_uid sm sid) want bkg) as [HS HC].
        apply sim_keep; [exact HS|reflexivity|exact I0|].
        rewrite (hframe_delid _ _ _ (sub_reply_frame f s (load s) n1 sid (sess_uid sm sid) want bkg)).
        split; [reflexivity|]. intros sid' a b Hin. apply HC in Hin. destruct Hin as [Hin|Hin]; [inv Hin; exact OK|destruct Hin].
      * apply sim_keep; [apply hsame_refl|reflexivity|exact I0|exact I].
  - (* OLeave *)
    destruct cx as [c|]; cbn [negb]; [destruct (attached c sid) eqn:AT|]; cbn [negb fst snd].
    + destruct IC as [ID IS]. destruct unsub; cbn [fst snd].
      * (* unsubscribe *)
        fold (acting sm c sid).
        pose proof (leave_unsub_cases f s c 0 sid (acting sm c sid)) as L. cbn zeta in L.
        destruct L as [LS [LD [[HF UR]|[code [HF [HC HE]]]]]].
        -- assert (acting sm c sid <> 0%N) as AN.
           { unfold acting. unfold attached in AT. destruct (alookup sid (c_sess c)) as [[a b]|] eqn:AL; [|discriminate].
             apply alookup_In in AL. eapply IS. exact AL. }
           cbn [st ca]. unfold event_of. cbn [ca]. rewrite HF. cbn [Z.eqb Pos.eqb].
           split; [apply abs_unsub; assumption|].
           destruct UR as [_ [E _]]. unfold inv_del. cbn [st ca]. rewrite E, LD. split; [exact I0|].
           split; [exact ID|eapply sess_ok_incl; eassumption].
        -- cbn [st ca]. rewrite HE.
           assert (event_of sm (mkState s (Some c) n0) (OLeave sid true) (h_out (leave_unsub f s c 0 sid (acting sm c sid))) = HNone) as ->.
           { unfold event_of. cbn [ca]. rewrite HF. replace (code =? 200) with false by lia. reflexivity. }
           cbn [hs_step]. split; [apply heq_refl|]. unfold inv_del. cbn [st ca]. rewrite LD.
           split; [exact I0|]. split; [exact ID|eapply sess_ok_incl; eassumption].
      * (* detach *)
        pose proof (leave_sess c sid (match alookup sid (c_sess c) with Some (a, _) => a | None => sess_uid sm sid end)) as LS.
        pose proof (leave_frame c sid (match alookup sid (c_sess c) with Some (a, _) => a | None => sess_uid sm sid end)) as [_ [LD _]].
        destruct (leave c sid _) as [c1 o1]. cbn [fst snd h_st h_ca h_n h_out] in *.
        apply sim_keep; [apply hsame_refl|reflexivity|exact I0|]. rewrite LD. split; [exact ID|eapply sess_ok_incl; eassumption].
    + apply sim_keep; [apply hsame_refl| |exact I0|exact IC].
      destruct unsub; apply event_none_code; lia.
    + apply sim_keep; [apply hsame_refl|reflexivity|exact I0|exact I].
  - (* OPub *)
    destruct cx as [c|]; cbn [negb]; [destruct (attached c sid)|]; cbn [negb fst snd].
    + destruct IC as [ID IS].
      destruct (publish_h4 f s c 0 sid (sess_uid sm sid) content noecho) as [PD [PT [PC PS]]].
      destruct (publish_cases f s c 0 sid (sess_uid sm sid) content noecho) as [[E1 [E2 [E3 [E4 [E5 [code [E6 E7]]]]]]]|[E1 [E2 [E3 [E4 E5]]]]].
      * rewrite E6. cbn [st ca]. rewrite event_none_code by lia. cbn [hs_step].
        split; [apply abs_hsame; repeat split; assumption|].
        unfold inv_del. cbn [st ca]. rewrite PT, PC. split; [exact I0|]. split; [exact ID|eapply sess_ok_incl; eassumption].
      * rewrite E5. cbn [st ca]. unfold event_of. cbn [ca head_frame Z.eqb Pos.eqb].
        split; [apply abs_publish; assumption|].
        unfold inv_del. cbn [st ca]. rewrite PT, PC. split; [exact I0|]. split; [exact ID|eapply sess_ok_incl; eassumption].
    + apply sim_keep; [apply hsame_refl|apply event_none_code; lia|exact I0|exact IC].
    + apply sim_keep; [apply hsame_refl|reflexivity|exact I0|exact I].
  - (* ONote *)
    destruct cx as [c|]; cbn [negb]; [destruct (attached c sid)|]; cbn [negb fst snd];
      repeat break_match; cbn [fst snd];
      try (apply sim_keep; [apply hsame_refl|first [reflexivity | unfold event_of; cbn [ca]; reflexivity]|exact I0|exact IC]).
    all: destruct IC as [ID IS];
      destruct (note_h4 f s c 0 sid (sess_uid sm sid) what seq) as [HS HC];
      (apply sim_keep; [exact HS|unfold event_of; cbn [ca]; reflexivity|exact I0|]);
      rewrite (hframe_delid _ _ _ (note_frame f s c 0 sid (sess_uid sm sid) what seq));
      (split; [exact ID|eapply sess_ok_incl; eassumption]).
  - (* OGetData *)
    destruct cx as [c|]; cbn [negb]; [destruct (attached c sid)|]; cbn [negb fst snd].
    + destruct (TopicMeta.get_data_same0 f s c 0 sid (sess_uid sm sid) since before limit) as [-> ->].
      apply sim_keep; [apply hsame_refl|unfold event_of; cbn [ca]; reflexivity|exact I0|exact IC].
    + apply sim_keep; [apply hsame_refl|unfold event_of; cbn [ca]; reflexivity|exact I0|exact IC].
    + apply sim_keep; [apply hsame_refl|reflexivity|exact I0|exact I].
  - (* OGetDesc *)
    destruct cx as [c|]; cbn [negb]; [destruct (attached c sid)|]; cbn [negb fst snd]; try rewrite offline_get_desc_frame.
    + destruct (TopicMeta.get_desc_same0 s c 0 sid (sess_uid sm sid)) as [-> ->].
      apply sim_keep; [apply hsame_refl|unfold event_of; cbn [ca]; reflexivity|exact I0|exact IC].
    + apply sim_keep; [apply hsame_refl|unfold event_of; cbn [ca]; reflexivity|exact I0|exact IC].
    + apply sim_keep; [apply hsame_refl|reflexivity|exact I0|exact I].
  - (* OGetSub *)
    destruct cx as [c|]; cbn [negb]; [destruct (attached c sid)|]; cbn [negb fst snd]; try rewrite offline_get_sub_frame.
    + destruct (TopicMeta.get_sub_same0 f s c 0 sid (sess_uid sm sid)) as [-> ->].
      apply sim_keep; [apply hsame_refl|unfold event_of; cbn [ca]; reflexivity|exact I0|exact IC].
    + apply sim_keep; [apply hsame_refl|unfold event_of; cbn [ca]; reflexivity|exact I0|exact IC].
    + apply sim_keep; [apply hsame_refl|reflexivity|exact I0|exact I].
  - (* OGetDel *)
    destruct cx as [c|]; cbn [negb]; [destruct (attached c sid)|]; cbn [negb fst snd].
    + destruct (TopicMeta.get_del_same0 nr f s c 0 sid (sess_uid sm sid) since before limit) as [-> ->].
      apply sim_keep; [apply hsame_refl|unfold event_of; cbn [ca]; reflexivity|exact I0|exact IC].
    + apply sim_keep; [apply hsame_refl|unfold event_of; cbn [ca]; reflexivity|exact I0|exact IC].
    + apply sim_keep; [apply hsame_refl|reflexivity|exact I0|exact I].
  - (* ODelMsg *)
    unfold op_ok in OK. cbn [op_sid] in OK. cbn [fault_ok] in FO.
    destruct cx as [c|]; cbn [negb]; [destruct (attached c sid)|]; cbn [negb fst snd].
    + destruct IC as [ID IS].
      destruct (del_msg_cases dr f s c sid (sess_uid sm sid) ranges hard FO)
        as [[_ [_ [EO [ES EC]]]]|[[_ [_ [EO [ES EC]]]]|[[_ [_ [EO [ES EC]]]]|[_ [rs [DR ACC]]]]]].
      1-3: rewrite EO, ES, EC; (apply sim_keep; [apply hsame_refl|apply event_none_code; lia|exact I0|split; assumption]).
      cbn zeta in ACC. destruct ACC as [EO [ES [ED [EL ESS]]]].
      rewrite EO. cbn [st ca]. unfold event_of. cbn [ca head_frame Z.eqb Pos.eqb].
      split.
      * rewrite ES.
        eapply heq_trans; [apply abs_delete; [lia|exact OK]|].
        eapply heq_trans; [|apply hs_step_del_ext; intros y; apply (dr_exact _ _ _ DR)].
        destruct (hard && is_deleter (user_mode c (sess_uid sm sid))); cbn; repeat split; cbn; lia.
      * unfold inv_del. rewrite ES. cbn [st ca].
        destruct (hsame_subs_update (st_delid (c_delid c + 1) (ad_msg_delete_list s (c_delid c + 1)
                    (if hard && is_deleter (user_mode c (sess_uid sm sid)) then 0%N else sess_uid sm sid) rs))
                    (if hard && is_deleter (user_mode c (sess_uid sm sid)) then 0%N else sess_uid sm sid)
                    (mkUpd None None None None (Some (c_delid c + 1)))) as [_ [_ ->]].
        cbn [t_delid st_delid]. split; [lia|]. split; [exact ED|].
        intros sid' a b Hin. rewrite ESS in Hin. eapply IS. exact Hin.
    + apply sim_keep; [apply hsame_refl|apply event_none_code; lia|exact I0|exact IC].
    + apply sim_keep; [apply hsame_refl|reflexivity|exact I0|exact I].
  - (* OSetSub *)
    destruct cx as [c|]; cbn [negb]; [destruct (attached c sid)|]; cbn [negb fst snd].
    + destruct IC as [ID IS]. destruct (set_sub_h4 f s c 0 sid (sess_uid sm sid) target mode) as [HS HC].
      apply sim_keep; [exact HS|unfold event_of; cbn [ca]; reflexivity|exact I0|].
      rewrite (hframe_delid _ _ _ (set_sub_frame f s c 0 sid (sess_uid sm sid) target mode)).
      split; [exact ID|eapply sess_ok_incl; eassumption].
    + apply sim_keep; [apply offline_set_sub_hsame|unfold event_of; cbn [ca]; reflexivity|exact I0|exact IC].
    + apply sim_keep; [apply offline_set_sub_hsame|reflexivity|exact I0|exact I].
  - (* ODelSub *)
    destruct cx as [c|]; cbn [negb]; [destruct (attached c sid)|]; cbn [negb fst snd].
    + destruct IC as [ID IS].
      pose proof (del_sub_cases f s c 0 sid (sess_uid sm sid) target) as L. cbn zeta in L.
      destruct L as [LS [LD [[HF [TN UR]]|[code [HF [HC HE]]]]]].
      * cbn [st ca]. unfold event_of. cbn [ca]. rewrite HF. cbn [Z.eqb Pos.eqb].
        split; [apply abs_unsub; assumption|].
        destruct UR as [_ [E _]]. unfold inv_del. cbn [st ca]. rewrite E, LD. split; [exact I0|].
        split; [exact ID|eapply sess_ok_incl; eassumption].
      * cbn [st ca]. rewrite HE.
        assert (event_of sm (mkState s (Some c) n0) (ODelSub sid target) (h_out (del_sub f s c 0 sid (sess_uid sm sid) target)) = HNone) as ->.
        { unfold event_of. cbn [ca]. rewrite HF. replace (code =? 200) with false by lia. reflexivity. }
        cbn [hs_step]. split; [apply heq_refl|]. unfold inv_del. cbn [st ca]. rewrite LD.
        split; [exact I0|]. split; [exact ID|eapply sess_ok_incl; eassumption].
    + apply sim_keep; [apply hsame_refl|apply event_none_code; lia|exact I0|exact IC].
    + apply sim_keep; [apply hsame_refl|reflexivity|exact I0|exact I].
  - (* OUnload *)
    destruct cx as [c|]; [destruct (c_sess c)|]; cbn [fst snd];
      (apply sim_keep; [apply hsame_refl|first [reflexivity | unfold event_of; cbn [ca]; reflexivity]|exact I0|first [exact IC | exact I]]).
  - (* ORestart *)
    cbn [fst snd]. apply sim_keep; [apply hsame_refl| |exact I0|exact I].
    unfold event_of. cbn [ca]. destruct cx; reflexivity.
Qed.
End Sim.

(* ------------------------------------------------------------------ *)
(* 4. every history                                                     *)

Section Hist.
Variable dr : Z -> list (Z * Z) -> option (list (Z * Z)).
Variable nr : list (Z * Z) -> list (Z * Z).
Variable sm : sessmap.
Hypothesis dr_exact : forall last req out, dr last req = Some out -> forall x, covers out x = req_ids last req x.

Definition hist_ok (h : list (fault * op)) : Prop :=
  Forall (fun fo => op_ok sm (snd fo) /\ fault_ok (fst fo) (snd fo)) h.

Lemma step_f_sim x fo : inv_hist x -> op_ok sm (snd fo) -> fault_ok (fst fo) (snd fo) ->
  heq (abs (st (fst (step_f dr nr sm x fo))))
      (hs_step (abs (st x)) (event_of sm x (snd fo) (snd (step_f dr nr sm x fo))))
  /\ inv_hist (fst (step_f dr nr sm x fo)).
Proof.
  intros I OK FO.
  pose proof (step_f_inv_num dr nr sm x fo (proj1 I)) as IN.
  destruct (step_sim dr nr sm dr_exact (fst fo) x (snd fo) I OK FO) as [HS ID].
  unfold step_f in *. destruct (step dr nr sm (fst fo) x (snd fo)) as [x1 o1]. cbn [fst snd] in *.
  destruct (fst fo); cbn [fst snd st] in *; (split; [exact HS|]); (split; [exact IN|]); try exact ID.
  destruct ID as [I0 _]. split; [exact I0|exact Logic.I].
Qed.

(* the refinement: what the stored rows show after a history is what the specification
   computes from the accepted requests of that history *)
Lemma run_refines h : forall x a, inv_hist x -> hist_ok h -> heq (abs (st x)) a ->
  heq (abs (st (fst (run dr nr sm x h)))) (hs_run dr nr sm x h a) /\ inv_hist (fst (run dr nr sm x h)).
Proof.
  induction h as [|fo h IH]; intros x a I HO E; cbn [run hs_run fst]; [split; assumption|].
  inversion HO as [|? ? [OK FO] HO']; subst.
  destruct (step_f_sim x fo I OK FO) as [HS I1].
  destruct (step_f dr nr sm x fo) as [x1 o1]. cbn [fst snd] in *.
  specialize (IH x1 (hs_step a (event_of sm x (snd fo) o1)) I1 HO').
  destruct (run dr nr sm x1 h) as [x2 os]. cbn [fst] in *. apply IH.
  eapply heq_trans; [exact HS|]. apply hs_step_heq. exact E.
Qed.
End Hist.

Definition fresh_hist (s : store) : Prop := fresh s /\ 0 <= t_delid s.
Lemma fresh_inv_hist s n : fresh_hist s -> inv_hist (mkState s None n).
Proof. intros [F D]. split; [apply fresh_inv; exact F|]. split; [exact D|exact I]. Qed.

(* ------------------------------------------------------------------ *)
(* 5a. {get data}                                                       *)

Definition desc_ge (a b : msgrow) : Prop := m_seq b <= m_seq a.
Definition desc_gt (a b : msgrow) : Prop := m_seq b < m_seq a.

Lemma insert_desc_perm m l : Permutation (insert_desc m l) (m :: l).
Proof.
  induction l as [|x l IH]; cbn; [apply Permutation_refl|].
  destruct (m_seq x <? m_seq m); [apply Permutation_refl|].
  eapply Permutation_trans; [apply perm_skip; exact IH|apply perm_swap].
Qed.
Lemma sort_desc_perm l : Permutation (sort_desc l) l.
Proof.
  induction l as [|x l IH]; cbn; [constructor|].
  eapply Permutation_trans; [apply insert_desc_perm|]. now apply perm_skip.
Qed.
Lemma insert_desc_sorted m l : StronglySorted desc_ge l -> StronglySorted desc_ge (insert_desc m l).
Proof.
  induction l as [|x l IH]; cbn; intros S; [constructor; constructor|].
  inversion S as [|? ? S' F]; subst.
  destruct (m_seq x <? m_seq m) eqn:E.
  - constructor; [exact S|]. constructor; [unfold desc_ge; lia|].
    eapply Forall_impl; [|exact F]. unfold desc_ge. intros b Hb. lia.
  - constructor; [apply IH; exact S'|].
    eapply Permutation_Forall; [apply Permutation_sym; apply insert_desc_perm|].
    constructor; [unfold desc_ge; lia|exact F].
Qed.
Lemma sort_desc_sorted l : StronglySorted desc_ge (sort_desc l).
Proof. induction l as [|x l IH]; cbn; [constructor|]. apply insert_desc_sorted. exact IH. Qed.

Lemma sorted_nodup_strict l : StronglySorted desc_ge l -> NoDup (map m_seq l) -> StronglySorted desc_gt l.
Proof.
  induction l as [|x l IH]; intros S N; [constructor|].
  inversion S as [|? ? S' F]; subst. inversion N as [|? ? NI N']; subst.
  constructor; [apply IH; assumption|].
  apply Forall_forall. intros b Hb. rewrite Forall_forall in F. specialize (F b Hb). unfold desc_ge, desc_gt in *.
  assert (m_seq b <> m_seq x). { intros E. apply NI. rewrite <- E. now apply in_map. }
  lia.
Qed.

Lemma nodup_map_filter {A B} (g : A -> B) p l : NoDup (map g l) -> NoDup (map g (filter p l)).
Proof.
  induction l as [|x l IH]; cbn; intros N; [constructor|].
  inversion N as [|? ? NI N']; subst. destruct (p x); cbn; [|auto].
  constructor; [|auto]. intros Hin. apply NI. apply in_map_iff in Hin. destruct Hin as [y [E Hy]].
  apply filter_In in Hy. rewrite <- E. apply in_map. tauto.
Qed.

Lemma sorted_firstn {A} (R : A -> A -> Prop) n l : StronglySorted R l -> StronglySorted R (firstn n l).
Proof.
  revert l. induction n as [|n IH]; intros l S; cbn; [constructor|].
  destruct l as [|x l]; [constructor|]. inversion S as [|? ? S' F]; subst.
  constructor; [apply IH; exact S'|]. apply Forall_forall. intros b Hb. rewrite Forall_forall in F. apply F.
  eapply firstn_In. exact Hb.
Qed.

Lemma sorted_app_rel {A} (R : A -> A -> Prop) l1 l2 : StronglySorted R (l1 ++ l2) ->
  forall a b, In a l1 -> In b l2 -> R a b.
Proof.
  induction l1 as [|x l1 IH]; cbn; intros S a b Ha Hb; [destruct Ha|].
  inversion S as [|? ? S' F]; subst. destruct Ha as [<-|Ha].
  - rewrite Forall_forall in F. apply F. apply in_or_app. now right.
  - eapply IH; eauto.
Qed.

(* the newest-first prefix of length n of a strictly ordered list *)
Lemma firstn_newest (R : msgrow -> msgrow -> Prop) n l m : StronglySorted R l -> In m l ->
  In m (firstn n l) \/ (length (firstn n l) = n /\ forall m', In m' (firstn n l) -> R m' m).
Proof.
  intros S Hm. rewrite <- (firstn_skipn n l) in Hm. apply in_app_or in Hm. destruct Hm as [Hm|Hm]; [now left|right].
  split.
  - apply firstn_length_le. destruct (Nat.le_gt_cases n (length l)) as [L|L]; [exact L|].
    rewrite skipn_all2 in Hm by lia. destruct Hm.
  - intros m' Hm'. rewrite <- (firstn_skipn n l) in S. eapply sorted_app_rel; eauto.
Qed.

Definition shown_to (s : store) (u : N) (since before : Z) (m : msgrow) : bool :=
  (m_delid m =? 0) && in_window since before (m_seq m) && negb (logged_for s u (m_seq m)).

Lemma get_all_filter s u since before limit :
  ad_msg_get_all s u since before limit =
  firstn (Z.to_nat (eff_limit max_msg_results limit)) (sort_desc (filter (shown_to s u since before) (msgs s))).
Proof.
  unfold ad_msg_get_all. f_equal. f_equal. apply filter_ext. intros m.
  unfold shown_to, in_window, logged_for.
  destruct (m_delid m =? 0); cbn [andb]; [|reflexivity].
  destruct ((if 0 <? since then since else 0) <=? m_seq m); cbn [andb]; [|reflexivity].
  destruct (0 <? before); [|reflexivity].
  replace (m_seq m <=? before - 1) with (m_seq m <? before) by lia. reflexivity.
Qed.

Lemma eff_limit_bound mx limit : 0 < mx -> 0 < eff_limit mx limit <= mx /\ (0 < limit -> eff_limit mx limit <= limit).
Proof. intros H. unfold eff_limit. destruct ((0 <? limit) && (limit <? mx)) eqn:E; lia. Qed.

Lemma get_all_spec s u since before limit : NoDup (seqs s) ->
  let ms := ad_msg_get_all s u since before limit in
  let lim := Z.to_nat (eff_limit max_msg_results limit) in
  (length ms <= lim)%nat /\
  StronglySorted desc_gt ms /\
  (forall m, In m ms -> In m (msgs s) /\ shown_to s u since before m = true) /\
  (forall m, In m (msgs s) -> shown_to s u since before m = true ->
     In m ms \/ (length ms = lim /\ forall m', In m' ms -> m_seq m < m_seq m')).
Proof.
  intros ND. cbn zeta. rewrite get_all_filter.
  set (l := sort_desc (filter (shown_to s u since before) (msgs s))).
  assert (StronglySorted desc_gt l) as SL.
  { apply sorted_nodup_strict; [apply sort_desc_sorted|].
    eapply Permutation_NoDup; [apply Permutation_map; apply Permutation_sym; apply sort_desc_perm|].
    apply nodup_map_filter. exact ND. }
  split; [apply firstn_le_length|]. split; [apply sorted_firstn; exact SL|]. split.
  - intros m Hm. apply firstn_In in Hm. apply (Permutation_in _ (sort_desc_perm _)) in Hm.
    apply filter_In in Hm. exact Hm.
  - intros m Hm Sh.
    assert (In m l) as Hl.
    { apply (Permutation_in _ (Permutation_sym (sort_desc_perm _))). apply filter_In. split; assumption. }
    destruct (firstn_newest desc_gt (Z.to_nat (eff_limit max_msg_results limit)) l m SL Hl) as [H|[H1 H2]]; [now left|right].
    split; [exact H1|]. intros m' Hm'. apply H2 in Hm'. exact Hm'.
Qed.

Lemma find_msg_In s m : NoDup (seqs s) -> In m (msgs s) -> find_msg s (m_seq m) = Some m.
Proof.
  unfold find_msg, seqs. induction (msgs s) as [|y l IH]; cbn; intros ND Hm; [destruct Hm|].
  inversion ND as [|? ? NI ND']; subst.
  destruct Hm as [->|Hm]; [now rewrite Z.eqb_refl|].
  destruct (m_seq y =? m_seq m) eqn:E; [|auto].
  exfalso. apply NI. assert (m_seq y = m_seq m) as -> by lia. now apply in_map.
Qed.
Lemma find_msg_some s x m : find_msg s x = Some m -> In m (msgs s) /\ m_seq m = x.
Proof. unfold find_msg. intros H. apply find_some in H. destruct H as [H1 H2]. split; [exact H1|lia]. Qed.

(* a stored row is shown to u in the window iff the specification state shows it *)
Lemma shown_to_visible s u since before m : NoDup (seqs s) -> In m (msgs s) ->
  (shown_to s u since before m = true <->
   in_window since before (m_seq m) = true /\ hs_visible (abs s) u (m_seq m) = Some (m_from m, m_content m)).
Proof.
  intros ND Hm. unfold shown_to, hs_visible, abs. cbn [hs_soft hs_live]. rewrite (find_msg_In s m ND Hm).
  destruct (m_delid m =? 0), (in_window since before (m_seq m)), (logged_for s u (m_seq m)); cbn; intuition; discriminate.
Qed.
Lemma visible_row s u x a c : hs_visible (abs s) u x = Some (a, c) ->
  exists m, In m (msgs s) /\ m_seq m = x /\ m_from m = a /\ m_content m = c.
Proof.
  unfold hs_visible, abs. cbn [hs_soft hs_live]. destruct (logged_for s u x); [discriminate|].
  destruct (find_msg s x) as [m|] eqn:F; [|discriminate]. destruct (m_delid m =? 0); [|discriminate].
  intros H. inv H. apply find_msg_some in F. destruct F as [F1 F2]. exists m. auto.
Qed.

Definition data_gt (a b : Z * N * N) : Prop := fst (fst b) < fst (fst a).

Lemma data_of_frames sid ms tail :
  (forall e, In e tail -> match snd e with Data _ _ _ => False | _ => True end) ->
  data_of (map (fun m => (sid, Data (m_seq m) (m_from m) (m_content m))) ms ++ tail) =
  map (fun m => (m_seq m, m_from m, m_content m)) ms.
Proof.
  intros HT. unfold data_of. rewrite flat_map_app.
  assert (flat_map (fun e : N * frame => match snd e with Data q a c => [(q, a, c)] | _ => [] end) tail = []) as ->.
  { induction tail as [|e t IH]; [reflexivity|]. cbn. pose proof (HT e (or_introl eq_refl)) as H.
    destruct (snd e); try contradiction; cbn; apply IH; intros e' He'; apply HT; now right. }
  rewrite app_nil_r. induction ms as [|m ms IH]; cbn; [reflexivity|]. now rewrite IH.
Qed.

(* the closing {ctrl} of an answer with n messages *)
Definition data_closing (n : nat) : frame :=
  match n with O => Ctrl 204 [(P_what, 1)] | _ => Ctrl 208 [(P_what, 1); (P_count, Z.of_nat n)] end.

Lemma get_data_answer f s c n sid u since before limit :
  is_reader (user_mode c u) = true -> fails f (S n) = false ->
  let ms := ad_msg_get_all s u since before limit in
  h_out (get_data f s c n sid u since before limit) =
    map (fun m => (sid, Data (m_seq m) (m_from m) (m_content m))) ms ++ [(sid, data_closing (length ms))].
Proof.
  intros R F. cbn zeta. unfold get_data, call. rewrite R, F. cbn [negb].
  destruct (ad_msg_get_all s u since before limit) as [|m ms]; reflexivity.
Qed.

Lemma get_data_exact f s c n sid u since before limit :
  NoDup (seqs s) -> is_reader (user_mode c u) = true -> fails f (S n) = false ->
  let o := h_out (get_data f s c n sid u since before limit) in
  let fr := data_of o in
  let lim := Z.to_nat (eff_limit max_msg_results limit) in
  o = map (fun e => (sid, Data (fst (fst e)) (snd (fst e)) (snd e))) fr ++ [(sid, data_closing (length fr))] /\
  (length fr <= lim)%nat /\
  StronglySorted data_gt fr /\
  (forall x a ct, In (x, a, ct) fr -> in_window since before x = true /\ hs_visible (abs s) u x = Some (a, ct)) /\
  (forall x a ct, in_window since before x = true -> hs_visible (abs s) u x = Some (a, ct) ->
     In (x, a, ct) fr \/ (length fr = lim /\ forall e, In e fr -> x < fst (fst e))).
Proof.
  intros ND R F. cbn zeta. rewrite (get_data_answer f s c n sid u since before limit R F).
  rewrite data_of_frames by (intros e [<-|[]]; cbn; destruct (length _); exact I).
  destruct (get_all_spec s u since before limit ND) as [L [S [SND CMP]]]. cbn zeta in *.
  set (ms := ad_msg_get_all s u since before limit) in *.
  split; [rewrite map_map, map_length; cbn [fst snd]; reflexivity|].
  rewrite map_length. split; [exact L|]. split.
  - clear -S. induction S as [|m l S IH F]; cbn; constructor; [exact IH|].
    apply Forall_forall. intros e He. apply in_map_iff in He. destruct He as [m' [<- Hm']].
    rewrite Forall_forall in F. apply F in Hm'. exact Hm'.
  - split.
    + intros x a ct Hin. apply in_map_iff in Hin. destruct Hin as [m [E Hm]]. inv E.
      destruct (SND m Hm) as [H1 H2]. apply (shown_to_visible s u since before m ND H1). exact H2.
    + intros x a ct W V. destruct (visible_row s u x a ct V) as [m [Hm [E1 [E2 E3]]]]. subst.
      assert (shown_to s u since before m = true) as Sh by (apply (shown_to_visible s u since before m ND Hm); auto).
      destruct (CMP m Hm Sh) as [H|[H1 H2]].
      * left. apply in_map_iff. exists m. auto.
      * right. split; [exact H1|]. intros e He. apply in_map_iff in He. destruct He as [m' [<- Hm']]. cbn. apply H2. exact Hm'.
Qed.

Lemma get_data_no_read f s c n sid u since before limit :
  is_reader (user_mode c u) = false ->
  h_out (get_data f s c n sid u since before limit) = [(sid, Ctrl 204 [(P_what, 1)])].
Proof. intros R. unfold get_data. rewrite R. reflexivity. Qed.

(* ------------------------------------------------------------------ *)
(* 5b. the deletion log and {get del}                                   *)

(* every log row is a non-empty range of non-negative ids of a non-negative transaction *)
Definition row_wf (d : delrow) : Prop := 0 <= d_low d < d_hi d /\ 0 <= d_delid d.
Definition dellog_wf (s : store) : Prop := Forall row_wf (dellog s) /\ 0 <= t_delid s.
Definition log_inv (s : store) (c : cache) : Prop := dellog_wf s /\ 0 <= c_delid c.

Lemma dellog_wf_hsame s s' : hsame s s' -> dellog_wf s -> dellog_wf s'.
Proof. intros [_ [E1 E2]] H. unfold dellog_wf. now rewrite E1, E2. Qed.
Lemma dellog_wf_unsub u s s' : unsub_rows u s s' -> dellog_wf s -> dellog_wf s'.
Proof.
  intros [_ [E2 E]] [H H0]. unfold dellog_wf in *. rewrite E, E2. split; [|exact H0]. apply Forall_forall. intros d Hd.
  apply filter_In in Hd. rewrite Forall_forall in H. apply H. tauto.
Qed.

Definition range_wf (r : Z * Z) : Prop := 0 <= fst r /\ (snd r = 0 \/ fst r < snd r).

Lemma dellog_wf_delete_list s d fu rs : 0 <= d -> Forall range_wf rs -> dellog_wf s -> dellog_wf (ad_msg_delete_list s d fu rs).
Proof.
  intros Hd HR [H H0]. unfold dellog_wf, ad_msg_delete_list in *.
  assert (Forall row_wf (dellog s ++ map (fun r => mkDel d fu (fst r) (norm_hi (fst r) (snd r))) rs)) as G.
  { apply Forall_app. split; [exact H|]. apply Forall_forall. intros x Hx. apply in_map_iff in Hx.
    destruct Hx as [r [<- Hr]]. rewrite Forall_forall in HR. destruct (HR r Hr) as [A B].
    unfold row_wf, norm_hi. cbn [d_low d_hi d_delid]. destruct (snd r =? 0) eqn:E; lia. }
  destruct (fu =? 0)%N; split; assumption.
Qed.

Section Wf.
Variable dr : Z -> list (Z * Z) -> option (list (Z * Z)).
Variable nr : list (Z * Z) -> list (Z * Z).
Variable sm : sessmap.
Hypothesis dr_wf : forall last req out, dr last req = Some out -> Forall range_wf out.

Lemma del_msg_wf f s c n sid u req hard : log_inv s c ->
  log_inv (h_st (del_msg dr f s c n sid u req hard)) (h_ca (del_msg dr f s c n sid u req hard)).
Proof.
  intros [H HC]. unfold del_msg.
  destruct (negb (is_deleter (user_mode c u)) && negb (is_reader (user_mode c u))); [split; assumption|].
  destruct (dr (c_lastid c) req) as [rs|] eqn:DR; [|split; assumption].
  pose proof (dellog_wf_delete_list s (c_delid c + 1) (if hard && is_deleter (user_mode c u) then 0%N else u) rs
                ltac:(lia) (dr_wf _ _ _ DR) H) as W.
  assert (dellog_wf (st_delid (c_delid c + 1) (ad_msg_delete_list s (c_delid c + 1) (if hard && is_deleter (user_mode c u) then 0%N else u) rs))) as W2.
  { destruct W as [W _]. split; [exact W|cbn; lia]. }
  repeat break_match; cbn [h_st h_ca]; split; try exact H; try exact W; try exact W2; try exact HC;
    try (eapply dellog_wf_hsame; [apply hsame_subs_update|]; exact W2);
    cbn [c_delid c_set_delid c_set_users]; lia.
Qed.

(* for every history, with any faults and crashes *)
Lemma run_dellog_wf h x : dellog_wf (st x) -> match ca x with Some c => 0 <= c_delid c | None => True end ->
  dellog_wf (st (fst (run dr nr sm x h))).
Proof.
  intros H HC.
  pose proof (run_minv dr nr sm dellog_wf log_inv) as M. unfold minv in M.
  assert (match ca x with Some c => log_inv (st x) c | None => dellog_wf (st x) end) as H'
    by (destruct (ca x); [split|]; assumption).
  assert (forall y, match ca y with Some c => log_inv (st y) c | None => dellog_wf (st y) end -> dellog_wf (st y)) as OUT
    by (intros y; destruct (ca y); [intros [A _]; exact A|auto]).
  apply OUT. apply M; try exact H'; clear M H' OUT H HC x h.
  - intros s H. split; [exact H|]. destruct H as [_ H]. exact H.
  - intros s c [H _]. exact H.
  - intros f s c n sid u w b [H HC]. split; [eapply dellog_wf_hsame; [apply sub_reply_h4|exact H]|].
    now rewrite (hframe_delid _ _ _ (sub_reply_frame f s c n sid u w b)).
  - intros f s c n sid u [H HC]. pose proof (leave_unsub_cases f s c n sid u) as L. cbn zeta in L.
    destruct L as [_ [LD [[_ UR]|[code [_ [_ E]]]]]]; (split; [|now rewrite LD]);
      [eapply dellog_wf_unsub; eassumption|now rewrite E].
  - intros s c sid u [H HC]. split; [exact H|]. destruct (leave_frame c sid u) as [_ [E _]]. now rewrite E.
  - intros f s c n sid u ct ne [[H H0] HC]. destruct (publish_h4 f s c n sid u ct ne) as [E1 [E2 [E3 _]]].
    split; [|now rewrite E3]. unfold dellog_wf. now rewrite E1, E2.
  - intros f s c n sid u w q [H HC]. split; [eapply dellog_wf_hsame; [apply note_h4|exact H]|].
    now rewrite (hframe_delid _ _ _ (note_frame f s c n sid u w q)).
  - intros f s c n sid u r hd H. apply del_msg_wf. exact H.
  - intros f s c n sid u t m [H HC]. split; [eapply dellog_wf_hsame; [apply set_sub_h4|exact H]|].
    now rewrite (hframe_delid _ _ _ (set_sub_frame f s c n sid u t m)).
  - intros f s c n sid u t [H HC]. pose proof (del_sub_cases f s c n sid u t) as L. cbn zeta in L.
    destruct L as [_ [LD [[_ [_ UR]]|[code [_ [_ E]]]]]]; (split; [|now rewrite LD]);
      [eapply dellog_wf_unsub; eassumption|now rewrite E].
  - intros f s sid u t m H. eapply dellog_wf_hsame; [apply offline_set_sub_hsame|exact H].
  - intros f s c sid u t m [H HC]. split; [|exact HC]. eapply dellog_wf_hsame; [apply offline_set_sub_hsame|exact H].
Qed.
End Wf.

Lemma insert_del_perm d l : Permutation (insert_del d l) (d :: l).
Proof.
  induction l as [|x l IH]; cbn; [apply Permutation_refl|].
  destruct (d_delid d <? d_delid x); [apply Permutation_refl|].
  eapply Permutation_trans; [apply perm_skip; exact IH|apply perm_swap].
Qed.
Lemma sort_del_perm l : Permutation (sort_del l) l.
Proof.
  unfold sort_del.
  assert (forall acc, Permutation (fold_left (fun acc d => insert_del d acc) l acc) (l ++ acc)) as G.
  { induction l as [|x l IH]; intros acc; cbn; [apply Permutation_refl|].
    eapply Permutation_trans; [apply IH|].
    eapply Permutation_trans; [apply Permutation_app_head; apply insert_del_perm|].
    apply Permutation_sym. apply Permutation_middle. }
  specialize (G []). now rewrite app_nil_r in G.
Qed.
Lemma existsb_perm {A} (p : A -> bool) l l' : Permutation l l' -> existsb p l = existsb p l'.
Proof.
  induction 1; cbn; try congruence.
  - destruct (p x), (p y); reflexivity.
Qed.

(* the rows MessageGetDeleted selects for user u: written for everyone or for u, transaction
   number in [since, before) (since <= 0: from the first; before <= 1: to the last) *)
Definition del_sel (u : N) (since before : Z) (d : delrow) : bool :=
  ((d_for d =? 0)%N || N.eqb (d_for d) u) && ((if 0 <? since then since else 0) <=? d_delid d) &&
  (if 1 <? before then d_delid d <? before else true).

Lemma get_deleted_filter s u since before limit :
  ad_msg_get_deleted s u since before limit =
  firstn (Z.to_nat (eff_limit max_results limit)) (sort_del (filter (del_sel u since before) (dellog s))).
Proof.
  unfold ad_msg_get_deleted. f_equal. f_equal. apply filter_ext. intros d. unfold del_sel.
  destruct ((d_for d =? 0)%N || N.eqb (d_for d) u); cbn [andb]; [|reflexivity].
  destruct ((if 0 <? since then since else 0) <=? d_delid d); cbn [andb]; [|reflexivity].
  destruct (1 <? before); [|reflexivity]. replace (d_delid d <=? before - 1) with (d_delid d <? before) by lia. reflexivity.
Qed.

(* ids named by the selected transactions *)
Definition logged_sel (s : store) (u : N) (since before : Z) (x : Z) : bool :=
  existsb (fun d => del_sel u since before d && in_range x (d_low d) (d_hi d)) (dellog s).

(* an unrestricted query selects everything deleted for the user *)
Lemma logged_sel_open s u since before x : dellog_wf s -> since <= 0 -> before <= 1 ->
  logged_sel s u since before x = hs_deleted_for (abs s) u x.
Proof.
  intros [W _] H1 H2. unfold logged_sel, hs_deleted_for, abs, logged_for. cbn [hs_soft hs_hard].
  induction (dellog s) as [|d l IH]; cbn; [reflexivity|].
  inversion W as [|? ? [_ WD] W']; subst. rewrite (IH W'). unfold del_sel.
  replace (0 <? since) with false by lia. replace (1 <? before) with false by lia.
  replace (0 <=? d_delid d) with true by lia.
  destruct (d_for d =? 0)%N eqn:E0, (N.eqb (d_for d) u) eqn:Eu, (in_range x (d_low d) (d_hi d)); cbn;
    try reflexivity; rewrite ?orb_true_r; try reflexivity;
    destruct (existsb _ l); try reflexivity; destruct (existsb _ l); reflexivity.
Qed.

Lemma get_deleted_rows s u since before limit :
  let rows := ad_msg_get_deleted s u since before limit in
  let lim := Z.to_nat (eff_limit max_results limit) in
  (length rows <= lim)%nat /\
  (forall d, In d rows -> In d (dellog s) /\ del_sel u since before d = true) /\
  ((length (filter (del_sel u since before) (dellog s)) <= lim)%nat ->
   forall x, existsb (fun d => in_range x (d_low d) (d_hi d)) rows = logged_sel s u since before x).
Proof.
  cbn zeta. rewrite get_deleted_filter. split; [apply firstn_le_length|]. split.
  - intros d Hd. apply firstn_In in Hd. apply (Permutation_in _ (sort_del_perm _)) in Hd.
    apply filter_In in Hd. exact Hd.
  - intros L x. rewrite firstn_all2.
    + rewrite (existsb_perm _ _ _ (sort_del_perm _)). rewrite existsb_filter. reflexivity.
    + rewrite (Permutation_length (sort_del_perm _)). exact L.
Qed.

Lemma fold_max_spec l : forall acc,
  let r := fold_left (fun a d => Z.max a (d_delid d)) l acc in
  acc <= r /\ (forall d, In d l -> d_delid d <= r) /\ (r = acc \/ exists d, In d l /\ d_delid d = r).
Proof.
  induction l as [|y l IH]; intros acc; cbn [fold_left]; cbn zeta.
  - split; [lia|]. split; [intros d []|now left].
  - destruct (IH (Z.max acc (d_delid y))) as [A [B C]]. cbn zeta in *. split; [lia|]. split.
    + intros d [<-|Hd]; [lia|auto].
    + destruct C as [C|[d [Hd C]]]; [|right; exists d; split; [now right|exact C]].
      destruct (Z.max_spec acc (d_delid y)) as [[_ E]|[_ E]]; rewrite E in *.
      * right. exists y. split; [now left|now symmetry].
      * now left.
Qed.

(* a log row as it is reported: MessageGetDeleted turns hi <= low+1 into hi = 0 *)
Definition row_range (d : delrow) : Z * Z := (d_low d, if d_hi d <=? d_low d + 1 then 0 else d_hi d).
Lemma row_range_wf d : row_wf d -> range_wf (row_range d).
Proof. intros [H _]. unfold range_wf, row_range. cbn [fst snd]. destruct (d_hi d <=? d_low d + 1) eqn:E; lia. Qed.
Lemma row_range_covers d x : row_wf d ->
  in_range x (fst (row_range d)) (norm_hi (fst (row_range d)) (snd (row_range d))) = in_range x (d_low d) (d_hi d).
Proof.
  intros [H _]. unfold row_range, norm_hi, in_range. cbn [fst snd].
  destruct (d_hi d <=? d_low d + 1) eqn:E; cbn [Z.eqb].
  - assert (d_hi d = d_low d + 1) as -> by lia. reflexivity.
  - replace (d_hi d =? 0) with false by lia. reflexivity.
Qed.

Section GetDel.
Variable nr : list (Z * Z) -> list (Z * Z).
(* sort + Normalize cover exactly the ids of their input (layer 1: Ranges.normalize_exact
   for the instance of TopicInst.v) *)
Hypothesis nr_exact : forall rs, Forall range_wf rs -> forall x, covers (nr rs) x = covers rs x.

Lemma get_del_exact f s c n sid u since before limit :
  dellog_wf s -> is_reader (user_mode c u) = true -> fails f (S n) = false ->
  let rows := ad_msg_get_deleted s u since before limit in
  let o := h_out (get_del nr f s c n sid u since before limit) in
  (rows = [] /\ o = [(sid, Ctrl 204 [(P_what, 3)])]) \/
  (exists maxid rs, o = [(sid, MetaDel maxid rs)] /\
     (forall d, In d rows -> d_delid d <= maxid) /\ (exists d, In d rows /\ d_delid d = maxid) /\
     (forall x, covers rs x = existsb (fun d => in_range x (d_low d) (d_hi d)) rows)).
Proof.
  intros [W _] R F. cbn zeta. unfold get_del, call. rewrite R, F. cbn [negb].
  destruct (get_deleted_rows s u since before limit) as [_ [RW _]]. cbn zeta in RW.
  destruct (ad_msg_get_deleted s u since before limit) as [|d0 rows] eqn:E; [left; split; reflexivity|right].
  set (l := d0 :: rows) in *.
  assert (Forall row_wf l) as WL.
  { apply Forall_forall. intros d Hd. rewrite Forall_forall in W. apply W. apply RW. exact Hd. }
  eexists. eexists. split; [reflexivity|].
  destruct (fold_max_spec l 0) as [A [B C]]. cbn zeta in *. split; [exact B|]. split.
  - destruct C as [C|C]; [|exact C]. exists d0. split; [now left|].
    specialize (B d0 (or_introl eq_refl)). rewrite Forall_forall in WL. destruct (WL d0 (or_introl eq_refl)) as [_ G].
    fold l. lia.
  - intros x. rewrite nr_exact.
    + unfold covers. rewrite existsb_map. apply existsb_ext_in. intros d Hd. fold (row_range d).
      apply row_range_covers. rewrite Forall_forall in WL. apply WL. exact Hd.
    + apply Forall_forall. intros r Hr. apply in_map_iff in Hr. destruct Hr as [d [<- Hd]]. fold (row_range d).
      apply row_range_wf. rewrite Forall_forall in WL. apply WL. exact Hd.
Qed.

Lemma get_del_no_read f s c n sid u since before limit :
  is_reader (user_mode c u) = false ->
  h_out (get_del nr f s c n sid u since before limit) = [(sid, Ctrl 204 [(P_what, 3)])].
Proof. intros R. unfold get_del. rewrite R. reflexivity. Qed.
End GetDel.
