(* C05 layer 2: the permission-change notification path of a group topic and the
   parties that track permissions from it.

   Model of
     server/topic.go    Topic.notifySubChange (the acs parameters dWant/dGiven, the
                        unsub flag, who is told: presSubsOnline to sharers attached to
                        the topic, presSubsOnlineDirect to the target's own sessions in
                        the topic, presSingleUserOffline to the target's sessions on
                        'me'), passesPresenceFilters, broadcastToSessions (ordinary and
                        multiplexing sessions), evictUser
     server/pres.go     presParams.packAcs
     server/topic_proxy.go  proxyMasterResponse's guard + updateAcsFromPresMsg
   on top of the AccessMode algebra of Pure/Acs.v.

   Definitions only; the proofs are in Sys/AcsNotifyProofs.v. *)
From Coq Require Import NArith List Bool.
From Tinode Require Import Pure.Acs.
Import ListNotations.
Open Scope N_scope.

(* ------------------------------------------------------------------ *)
(* association lists keyed by N (Go maps)                               *)
Section Assoc.
  Context {A : Type}.
  Fixpoint lk (k : N) (l : list (N * A)) : option A :=
    match l with
    | [] => None
    | (k', v) :: r => if k =? k' then Some v else lk k r
    end.
  Fixpoint put (k : N) (v : A) (l : list (N * A)) : list (N * A) :=
    match l with
    | [] => [(k, v)]
    | (k', v') :: r => if k =? k' then (k, v) :: r else (k', v') :: put k v r
    end.
  Definition drop (k : N) (l : list (N * A)) : list (N * A) :=
    filter (fun e => negb (fst e =? k)) l.
End Assoc.

(* ------------------------------------------------------------------ *)
(* notifySubChange: parameters of the {pres what="acs"} notification    *)

Definition ModeCSharer : N := 176.   (* ModeApprove | ModeShare | ModeOwner *)

(* unsub := newWant == ModeUnset || newGiven == ModeUnset *)
Definition ns_unsub (nw ng : N) : bool := (nw =? ModeUnset) || (ng =? ModeUnset).

(* dWant from (oldWant, newWant), dGiven from (oldGiven, newGiven):
     d := ModeNone.String()
     if new.IsDefined() { if old.IsDefined() && !old.IsZero() { d = old.Delta(new) } else { d = new.String() } } *)
Definition dacs := (list N * list N)%type.
Definition notify_params (ow og nw ng : N) : dacs :=
  (notify_string ow nw, notify_string og ng).

(* presParams.packAcs: no acs payload at all when both strings are empty *)
Definition pack_acs (d : dacs) : option dacs :=
  match d with
  | ([], []) => None
  | _ => Some d
  end.

(* ------------------------------------------------------------------ *)
(* trackers                                                             *)

Definition modes := (N * N)%type.           (* (want, given) *)
Definition blank : modes := (0, 0).          (* zero perUserData *)

(* updateAcsFromPresMsg on the entry it read: want first, then given; any error
   returns before the entry is stored.  None = nothing stored. *)
Definition follow_opt (cur : modes) (d : dacs) : option modes :=
  let '(w, okw) := apply_mutation (fst cur) (fst d) in
  if negb okw then None else
  let '(g, okg) := apply_mutation (snd cur) (snd d) in
  if negb okg then None else Some (w, g).

(* a client session tracking its own subscription: same mutation, keeps its value on error;
   a notification without acs payload changes nothing *)
Definition follow (cur : modes) (a : option dacs) : modes :=
  match a with
  | None => cur
  | Some d => match follow_opt cur d with Some m => m | None => cur end
  end.

(* a session that learns the full modes from a {ctrl params.acs} / {meta desc.acs}:
   the strings are MarshalText of the modes, read back with UnmarshalText *)
Definition snap (cur : modes) (w g : N) : modes :=
  (fst (unmarshal_text (fst cur) (mode_string w)), fst (unmarshal_text (snd cur) (mode_string g))).

(* proxyMasterResponse + updateAcsFromPresMsg on the proxy topic's perUser table:
   src = 0 stands for a Src that is not a user id (the direct notification carries
   no Src); a missing entry reads as the zero value. *)
Definition tbl := list (N * modes).
Definition tget (t : tbl) (u : N) : modes := match lk u t with Some m => m | None => blank end.
Definition proxy_pres (t : tbl) (src : N) (a : option dacs) : tbl :=
  match a with
  | None => t
  | Some d =>
    if src =? 0 then t else
    match follow_opt (tget t src) d with
    | Some m => put src m t
    | None => t
    end
  end.

(* ------------------------------------------------------------------ *)
(* who is told                                                          *)

(* a session known to the topic's user: (sid, (uid, attached to the topic?)); a session
   that is not attached to the topic is attached to the user's 'me' topic only *)
Definition sessions := list (N * (N * bool)).

Definition user_of (ss : sessions) (sid : N) : option N :=
  match lk sid ss with Some (u, _) => Some u | None => None end.

(* presSubsOnlineDirect(singleUser = target, skip): the target's sessions attached to
   the topic; not called for an unsubscribe *)
Definition direct_rcpt (ss : sessions) (target skip : N) (unsub : bool) : list N :=
  if unsub then [] else
  map fst (filter (fun e => snd (snd e) && (fst (snd e) =? target) && negb (fst e =? skip)) ss).

(* presSingleUserOffline(offlineOnly): the target's sessions on 'me' that are not attached
   to the topic (SkipTopic); not called for an unsubscribe *)
Definition me_rcpt (ss : sessions) (target skip : N) (unsub : bool) : list N :=
  if unsub then [] else
  map fst (filter (fun e => negb (snd (snd e)) && (fst (snd e) =? target) && negb (fst e =? skip)) ss).

(* presSubsOnline(filterIn = ModeCSharer, excludeUser = target, skip) as filtered by
   broadcastToSessions / passesPresenceFilters for ordinary sessions: attached sessions of
   other users whose effective mode has one of A, S, O *)
Definition bcast_rcpt (ss : sessions) (t : tbl) (target skip : N) : list N :=
  map fst (filter (fun e =>
    snd (snd e) && negb (fst (snd e) =? target) && negb (fst e =? skip) &&
    negb (N.land (effective (fst (tget t (fst (snd e)))) (snd (tget t (fst (snd e))))) ModeCSharer =? 0)) ss).

Definition mem (x : N) (l : list N) : bool := existsb (N.eqb x) l.

(* ------------------------------------------------------------------ *)
(* the notification system: authoritative table, trackers               *)

Record nsys := mkSys {
  auth : tbl;                    (* Topic.perUser of the master topic *)
  sess : sessions;               (* tracking sessions *)
  fol : list (N * modes);        (* what each tracking session holds for its own subscription *)
  prox : tbl                     (* perUser of a proxy of the topic *) }.

Inductive nop :=
| NAttach (sid uid : N) (in_topic : bool)    (* the session attaches and reads the modes from {ctrl}/{meta} *)
| NDetach (sid : N)
| NChange (skip target nw ng : N).           (* notifySubChange(target, .., old = perUser[target], new = (nw, ng), skip) *)

(* perUser entry as notifySubChange's callers read it: a missing entry is ModeUnset/ModeUnset
   (anotherUserSub; thisUserSub passes ModeNone: same strings, see [notify_string]) *)
Definition aget (t : tbl) (u : N) : modes := match lk u t with Some m => m | None => (ModeUnset, ModeUnset) end.

Definition nstep (s : nsys) (o : nop) : nsys :=
  match o with
  | NAttach sid uid it =>
    let '(w, g) := aget (auth s) uid in
    mkSys (auth s) (put sid (uid, it) (sess s)) (put sid (snap blank w g) (fol s)) (prox s)
  | NDetach sid => mkSys (auth s) (drop sid (sess s)) (fol s) (prox s)
  | NChange skip target nw ng =>
    let '(ow, og) := aget (auth s) target in
    let unsub := ns_unsub nw ng in
    let a := pack_acs (notify_params ow og nw ng) in
    let dr := direct_rcpt (sess s) target skip unsub in
    let mr := me_rcpt (sess s) target skip unsub in
    (* the multiplexing session gets the direct notification (no Src) and the broadcast (Src = target) *)
    let prox1 := if unsub then prox s else proxy_pres (prox s) 0 a in
    let prox2 := proxy_pres prox1 target a in
    if unsub then
      (* evictUser(unsub): the entry goes, the target's sessions are detached from the topic;
         the target's sessions on 'me' are told "gone" *)
      mkSys (drop target (auth s))
            (filter (fun e => negb (snd (snd e) && (fst (snd e) =? target))) (sess s))
            (map (fun e => (fst e,
                    if match lk (fst e) (sess s) with
                       | Some (u, it) => (u =? target) && negb it && negb (fst e =? skip)
                       | None => false end
                    then blank else snd e)) (fol s))
            prox2
    else
      mkSys (put target (nw, ng) (auth s))
            (sess s)
            (map (fun e => (fst e,
                    if mem (fst e) dr || mem (fst e) mr then follow (snd e) a
                    else if (fst e =? skip) && (match user_of (sess s) (fst e) with Some u => u =? target | None => false end)
                         then snap (snd e) nw ng      (* the requester reads {ctrl params.acs} *)
                         else snd e)) (fol s))
            prox2
  end.

Definition nrun (s : nsys) (h : list nop) : nsys := fold_left nstep h s.

(* a proxy that copies the master's table, no sessions yet *)
Definition nmode (m : N) : N := if is_defined m then N.land m ModeBitmask else ModeNone.
Definition nmodes (m : modes) : modes := (nmode (fst m), nmode (snd m)).
Definition ninit (a : tbl) : nsys := mkSys a [] [] (map (fun e => (fst e, nmodes (snd e))) a).
