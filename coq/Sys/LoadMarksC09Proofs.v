(* Proofs about Sys/LoadMarksC09.v: after ANY load (every topic kind, every branch of initTopicP2P,
   any failing store call) every cached mark is the STORED mark of that same user's row;
   subscriptionReply keeps that; what {get desc} reports right after a (re)load. *)
From Coq Require Import ZArith NArith List Bool Lia.
From Tinode Require Import Base.Util Pure.Acs Sys.Topic Sys.TopicTac Sys.TopicMarks Sys.TopicCohMarks Sys.TopicLoad Sys.LoadMarksC09.
Import ListNotations.
Open Scope Z_scope.

(* ------------------------------------------------------------------ *)
(* the marks of a user: in the store (live row, as SubscriptionGet finds it) and in the cache     *)
Definition smk (s : store) (u : N) : option (Z * Z * Z) :=
  match find_sub u (subs s) with
  | Some r => if s_deleted r then None else Some (s_read r, s_recv r, s_delid r)
  | None => None
  end.
Definition kmk (c : kcache) (u : N) : option (Z * Z * Z) :=
  match alookup u (k_users c) with
  | Some p => if kp_deleted p then None else Some (kp_read p, kp_recv p, kp_delid p)
  | None => None
  end.
(* every live cache entry carries exactly the marks of its user's live stored row *)
Definition keq (s : store) (c : kcache) : Prop := forall u m, kmk c u = Some m -> smk s u = Some m.

(* a P2P topic has rows of its two parties only (the topic name is made of the two user ids) *)
Definition p2p_parties (s : store) (u1 u2 : N) : Prop := forall r, In r (subs s) -> s_user r = u1 \/ s_user r = u2.

(* ------------------------------------------------------------------ *)
(* store primitives and smk                                             *)
Lemma owner_subs u w g s1 : subs (if is_owner (N.land w g) then st_owner u s1 else s1) = subs s1.
Proof. break_match; reflexivity. Qed.

Lemma smk_sub_create s u w g u0 : smk (ad_sub_create s u w g) u0 = if N.eqb u0 u then Some (0, 0, 0) else smk s u0.
Proof.
  unfold smk, ad_sub_create. rewrite owner_subs. destruct (find_sub u (subs s)) eqn:F; cbn [subs st_subs].
  - rewrite find_sub_upd by reflexivity. destruct (N.eqb u0 u) eqn:E0; [|reflexivity].
    apply N.eqb_eq in E0. subst u0. rewrite F. reflexivity.
  - rewrite find_sub_app. cbn [s_user]. destruct (N.eqb u0 u) eqn:E0.
    + apply N.eqb_eq in E0. subst u0. rewrite F, N.eqb_refl. reflexivity.
    + rewrite (N.eqb_sym u u0), E0. destruct (find_sub u0 (subs s)); reflexivity.
Qed.
Lemma smk_update_nomarks s u w g u0 : smk (ad_subs_update s u (mkUpd w g None None None)) u0 = smk s u0.
Proof.
  unfold smk, ad_subs_update. destruct (u =? 0)%N; cbn [subs st_subs].
  - rewrite find_sub_map by reflexivity. destruct (find_sub u0 (subs s)); reflexivity.
  - rewrite find_sub_upd by (intros r Hr; exact Hr). destruct (N.eqb u0 u); destruct (find_sub u0 (subs s)); reflexivity.
Qed.
Lemma smk_p2p_row s u : t_exists s = false -> subs s = [] -> smk (p2p_row s) u = None.
Proof. intros _ E. unfold smk, p2p_row. cbn [subs]. rewrite E. reflexivity. Qed.

(* ------------------------------------------------------------------ *)
(* rows selected by a query                                             *)
Lemma find_sub_in u l r : NoDup (map s_user l) -> In r l -> s_user r = u -> find_sub u l = Some r.
Proof.
  unfold find_sub. induction l as [|a l IH]; cbn; intros ND Hin E; [contradiction|].
  inversion ND as [|? ? Hn ND']; subst. destruct Hin as [->|Hin].
  - rewrite N.eqb_refl. reflexivity.
  - destruct (N.eqb (s_user a) (s_user r)) eqn:E2.
    + apply N.eqb_eq in E2. exfalso. apply Hn. rewrite E2. apply in_map. exact Hin.
    + apply IH; auto.
Qed.
Lemma users_filter (P : subrow -> bool) l : NoDup (map s_user l) -> NoDup (map s_user (filter P l)).
Proof.
  induction l as [|a l IH]; cbn; intros ND; [constructor|]. inversion ND as [|? ? Hn ND']; subst.
  destruct (P a); cbn; [constructor|]; auto.
  intros Hin. apply Hn. apply in_map_iff in Hin. destruct Hin as [r [E Hr]]. apply filter_In in Hr.
  rewrite <- E. apply in_map. tauto.
Qed.
Lemma find_sub_filter (P : subrow -> bool) u l r :
  NoDup (map s_user l) -> find_sub u (filter P l) = Some r -> find_sub u l = Some r /\ P r = true.
Proof.
  intros ND H. pose proof (find_sub_user _ _ _ H) as E. unfold find_sub in H. apply find_some in H.
  destruct H as [Hin _]. apply filter_In in Hin. destruct Hin as [Hin HP]. split; [|exact HP].
  apply find_sub_in; auto.
Qed.

(* loadSubscribers / case 4: the entry of u is built from u's own row *)
Lemma kload_users_lookup u0 rows : NoDup (map s_user rows) -> forall acc,
  alookup u0 (fold_left (fun acc r => aset (s_user r) (kp_of_row r) acc) rows acc) =
  match find_sub u0 rows with Some r => Some (kp_of_row r) | None => alookup u0 acc end.
Proof.
  unfold find_sub. induction rows as [|a rows IH]; intros ND acc; cbn; [reflexivity|].
  inversion ND as [|? ? Hn ND']; subst. rewrite (IH ND'). destruct (N.eqb (s_user a) u0) eqn:E.
  - apply N.eqb_eq in E. subst u0.
    assert (find (fun r => N.eqb (s_user r) (s_user a)) rows = None) as F.
    { destruct (find (fun r => N.eqb (s_user r) (s_user a)) rows) eqn:F; [|reflexivity].
      apply find_some in F. destruct F as [Hin E]. apply N.eqb_eq in E. exfalso. apply Hn. rewrite <- E. apply in_map. exact Hin. }
    rewrite F, alookup_aset, N.eqb_refl. reflexivity.
  - destruct (find (fun r => N.eqb (s_user r) u0) rows); [reflexivity|].
    rewrite alookup_aset, (N.eqb_sym u0), E. reflexivity.
Qed.

Lemma kload_users_keq (P : subrow -> bool) s lastid delid :
  und s -> (forall r, P r = true -> s_deleted r = false) ->
  keq s (mkKC lastid delid (kload_users (filter P (subs s))) []).
Proof.
  intros U HP u m. unfold kmk, kload_users. cbn [k_users].
  rewrite kload_users_lookup by (apply users_filter; exact U). cbn [alookup].
  destruct (find_sub u (filter P (subs s))) as [r|] eqn:F; [|discriminate].
  apply find_sub_filter in F; [|exact U]. destruct F as [F PR]. cbn [kp_of_row kp_deleted kp_read kp_recv kp_delid].
  intros H. inv H. unfold smk. rewrite F, (HP r PR). reflexivity.
Qed.

(* ------------------------------------------------------------------ *)
(* the loaders                                                          *)
Lemma live_rows_keq s lastid delid : und s -> keq s (mkKC lastid delid (kload_users (live_rows s)) []).
Proof.
  intros U. apply kload_users_keq; [exact U|]. intros r H. now apply negb_true_iff in H.
Qed.

Lemma kinit_grp_keq f s n s' c n' ns : und s -> kinit_grp f s n = KOk s' c n' ns -> s' = s /\ keq s c.
Proof.
  unfold kinit_grp. intros U H. repeat (break_match_hyp; try discriminate); inv H.
  split; [reflexivity|]. now apply live_rows_keq.
Qed.
Lemma kinit_me_fnd_keq f s n s' c n' ns : und s -> kinit_me_fnd f s n = KOk s' c n' ns -> s' = s /\ keq s c.
Proof.
  unfold kinit_me_fnd. intros U H. repeat (break_match_hyp; try discriminate); inv H.
  split; [reflexivity|]. now apply live_rows_keq.
Qed.

(* the two-entry table of cases 1 and 2 *)
Lemma kmk_two u1 u2 v1 v2 lastid delid u :
  kmk (mkKC lastid delid [(u1, v1); (u2, v2)] []) u =
  if N.eqb u u1 then (if kp_deleted v1 then None else Some (kp_read v1, kp_recv v1, kp_delid v1))
  else if N.eqb u u2 then (if kp_deleted v2 then None else Some (kp_read v2, kp_recv v2, kp_delid v2)) else None.
Proof. unfold kmk. cbn [k_users alookup]. destruct (N.eqb u u1); [reflexivity|]. destruct (N.eqb u u2); reflexivity. Qed.

Lemma p2p_rows_in s r : In r (p2p_rows s) -> In r (subs s) /\ s_deleted r = false.
Proof. unfold p2p_rows. intros H. apply filter_In in H. destruct H as [H1 H2]. apply andb_true_iff in H2. destruct H2 as [H2 _]. apply negb_true_iff in H2. auto. Qed.

Lemma smk_of_row s r : und s -> In r (subs s) -> s_deleted r = false -> smk s (s_user r) = Some (s_read r, s_recv r, s_delid r).
Proof. intros U Hin D. unfold smk. rewrite (find_sub_in (s_user r) (subs s) r U Hin eq_refl), D. reflexivity. Qed.

(* initTopicP2P, every branch *)
Lemma kinit_p2p_keq_gen f s n u1 u2 s' c n' ns :
  und s -> (alookup u2 (users s) <> None -> p2p_parties s u1 u2) -> (t_exists s = false -> subs s = []) ->
  kinit_p2p f s n u1 u2 = KOk s' c n' ns -> keq s' c.
Proof.
  intros U PP0 NE H. unfold kinit_p2p in H.
  destruct (call f n) as [ok1 n1]. destruct (negb ok1); [discriminate|].
  destruct (t_exists s) eqn:EX.
  - (* the topic exists *)
    destruct (call f n1) as [ok2 n2]. destruct (negb ok2); [discriminate|]. cbn [andb] in H.
    destruct (length (p2p_rows s) =? 0)%nat eqn:L0; [discriminate|].
    destruct (length (p2p_rows s) =? 2)%nat eqn:L2.
    + (* case 4 *) inv H. unfold p2p_rows. apply kload_users_keq; [exact U|].
      intros r Hr. apply andb_true_iff in Hr. destruct Hr as [Hr _]. now apply negb_true_iff in Hr.
    + destruct (call f n2) as [ok3 n3]. destruct (negb ok3); [discriminate|].
      destruct (N.eqb u1 u2) eqn:NEQ; [discriminate|].
      destruct (alookup u1 (users s)) as [acc1|]; [|discriminate].
      destruct (alookup u2 (users s)) as [acc2|]; [|discriminate].
      assert (p2p_parties s u1 u2) as PP by (apply PP0; discriminate).
      destruct (p2p_rows s) as [|r [|r2 [|r3 rest]]] eqn:RS; cbn in L0, L2; try discriminate.
      * (* exactly one subscription *)
        assert (In r (p2p_rows s)) as Hin by (rewrite RS; now left).
        apply p2p_rows_in in Hin. destruct Hin as [Hin D].
        destruct (N.eqb (s_user r) u1) eqn:E1.
        -- (* the requester's row exists; the other party's is recreated *)
           destruct (call f n3) as [ok4 n4]. destruct (negb ok4); [discriminate|]. inv H.
           intros u m. rewrite (N.eqb_sym u2 u1), NEQ, kmk_two, smk_sub_create. cbn [kp_of_sub kp_deleted kp_read kp_recv kp_delid].
           destruct (N.eqb u u1) eqn:E.
           ++ apply N.eqb_eq in E. subst u. apply N.eqb_eq in E1. rewrite NEQ, <- E1. intros H. injection H as <-. now apply smk_of_row.
           ++ destruct (N.eqb u u2); [auto|discriminate].
        -- (* the other party's row exists; the requester's is recreated *)
           destruct (call f n3) as [ok4 n4]. destruct (negb ok4); [discriminate|]. inv H.
           assert (s_user r = u2) as E2.
           { destruct (PP r Hin) as [E|E]; [|exact E]. rewrite E, N.eqb_refl in E1. discriminate. }
           intros u m. rewrite (N.eqb_sym u2 u1), NEQ, kmk_two, smk_sub_create. cbn [kp_of_sub kp_deleted kp_read kp_recv kp_delid].
           destruct (N.eqb u u1) eqn:E; [auto|]. destruct (N.eqb u u2) eqn:E3; [|discriminate].
           apply N.eqb_eq in E3. subst u. rewrite <- E2. intros H. injection H as <-. now apply smk_of_row.
      * (* three or more live rows of two parties with one row per user: impossible *)
        exfalso.
        assert (In r (p2p_rows s) /\ In r2 (p2p_rows s) /\ In r3 (p2p_rows s)) as [I1 [I2 I3]]
          by (rewrite RS; cbn [In]; tauto).
        pose proof (users_filter (fun r => negb (s_deleted r) && known s (s_user r)) (subs s) U) as ND.
        fold (p2p_rows s) in ND. rewrite RS in ND. cbn [map] in ND.
        inversion ND as [|? ? N1 ND1]; subst. inversion ND1 as [|? ? N2 ND2]; subst. cbn in N1, N2.
        apply p2p_rows_in in I1, I2, I3.
        destruct (PP r (proj1 I1)), (PP r2 (proj1 I2)), (PP r3 (proj1 I3)); intuition congruence.
  - (* new topic: both subscriptions are created *)
    cbn [andb] in H. destruct (call f n1) as [ok3 n3]. destruct (negb ok3); [discriminate|].
    destruct (N.eqb u1 u2) eqn:NEQ; [discriminate|].
    destruct (alookup u1 (users s)) as [acc1|]; [|discriminate].
    destruct (alookup u2 (users s)) as [acc2|]; [|discriminate].
    destruct (call f n3) as [ok4 n4]. destruct (negb ok4); [discriminate|]. inv H.
    intros u m. rewrite (N.eqb_sym u2 u1), NEQ, kmk_two, !smk_sub_create. cbn [kp_of_sub kp_deleted kp_read kp_recv kp_delid].
    destruct (N.eqb u u2); [destruct (N.eqb u u1); auto|]. destruct (N.eqb u u1); [auto|discriminate].
Qed.

Lemma kinit_p2p_keq f s n u1 u2 s' c n' ns :
  und s -> p2p_parties s u1 u2 -> (t_exists s = false -> subs s = []) ->
  kinit_p2p f s n u1 u2 = KOk s' c n' ns -> keq s' c.
Proof. intros U PP. apply kinit_p2p_keq_gen; auto. Qed.

(* AFTER ANY LOAD every cached mark (read, recv, delID) is the stored mark of that same user's row
   (0 for a row the load has just created): every topic kind, every branch, any failing store call *)
Lemma kinit_topic_keq k f s n u1 u2 s' c n' ns :
  und s -> (k = KP2P -> p2p_parties s u1 u2 /\ (t_exists s = false -> subs s = [])) ->
  kinit_topic k f s n u1 u2 = KOk s' c n' ns -> keq s' c.
Proof.
  intros U HP H. destruct k; cbn [kinit_topic] in H.
  - apply kinit_me_fnd_keq in H; [|exact U]. destruct H as [-> H]. exact H.
  - apply kinit_me_fnd_keq in H; [|exact U]. destruct H as [-> H]. exact H.
  - destruct (HP eq_refl) as [PP NE]. eapply kinit_p2p_keq; eauto.
  - apply kinit_grp_keq in H; [|exact U]. destruct H as [-> H]. exact H.
  - apply kinit_grp_keq in H; [|exact U]. destruct H as [-> H]. exact H.
Qed.

(* no entry is marked deleted right after a load *)
Lemma kload_users_live u rows p : alookup u (kload_users rows) = Some p -> kp_deleted p = false.
Proof.
  unfold kload_users.
  assert (forall acc, (forall u p, alookup u acc = Some p -> kp_deleted p = false) ->
            alookup u (fold_left (fun acc r => aset (s_user r) (kp_of_row r) acc) rows acc) = Some p -> kp_deleted p = false) as G.
  { induction rows as [|a rows IH]; cbn; intros acc HA; [apply HA|]. apply IH. intros u0 p0. rewrite alookup_aset.
    destruct (N.eqb u0 (s_user a)); [intros H; inv H; reflexivity|apply HA]. }
  apply G. intros u0 p0. cbn. discriminate.
Qed.
Lemma kinit_topic_live k f s n u1 u2 s' c n' ns u p :
  kinit_topic k f s n u1 u2 = KOk s' c n' ns -> alookup u (k_users c) = Some p -> kp_deleted p = false.
Proof.
  intros H A.
  assert (forall f s n s' c n' ns, kinit_grp f s n = KOk s' c n' ns -> alookup u (k_users c) = Some p -> kp_deleted p = false) as G.
  { clear. intros f s n s' c n' ns H. unfold kinit_grp in H. repeat (break_match_hyp; try discriminate); inv H. cbn [k_users]. apply kload_users_live. }
  destruct k; cbn [kinit_topic] in H; eauto.
  - unfold kinit_me_fnd in H. repeat (break_match_hyp; try discriminate); inv H. cbn [k_users] in A. eapply kload_users_live; eauto.
  - unfold kinit_me_fnd in H. repeat (break_match_hyp; try discriminate); inv H. cbn [k_users] in A. eapply kload_users_live; eauto.
  - unfold kinit_p2p in H. repeat (break_match_hyp; try discriminate); inv H; cbn [k_users] in A;
      try (eapply kload_users_live; eassumption);
      repeat (cbn [alookup] in A; break_match_hyp; try discriminate); cbn [alookup] in A; try discriminate; inv A; reflexivity.
Qed.

(* ------------------------------------------------------------------ *)
(* subscriptionReply keeps it: the request that loads a topic ends with cache marks = stored marks    *)
Lemma keq_sess f0 s c : keq s c -> keq s (k_set_sess f0 c).
Proof. intros H u m. exact (H u m). Qed.
Lemma keq_evict s c u : keq s c -> keq s (k_evict c u).
Proof. apply keq_sess. Qed.
Lemma kmk_set_users c u v u0 :
  kmk (k_set_users (aset u v) c) u0 =
  if N.eqb u0 u then (if kp_deleted v then None else Some (kp_read v, kp_recv v, kp_delid v)) else kmk c u0.
Proof. unfold kmk, k_set_users. cbn [k_users]. rewrite alookup_aset. destruct (N.eqb u0 u); reflexivity. Qed.

Lemma ksub_keq k root f s c n sid u ns : keq s c -> keq (kh_st (ksub k root f s c n sid u ns)) (kh_ca (ksub k root f s c n sid u ns)).
Proof.
  intros K. unfold ksub.
  assert (forall w g, keq (ad_sub_create s u w g) (k_set_users (aset u (mkKP w g false 0 0 0)) c)) as CR.
  { intros w g u0 m. rewrite kmk_set_users, smk_sub_create. cbn [kp_deleted kp_read kp_recv kp_delid].
    destruct (N.eqb u0 u); [auto|apply K]. }
  destruct (alookup u (k_users c)) as [p|] eqn:AL.
  - destruct (kp_deleted p) eqn:D.
    + repeat (break_match; cbn [kh_st kh_ca]); unfold k_evict; repeat apply keq_sess; first [exact K | apply CR].
    + assert (forall w s1, (forall u0, smk s1 u0 = smk s u0) -> keq s1 (k_set_users (aset u (kp_set_modes w (kp_given p) p)) c)) as UP.
      { intros w s1 ES u0 m. rewrite kmk_set_users, ES. cbn [kp_set_modes kp_deleted kp_read kp_recv kp_delid]. rewrite D.
        destruct (N.eqb u0 u) eqn:E; [|apply K]. apply N.eqb_eq in E. subst u0. intros H. apply K. unfold kmk. rewrite AL, D. exact H. }
      repeat (break_match; cbn [kh_st kh_ca]); unfold k_evict; repeat apply keq_sess;
        first [exact K | apply UP; intros u0; first [reflexivity | apply smk_update_nomarks]].
  - destruct k; repeat (break_match; cbn [kh_st kh_ca]); unfold k_evict; repeat apply keq_sess; first [exact K | apply CR].
Qed.

(* ------------------------------------------------------------------ *)
(* what {get desc} reports when the cache marks are the stored ones     *)
Lemma kget_desc_reports s c n sid u p rd rc dl :
  keq s c -> alookup u (k_users c) = Some p -> kp_deleted p = false -> is_reader (kp_mode p) = true ->
  smk s u = Some (rd, rc, dl) ->
  kh_out (kget_desc s c n sid u) =
    [(sid, MetaDesc (kp_want p) (kp_given p) (k_lastid c) rd (Z.max rc rd) (Z.max dl (k_delid c)) true)].
Proof.
  intros K AL D R S. unfold kget_desc. rewrite AL, R. cbn [kh_out].
  assert (kmk c u = Some (kp_read p, kp_recv p, kp_delid p)) as M by (unfold kmk; rewrite AL, D; reflexivity).
  apply K in M. rewrite S in M. inv M. reflexivity.
Qed.

(* the whole request that loads a topic: initTopic* followed by subscriptionReply *)
Lemma load_request_keq (k : lkind) root f s n u1 u2 sid s1 c n1 ns ns' :
  und s -> (k = LP2P -> p2p_parties s u1 u2 /\ (t_exists s = false -> subs s = [])) ->
  kload k f s n u1 u2 = KOk s1 c n1 ns ->
  keq (kh_st (ksub k root f s1 c n1 sid u1 ns')) (kh_ca (ksub k root f s1 c n1 sid u1 ns')).
Proof.
  intros U HP H. apply ksub_keq. destruct k; cbn [kload] in H.
  - destruct (HP eq_refl) as [PP NE]. eapply kinit_p2p_keq; eauto.
  - apply kinit_grp_keq in H; [|exact U]. destruct H as [-> H]. exact H.
Qed.
(* a restarted process: newHub() loads 'sys' from the store *)
Lemma kboot_keq k s c : und s -> kboot k s = Some c -> keq s c.
Proof.
  intros U. unfold kboot. destruct k; [discriminate|]. destruct (kinit_sys NoFault s 0) eqn:E; [discriminate|].
  intros H. inv H. apply kinit_grp_keq in E; [|exact U]. destruct E as [-> E]. exact E.
Qed.

(* ------------------------------------------------------------------ *)
(* a note not above the sender's cached mark changes nothing and is relayed to nobody *)
Lemma knote_stale f s c n sid u what seq :
  (what = K_read /\ seq <= kp_read (kget c u)) \/ (what = K_recv /\ seq <= kp_recv (kget c u)) ->
  knote f s c n sid u what seq = mkKH s c n [].
Proof.
  intros H. unfold knote. destruct (k_lastid c <? seq); [reflexivity|].
  destruct H as [[-> H]|[-> H]]; cbn [N.eqb K_read K_recv K_kp Pos.eqb orb andb negb];
    (destruct (negb (is_reader _)); [reflexivity|]); apply Z.leb_le in H; rewrite H; reflexivity.
Qed.
(* ... hence, when the cache marks are the stored ones (after a load), a note not above the sender's STORED mark *)
Lemma knote_stale_stored f s c n sid u what seq p rd rc dl :
  keq s c -> alookup u (k_users c) = Some p -> kp_deleted p = false -> smk s u = Some (rd, rc, dl) ->
  (what = K_read /\ seq <= rd) \/ (what = K_recv /\ seq <= rc) ->
  knote f s c n sid u what seq = mkKH s c n [].
Proof.
  intros K AL D S H. apply knote_stale.
  assert (kmk c u = Some (kp_read p, kp_recv p, kp_delid p)) as M by (unfold kmk; rewrite AL, D; reflexivity).
  apply K in M. rewrite S in M. inv M. unfold kget. rewrite AL. exact H.
Qed.

(* ------------------------------------------------------------------ *)
(* forgetting the marks gives the loaders of Sys/TopicLoad.v (C01): same store calls, same branches, same errors,
   same store, same lastID / delID, same want / given of both parties *)
Definition forget_p (p : kpud) : lpud := mkLP (kp_want p) (kp_given p) (kp_deleted p).
Definition forget_e (e : N * kpud) : N * lpud := (fst e, forget_p (snd e)).
Definition forget_c (c : kcache) : lcache := mkLC (k_lastid c) (k_delid c) (map forget_e (k_users c)) (k_sess c).
Definition forget_r (r : kres) : lres :=
  match r with KErr code n => LErr code n | KOk s c n ns => LOk s (forget_c c) n ns end.

Lemma map_forget_aset k v l : map forget_e (aset k v l) = aset k (forget_p v) (map forget_e l).
Proof.
  induction l as [|[k0 v0] l IH]; cbn; [reflexivity|]. destruct (N.eqb k k0); cbn; [reflexivity|]. rewrite IH. reflexivity.
Qed.
Lemma map_forget_load rows : map forget_e (kload_users rows) = load_lusers rows.
Proof.
  unfold kload_users, load_lusers.
  assert (forall acc, map forget_e (fold_left (fun acc r => aset (s_user r) (kp_of_row r) acc) rows acc) =
                      fold_left (fun acc r => aset (s_user r) (mkLP (s_want r) (s_given r) false) acc) rows (map forget_e acc)) as G.
  { induction rows as [|a rows IH]; intros acc; cbn; [reflexivity|]. rewrite IH, map_forget_aset. reflexivity. }
  apply (G []).
Qed.
Lemma kinit_p2p_forget f s n u1 u2 : forget_r (kinit_p2p f s n u1 u2) = init_p2p f s n u1 u2.
Proof.
  unfold kinit_p2p, init_p2p.
  repeat (break_match; cbn [forget_r]; try reflexivity; try discriminate);
    unfold forget_c; cbn [k_lastid k_delid k_users k_sess];
    try (rewrite map_forget_load; reflexivity);
    rewrite map_forget_aset; reflexivity.
Qed.
Lemma kinit_sys_forget f s n : forget_r (kinit_sys f s n) = init_sys f s n.
Proof.
  unfold kinit_sys, kinit_grp, init_sys.
  repeat (break_match; cbn [forget_r]; try reflexivity; try discriminate).
  unfold forget_c; cbn [k_lastid k_delid k_users k_sess]. rewrite map_forget_load. reflexivity.
Qed.
