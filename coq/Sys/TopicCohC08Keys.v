(* C08: the cached per-user table has one entry per user (needed to compare table sizes and the
   push recipient lists of two caches that agree pointwise). *)
From Coq Require Import ZArith NArith List Bool Lia Permutation.
From Tinode Require Import Base.Util Pure.Acs Sys.Topic Sys.TopicTac Sys.TopicFrame Sys.TopicCohC08 Sys.TopicCohC08Proofs Sys.TopicCohC08Step.
Import ListNotations.
Open Scope Z_scope.

Definition keys_ok (c : cache) : Prop := NoDup (map fst (c_users c)).

Section Keys.
  Context {A : Type}.
  Lemma keys_aset (k : N) (v : A) l :
    map fst (aset k v l) = if existsb (N.eqb k) (map fst l) then map fst l else map fst l ++ [k].
  Proof.
    induction l as [|[k0 v0] l IH]; cbn; [reflexivity|].
    destruct (N.eqb_spec k k0) as [->|NE]; cbn; [reflexivity|].
    rewrite IH. destruct (existsb (N.eqb k) (map fst l)); reflexivity.
  Qed.
  Lemma nodup_aset (k : N) (v : A) l : NoDup (map fst l) -> NoDup (map fst (aset k v l)).
  Proof.
    intros ND. rewrite keys_aset. destruct (existsb (N.eqb k) (map fst l)) eqn:E; [exact ND|].
    apply NoDup_app_single; [exact ND|]. intros Hin.
    assert (existsb (N.eqb k) (map fst l) = true) as X by (apply existsb_exists; exists k; split; [exact Hin|apply N.eqb_refl]).
    congruence.
  Qed.
  Lemma in_keys_aremove (k x : N) (l : list (N * A)) : In x (map fst (aremove k l)) -> In x (map fst l).
  Proof.
    induction l as [|[k0 v0] l IH]; cbn; [tauto|].
    destruct (N.eqb k k0); cbn; [auto|]. intros [H|H]; auto.
  Qed.
  Lemma nodup_aremove (k : N) (l : list (N * A)) : NoDup (map fst l) -> NoDup (map fst (aremove k l)).
  Proof.
    induction l as [|[k0 v0] l IH]; cbn; intros ND; [constructor|].
    inversion ND as [|? ? Hx Hl]; subst.
    destruct (N.eqb k k0); cbn; [apply IH; exact Hl|].
    constructor; [|apply IH; exact Hl]. intros Hin. apply Hx. eapply in_keys_aremove; exact Hin.
  Qed.
  Lemma keys_map_snd (g : A -> A) (l : list (N * A)) : map fst (map (fun e => (fst e, g (snd e))) l) = map fst l.
  Proof. rewrite map_map. reflexivity. Qed.
  Lemma in_keys_lookup (k : N) (l : list (N * A)) : In k (map fst l) <-> alookup k l <> None.
  Proof.
    induction l as [|[k0 v0] l IH]; cbn; [tauto|].
    destruct (N.eqb_spec k k0) as [->|NE]; [split; [discriminate|auto]|].
    rewrite <- IH. split; [intros [H|H]; [congruence|exact H]|auto].
  Qed.
End Keys.

Lemma keys_load s : keys_ok (load s).
Proof.
  unfold keys_ok, load, load_users. cbn [c_users].
  assert (forall rows acc, NoDup (map fst acc) ->
            NoDup (map fst (fold_left (fun a r => if s_deleted r then a
                     else aset (s_user r) (mkPud (s_want r) (s_given r) (s_read r) (s_recv r) (s_delid r) 0) a) rows acc))) as H.
  { induction rows as [|r rows IH]; intros acc ND; cbn; [exact ND|]. apply IH. destruct (s_deleted r); [exact ND|apply nodup_aset; exact ND]. }
  apply H. constructor.
Qed.

Lemma keys_users_aset c u p : keys_ok c -> keys_ok (c_set_users (aset u p) c).
Proof. unfold keys_ok. cbn [c_users c_set_users]. apply nodup_aset. Qed.
Lemma keys_users_map c g : keys_ok c -> keys_ok (c_set_users (map (fun e => (fst e, g (snd e)))) c).
Proof. unfold keys_ok. cbn [c_users c_set_users]. rewrite keys_map_snd. auto. Qed.
Lemma keys_evict c u unsub k c' o : keys_ok c -> evict_user c u unsub k = (c', o) -> keys_ok c'.
Proof.
  unfold evict_user, keys_ok. intros K H. inv H. destruct unsub; cbn [c_users c_set_users c_set_sess].
  - apply nodup_aremove. exact K.
  - destruct (alookup u (c_users c)); cbn [c_users c_set_users c_set_sess]; [apply nodup_aset|]; exact K.
Qed.

Ltac keys_tac K :=
  cbn [h_ca fst];
  repeat match goal with H : (_, _) = (_, _) |- _ => inv H end;
  repeat first [ exact K
               | apply keys_users_aset
               | apply keys_users_map
               | (eapply keys_evict; [|eassumption])
               | (unfold keys_ok in *; cbn [c_users c_set_users c_set_sess c_set_owner c_set_lastid c_set_delid] in *; exact K) ].

Lemma keys_note f s c n sid u what seq : keys_ok c -> keys_ok (h_ca (note f s c n sid u what seq)).
Proof. intros K. unfold note. repeat break_match; keys_tac K. Qed.
Lemma keys_publish f s c n sid u content noecho : keys_ok c -> keys_ok (h_ca (publish f s c n sid u content noecho)).
Proof. intros K. unfold publish. repeat break_match; keys_tac K. Qed.
Lemma keys_del_msg dr f s c n sid u req hard : keys_ok c -> keys_ok (h_ca (del_msg dr f s c n sid u req hard)).
Proof. intros K. unfold del_msg. repeat break_match; keys_tac K. Qed.
Lemma keys_del_sub f s c n sid u t : keys_ok c -> keys_ok (h_ca (del_sub f s c n sid u t)).
Proof. intros K. unfold del_sub. repeat break_match; keys_tac K. Qed.
Lemma keys_leave_unsub f s c n sid u : keys_ok c -> keys_ok (h_ca (leave_unsub f s c n sid u)).
Proof. intros K. unfold leave_unsub. repeat break_match; keys_tac K. Qed.
Lemma keys_leave c sid u : keys_ok c -> keys_ok (fst (leave c sid u)).
Proof. intros K. unfold leave. repeat break_match; keys_tac K. Qed.
Lemma keys_aus f s c n sid u t m : keys_ok c -> keys_ok (h_ca (fst (another_user_sub f s c n sid u t m))).
Proof. intros K. unfold another_user_sub. repeat break_match; keys_tac K. Qed.
Lemma keys_tus f s c n sid u want nb : keys_ok c -> keys_ok (h_ca (fst (this_user_sub f s c n sid u want nb))).
Proof.
  intros K. rewrite tus_unfold.
  destruct (match want with [] => (ModeUnset, true) | _ => unmarshal_text ModeUnset want end) as [mw okw].
  destruct (negb okw); [exact K|].
  assert (forall nb' w1 g1 ow og s3 c3 n3, keys_ok c3 -> keys_ok (h_ca (fst (tus_finish u nb' w1 g1 ow og s3 c3 n3)))) as FIN.
  { intros nb' w1 g1 ow og s3 c3 n3 K3. unfold tus_finish. repeat break_match; keys_tac K3. }
  destruct (alookup u (c_users c)) as [p0|].
  - unfold tus_existing. repeat break_match; try (keys_tac K); apply FIN; keys_tac K.
  - unfold tus_new. repeat break_match; keys_tac K.
Qed.

(* ------------------------------------------------------------------ *)
(* two caches that agree pointwise and have one entry per user have the same size and the same
   (sorted) list of push recipients *)
Lemma agree_keys c d : cache_agree c d -> forall k, In k (map fst (c_users c)) <-> In k (map fst (c_users d)).
Proof.
  intros [_ [_ [_ [_ [_ P]]]]] k. rewrite !in_keys_lookup. specialize (P k).
  destruct (alookup k (c_users c)), (alookup k (c_users d)); cbn in P; try discriminate; split; congruence.
Qed.

Lemma agree_length c d : cache_agree c d -> keys_ok c -> keys_ok d -> length (c_users c) = length (c_users d).
Proof.
  intros A Kc Kd. rewrite <- (map_length fst (c_users c)), <- (map_length fst (c_users d)).
  apply Permutation_length. apply NoDup_Permutation; [exact Kc|exact Kd|apply agree_keys; exact A].
Qed.

Lemma insert_n_comm x y l : insert_n x (insert_n y l) = insert_n y (insert_n x l).
Proof.
  induction l as [|e l IH]; cbn;
    repeat (match goal with |- context [(?a <=? ?b)%N] => destruct (N.leb_spec a b); cbn end);
    try reflexivity; try lia;
    try (assert (x = y) by lia; subst; reflexivity);
    try (rewrite IH; reflexivity).
Qed.

Lemma sort_perm l l' : Permutation l l' -> fold_right insert_n [] l = fold_right insert_n [] l'.
Proof.
  induction 1; cbn; try congruence. apply insert_n_comm.
Qed.

Lemma alookup_In_nodup {A} (k : N) (v : A) l : NoDup (map fst l) -> In (k, v) l -> alookup k l = Some v.
Proof.
  induction l as [|[k0 v0] l IH]; cbn; intros ND Hin; [contradiction|].
  inversion ND as [|? ? Hx Hl]; subst.
  destruct Hin as [E|Hin].
  - inv E. rewrite N.eqb_refl. reflexivity.
  - destruct (N.eqb_spec k k0) as [->|NE]; [|apply IH; assumption].
    exfalso. apply Hx. change k0 with (fst (k0, v)). apply in_map. exact Hin.
Qed.

Lemma agree_push c d : cache_agree c d -> keys_ok c -> keys_ok d -> push_rcpt c = push_rcpt d.
Proof.
  intros A Kc Kd. unfold push_rcpt. apply sort_perm.
  set (P := fun e : N * pud => is_presencer (pud_mode (snd e)) && is_reader (pud_mode (snd e))).
  assert (forall (x : cache), keys_ok x -> NoDup (map fst (filter P (c_users x)))) as NDf.
  { intros x K. unfold keys_ok in K. induction (c_users x) as [|[k v] l IH]; cbn; [constructor|].
    inversion K as [|? ? Hx Hl]; subst. destruct (P (k, v)); cbn; [|apply IH; exact Hl].
    constructor; [|apply IH; exact Hl]. intros Hin. apply Hx. apply in_map_iff in Hin. destruct Hin as [[k' v'] [E Hf]].
    cbn in E. subst k'. apply filter_In in Hf. change k with (fst (k, v')). apply in_map. apply Hf. }
  assert (forall (x y : cache), cache_agree x y -> keys_ok x -> keys_ok y ->
            forall k, In k (map fst (filter P (c_users x))) -> In k (map fst (filter P (c_users y)))) as SUB.
  { intros x y [_ [_ [_ [_ [_ Q]]]]] Kx Ky k Hin. apply in_map_iff in Hin. destruct Hin as [[k' p] [E Hf]]. cbn in E. subst k'.
    apply filter_In in Hf. destruct Hf as [Hin HP].
    pose proof (alookup_In_nodup _ _ _ Kx Hin) as L. specialize (Q k). rewrite L in Q.
    destruct (alookup k (c_users y)) as [q|] eqn:Lq; [|discriminate]. cbn in Q. unfold core in Q. inv Q.
    apply in_map_iff. exists (k, q). split; [reflexivity|]. apply filter_In. split; [apply alookup_In; exact Lq|].
    unfold P, pud_mode in *. cbn [snd] in *. congruence. }
  apply NoDup_Permutation; [apply NDf; exact Kc|apply NDf; exact Kd|].
  intros k. split; [apply SUB; assumption|apply SUB; try assumption].
  destruct A as [E1 [E2 [E3 [E4 [E5 Q]]]]]. repeat split; try congruence.
  all: try (intros u; symmetry; apply Q).
Qed.
