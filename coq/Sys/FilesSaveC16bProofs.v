(* C16  lemmas about Sys/FilesSaveC16b.v (messagesMapper.Save, Topic.saveAndBroadcastMessage) *)
From Coq Require Import NArith ZArith List Bool Lia.
From Tinode Require Import Pure.Url Sys.Files Sys.FilesStoreProofs Sys.FilesSaveC16b.
Import ListNotations.

(* the file ids Save hands to FileLinkAttachments *)
Definition save_fids_c16b (handler : bool) (serve : list N) (urls : list (list N)) : list N :=
  if handler then resolve serve urls else [].

(* What Save does to the store slice of Sys/Files.v and whether it returns an error, written as a
   function of the things this may depend on: the fault plan of the three calls that matter, the
   media handler, the topic and the URLs - NOT readBySender, NOT the sender, NOT the outcome of
   SubsUpdate, NOT the sequence number.  [save_fs_char] proves that Save is this function. *)
Definition save_fs_c16b (ft : save_faults) (handler : bool) (serve : list N) (f : state) (topic : N)
    (urls : list (list N)) : state * bool :=
  if ff_topic ft then (f, true)
  else if ff_msg ft || negb (memN topic (topics f)) then (f, true)
  else
    let fids := save_fids_c16b handler serve urls in
    match fids with
    | [] => (step f (OPublish topic []), false)
    | _ :: _ =>
      if ff_link ft then (step f (OPublish topic []), true)
      else (step f (OPublish topic fids), negb (forallb (fun x => memN x (file_ids f)) fids))
    end.

Lemma resolve_nil_c16b : forall serve, resolve serve [] = [].
Proof. reflexivity. Qed.

Lemma length_eqb_nil : forall (A : Type) (l : list A), (length l =? 0)%nat = true <-> l = [].
Proof. intros A [|a l]; cbn; split; intros H; try reflexivity; discriminate. Qed.

(* the optional SubsUpdate touches neither the file slice nor the topic row *)
Lemma subs_update_fs_c16b : forall fault s topic uid seq,
  sv_fs (fst (subs_update_c16b fault s topic uid seq)) = sv_fs s /\
  sv_seq (fst (subs_update_c16b fault s topic uid seq)) = sv_seq s.
Proof.
  intros fault s topic uid seq. unfold subs_update_c16b. destruct fault; split; reflexivity.
Qed.

Definition mark_step_c16b (ft : save_faults) (rbs : bool) (m : msg_c16b) (s2 : sstate_c16b) : sstate_c16b * bool :=
  if rbs then
    if negb (mg_from m =? 0)%N then
      (fst (subs_update_c16b (ff_subs ft) s2 (mg_topic m) (mg_from m) (mg_seq m)),
       negb (snd (subs_update_c16b (ff_subs ft) s2 (mg_topic m) (mg_from m) (mg_seq m))))
    else (s2, false)
  else (s2, false).

Lemma mark_step_fs_c16b : forall ft rbs m s2, sv_fs (fst (mark_step_c16b ft rbs m s2)) = sv_fs s2.
Proof.
  intros ft rbs m s2. unfold mark_step_c16b. destruct rbs; [|reflexivity]. destruct (negb (mg_from m =? 0)%N); [|reflexivity].
  exact (proj1 (subs_update_fs_c16b _ _ _ _ _)).
Qed.

Lemma publish_nil_c16b : forall f topic,
  memN topic (topics f) = true ->
  step f (OPublish topic []) =
  {| files := files f; links := links f; msgs := (next_mid f, topic) :: msgs f; next_mid := N.succ (next_mid f);
     topics := topics f; users := users f; disk := disk f; att := att f |}.
Proof.
  intros f topic H. cbn [step]. rewrite H. cbv zeta. rewrite !app_nil_r. reflexivity.
Qed.

Definition after_msg_c16b (f : state) (topic : N) : state :=
  {| files := files f; links := links f; msgs := (next_mid f, topic) :: msgs f; next_mid := N.succ (next_mid f);
     topics := topics f; users := users f; disk := disk f; att := att f |}.

Lemma publish_nil_after_c16b : forall f topic,
  memN topic (topics f) = true -> step f (OPublish topic []) = after_msg_c16b f topic.
Proof. exact publish_nil_c16b. Qed.

(* FileLinkAttachments right after MessageSave stored the row: the foreign key of the message holds *)
Lemma file_link_after_msg_c16b : forall fault s3 f topic fids,
  sv_fs s3 = after_msg_c16b f topic ->
  sv_fs (fst (file_link_msg_c16b fault s3 (next_mid f) fids)) =
    (if negb fault && forallb (fun x => memN x (file_ids f)) fids
     then {| files := files f; links := links f ++ map (fun x => (x, TMsg (next_mid f))) fids;
             msgs := (next_mid f, topic) :: msgs f; next_mid := N.succ (next_mid f);
             topics := topics f; users := users f; disk := disk f;
             att := att f ++ map (fun x => (x, TMsg (next_mid f))) (filter (fun x => is_done x (files f)) fids) |}
     else after_msg_c16b f topic) /\
  snd (file_link_msg_c16b fault s3 (next_mid f) fids) = negb (negb fault && forallb (fun x => memN x (file_ids f)) fids).
Proof.
  intros fault s3 f topic fids H. unfold file_link_msg_c16b, log_c16b. cbn [sv_fs]. destruct fault; [split; [exact H|reflexivity]|].
  rewrite H.
  assert (E1 : memN (next_mid f) (map fst (msgs (after_msg_c16b f topic))) = true).
  { unfold after_msg_c16b. cbn [msgs map fst]. unfold memN. cbn [existsb]. rewrite N.eqb_refl. reflexivity. }
  assert (E2 : file_ids (after_msg_c16b f topic) = file_ids f) by reflexivity.
  rewrite E1, E2. cbn [negb andb].
  destruct (forallb (fun x => memN x (file_ids f)) fids); split; reflexivity.
Qed.

Lemma save_unfold_c16b : forall ft handler serve s m urls rbs,
  save_c16b ft handler serve s m urls rbs =
  let r1 := topic_update_on_message_c16b (ff_topic ft) s m in
  if snd r1 then (fst r1, {| sr_err := true; sr_marked := false |})
  else
    let r2 := message_save_c16b (ff_msg ft) (fst r1) m in
    if snd r2 then (fst r2, {| sr_err := true; sr_marked := false |})
    else
      let sm := mark_step_c16b ft rbs m (fst r2) in
      if negb (length urls =? 0)%nat && handler then
        if negb (length (resolve serve urls) =? 0)%nat then
          let r4 := file_link_msg_c16b (ff_link ft) (fst sm) (next_mid (sv_fs (fst r1))) (resolve serve urls) in
          (fst r4, {| sr_err := snd r4; sr_marked := snd sm |})
        else (fst sm, {| sr_err := false; sr_marked := snd sm |})
      else (fst sm, {| sr_err := false; sr_marked := snd sm |}).
Proof.
  intros ft handler serve s m urls rbs. unfold save_c16b, mark_step_c16b. cbv zeta.
  destruct (snd (topic_update_on_message_c16b (ff_topic ft) s m)); [reflexivity|].
  destruct (snd (message_save_c16b (ff_msg ft) _ m)); [reflexivity|].
  destruct rbs; [|reflexivity]. destruct (negb (mg_from m =? 0)%N); reflexivity.
Qed.

Lemma save_fs_char : forall ft handler serve s m urls rbs,
  let r := save_c16b ft handler serve s m urls rbs in
  let q := save_fs_c16b ft handler serve (sv_fs s) (mg_topic m) urls in
  sv_fs (fst r) = fst q /\ sr_err (snd r) = snd q.
Proof.
  intros ft handler serve s m urls rbs. cbv zeta. rewrite save_unfold_c16b. cbv zeta.
  unfold save_fs_c16b, topic_update_on_message_c16b, log_c16b.
  destruct (ff_topic ft); [split; reflexivity|]. cbn [fst snd].
  unfold message_save_c16b, log_c16b. cbn [sv_fs].
  destruct (ff_msg ft); [split; reflexivity|]. cbn [orb].
  destruct (memN (mg_topic m) (topics (sv_fs s))) eqn:Ht; cbn [negb fst snd]; [|split; reflexivity].
  match goal with |- context [mark_step_c16b ft rbs m ?X] => remember (mark_step_c16b ft rbs m X) as sm eqn:Esm end.
  assert (Hsm : sv_fs (fst sm) = after_msg_c16b (sv_fs s) (mg_topic m)).
  { subst sm. rewrite mark_step_fs_c16b. reflexivity. }
  clear Esm.
  unfold save_fids_c16b.
  destruct urls as [|u0 urls'].
  - cbn [length Nat.eqb negb andb]. replace (if handler then resolve serve [] else []) with (@nil N) by (destruct handler; reflexivity).
    cbn [fst snd sr_err]. rewrite Hsm. rewrite publish_nil_after_c16b by exact Ht. split; reflexivity.
  - cbn [length Nat.eqb negb andb]. destruct handler.
    + destruct (resolve serve (u0 :: urls')) as [|a fids'] eqn:Er.
      * cbn [length Nat.eqb negb]. cbn [fst snd sr_err]. rewrite Hsm. rewrite publish_nil_after_c16b by exact Ht. split; reflexivity.
      * cbn [length Nat.eqb negb]. cbn [fst snd sr_err].
        destruct (file_link_after_msg_c16b (ff_link ft) (fst sm) (sv_fs s) (mg_topic m) (a :: fids') Hsm) as [L1 L2].
        rewrite L1, L2.
        destruct (ff_link ft); cbn [negb andb].
        { rewrite publish_nil_after_c16b by exact Ht. split; reflexivity. }
        destruct (forallb (fun x => memN x (file_ids (sv_fs s))) (a :: fids')) eqn:Eall; cbn [negb fst snd].
        { split; [|reflexivity]. cbn [step]. rewrite Ht. cbv zeta. rewrite Eall. reflexivity. }
        { split; [|reflexivity]. cbn [step]. rewrite Ht. cbv zeta. rewrite Eall. rewrite !app_nil_r. reflexivity. }
    + cbn [fst snd sr_err]. rewrite Hsm. rewrite publish_nil_after_c16b by exact Ht. split; reflexivity.
Qed.

(* ---- readBySender, the sender, SubsUpdate and the sequence number do not matter ---- *)
Lemma save_fs_independent : forall ft ft' handler serve s s' m m' urls rbs rbs',
  ff_topic ft = ff_topic ft' -> ff_msg ft = ff_msg ft' -> ff_link ft = ff_link ft' ->
  sv_fs s = sv_fs s' -> mg_topic m = mg_topic m' ->
  sv_fs (fst (save_c16b ft handler serve s m urls rbs)) = sv_fs (fst (save_c16b ft' handler serve s' m' urls rbs')) /\
  sr_err (snd (save_c16b ft handler serve s m urls rbs)) = sr_err (snd (save_c16b ft' handler serve s' m' urls rbs')).
Proof.
  intros ft ft' handler serve s s' m m' urls rbs rbs' H1 H2 H3 Hs Hm.
  destruct (save_fs_char ft handler serve s m urls rbs) as [A1 A2].
  destruct (save_fs_char ft' handler serve s' m' urls rbs') as [B1 B2].
  rewrite A1, A2, B1, B2. unfold save_fs_c16b. rewrite H1, H2, H3, Hs, Hm. split; reflexivity.
Qed.

(* ---- an accepted Save is the publish operation of the history model ---- *)
Lemma save_accepted_fs : forall ft serve s m urls rbs,
  let r := save_c16b ft true serve s m urls rbs in
  sr_err (snd r) = false ->
  memN (mg_topic m) (topics (sv_fs s)) = true /\
  forallb (fun x => memN x (file_ids (sv_fs s))) (resolve serve urls) = true /\
  sv_fs (fst r) = step (sv_fs s) (OPublish (mg_topic m) (resolve serve urls)).
Proof.
  intros ft serve s m urls rbs r Herr. subst r.
  destruct (save_fs_char ft true serve s m urls rbs) as [A1 A2]. rewrite A2 in Herr. rewrite A1. clear A1 A2.
  unfold save_fs_c16b, save_fids_c16b in *.
  destruct (ff_topic ft); [discriminate|].
  destruct (ff_msg ft); [discriminate|]. cbn [orb] in *.
  destruct (memN (mg_topic m) (topics (sv_fs s))); cbn [negb] in *; [|discriminate].
  split; [reflexivity|].
  destruct (resolve serve urls) as [|a fids]; [split; reflexivity|].
  destruct (ff_link ft); [discriminate|]. cbn [snd fst] in *.
  apply negb_false_iff in Herr. split; [exact Herr|reflexivity].
Qed.

Lemma save_accepted_links : forall ft serve s m urls rbs url,
  let r := save_c16b ft true serve s m urls rbs in
  sr_err (snd r) = false ->
  In url urls -> get_id_from_url serve url <> 0%N ->
  In (get_id_from_url serve url, TMsg (next_mid (sv_fs s))) (links (sv_fs (fst r))) /\
  target_live (sv_fs (fst r)) (TMsg (next_mid (sv_fs s))) = true /\
  In (get_id_from_url serve url) (file_ids (sv_fs (fst r))).
Proof.
  intros ft serve s m urls rbs url r Herr Hin Hnz.
  destruct (save_accepted_fs ft serve s m urls rbs Herr) as [Ht [Hall Hfs]]. fold r in Hfs. rewrite Hfs.
  assert (Hf : In (get_id_from_url serve url) (resolve serve urls)).
  { apply resolve_In. split; [exact Hnz|]. exists url. split; [exact Hin|reflexivity]. }
  cbn [step]. rewrite Ht. cbv zeta. cbn [links target_live msgs map fst file_ids files].
  destruct (resolve serve urls) as [|a fids] eqn:Er; [destruct Hf|]. rewrite Hall.
  split; [|split].
  - apply in_app_iff. right. apply in_map_iff. exists (get_id_from_url serve url). split; [reflexivity|exact Hf].
  - unfold memN. cbn [existsb]. rewrite N.eqb_refl. reflexivity.
  - apply memN_In. rewrite forallb_forall in Hall. exact (Hall _ Hf).
Qed.

(* Save succeeds whenever the three calls that matter do *)
Lemma save_accepts : forall ft handler serve s m urls rbs,
  ff_topic ft = false -> ff_msg ft = false -> ff_link ft = false ->
  memN (mg_topic m) (topics (sv_fs s)) = true ->
  forallb (fun x => memN x (file_ids (sv_fs s))) (save_fids_c16b handler serve urls) = true ->
  sr_err (snd (save_c16b ft handler serve s m urls rbs)) = false.
Proof.
  intros ft handler serve s m urls rbs H1 H2 H3 Ht Hall.
  rewrite (proj2 (save_fs_char ft handler serve s m urls rbs)).
  unfold save_fs_c16b. rewrite H1, H2, H3, Ht. cbn [orb negb].
  destruct (save_fids_c16b handler serve urls) as [|a fids]; [reflexivity|].
  cbn [snd]. rewrite Hall. reflexivity.
Qed.

(* the message row is stored although an error is returned: FileLinkAttachments failed *)
Lemma save_error_after_row : forall ft handler serve s m urls rbs,
  let r := save_c16b ft handler serve s m urls rbs in
  sr_err (snd r) = true -> ff_topic ft = false -> ff_msg ft = false ->
  memN (mg_topic m) (topics (sv_fs s)) = true ->
  target_live (sv_fs (fst r)) (TMsg (next_mid (sv_fs s))) = true /\
  links (sv_fs (fst r)) = links (sv_fs s) /\
  (ff_link ft = true \/ forallb (fun x => memN x (file_ids (sv_fs s))) (save_fids_c16b handler serve urls) = false).
Proof.
  intros ft handler serve s m urls rbs r Herr H1 H2 Ht. subst r.
  destruct (save_fs_char ft handler serve s m urls rbs) as [A1 A2]. rewrite A2 in Herr. rewrite A1. clear A1 A2.
  unfold save_fs_c16b in *. rewrite H1, H2, Ht in *. cbn [orb negb] in *.
  destruct (save_fids_c16b handler serve urls) as [|a fids] eqn:Ef; [discriminate|].
  destruct (ff_link ft).
  - cbn [fst]. rewrite publish_nil_after_c16b by exact Ht. unfold after_msg_c16b. cbn [target_live msgs map fst links].
    split; [unfold memN; cbn [existsb]; rewrite N.eqb_refl; reflexivity|]. split; [reflexivity|left; reflexivity].
  - cbn [fst snd] in *. apply negb_true_iff in Herr.
    split; [|split; [|right; exact Herr]].
    + cbn [step]. rewrite Ht. cbv zeta. cbn [target_live msgs map fst]. unfold memN. cbn [existsb]. rewrite N.eqb_refl. reflexivity.
    + apply publish_missing_links_nothing. exact Herr.
Qed.

(* ---- the read / received marks of the sender ---- *)
Lemma save_marked_iff : forall ft handler serve s m urls rbs,
  ff_topic ft = false -> ff_msg ft = false -> memN (mg_topic m) (topics (sv_fs s)) = true ->
  sr_marked (snd (save_c16b ft handler serve s m urls rbs)) = rbs && negb (mg_from m =? 0)%N && negb (ff_subs ft).
Proof.
  intros ft handler serve s m urls rbs H1 H2 Ht. rewrite save_unfold_c16b. cbv zeta.
  unfold topic_update_on_message_c16b, message_save_c16b, log_c16b. rewrite H1, H2. cbn [fst snd sv_fs]. rewrite Ht. cbn [negb fst snd].
  match goal with |- context [mark_step_c16b ft rbs m ?X] => set (sm := mark_step_c16b ft rbs m X) end.
  assert (Hm : snd sm = rbs && negb (mg_from m =? 0)%N && negb (ff_subs ft)).
  { subst sm. unfold mark_step_c16b. destruct rbs; [|reflexivity]. destruct (negb (mg_from m =? 0)%N); [|reflexivity].
    unfold subs_update_c16b. destruct (ff_subs ft); reflexivity. }
  clearbody sm.
  destruct (negb (length urls =? 0)%nat && handler); [|exact Hm].
  destruct (negb (length (resolve serve urls) =? 0)%nat); exact Hm.
Qed.

Lemma file_link_subs_c16b : forall fault s mid fids, sv_subs (fst (file_link_msg_c16b fault s mid fids)) = sv_subs s.
Proof.
  intros fault s mid fids. unfold file_link_msg_c16b, log_c16b. destruct fault; [reflexivity|]. cbn [sv_fs].
  destruct (negb (memN mid _)); [reflexivity|]. destruct (negb (forallb _ fids)); reflexivity.
Qed.

(* SubsUpdate is never called for a sender that does not read the topic, and never with the zero uid
   (which would reset the marks of EVERY subscriber) *)
Lemma save_subs_untouched : forall ft handler serve s m urls rbs,
  rbs = false \/ mg_from m = 0%N ->
  sv_subs (fst (save_c16b ft handler serve s m urls rbs)) = sv_subs s.
Proof.
  intros ft handler serve s m urls rbs H. rewrite save_unfold_c16b. cbv zeta.
  unfold topic_update_on_message_c16b, message_save_c16b, log_c16b.
  destruct (ff_topic ft); [reflexivity|]. cbn [fst snd sv_fs]. destruct (ff_msg ft); [reflexivity|].
  destruct (memN (mg_topic m) (topics (sv_fs s))); cbn [negb fst snd]; [|reflexivity].
  match goal with |- context [mark_step_c16b ft rbs m ?X] => set (sm := mark_step_c16b ft rbs m X) end.
  assert (Hm : sv_subs (fst sm) = sv_subs s).
  { subst sm. unfold mark_step_c16b. destruct H as [H|H]; [rewrite H; reflexivity|]. rewrite H. cbn [N.eqb negb]. destruct rbs; reflexivity. }
  clearbody sm.
  destruct (negb (length urls =? 0)%nat && handler); [|exact Hm].
  destruct (negb (length (resolve serve urls) =? 0)%nat); [|exact Hm].
  cbn [fst]. rewrite file_link_subs_c16b. exact Hm.
Qed.

(* ---- the adapter calls Save makes, in order (the ghost log) ---- *)
Definition save_calls_c16b (ft : save_faults) (handler : bool) (serve : list N) (f : state) (m : msg_c16b)
    (urls : list (list N)) (rbs : bool) : list (call_c16b * bool) :=
  (CTopicUpdateOnMessage, ff_topic ft) ::
  if ff_topic ft then []
  else (CMessageSave, ff_msg ft) ::
    if ff_msg ft || negb (memN (mg_topic m) (topics f)) then []
    else (if rbs && negb (mg_from m =? 0)%N then [(CSubsUpdate, ff_subs ft)] else []) ++
         (match save_fids_c16b handler serve urls with
          | [] => []
          | _ :: _ => [(CFileLinkAttachments, ff_link ft)]
          end).

Lemma save_calls_char : forall ft handler serve s m urls rbs,
  sv_calls (fst (save_c16b ft handler serve s m urls rbs)) =
  sv_calls s ++ save_calls_c16b ft handler serve (sv_fs s) m urls rbs.
Proof.
  intros ft handler serve s m urls rbs. rewrite save_unfold_c16b. cbv zeta.
  unfold save_calls_c16b, topic_update_on_message_c16b, message_save_c16b, log_c16b.
  destruct (ff_topic ft); [reflexivity|]. cbn [fst snd sv_fs sv_calls]. destruct (ff_msg ft); cbn [orb].
  { cbn [fst sv_calls]. rewrite <- app_assoc. reflexivity. }
  destruct (memN (mg_topic m) (topics (sv_fs s))); cbn [negb fst snd].
  2:{ cbn [sv_calls]. rewrite <- app_assoc. reflexivity. }
  match goal with |- context [mark_step_c16b ft rbs m ?X] => set (s2 := X) end.
  assert (Hs2 : sv_calls s2 = sv_calls s ++ [(CTopicUpdateOnMessage, false); (CMessageSave, false)]).
  { subst s2. unfold with_fs_c16b. cbn [sv_calls]. rewrite <- app_assoc. reflexivity. }
  assert (Hm : sv_calls (fst (mark_step_c16b ft rbs m s2)) =
               sv_calls s2 ++ (if rbs && negb (mg_from m =? 0)%N then [(CSubsUpdate, ff_subs ft)] else [])).
  { unfold mark_step_c16b. destruct rbs; cbn [andb]; [|symmetry; apply app_nil_r].
    destruct (negb (mg_from m =? 0)%N); [|symmetry; apply app_nil_r].
    unfold subs_update_c16b, log_c16b. destruct (ff_subs ft); reflexivity. }
  set (sm := mark_step_c16b ft rbs m s2) in *. clearbody sm. clearbody s2.
  assert (Hl : forall mid fids, sv_calls (fst (file_link_msg_c16b (ff_link ft) (fst sm) mid fids)) =
                                sv_calls (fst sm) ++ [(CFileLinkAttachments, ff_link ft)]).
  { intros mid fids. unfold file_link_msg_c16b, log_c16b. destruct (ff_link ft); [reflexivity|]. cbn [sv_fs].
    destruct (negb (memN mid _)); [reflexivity|]. destruct (negb (forallb _ fids)); reflexivity. }
  unfold save_fids_c16b.
  destruct urls as [|u0 urls'].
  - cbn [length Nat.eqb negb andb fst]. replace (if handler then resolve serve [] else []) with (@nil N) by (destruct handler; reflexivity).
    rewrite Hm, Hs2. rewrite app_nil_r. rewrite <- !app_assoc. reflexivity.
  - cbn [length Nat.eqb negb andb]. destruct handler.
    + destruct (resolve serve (u0 :: urls')) as [|a fids'] eqn:Er; cbn [length Nat.eqb negb fst].
      * rewrite Hm, Hs2. rewrite app_nil_r. rewrite <- !app_assoc. reflexivity.
      * rewrite Hl, Hm, Hs2. rewrite <- !app_assoc. reflexivity.
    + cbn [fst]. rewrite Hm, Hs2. rewrite app_nil_r. rewrite <- !app_assoc. reflexivity.
Qed.

(* ---- over all histories: end to end from the URLs of the request ---- *)
Lemma save_listed_url_linked : forall h1 ft serve sq sb cl m urls rbs h2 url,
  let s := {| sv_fs := run h1; sv_seq := sq; sv_subs := sb; sv_calls := cl |} in
  let r := save_c16b ft true serve s m urls rbs in
  sr_err (snd r) = false ->
  In url urls -> is_done (get_id_from_url serve url) (files (run h1)) = true ->
  let mid := next_mid (run h1) in
  let s2 := run_from (sv_fs (fst r)) h2 in
  target_live s2 (TMsg mid) = true ->
  let f := get_id_from_url serve url in
  In (f, TMsg mid) (links s2) /\ In f (file_ids s2) /\ In f (disk s2) /\
  exists g, download s2 serve url = Some g /\ f_id g = f /\ f_done g = true.
Proof.
  intros h1 ft serve sq sb cl m urls rbs h2 url s r Herr Hin Hd mid s2 Hl.
  destruct (save_accepted_fs ft serve s m urls rbs Herr) as [Ht [Hall Hfs]]. fold r in Hfs.
  assert (Hs2 : s2 = run (h1 ++ OPublish (mg_topic m) (resolve serve urls) :: h2)).
  { subst s2. rewrite Hfs. rewrite run_app. reflexivity. }
  rewrite Hs2 in *.
  exact (listed_url_linked h1 serve (mg_topic m) urls h2 url Ht Hall Hin Hd Hl).
Qed.

(* ---- Topic.saveAndBroadcastMessage ---- *)
Lemma pub_denied_no_effect : forall ft handler serve s is_sys want given last topic as_uid urls s',
  pub_save_c16b ft handler serve s is_sys want given last topic as_uid urls = (s', PubDenied) ->
  s' = s /\ is_sys = false /\ is_writer_c16b (N.land want given) = false.
Proof.
  intros ft handler serve s is_sys want given last topic as_uid urls s' H. unfold pub_save_c16b in H.
  destruct is_sys; cbn [negb andb] in H.
  - destruct (sr_err _) in H; inversion H.
  - destruct (is_writer_c16b (N.land want given)); cbn [negb] in H.
    + destruct (sr_err _) in H; inversion H.
    + inversion H. repeat split.
Qed.

Lemma pub_gate : forall ft handler serve s is_sys want given last topic as_uid urls,
  snd (pub_save_c16b ft handler serve s is_sys want given last topic as_uid urls) <> PubDenied ->
  is_sys = true \/ is_writer_c16b (N.land want given) = true.
Proof.
  intros ft handler serve s is_sys want given last topic as_uid urls H. unfold pub_save_c16b in H.
  destruct is_sys; [left; reflexivity|]. destruct (is_writer_c16b (N.land want given)); [right; reflexivity|].
  exfalso. apply H. reflexivity.
Qed.

Lemma pub_accepted_links : forall ft serve s is_sys want given last topic as_uid urls s' marked url,
  pub_save_c16b ft true serve s is_sys want given last topic as_uid urls = (s', PubAccepted marked) ->
  In url urls -> get_id_from_url serve url <> 0%N ->
  In (get_id_from_url serve url, TMsg (next_mid (sv_fs s))) (links (sv_fs s')) /\
  target_live (sv_fs s') (TMsg (next_mid (sv_fs s))) = true /\
  In (get_id_from_url serve url) (file_ids (sv_fs s')).
Proof.
  intros ft serve s is_sys want given last topic as_uid urls s' marked url H Hin Hnz. unfold pub_save_c16b in H.
  destruct (negb is_sys && negb (is_writer_c16b (N.land want given))); [inversion H|].
  set (m := {| mg_topic := topic; mg_seq := last + 1; mg_from := as_uid |}) in *.
  set (rbs := is_reader_c16b (N.land given want)) in *.
  destruct (sr_err (snd (save_c16b ft true serve s m urls rbs))) eqn:E; [inversion H|].
  inversion H. exact (save_accepted_links ft serve s m urls rbs url E Hin Hnz).
Qed.

(* every sender whose publish is not denied gets the same file slice and the same verdict *)
Lemma pub_fs_independent_of_sender : forall ft ft' handler serve s is_sys is_sys' want given want' given' last last' topic as_uid as_uid' urls,
  ff_topic ft = ff_topic ft' -> ff_msg ft = ff_msg ft' -> ff_link ft = ff_link ft' ->
  let r := pub_save_c16b ft handler serve s is_sys want given last topic as_uid urls in
  let r' := pub_save_c16b ft' handler serve s is_sys' want' given' last' topic as_uid' urls in
  snd r <> PubDenied -> snd r' <> PubDenied ->
  sv_fs (fst r) = sv_fs (fst r') /\ (snd r = PubFailed <-> snd r' = PubFailed).
Proof.
  intros ft ft' handler serve s is_sys is_sys' want given want' given' last last' topic as_uid as_uid' urls H1 H2 H3 r r' Hr Hr'.
  subst r r'. unfold pub_save_c16b in *.
  destruct (negb is_sys && negb (is_writer_c16b (N.land want given))); [exfalso; apply Hr; reflexivity|].
  destruct (negb is_sys' && negb (is_writer_c16b (N.land want' given'))); [exfalso; apply Hr'; reflexivity|].
  cbn [fst snd].
  destruct (save_fs_independent ft ft' handler serve s s
              {| mg_topic := topic; mg_seq := last + 1; mg_from := as_uid |}
              {| mg_topic := topic; mg_seq := last' + 1; mg_from := as_uid' |} urls
              (is_reader_c16b (N.land given want)) (is_reader_c16b (N.land given' want')) H1 H2 H3 eq_refl eq_refl) as [A B].
  split; [exact A|]. rewrite B.
  destruct (sr_err (snd (save_c16b ft' handler serve s _ urls _))); split; intros X; try reflexivity; discriminate.
Qed.
