(* C16  lemmas about Sys/FilesSaveC16b.v (messagesMapper.Save, Topic.saveAndBroadcastMessage) *)
From Coq Require Import NArith ZArith List Bool Lia.
From Tinode Require Import Pure.Url Sys.Files Sys.FilesStoreProofs Sys.FilesSaveC16b.
Import ListNotations.

(* the file ids Save hands to FileLinkAttachments *)
Definition save_fids_c16b (handler : bool) (serve : list N) (urls : list (list N)) : list N :=
  if handler then resolve serve urls else [].

(* What Save does to the store slice of Sys/Files.v and whether it returns an error, written as a
   function of the things this may depend on: the fault plan of the three calls that matter, the
   media handler, the topic and the URLs - NOT readBySender, NOT the sender, NOT the outcome of
   SubsUpdate, NOT the sequence number.  [save_fs_char] proves that Save is this function. *)
Definition save_fs_c16b (ft : save_faults) (handler : bool) (serve : list N) (f : state) (topic : N)
    (urls : list (list N)) : state * bool :=
  if ff_topic ft then (f, true)
  else if ff_msg ft || negb (memN topic (topics f)) then (f, true)
  else
    let fids := save_fids_c16b handler serve urls in
    match fids with
    | [] => (step f (OPublish topic []), false)
    | _ :: _ =>
      if ff_link ft then (step f (OPublish topic []), true)
      else (step f (OPublish topic fids), negb (forallb (fun x => memN x (file_ids f)) fids))
    end.

Lemma resolve_nil_c16b : forall serve, resolve serve [] = [].
Proof. reflexivity. Qed.

Lemma length_eqb_nil : forall (A : Type) (l : list A), (length l =? 0)%nat = true <-> l = [].
Proof. intros A [|a l]; cbn; split; intros H; try reflexivity; discriminate. Qed.

(* the optional SubsUpdate touches neither the file slice nor the topic row *)
Lemma subs_update_fs_c16b : forall fault s topic uid seq s',
  subs_update_c16b fault s topic uid seq = Some s' -> sv_fs s' = sv_fs s /\ sv_seq s' = sv_seq s.
Proof.
  intros fault s topic uid seq s' H. unfold subs_update_c16b in H. destruct fault; [discriminate|].
  inversion H. split; reflexivity.
Qed.

Lemma mark_step_fs_c16b : forall ft rbs m s2,
  sv_fs (fst (if rbs : bool then
                if negb (mg_from m =? 0)%N then
                  match subs_update_c16b (ff_subs ft) s2 (mg_topic m) (mg_from m) (mg_seq m) with
                  | None => (s2, false)
                  | Some s3 => (s3, true)
                  end
                else (s2, false)
              else (s2, false))) = sv_fs s2.
Proof.
  intros ft rbs m s2. destruct rbs; [|reflexivity]. destruct (negb (mg_from m =? 0)%N); [|reflexivity].
  destruct (subs_update_c16b (ff_subs ft) s2 (mg_topic m) (mg_from m) (mg_seq m)) as [s3|] eqn:E; [|reflexivity].
  exact (proj1 (subs_update_fs_c16b _ _ _ _ _ _ E)).
Qed.

Lemma publish_nil_c16b : forall f topic,
  memN topic (topics f) = true ->
  step f (OPublish topic []) =
  {| files := files f; links := links f; msgs := (next_mid f, topic) :: msgs f; next_mid := N.succ (next_mid f);
     topics := topics f; users := users f; disk := disk f; att := att f |}.
Proof.
  intros f topic H. cbn [step]. rewrite H. cbv zeta. rewrite !app_nil_r. reflexivity.
Qed.

Definition after_msg_c16b (f : state) (topic : N) : state :=
  {| files := files f; links := links f; msgs := (next_mid f, topic) :: msgs f; next_mid := N.succ (next_mid f);
     topics := topics f; users := users f; disk := disk f; att := att f |}.

Lemma publish_nil_after_c16b : forall f topic,
  memN topic (topics f) = true -> step f (OPublish topic []) = after_msg_c16b f topic.
Proof. exact publish_nil_c16b. Qed.

(* FileLinkAttachments right after MessageSave stored the row: the foreign key of the message holds *)
Lemma file_link_after_msg_c16b : forall fault s3 f topic fids,
  sv_fs s3 = after_msg_c16b f topic ->
  file_link_msg_c16b fault s3 (next_mid f) fids =
  if fault then None
  else if forallb (fun x => memN x (file_ids f)) fids
       then Some (with_fs_c16b s3
              {| files := files f; links := links f ++ map (fun x => (x, TMsg (next_mid f))) fids;
                 msgs := (next_mid f, topic) :: msgs f; next_mid := N.succ (next_mid f);
                 topics := topics f; users := users f; disk := disk f;
                 att := att f ++ map (fun x => (x, TMsg (next_mid f))) (filter (fun x => is_done x (files f)) fids) |})
       else None.
Proof.
  intros fault s3 f topic fids H. unfold file_link_msg_c16b. destruct fault; [reflexivity|].
  rewrite H. unfold after_msg_c16b at 1. cbn [msgs map fst]. unfold memN at 1. cbn [existsb]. rewrite N.eqb_refl. cbn [orb negb].
  unfold file_ids. unfold after_msg_c16b. cbn [files links msgs next_mid topics users disk att].
  destruct (forallb (fun x => memN x (map f_id (files f))) fids); reflexivity.
Qed.

Lemma save_fs_char : forall ft handler serve s m urls rbs,
  let r := save_c16b ft handler serve s m urls rbs in
  let q := save_fs_c16b ft handler serve (sv_fs s) (mg_topic m) urls in
  sv_fs (fst r) = fst q /\ sr_err (snd r) = snd q.
Proof.
  intros ft handler serve s m urls rbs. cbv zeta.
  unfold save_c16b, save_fs_c16b, topic_update_on_message_c16b.
  destruct (ff_topic ft); [split; reflexivity|].
  unfold message_save_c16b. cbn [sv_fs].
  destruct (ff_msg ft); [split; reflexivity|]. cbn [orb].
  destruct (memN (mg_topic m) (topics (sv_fs s))) eqn:Ht; cbn [negb]; [|split; reflexivity].
  fold (after_msg_c16b (sv_fs s) (mg_topic m)).
  match goal with |- context [fst ?X] => match X with (if rbs then _ else _) => set (sm := X) end end.
  assert (Hsm : sv_fs (fst sm) = after_msg_c16b (sv_fs s) (mg_topic m)).
  { subst sm. rewrite mark_step_fs_c16b. reflexivity. }
  clearbody sm.
  unfold save_fids_c16b.
  destruct urls as [|u0 urls'].
  - cbn [length Nat.eqb negb andb]. replace (if handler then resolve serve [] else []) with (@nil N) by (destruct handler; reflexivity).
    cbn [fst snd sr_err]. rewrite Hsm. rewrite publish_nil_after_c16b by exact Ht. split; reflexivity.
  - cbn [length Nat.eqb negb andb]. destruct handler.
    + destruct (resolve serve (u0 :: urls')) as [|a fids'] eqn:Er.
      * cbn [length Nat.eqb negb]. cbn [fst snd sr_err]. rewrite Hsm. rewrite publish_nil_after_c16b by exact Ht. split; reflexivity.
      * cbn [length Nat.eqb negb].
        rewrite (file_link_after_msg_c16b (ff_link ft) (fst sm) (sv_fs s) (mg_topic m) (a :: fids') Hsm).
        destruct (ff_link ft).
        { cbn [fst snd sr_err]. rewrite Hsm. rewrite publish_nil_after_c16b by exact Ht. split; reflexivity. }
        destruct (forallb (fun x => memN x (file_ids (sv_fs s))) (a :: fids')) eqn:Eall; cbn [negb].
        { cbn [fst snd sr_err with_fs_c16b sv_fs]. split; [|reflexivity].
          cbn [step]. rewrite Ht. cbv zeta. rewrite Eall. reflexivity. }
        { cbn [fst snd sr_err]. rewrite Hsm. split; [|reflexivity].
          cbn [step]. rewrite Ht. cbv zeta. rewrite Eall. rewrite !app_nil_r. reflexivity. }
    + cbn [fst snd sr_err]. rewrite Hsm. rewrite publish_nil_after_c16b by exact Ht. split; reflexivity.
Qed.

(* ---- readBySender, the sender, SubsUpdate and the sequence number do not matter ---- *)
Lemma save_fs_independent : forall ft ft' handler serve s s' m m' urls rbs rbs',
  ff_topic ft = ff_topic ft' -> ff_msg ft = ff_msg ft' -> ff_link ft = ff_link ft' ->
  sv_fs s = sv_fs s' -> mg_topic m = mg_topic m' ->
  sv_fs (fst (save_c16b ft handler serve s m urls rbs)) = sv_fs (fst (save_c16b ft' handler serve s' m' urls rbs')) /\
  sr_err (snd (save_c16b ft handler serve s m urls rbs)) = sr_err (snd (save_c16b ft' handler serve s' m' urls rbs')).
Proof.
  intros ft ft' handler serve s s' m m' urls rbs rbs' H1 H2 H3 Hs Hm.
  destruct (save_fs_char ft handler serve s m urls rbs) as [A1 A2].
  destruct (save_fs_char ft' handler serve s' m' urls rbs') as [B1 B2].
  rewrite A1, A2, B1, B2. unfold save_fs_c16b. rewrite H1, H2, H3, Hs, Hm. split; reflexivity.
Qed.

(* ---- an accepted Save is the publish operation of the history model ---- *)
Lemma save_accepted_fs : forall ft serve s m urls rbs,
  let r := save_c16b ft true serve s m urls rbs in
  sr_err (snd r) = false ->
  memN (mg_topic m) (topics (sv_fs s)) = true /\
  forallb (fun x => memN x (file_ids (sv_fs s))) (resolve serve urls) = true /\
  sv_fs (fst r) = step (sv_fs s) (OPublish (mg_topic m) (resolve serve urls)).
Proof.
  intros ft serve s m urls rbs r Herr. subst r.
  destruct (save_fs_char ft true serve s m urls rbs) as [A1 A2]. rewrite A2 in Herr. rewrite A1. clear A1 A2.
  unfold save_fs_c16b, save_fids_c16b in *.
  destruct (ff_topic ft); [discriminate|].
  destruct (ff_msg ft); [discriminate|]. cbn [orb] in *.
  destruct (memN (mg_topic m) (topics (sv_fs s))); cbn [negb] in *; [|discriminate].
  split; [reflexivity|].
  destruct (resolve serve urls) as [|a fids]; [split; reflexivity|].
  destruct (ff_link ft); [discriminate|]. cbn [snd fst] in *.
  apply negb_false_iff in Herr. split; [exact Herr|reflexivity].
Qed.

Lemma save_accepted_links : forall ft serve s m urls rbs url,
  let r := save_c16b ft true serve s m urls rbs in
  sr_err (snd r) = false ->
  In url urls -> get_id_from_url serve url <> 0%N ->
  In (get_id_from_url serve url, TMsg (next_mid (sv_fs s))) (links (sv_fs (fst r))) /\
  target_live (sv_fs (fst r)) (TMsg (next_mid (sv_fs s))) = true /\
  In (get_id_from_url serve url) (file_ids (sv_fs (fst r))).
Proof.
  intros ft serve s m urls rbs url r Herr Hin Hnz.
  destruct (save_accepted_fs ft serve s m urls rbs Herr) as [Ht [Hall Hfs]]. fold r in Hfs. rewrite Hfs.
  assert (Hf : In (get_id_from_url serve url) (resolve serve urls)).
  { apply resolve_In. split; [exact Hnz|]. exists url. split; [exact Hin|reflexivity]. }
  cbn [step]. rewrite Ht. cbv zeta. cbn [links target_live msgs map fst file_ids files].
  destruct (resolve serve urls) as [|a fids] eqn:Er; [destruct Hf|]. rewrite Hall.
  split; [|split].
  - apply in_app_iff. right. apply in_map_iff. exists (get_id_from_url serve url). split; [reflexivity|exact Hf].
  - unfold memN. cbn [existsb]. rewrite N.eqb_refl. reflexivity.
  - apply memN_In. rewrite forallb_forall in Hall. exact (Hall _ Hf).
Qed.

(* Save succeeds whenever the three calls that matter do *)
Lemma save_accepts : forall ft handler serve s m urls rbs,
  ff_topic ft = false -> ff_msg ft = false -> ff_link ft = false ->
  memN (mg_topic m) (topics (sv_fs s)) = true ->
  forallb (fun x => memN x (file_ids (sv_fs s))) (save_fids_c16b handler serve urls) = true ->
  sr_err (snd (save_c16b ft handler serve s m urls rbs)) = false.
Proof.
  intros ft handler serve s m urls rbs H1 H2 H3 Ht Hall.
  rewrite (proj2 (save_fs_char ft handler serve s m urls rbs)).
  unfold save_fs_c16b. rewrite H1, H2, H3, Ht. cbn [orb negb].
  destruct (save_fids_c16b handler serve urls) as [|a fids]; [reflexivity|].
  cbn [snd]. rewrite Hall. reflexivity.
Qed.

(* the message row is stored although an error is returned: FileLinkAttachments failed *)
Lemma save_error_after_row : forall ft handler serve s m urls rbs,
  let r := save_c16b ft handler serve s m urls rbs in
  sr_err (snd r) = true -> ff_topic ft = false -> ff_msg ft = false ->
  memN (mg_topic m) (topics (sv_fs s)) = true ->
  target_live (sv_fs (fst r)) (TMsg (next_mid (sv_fs s))) = true /\
  links (sv_fs (fst r)) = links (sv_fs s) /\
  (ff_link ft = true \/ forallb (fun x => memN x (file_ids (sv_fs s))) (save_fids_c16b handler serve urls) = false).
Proof.
  intros ft handler serve s m urls rbs r Herr H1 H2 Ht. subst r.
  destruct (save_fs_char ft handler serve s m urls rbs) as [A1 A2]. rewrite A2 in Herr. rewrite A1. clear A1 A2.
  unfold save_fs_c16b in *. rewrite H1, H2, Ht in *. cbn [orb negb] in *.
  destruct (save_fids_c16b handler serve urls) as [|a fids] eqn:Ef; [discriminate|].
  destruct (ff_link ft).
  - cbn [fst]. rewrite publish_nil_after_c16b by exact Ht. unfold after_msg_c16b. cbn [target_live msgs map fst links].
    split; [unfold memN; cbn [existsb]; rewrite N.eqb_refl; reflexivity|]. split; [reflexivity|left; reflexivity].
  - cbn [fst snd] in *. apply negb_true_iff in Herr.
    split; [|split; [|right; exact Herr]].
    + cbn [step]. rewrite Ht. cbv zeta. cbn [target_live msgs map fst]. unfold memN. cbn [existsb]. rewrite N.eqb_refl. reflexivity.
    + apply publish_missing_links_nothing. exact Herr.
Qed.

(* ---- the read / received marks of the sender ---- *)
Lemma save_marked_iff : forall ft handler serve s m urls rbs,
  ff_topic ft = false -> ff_msg ft = false -> memN (mg_topic m) (topics (sv_fs s)) = true ->
  sr_marked (snd (save_c16b ft handler serve s m urls rbs)) = rbs && negb (mg_from m =? 0)%N && negb (ff_subs ft).
Proof.
  intros ft handler serve s m urls rbs H1 H2 Ht.
  unfold save_c16b, topic_update_on_message_c16b, message_save_c16b. rewrite H1, H2. cbn [sv_fs]. rewrite Ht. cbn [negb].
  match goal with |- context [snd ?X] => match X with (if rbs then _ else _) => set (sm := X) end end.
  assert (Hm : snd sm = rbs && negb (mg_from m =? 0)%N && negb (ff_subs ft)).
  { subst sm. destruct rbs; [|reflexivity]. destruct (negb (mg_from m =? 0)%N); [|reflexivity].
    unfold subs_update_c16b. destruct (ff_subs ft); reflexivity. }
  clearbody sm.
  destruct (negb (length urls =? 0)%nat && handler); [|exact Hm].
  destruct (negb (length (resolve serve urls) =? 0)%nat); [|exact Hm].
  destruct (file_link_msg_c16b (ff_link ft) (fst sm) _ (resolve serve urls)); exact Hm.
Qed.

(* SubsUpdate is never called for a sender that does not read the topic, and never with the zero uid
   (which would reset the marks of EVERY subscriber) *)
Lemma save_subs_untouched : forall ft handler serve s m urls rbs,
  rbs = false \/ mg_from m = 0%N ->
  sv_subs (fst (save_c16b ft handler serve s m urls rbs)) = sv_subs s.
Proof.
  intros ft handler serve s m urls rbs H.
  unfold save_c16b, topic_update_on_message_c16b, message_save_c16b.
  destruct (ff_topic ft); [reflexivity|]. cbn [sv_fs]. destruct (ff_msg ft); [reflexivity|].
  destruct (memN (mg_topic m) (topics (sv_fs s))); cbn [negb]; [|reflexivity].
  match goal with |- context [fst ?X] => match X with (if rbs then _ else _) => set (sm := X) end end.
  assert (Hm : sv_subs (fst sm) = sv_subs s).
  { subst sm. destruct H as [H|H]; [rewrite H; reflexivity|]. rewrite H. cbn [N.eqb negb]. destruct rbs; reflexivity. }
  clearbody sm.
  destruct (negb (length urls =? 0)%nat && handler); [|exact Hm].
  destruct (negb (length (resolve serve urls) =? 0)%nat); [|exact Hm].
  unfold file_link_msg_c16b. destruct (ff_link ft); [exact Hm|].
  destruct (negb (memN _ _)); [exact Hm|]. destruct (negb (forallb _ _)); exact Hm.
Qed.

(* ---- over all histories: end to end from the URLs of the request ---- *)
Lemma save_listed_url_linked : forall h1 ft serve sq sb m urls rbs h2 url,
  let s := {| sv_fs := run h1; sv_seq := sq; sv_subs := sb |} in
  let r := save_c16b ft true serve s m urls rbs in
  sr_err (snd r) = false ->
  In url urls -> is_done (get_id_from_url serve url) (files (run h1)) = true ->
  let mid := next_mid (run h1) in
  let s2 := run_from (sv_fs (fst r)) h2 in
  target_live s2 (TMsg mid) = true ->
  let f := get_id_from_url serve url in
  In (f, TMsg mid) (links s2) /\ In f (file_ids s2) /\ In f (disk s2) /\
  exists g, download s2 serve url = Some g /\ f_id g = f /\ f_done g = true.
Proof.
  intros h1 ft serve sq sb m urls rbs h2 url s r Herr Hin Hd mid s2 Hl.
  destruct (save_accepted_fs ft serve s m urls rbs Herr) as [Ht [Hall Hfs]]. fold r in Hfs.
  assert (Hs2 : s2 = run (h1 ++ OPublish (mg_topic m) (resolve serve urls) :: h2)).
  { subst s2. rewrite Hfs. rewrite run_app. reflexivity. }
  rewrite Hs2 in *.
  exact (listed_url_linked h1 serve (mg_topic m) urls h2 url Ht Hall Hin Hd Hl).
Qed.

(* ---- Topic.saveAndBroadcastMessage ---- *)
Lemma pub_denied_no_effect : forall ft handler serve s is_sys want given last topic as_uid urls s',
  pub_save_c16b ft handler serve s is_sys want given last topic as_uid urls = (s', PubDenied) ->
  s' = s /\ is_sys = false /\ is_writer_c16b (N.land want given) = false.
Proof.
  intros ft handler serve s is_sys want given last topic as_uid urls s' H. unfold pub_save_c16b in H.
  destruct is_sys; cbn [negb andb] in H.
  - destruct (sr_err _) in H; inversion H.
  - destruct (is_writer_c16b (N.land want given)); cbn [negb] in H.
    + destruct (sr_err _) in H; inversion H.
    + inversion H. repeat split.
Qed.

Lemma pub_gate : forall ft handler serve s is_sys want given last topic as_uid urls,
  snd (pub_save_c16b ft handler serve s is_sys want given last topic as_uid urls) <> PubDenied ->
  is_sys = true \/ is_writer_c16b (N.land want given) = true.
Proof.
  intros ft handler serve s is_sys want given last topic as_uid urls H. unfold pub_save_c16b in H.
  destruct is_sys; [left; reflexivity|]. destruct (is_writer_c16b (N.land want given)); [right; reflexivity|].
  exfalso. apply H. reflexivity.
Qed.

Lemma pub_accepted_links : forall ft serve s is_sys want given last topic as_uid urls s' marked url,
  pub_save_c16b ft true serve s is_sys want given last topic as_uid urls = (s', PubAccepted marked) ->
  In url urls -> get_id_from_url serve url <> 0%N ->
  In (get_id_from_url serve url, TMsg (next_mid (sv_fs s))) (links (sv_fs s')) /\
  target_live (sv_fs s') (TMsg (next_mid (sv_fs s))) = true /\
  In (get_id_from_url serve url) (file_ids (sv_fs s')).
Proof.
  intros ft serve s is_sys want given last topic as_uid urls s' marked url H Hin Hnz. unfold pub_save_c16b in H.
  destruct (negb is_sys && negb (is_writer_c16b (N.land want given))); [inversion H|].
  set (m := {| mg_topic := topic; mg_seq := last + 1; mg_from := as_uid |}) in *.
  set (rbs := is_reader_c16b (N.land given want)) in *.
  destruct (sr_err (snd (save_c16b ft true serve s m urls rbs))) eqn:E; [inversion H|].
  inversion H. exact (save_accepted_links ft serve s m urls rbs url E Hin Hnz).
Qed.

(* every sender whose publish is not denied gets the same file slice and the same verdict *)
Lemma pub_fs_independent_of_sender : forall ft ft' handler serve s is_sys is_sys' want given want' given' last last' topic as_uid as_uid' urls,
  ff_topic ft = ff_topic ft' -> ff_msg ft = ff_msg ft' -> ff_link ft = ff_link ft' ->
  let r := pub_save_c16b ft handler serve s is_sys want given last topic as_uid urls in
  let r' := pub_save_c16b ft' handler serve s is_sys' want' given' last' topic as_uid' urls in
  snd r <> PubDenied -> snd r' <> PubDenied ->
  sv_fs (fst r) = sv_fs (fst r') /\ (snd r = PubFailed <-> snd r' = PubFailed).
Proof.
  intros ft ft' handler serve s is_sys is_sys' want given want' given' last last' topic as_uid as_uid' urls H1 H2 H3 r r' Hr Hr'.
  subst r r'. unfold pub_save_c16b in *.
  destruct (negb is_sys && negb (is_writer_c16b (N.land want given))); [exfalso; apply Hr; reflexivity|].
  destruct (negb is_sys' && negb (is_writer_c16b (N.land want' given'))); [exfalso; apply Hr'; reflexivity|].
  cbn [fst snd].
  destruct (save_fs_independent ft ft' handler serve s s
              {| mg_topic := topic; mg_seq := last + 1; mg_from := as_uid |}
              {| mg_topic := topic; mg_seq := last' + 1; mg_from := as_uid' |} urls
              (is_reader_c16b (N.land given want)) (is_reader_c16b (N.land given' want')) H1 H2 H3 eq_refl eq_refl) as [A B].
  split; [exact A|]. rewrite B.
  destruct (sr_err (snd (save_c16b ft' handler serve s _ urls _))); split; intros X; try reflexivity; discriminate.
Qed.
