(* C10: model of the presence machinery of tinode/chat: server/pres.go (procPresReq,
   presUsersOfInterest, presSubsOnline/Offline, presSingleUserOffline(Offline), infoSubsOffline,
   presPubMessageCount, presPubMessageDelete, presOfflineFilter), topic.go (passesPresenceFilters,
   handleServerMsg, handlePresence, broadcastToSessions' pres and info branches, subscriptionReply
   online accounting, sendImmediateSubNotifications, sendSubNotifications, handleLeaveRequest,
   replyLeaveUnsub for groups and p2p, sessToForeground, handleTopicTimeout, notifySubChange,
   evictUser, saveAndBroadcastMessage, handleNoteBroadcast for kp/read/recv, replyDelMsg),
   session.go note, hub.go routeSrv and the deletion of a p2p topic both parties left,
   init_topic.go loadContacts.

   Several users, their 'me' topics, p2p topics and group topics run side by side.
   Inter-topic notifications travel through a NETWORK (hub.routeSrv + the destination's
   serverMsg queue).  LOSSLESS-NETWORK HYPOTHESIS: no queue overflows (the `select ...
   default` drops in hub.go:250-253 never fire); a message is lost only when its destination
   topic is not loaded, exactly as hub.go:247-263 drops it.  Order: FIFO per (sender topic
   instance, destination), ARBITRARY across pairs: `Deliver i` delivers the i-th in-flight
   message provided no earlier in-flight message has the same sender and destination.
   Every handler runs atomically (one handler at a time per topic).

   Definitions only; proofs in Sys/PresProofs.v.  Identifiers are N; access modes are N
   bit masks (J=1 R=2 W=4 P=8 A=16 S=32 D=64 O=128). *)
From Coq Require Import List NArith ZArith Bool.
Import ListNotations.
Open Scope N_scope.

(* ---------------------------------------------------------------- names *)

Inductive tname := TMe (u : N) | TP2P (a b : N) | TGrp (g : N).
(* TMe u is both the hub name of u's 'me' topic ("usrU") and the contact key of user u;
   TP2P a b is kept canonical (a < b). *)

Definition tname_eqb (x y : tname) : bool :=
  match x, y with
  | TMe a, TMe b => a =? b
  | TP2P a b, TP2P c d => (a =? c) && (b =? d)
  | TGrp a, TGrp b => a =? b
  | _, _ => false
  end.

Definition p2p_name (u v : N) : tname := if u <? v then TP2P u v else TP2P v u.

Section Assoc.
  Context {K V : Type} (eqb : K -> K -> bool).
  Fixpoint aget (k : K) (l : list (K * V)) : option V :=
    match l with [] => None | (k', v) :: r => if eqb k k' then Some v else aget k r end.
  Fixpoint aset (k : K) (v : V) (l : list (K * V)) : list (K * V) :=
    match l with
    | [] => [(k, v)]
    | (k', v') :: r => if eqb k k' then (k, v) :: r else (k', v') :: aset k v r
    end.
  Fixpoint adel (k : K) (l : list (K * V)) : list (K * V) :=
    match l with [] => [] | (k', v') :: r => if eqb k k' then adel k r else (k', v') :: adel k r end.
End Assoc.

(* ---------------------------------------------------------------- modes *)

Definition mJ := 1. Definition mR := 2. Definition mW := 4. Definition mP := 8.
Definition mA := 16. Definition mS := 32. Definition mD := 64. Definition mO := 128.
Definition has (m bit : N) : bool := negb (N.land m bit =? 0).
Definition is_joiner m := has m mJ.  Definition is_reader m := has m mR.
Definition is_writer m := has m mW.  Definition is_presencer m := has m mP.
Definition is_owner m := has m mO.
Definition is_admin m := has m mO || has m mA.
Definition is_sharer m := is_admin m || has m mS.
Definition ModeCSelf : N := 41.      (* JPS: the user's mode on the own 'me' topic *)
Definition ModeCP2P : N := 31.       (* JRWPA *)
Definition ModeCAuth : N := 63.      (* JRWPAS: default access of the users the driver creates *)
Definition ModeCFull : N := 255.
Definition ModeCSharer : N := 176.   (* ASO *)
Definition grp_defacs : N := 47.     (* JRWPS: defacs.auth of the groups the driver creates *)

(* ---------------------------------------------------------------- state *)

Inductive what := WOn | WOff | WUnkn | WNone | WGone | WMsg | WAcs | WUpd | WOther
                | WDel | WRead | WRecv        (* {pres} del / read / recv (replyDelMsg, presPubMessageCount) *)
                | WIRead | WIRecv | WIKp.     (* {info} read / recv / kp (handleNoteBroadcast, infoSubsOffline) *)
Inductive cmd := CNo | CEn | CDis | CRem.

Definition what_eqb (a b : what) : bool :=
  match a, b with
  | WOn, WOn | WOff, WOff | WUnkn, WUnkn | WNone, WNone | WGone, WGone | WMsg, WMsg
  | WAcs, WAcs | WUpd, WUpd | WOther, WOther | WDel, WDel | WRead, WRead | WRecv, WRecv
  | WIRead, WIRead | WIRecv, WIRecv | WIKp, WIKp => true
  | _, _ => false
  end.

(* the notification is an {info}, not a {pres} *)
Definition is_info (w : what) : bool := match w with WIRead | WIRecv | WIKp => true | _ => false end.

Record psd := mkPsd { ps_on : bool; ps_en : bool }.          (* perSubsData *)
Record pud := mkPud { p_want : N; p_given : N; p_online : Z; p_deleted : bool;
                      p_read : Z; p_recv : Z;       (* perUserData.readID / recvID (cache) *)
                      p_dread : Z; p_drecv : Z }.   (* ReadSeqId / RecvSeqId of the stored subscription row *)
Definition p_mode (p : pud) : N := N.land (p_given p) (p_want p).

(* a loaded 'me' topic *)
Record metop := mkMe {
  me_marked : bool;                 (* topicStatusLoaded: contacts loaded, "on" announced *)
  me_online : Z;                    (* perUser[self].online *)
  me_sess : list N;                 (* attached session ids *)
  me_subs : list (tname * psd) }.   (* perSubs *)

(* a p2p or group topic: the subscription rows persist; the rest exists while loaded.
   For groups a deleted entry stands for "row soft-deleted, not in perUser". *)
Record topic := mkTop {
  t_loaded : bool;
  t_marked : bool;
  t_sess : list (N * N);            (* session id -> subscribed user *)
  t_users : list (N * pud);
  t_owner : N;
  t_supd : bool;
  t_lastid : Z }.                   (* Topic.lastID (= topics.seqid: saved with every message) *)                  (* the instance has a session-update channel: initTopicGrp creates one,
                                       initTopicNewGrp and initTopicP2P do not *)

Record presflt := mkFlt { f_in : N; f_out : N; f_single : option N; f_excl : option N }.
Definition nil_flt := mkFlt 0 0 None None.

Record msg := mkMsg {
  m_zombie : bool;                  (* sent by the goroutine of an already unregistered topic instance *)
  m_sender : tname;                 (* sending topic: FIFO key together with m_dst *)
  m_dst : tname;                    (* RcptTo *)
  m_local : bool;                   (* Pres.Topic = destination's xoriginal: forwarded to sessions *)
  m_src : tname;                    (* Pres.Src: contact key, and the address of the reply *)
  m_what : what; m_cmd : cmd;
  m_reply : bool;                   (* WantReply *)
  m_flt : presflt;                  (* FilterIn/FilterOut/SingleUser/ExcludeUser *)
  m_skipsid : option N;
  m_skiptopic : option tname;
  m_from : option N }.              (* Info.From *)

Record sessinfo := mkSess { ss_user : N; ss_bkg : bool }.

Record state := mkSt {
  s_me : list (N * metop);          (* loaded 'me' topics by user *)
  s_top : list (tname * topic);     (* existing p2p and group topics *)
  s_sess : list (N * sessinfo);     (* live sessions *)
  s_net : list msg;                 (* in flight, oldest first *)
  s_zomb : list (tname * list msg)  (* unregistered topic instances whose "off" fan-out is pending *) }.

Definition init : state := mkSt [] [] [] [] [].

Definition set_me (f : list (N * metop) -> list (N * metop)) (s : state) :=
  mkSt (f (s_me s)) (s_top s) (s_sess s) (s_net s) (s_zomb s).
Definition set_top (f : list (tname * topic) -> list (tname * topic)) (s : state) :=
  mkSt (s_me s) (f (s_top s)) (s_sess s) (s_net s) (s_zomb s).
Definition set_sess (f : list (N * sessinfo) -> list (N * sessinfo)) (s : state) :=
  mkSt (s_me s) (s_top s) (f (s_sess s)) (s_net s) (s_zomb s).
Definition set_net (f : list msg -> list msg) (s : state) :=
  mkSt (s_me s) (s_top s) (s_sess s) (f (s_net s)) (s_zomb s).
Definition set_zomb (f : list (tname * list msg) -> list (tname * list msg)) (s : state) :=
  mkSt (s_me s) (s_top s) (s_sess s) (s_net s) (f (s_zomb s)).
Definition send (ms : list msg) (s : state) := set_net (fun n => n ++ ms) s.

Definition get_me (s : state) (u : N) : option metop := aget N.eqb u (s_me s).
Definition get_top (s : state) (t : tname) : option topic := aget tname_eqb t (s_top s).
Definition get_sess (s : state) (sid : N) : option sessinfo := aget N.eqb sid (s_sess s).
Definition put_me (u : N) (m : metop) := set_me (aset N.eqb u m).
Definition put_top (t : tname) (x : topic) := set_top (aset tname_eqb t x).

Definition blank_pud := mkPud 0 0 0 false 0 0 0 0.
(* Go map read: a missing key yields the zero value *)
Definition get_pud (x : topic) (u : N) : pud :=
  match aget N.eqb u (t_users x) with Some p => p | None => blank_pud end.
(* the perUser CACHE has the entry (group entries are dropped on unsubscribe) *)
Definition cached (x : topic) (u : N) : bool :=
  match aget N.eqb u (t_users x) with Some p => negb (p_deleted p) | None => false end.
Definition set_pud (u : N) (p : pud) (x : topic) : topic :=
  mkTop (t_loaded x) (t_marked x) (t_sess x) (aset N.eqb u p (t_users x)) (t_owner x) (t_supd x) (t_lastid x).
Definition set_tsess (l : list (N * N)) (x : topic) : topic :=
  mkTop (t_loaded x) (t_marked x) l (t_users x) (t_owner x) (t_supd x) (t_lastid x).
Definition set_tmarked (b : bool) (x : topic) : topic :=
  mkTop (t_loaded x) b (t_sess x) (t_users x) (t_owner x) (t_supd x) (t_lastid x).
Definition set_lastid (z : Z) (x : topic) : topic :=
  mkTop (t_loaded x) (t_marked x) (t_sess x) (t_users x) (t_owner x) (t_supd x) z.
Definition p_set_online (z : Z) (p : pud) :=
  mkPud (p_want p) (p_given p) z (p_deleted p) (p_read p) (p_recv p) (p_dread p) (p_drecv p).
Definition p_set_modes (w g : N) (p : pud) :=
  mkPud w g (p_online p) (p_deleted p) (p_read p) (p_recv p) (p_dread p) (p_drecv p).
Definition p_set_marks (rd rc drd drc : Z) (p : pud) :=
  mkPud (p_want p) (p_given p) (p_online p) (p_deleted p) rd rc drd drc.
Definition p_set_deleted (z : Z) (d : bool) (p : pud) :=
  mkPud (p_want p) (p_given p) z d (p_read p) (p_recv p) (p_dread p) (p_drecv p).

(* the session is attached to topic t (Session.getSub) *)
Definition sess_on (s : state) (sid : N) (t : tname) : bool :=
  match t with
  | TMe u => match get_me s u with Some m => existsb (N.eqb sid) (me_sess m) | None => false end
  | _ => match get_top s t with
         | Some x => t_loaded x && existsb (fun e => N.eqb sid (fst e)) (t_sess x)
         | None => false end
  end.

(* ---------------------------------------------------------------- filters (pres.go:705-719, topic.go:228-236) *)

Definition pres_offline_filter (mode : N) (w : what) (pf : option presflt) : bool :=
  match w with
  | WAcs | WGone => true
  | _ =>
    (what_eqb w WUpd && is_joiner mode) ||
    (is_presencer mode &&
     match pf with
     | None => true
     | Some f => ((f_in f =? 0) || negb (N.land mode (f_in f) =? 0)) &&
                 ((f_out f =? 0) || (N.land mode (f_out f) =? 0))
     end)
  end.

Definition passes_presence_filters (mode : N) (w : what) (f : presflt) : bool :=
  (is_presencer mode || what_eqb w WGone || what_eqb w WAcs) &&
  ((f_in f =? 0) || negb (N.land mode (f_in f) =? 0)) &&
  ((f_out f =? 0) || (N.land mode (f_out f) =? 0)).

(* ---------------------------------------------------------------- procPresReq (pres.go:97-226) *)

Record ppr := mkPpr { r_subs : list (tname * psd); r_what : option what; r_reply : option (what * cmd * bool) }.

(* `self`: the topic's own name; `isme`: TopicCatMe.  The +cmd is stripped from the result. *)
Definition proc_pres_req (isme : bool) (self : tname) (subs : list (tname * psd)) (from : tname)
           (w : what) (c : cmd) (want_reply : bool) : ppr :=
  let early := mkPpr subs (Some w) None in
  (* switch what *)
  let parsed : option (option bool * bool * option what * cmd) :=     (* online, reqReply, what, cmd *)
    match w with
    | WOn => Some (Some true, false, Some WOn, c)
    | WOff => Some (Some false, false, Some WOff, c)
    | WNone => Some (None, false, None, c)
    | WGone => Some (Some false, false, Some WGone, CRem)
    | WUnkn => Some (None, true, None, c)
    | _ => None
    end in
  match parsed with
  | None => early
  | Some (online, req_reply, what0, c) =>
    let online_update := match w with WOn => true | _ => false end in
    let '(subs', what1, reply_as) :=
      if isme then
        match aget tname_eqb from subs with
        | Some p =>
          match c with
          | CRem =>
            let what1 := if negb (ps_en p) && (match what0 with Some WOff => true | _ => false end) then None else what0 in
            (adel tname_eqb from subs, what1, (WOff, CRem))
          | _ =>
            let same := match online with None => true | Some o => Bool.eqb (ps_on p) o end in
            let '(en', what1) :=
              match c with
              | CNo => (ps_en p, if negb (ps_en p) || same then None else what0)
              | CEn => if negb (ps_en p) then (true, what0) else (true, if same then None else what0)
              | _ (* CDis *) => if ps_en p then (false, if negb (ps_on p) then None else what0) else (false, None)
              end in
            let on' := if negb en' then false else match online with Some o => o | None => ps_on p end in
            (aset tname_eqb from (mkPsd on' en') subs, what1, (WOn, CNo))
          end
        | None =>
          match c with
          | CRem => (subs, None, (WOn, CNo))
          | _ =>
            let en := match c with CEn => true | _ => false end in
            (* addToPerSubs: "No need to push updates to self" *)
            ((if tname_eqb from self then subs else aset tname_eqb from (mkPsd online_update en) subs),
             (if en then what0 else None), (WOn, CNo))
          end
        end
      else (subs, what0, (WOn, CNo)) in
    let reply := if (online_update || req_reply) && want_reply
                 then Some (fst reply_as, snd reply_as, req_reply) else None in
    mkPpr subs' what1 reply
  end.

(* ---------------------------------------------------------------- emission helpers *)

Definition mk_reply (self from : tname) (r : what * cmd * bool) : msg :=
  let '(w, c, rr) := r in
  (* Topic "me": matches the xoriginal of a 'me' destination, never that of a group *)
  mkMsg false self from (match from with TMe _ => true | _ => false end) self w c rr nil_flt None None None.

(* presUsersOfInterest (pres.go:254-282) for what in {on, off}: notifyOn = "me" *)
Definition pres_users_of_interest (zombie : bool) (u : N) (subs : list (tname * psd)) (w : what) : list msg :=
  map (fun e => mkMsg zombie (TMe u) (fst e) (match fst e with TMe _ => true | _ => false end) (TMe u) w CNo
                      (what_eqb w WOn) nil_flt None None None) subs.

(* Topic.original(uid): the name under which user uid knows topic t *)
Definition original (t : tname) (uid : N) : tname :=
  match t with
  | TP2P a b => if uid =? a then TMe b else TMe a
  | _ => t
  end.

(* presSubsOffline (pres.go:432-475) *)
Definition pres_subs_offline (zombie : bool) (t : tname) (x : topic) (w : what) (c : cmd) (fsrc ftgt : presflt)
           (skipsid : option N) (offline_only : bool) : list msg :=
  flat_map (fun e =>
    let '(uid, p) := e in
    if p_deleted p || negb (pres_offline_filter (p_mode p) w (Some fsrc)) then []
    else [mkMsg zombie t (TMe uid) true (original t uid) w c false ftgt skipsid (if offline_only then Some t else None) None])
    (t_users x).

(* presSubsOnline (pres.go:316-346): routed through the hub back to the topic itself *)
Definition pres_subs_online (t : tname) (w : what) (src : tname) (f : presflt) (skipsid : option N) : msg :=
  mkMsg false t t true src w CNo false f skipsid None None.

(* presSingleUserOffline (pres.go:587-628); mode = None stands for ModeInvalid *)
Definition pres_single_offline (t : tname) (uid : N) (mode : option N) (w : what) (c : cmd)
           (skipsid : option N) (offline_only : bool) : list msg :=
  match mode with
  | Some m =>
    if pres_offline_filter m w None
    then [mkMsg false t (TMe uid) true (original t uid) w c (what_eqb w WUnkn) nil_flt skipsid
                (if offline_only then Some t else None) None]
    else []
  | None => []
  end.

(* presSingleUserOfflineOffline (pres.go:632-658): no filter at all *)
Definition pres_single_offline_offline (t : tname) (uid : N) (orig : tname) (w : what) (c : cmd)
           (skipsid : option N) : msg :=
  mkMsg false t (TMe uid) true orig w c false nil_flt skipsid None None.

(* infoSubsOffline (pres.go:479-501): {info what=read|recv|kp} to the 'me' topic of every non-deleted subscriber
   whose mode has P and R (the author included); SkipTopic = the topic, SkipSid = the author's session *)
Definition info_subs_offline (t : tname) (x : topic) (from : N) (w : what) (skipsid : option N) : list msg :=
  flat_map (fun e =>
    let '(uid, p) := e in
    if p_deleted p || negb (is_presencer (p_mode p)) || negb (is_reader (p_mode p)) then []
    else [mkMsg false t (TMe uid) true (original t uid) w CNo false nil_flt skipsid (Some t) (Some from)])
    (t_users x).

(* ---------------------------------------------------------------- outputs *)

Inductive out :=
| Frame (sid user : N) (top src : tname) (w : what)     (* {pres} delivered to a session by topic `top` *)
| Ctrl (sid : N) (code : Z)
| Skipped
| Unmodelled.   (* the request takes a code path this model does not follow (listed in the manifest); the
                   comparison of the history stops here, the monitors on the implementation's trace do not *)

(* broadcastToSessions' pres branch (topic.go:1257-1283) on a 'me' topic *)
Definition bcast_me (s : state) (u : N) (m : metop) (g : msg) (w : what) : list out :=
  flat_map (fun sid =>
    if (match m_skipsid g with Some k => sid =? k | None => false end) then []
    else if (match m_skiptopic g with Some t => sess_on s sid t | None => false end) then []
    else if (match f_single (m_flt g) with Some k => negb (k =? u) | None => false end) then []
    else if (match f_excl (m_flt g) with Some k => k =? u | None => false end) then []
    else if negb (passes_presence_filters ModeCSelf w (m_flt g)) then []
    else [Frame sid u (TMe u) (m_src g) w]) (me_sess m).

Definition bcast_top (s : state) (t : tname) (x : topic) (g : msg) (w : what) : list out :=
  flat_map (fun e =>
    let '(sid, uid) := e in
    if (match m_skipsid g with Some k => sid =? k | None => false end) then []
    else if (match m_skiptopic g with Some t' => sess_on s sid t' | None => false end) then []
    else if (match f_single (m_flt g) with Some k => negb (k =? uid) | None => false end) then []
    else if (match f_excl (m_flt g) with Some k => k =? uid | None => false end) then []
    else if negb (passes_presence_filters (p_mode (get_pud x uid)) w (m_flt g)) then []
    else [Frame sid uid t (m_src g) w]) (t_sess x).

(* broadcastToSessions' info branch (topic.go:1287-1304) for an {info} that arrived from another topic
   (Info.Src != ""): no permission check here - "permissions already checked there" *)
Definition bcast_me_info (s : state) (u : N) (m : metop) (g : msg) : list out :=
  flat_map (fun sid =>
    if (match m_skipsid g with Some k => sid =? k | None => false end) then []
    else if (match m_skiptopic g with Some t => sess_on s sid t | None => false end) then []
    else if what_eqb (m_what g) WIKp && (match m_from g with Some f => f =? u | None => false end) then []
    else [Frame sid u (TMe u) (m_src g) (m_what g)]) (me_sess m).

Definition bcast_top_info_routed (s : state) (t : tname) (x : topic) (g : msg) : list out :=
  flat_map (fun e =>
    let '(sid, uid) := e in
    if (match m_skipsid g with Some k => sid =? k | None => false end) then []
    else if (match m_skiptopic g with Some t' => sess_on s sid t' | None => false end) then []
    else if what_eqb (m_what g) WIKp && (match m_from g with Some f => f =? uid | None => false end) then []
    else [Frame sid uid t (m_src g) (m_what g)]) (t_sess x).

(* the same branch for the {info} the topic makes from a {note} of its own session (Info.Src = "",
   handleNoteBroadcast topic.go:1220-1233): attached sessions of readers, not the author's session, and no
   key presses to the author's other sessions.  The frame's source is printed as the topic itself. *)
Definition bcast_top_info (t : tname) (x : topic) (from sid0 : N) (w : what) : list out :=
  flat_map (fun e =>
    let '(sid, uid) := e in
    if sid =? sid0 then []
    else if negb (is_reader (p_mode (get_pud x uid))) then []
    else if what_eqb w WIKp && (uid =? from) then []
    else [Frame sid uid t (original t uid) w]) (t_sess x).

(* handleServerMsg (topic.go:606-621) at the destination: handlePresence for {pres}, broadcastToSessions
   for {info}; hub.go:247-263 drops when not loaded *)
Definition deliver_msg (s : state) (g : msg) : state * list out :=
  match m_dst g with
  | TMe u =>
    match get_me s u with
    | None => (s, [])
    | Some m =>
      if is_info (m_what g) then (s, bcast_me_info s u m g) else
      let r := proc_pres_req true (TMe u) (me_subs m) (m_src g) (m_what g) (m_cmd g) (m_reply g) in
      let m' := mkMe (me_marked m) (me_online m) (me_sess m) (r_subs r) in
      let s1 := put_me u m' s in
      let s2 := match r_reply r with Some rp => send [mk_reply (TMe u) (m_src g) rp] s1 | None => s1 end in
      (s2, match r_what r with
           | Some w => if m_local g then bcast_me s2 u m' g w else []
           | None => [] end)
    end
  | t =>
    match get_top s t with
    | None => (s, [])
    | Some x =>
      if negb (t_loaded x) then (s, []) else
      if is_info (m_what g) then (s, bcast_top_info_routed s t x g) else
      let r := proc_pres_req false t [] (m_src g) (m_what g) (m_cmd g) (m_reply g) in
      let s2 := match r_reply r with Some rp => send [mk_reply t (m_src g) rp] s | None => s end in
      (s2, match r_what r with
           | Some w => if m_local g then bcast_top s2 t x g w else []
           | None => [] end)
    end
  end.

(* FIFO per (sender instance, destination) *)
Definition same_chan (a b : msg) : bool :=
  Bool.eqb (m_zombie a) (m_zombie b) && tname_eqb (m_sender a) (m_sender b) && tname_eqb (m_dst a) (m_dst b).

Fixpoint take_nth (i : nat) (pre : list msg) (l : list msg) : option (msg * list msg) :=
  match l with
  | [] => None
  | g :: r =>
    match i with
    | O => if existsb (same_chan g) pre then None else Some (g, rev pre ++ r)
    | S j => take_nth j (g :: pre) r
    end
  end.

(* ---------------------------------------------------------------- topic reference of a client request *)

Inductive tref := RMe | RP2P (v : N) | RGrp (g : N).
Definition resolve (u : N) (r : tref) : tname :=
  match r with RMe => TMe u | RP2P v => p2p_name u v | RGrp g => TGrp g end.

(* ---------------------------------------------------------------- handlers *)

(* loadContacts (pres.go:69-79): every non-deleted subscription row of the user *)
Definition load_contacts (s : state) (u : N) (subs : list (tname * psd)) : list (tname * psd) :=
  fold_left (fun acc e =>
    let '(t, x) := e in
    match aget N.eqb u (t_users x) with
    | Some p => if p_deleted p then acc
                else aset tname_eqb (original t u) (mkPsd false (is_presencer (p_mode p))) acc
    | None => acc
    end) (s_top s) subs.

(* sendSubNotifications (topic.go:924-961) *)
Definition sub_notif_me (s : state) (u : N) (m : metop) : metop * list msg :=
  if me_marked m then (m, [])
  else
    let subs := load_contacts s u (me_subs m) in
    (mkMe true (me_online m) (me_sess m) subs, pres_users_of_interest false u subs WOn).

Definition sub_notif_grp (t : tname) (x : topic) (uid sid : N) : topic * list msg :=
  let p := get_pud x uid in
  if negb (t_marked x) then
    (set_tmarked true x,
     pres_subs_offline false t x WOn (if is_presencer (p_mode p) then CEn else CNo) nil_flt nil_flt None false)
  else if (p_online p =? 1)%Z then
    (x, [pres_subs_online t WOn (TMe uid) (mkFlt mR 0 None None) (Some sid)])
  else (x, []).

Definition is_grp (t : tname) : bool := match t with TGrp _ => true | _ => false end.

Definition is_p2p (t : tname) : bool := match t with TP2P _ _ => true | _ => false end.

(* notifySubChange (topic.go:3369-3471) without the "acs" announcements (not modelled);
   new modes None = subscription deleted.
   `rep` = true: the code WITH the repair findings/C10_p2p_unmute.diff (an un-muted P2P subscription gets the
   same "?unkn+en" status request as an un-muted group subscription); `rep` = false: the code before it. *)
Definition notify_sub_change_gen (rep : bool) (t : tname) (uid : N) (old_mode : N) (new_mode : option N) (skip : option N) : list msg :=
  match new_mode with
  | None =>
    match t with
    | TGrp _ => [pres_subs_online t WOff (TMe uid) (mkFlt ModeCSharer 0 None (Some uid)) skip;
                 pres_single_offline_offline t uid t WGone CNo skip]
    | TP2P a b =>
      (* topic.go:3427-3433: "gone" to the user's own 'me' (mode ModeUnset&ModeUnset: no bits, not ModeInvalid),
         then an UNFILTERED "off" about the user to the other user's 'me' *)
      let uid2 := if uid =? a then b else a in
      pres_single_offline t uid (Some 0) WGone CNo skip false ++
      [pres_single_offline_offline t uid2 (TMe uid) WOff CNo None]
    | _ => []
    end
  | Some nm =>
    if negb (is_presencer nm) && is_presencer old_mode then
      [pres_single_offline_offline t uid (original t uid) WOff CDis None]
    else if is_presencer nm && negb (is_presencer old_mode) then
      (if is_grp t || (rep && is_p2p t) then pres_single_offline t uid (Some nm) WUnkn CEn None false else [])
    else []
  end.
Definition notify_sub_change := notify_sub_change_gen true.
Definition notify_sub_change_unrepaired := notify_sub_change_gen false.

(* evictUser (topic.go:3309-3357): sessions of the user leave the topic *)
Definition evict_user (x : topic) (uid : N) (unsub : bool) : topic * list out :=
  let p := get_pud x uid in
  let x1 := if cached x uid then set_pud uid (p_set_deleted 0 unsub p) x else x in
  (set_tsess (filter (fun e => negb (snd e =? uid)) (t_sess x1)) x1, []).

Definition unload_top (x : topic) : topic :=
  mkTop false false [] (map (fun e => (fst e, p_set_online 0 (snd e))) (t_users x)) (t_owner x) false (t_lastid x).

(* hub join of a not yet loaded topic: loadSubscribers / initTopicP2P case 4: the marks come from the rows *)
Definition load_top (x : topic) : topic :=
  mkTop true false [] (map (fun e => (fst e, p_set_marks (p_dread (snd e)) (p_drecv (snd e)) (p_dread (snd e)) (p_drecv (snd e)) (snd e)))
                           (t_users x)) (t_owner x) true (t_lastid x).

(* subsCount (topic.go:3662-3673) of a p2p topic *)
Definition subs_count (x : topic) : nat := length (filter (fun e => negb (p_deleted (snd e))) (t_users x)).
Definition has_deleted (x : topic) : bool := existsb (fun e => p_deleted (snd e)) (t_users x).
(* `t.perUser[uid]` has the key: p2p entries stay (marked deleted), group entries are dropped on unsubscribe *)
Definition found (t : tname) (x : topic) (u : N) : bool :=
  match aget N.eqb u (t_users x) with
  | Some p => match t with TP2P _ _ => true | _ => negb (p_deleted p) end
  | None => false
  end.

(* ---------------------------------------------------------------- operations *)

Inductive op :=
| New (sid u g : N) (bkg : bool)          (* {sub topic:"new.."}: create group g owned by u *)
| Att (sid u : N) (r : tref) (bkg : bool) (* {sub}; the session's background flag is taken when it has no other subscription *)
| Det (sid : N) (r : tref)                (* {leave} *)
| Unsub (sid : N) (r : tref)              (* {leave unsub:true}, groups and p2p *)
| Disc (sid : N)                          (* connection closed: Session.cleanUp *)
| Fg (sid : N)                            (* background timer: Session.onBackgroundTimer *)
| Want (sid : N) (r : tref) (mask : N)    (* {set sub mode} on the own subscription *)
| Given (sid : N) (r : tref) (v mask : N) (* {set sub user mode}: invite / change given / ban *)
| Evict (sid : N) (r : tref) (v : N)      (* {del sub} *)
| Pub (sid : N) (r : tref)                (* {pub}: "msg" notifications *)
| Note (sid u : N) (r : tref) (w : what) (seq : Z)  (* {note what=kp|read|recv} of a session of user u: w = WIKp | WIRead | WIRecv *)
| DelMsg (sid : N) (r : tref) (hard : bool)       (* {del what=msg delseq=[{low:1}]} *)
| Unload (t : tname)                      (* idle timer of a topic without sessions: handleTopicTimeout *)
| UnloadHub (t : tname)                   (* handleTopicTimeout line 495 only: the hub forgets the topic ... *)
| UnloadOff (t : tname)                   (* ... and the old goroutine fans out "off" later (lines 497-502) *)
| Deliver (i : nat).

Definition sess_count_me (s : state) (sid : N) : bool :=
  existsb (fun e => existsb (N.eqb sid) (me_sess (snd e))) (s_me s) ||
  existsb (fun e => existsb (fun f => N.eqb sid (fst f)) (t_sess (snd e))) (s_top s).

(* the session exists, belongs to u; a session with no subscription takes the requested background flag *)
Definition open_sess (s : state) (sid u : N) (bkg : bool) : option (state * bool) :=
  match get_sess s sid with
  | Some i =>
    if negb (ss_user i =? u) then None
    else if sess_count_me s sid then Some (s, ss_bkg i)
    else Some (set_sess (aset N.eqb sid (mkSess u bkg)) s, bkg)
  | None => Some (set_sess (aset N.eqb sid (mkSess u bkg)) s, bkg)
  end.

Definition b2z (b : bool) : Z := if b then 1%Z else 0%Z.

(* attach to 'me': hub join (topic created when absent), subscriptionReply, sendSubNotifications *)
Definition att_me (s : state) (sid u : N) (bkg : bool) : state * list out :=
  let m := match get_me s u with Some m => m | None => mkMe false 0 [] [] end in
  if existsb (N.eqb sid) (me_sess m) then (s, [Skipped]) else
  let m1 := mkMe (me_marked m) (me_online m + b2z (negb bkg)) (me_sess m ++ [sid]) (me_subs m) in
  let '(m2, ms) := if bkg then (m1, []) else sub_notif_me s u m1 in
  (send ms (put_me u m2 s), [Ctrl sid 200]).

(* sendImmediateSubNotifications for a new p2p subscription (topic.go:865-899), "acs" omitted *)
Definition p2p_newsub_notifs (t : tname) (x : topic) (u v : N) : list msg :=
  let mode := p_mode (get_pud x u) in
  let p2 := get_pud x v in
  let mode2 := if p_deleted p2 then None else Some (p_mode p2) in
  pres_single_offline t u (Some mode) WNone CEn None false ++
  pres_single_offline t v mode2 WUnkn
    (if (match mode2 with Some m2 => is_presencer m2 | None => false end) then CEn else CNo) None false.

Definition att_p2p (s : state) (sid u v : N) (bkg : bool) : state * list out :=
  if u =? v then (s, [Skipped]) else
  let t := p2p_name u v in
  match get_top s t with
  | None =>
    (* initTopicP2P creates the topic and both subscriptions (users with default access JRWPAS) *)
    let x := mkTop true false [(sid, u)]
                   [(u, mkPud ModeCP2P ModeCAuth (b2z (negb bkg)) false 0 0 0 0); (v, mkPud ModeCP2P ModeCP2P 0 false 0 0 0 0)]
                   0 false 0 in
    (send (p2p_newsub_notifs t x u v) (put_top t x s), [Ctrl sid 200])
  | Some x0 =>
    (* initTopicP2P cases 2.1/2.2 (the topic is not loaded and one subscription row is deleted: the hub
       re-creates it) are not modelled *)
    if negb (t_loaded x0) && has_deleted x0 then (s, [Unmodelled]) else
    let x := if t_loaded x0 then x0 else load_top x0 in
    if existsb (fun e => N.eqb sid (fst e)) (t_sess x) then (s, [Skipped]) else
    if negb (cached x u) then
      (* the user deleted the subscription earlier and the topic is still loaded: thisUserSub's
         "new subscription" branch for p2p (topic.go:1489-1499,1577-1609), no mode in the request *)
      let p := get_pud x u in
      let want := N.lor (N.land (p_want p) ModeCP2P) mA in
      if negb (is_joiner (p_given p)) then (put_top t x s, [Ctrl sid 403]) else
      if negb (is_joiner want) then (s, [Unmodelled]) else
      let np := mkPud want (p_given p) (b2z (negb bkg)) false 0 0 0 0 in
      let x1 := set_pud u np (set_tsess (t_sess x ++ [(sid, u)]) x) in
      (* notifySubChange(old = none): "?unkn+en" when the new mode has P; then sendImmediateSubNotifications
         with Newsub (subscriptionReply topic.go:1357-1361) *)
      let ms1 := notify_sub_change t u 0 (Some (N.land (p_given p) want)) (Some sid) in
      (send (ms1 ++ p2p_newsub_notifs t x1 u v) (put_top t x1 s), [Ctrl sid 200])
    else
    let p := get_pud x u in
    (* banned by the partner ({set sub user mode} without J): thisUserSub topic.go:1827-1831 *)
    if negb (is_joiner (p_given p)) then (put_top t x s, [Ctrl sid 403]) else
    let x1 := set_pud u (p_set_online (p_online p + b2z (negb bkg)) p) (set_tsess (t_sess x ++ [(sid, u)]) x) in
    (put_top t x1 s, [Ctrl sid 200])
  end.

(* attach to an existing group: thisUserSub with no mode given, subscriptionReply *)
Definition att_grp (s : state) (sid u g : N) (bkg : bool) : state * list out :=
  let t := TGrp g in
  match get_top s t with
  | None => (s, [Ctrl sid 404])
  | Some x0 =>
    let x := if t_loaded x0 then x0 else load_top x0 in
    if existsb (fun e => N.eqb sid (fst e)) (t_sess x) then (s, [Skipped]) else
    let p := get_pud x u in
    if cached x u then
      (* existing subscription, mode unchanged (the generator never self-bans) *)
      if negb (is_joiner (p_given p)) then (put_top t x s, [Ctrl sid 403]) else
      let x1 := set_pud u (p_set_online (p_online p + b2z (negb bkg)) p) (set_tsess (t_sess x ++ [(sid, u)]) x) in
      let '(x2, ms) := if bkg then (x1, []) else sub_notif_grp t x1 u sid in
      (send ms (put_top t x2 s), [Ctrl sid 200])
    else
      (* new subscription: previous given if there was one, else default access; want = default *)
      let given := match aget N.eqb u (t_users x) with Some q => p_given q | None => grp_defacs end in
      if negb (is_joiner given) then (put_top t x s, [Ctrl sid 403]) else
      let want := grp_defacs in
      let np := mkPud want given (b2z (negb bkg)) false 0 0 0 0 in
      let x1 := set_pud u np (set_tsess (t_sess x ++ [(sid, u)]) x) in
      let ms1 := notify_sub_change t u 0 (Some (N.land given want)) (Some sid) in
      let '(x2, ms2) := if bkg then (x1, []) else sub_notif_grp t x1 u sid in
      (send (ms1 ++ ms2) (put_top t x2 s), [Ctrl sid 200])
  end.

(* handleLeaveRequest (topic.go:687-827) for one topic; `bkg`: Session.background at that moment *)
Definition leave_me (s : state) (sid u : N) (bkg : bool) : state :=
  match get_me s u with
  | None => s
  | Some m =>
    if negb (existsb (N.eqb sid) (me_sess m)) then s else
    put_me u (mkMe (me_marked m) (me_online m - b2z (negb bkg)) (filter (fun k => negb (k =? sid)) (me_sess m)) (me_subs m)) s
  end.

Definition leave_top (s : state) (sid : N) (t : tname) (bkg : bool) : state :=
  match get_top s t with
  | None => s
  | Some x =>
    match aget N.eqb sid (t_sess x) with
    | None => s
    | Some uid =>
      let p := get_pud x uid in
      let p' := p_set_online (p_online p - b2z (negb bkg)) p in
      let x1 := set_pud uid p' (set_tsess (adel N.eqb sid (t_sess x)) x) in
      let ms := if is_grp t && (p_online p' =? 0)%Z
                then [pres_subs_online t WOff (TMe uid) (mkFlt mR 0 None None) None] else [] in
      send ms (put_top t x1 s)
    end
  end.

Definition leave (s : state) (sid u : N) (t : tname) (bkg : bool) : state :=
  match t with TMe _ => leave_me s sid u bkg | _ => leave_top s sid t bkg end.

(* all topics the session is attached to *)
Definition sess_topics (s : state) (sid u : N) : list tname :=
  (if sess_on s sid (TMe u) then [TMe u] else []) ++
  map fst (filter (fun e => existsb (fun f => N.eqb sid (fst f)) (t_sess (snd e))) (s_top s)).

(* sessToForeground (topic.go:831-852); p2p topics have no supd channel *)
Definition to_fg (s : state) (sid u : N) (t : tname) : state :=
  match t with
  | TMe _ =>
    match get_me s u with
    | None => s
    | Some m =>
      let m1 := mkMe (me_marked m) (me_online m + 1) (me_sess m) (me_subs m) in
      let '(m2, ms) := sub_notif_me s u m1 in
      send ms (put_me u m2 s)
    end
  | TGrp _ =>
    match get_top s t with
    | None => s
    | Some x =>
      if negb (t_supd x) then s else
      let p := get_pud x u in
      let x1 := set_pud u (p_set_online (p_online p + 1) p) x in
      let '(x2, ms) := sub_notif_grp t x1 u sid in
      send ms (put_top t x2 s)
    end
  | TP2P _ _ => s
  end.

(* thisUserSub with an explicit mode, existing subscription (topic.go:1645-1830), p2p and groups.
   Supported: masks with J; no O unless the owner; no A in groups for non-owners. *)
Definition want_op_gen (rep : bool) (s : state) (sid u : N) (t : tname) (mask : N) : state * list out :=
  match get_top s t with
  | None => (s, [Skipped])
  | Some x =>
    if negb (sess_on s sid t) then (s, [Skipped]) else
    let p := get_pud x u in
    let isown := is_grp t && (t_owner x =? u) in
    if isown && (negb (is_owner mask) || negb (is_joiner mask)) then (s, [Ctrl sid 403])
    else if negb (is_joiner mask) then (s, [Skipped])
    else if negb isown && is_owner mask then (s, [Ctrl sid 403])
    else if is_grp t && negb isown && has mask mA then (s, [Skipped])
    else
      let mask' := if is_grp t then mask else N.lor (N.land mask ModeCP2P) mA in
      if mask' =? p_want p then (s, [Ctrl sid 304]) else
      let x1 := set_pud u (p_set_modes mask' (p_given p) p) x in
      let ms := notify_sub_change_gen rep t u (p_mode p) (Some (N.land (p_given p) mask')) (Some sid) in
      (send ms (put_top t x1 s), [Ctrl sid 200])
  end.

(* anotherUserSub (topic.go:1839-2037) with an explicit mode; masks without O *)
Definition given_op_gen (rep : bool) (s : state) (sid u : N) (t : tname) (v mask : N) : state * list out :=
  match get_top s t with
  | None => (s, [Skipped])
  | Some x =>
    if negb (sess_on s sid t) || (u =? v) || is_owner mask then (s, [Skipped]) else
    let host := p_mode (get_pud x u) in
    if negb (cached x u) || negb (is_sharer host) then (s, [Ctrl sid 403])
    else if negb (is_admin host) then (s, [Ctrl sid 403])
    else
      let mask' := if is_grp t then mask else N.lor (N.land mask ModeCP2P) mA in
      if cached x v then
        let p := get_pud x v in
        if mask' =? p_given p then (s, [Ctrl sid 304])
        else if is_grp t && (t_owner x =? v) then (s, [Ctrl sid 403])
        else
          let x1 := set_pud v (p_set_modes (p_want p) mask' p) x in
          let ms := notify_sub_change_gen rep t v (p_mode p) (Some (N.land mask' (p_want p))) (Some sid) in
          let x2 := if is_joiner mask' then x1 else fst (evict_user x1 v false) in
          (send ms (put_top t x2 s), [Ctrl sid 200])
      else if negb (is_grp t) then
        (* re-invitation of the p2p partner who deleted the subscription: the code re-creates the perUser entry
           WITHOUT its topicName (findings/C10.md #5), after which Topic.original(uid) is "" - not modelled *)
        (s, [Unmodelled])
      else
        (* invitation: want = the previous want of a deleted row, else the user's default & given *)
        let want := match aget N.eqb v (t_users x) with Some q => p_want q | None => N.land ModeCAuth mask' end in
        if negb (is_joiner want) then (s, [Ctrl sid 403]) else
        let x1 := set_pud v (mkPud want mask' 0 false 0 0 0 0) x in
        let ms := notify_sub_change_gen rep t v 0 (Some (N.land mask' want)) (Some sid) in
        let x2 := if is_joiner mask' then x1 else fst (evict_user x1 v false) in
        (send ms (put_top t x2 s), [Ctrl sid 200])
  end.

(* replyDelSub (topic.go:3135-3224), groups *)
Definition evict_op (s : state) (sid u : N) (t : tname) (v : N) : state * list out :=
  match get_top s t with
  | None => (s, [Skipped])
  | Some x =>
    if negb (sess_on s sid t) then (s, [Skipped]) else
    if negb (is_admin (p_mode (get_pud x u))) || (u =? v) || negb (is_grp t) then (s, [Ctrl sid 403])
    else if negb (cached x v) then (s, [Ctrl sid 304])
    else
      let p := get_pud x v in
      if is_owner (p_mode p) || negb (is_joiner (p_want p)) then (s, [Ctrl sid 403]) else
      let ms := notify_sub_change t v (p_mode p) None (Some sid) in
      let x1 := fst (evict_user x v true) in
      (send ms (put_top t x1 s), [Ctrl sid 200])
  end.

(* replyLeaveUnsub (topic.go:3226-3306), groups and p2p *)
Definition unsub_op (s : state) (sid u : N) (t : tname) : state * list out :=
  match get_top s t with
  | None => (s, [Skipped])
  | Some x =>
    if negb (sess_on s sid t) then (s, [Skipped]) else
    match t with
    | TMe _ => (s, [Skipped])
    | TGrp _ =>
      if t_owner x =? u then (s, [Ctrl sid 403]) else
      let p := get_pud x u in
      let ms := notify_sub_change t u (p_mode p) None (Some sid) in
      let x1 := fst (evict_user x u true) in
      (send ms (put_top t x1 s), [Ctrl sid 200])
    | TP2P _ _ =>
      (* store.Subs.Delete of a row that is already deleted: ErrNotFound -> "no action", nothing else happens *)
      if negb (cached x u) then (s, [Ctrl sid 304]) else
      let p := get_pud x u in
      let ms := notify_sub_change t u (p_mode p) None (Some sid) in
      (* evictUser: the perUser entry STAYS, marked deleted, with its want/given; the user's sessions leave *)
      let x1 := fst (evict_user x u true) in
      match subs_count x1 with
      | O => (* both sides gone (topic.go:3299-3303): paused, hub.unreg{del}: hub.topicUnreg case 1.1.1 deletes
                the topic and its rows and stops the topic *)
        (send ms (set_top (adel tname_eqb t) s), [Ctrl sid 200])
      | _ => (send ms (put_top t x1 s), [Ctrl sid 200])
      end
    end
  end.

(* saveAndBroadcastMessage (topic.go:965-1055): lastID, the author's marks (cache always; the row only
   for a reader: messagesMapper.Save readBySender), the "msg" notifications *)
Definition pub_op (s : state) (sid u : N) (t : tname) : state * list out :=
  match get_top s t with
  | None => (s, [Skipped])
  | Some x =>
    if negb (sess_on s sid t) then (s, [Skipped]) else
    let p := get_pud x u in
    if negb (is_writer (p_mode p)) then (s, [Ctrl sid 403]) else
    let l := (t_lastid x + 1)%Z in
    let x1 := set_lastid l x in
    let x2 := if found t x u
              then set_pud u (if is_reader (p_mode p) then p_set_marks l l l l p
                              else p_set_marks l l (p_dread p) (p_drecv p) p) x1
              else x1 in
    (send (pres_subs_offline false t x2 WMsg CNo (mkFlt mR 0 None None) nil_flt None true) (put_top t x2 s), [Ctrl sid 202])
  end.

(* Session.note (session.go:1239-1306) + handleNoteBroadcast (topic.go:1105-1234), kp / read / recv.  From an
   attached session the note goes to the topic directly; a "recv" from a session that is NOT attached goes
   through hub.routeCli (hub.go:222-246) to the topic if it is loaded (anybody may send one: the topic decides);
   every other note of a detached session is refused (the driver does not send it: Skipped).
   {note} is never answered.  `w` is the {info} kind. *)
Definition note_op (s : state) (sid u : N) (t : tname) (w : what) (seq : Z) : state * list out :=
  let attached := sess_on s sid t in
  if negb attached && negb (what_eqb w WIRecv) then (s, [Skipped]) else
  (* session.go:1259-1272 *)
  if (match w with
      | WIKp => negb (seq =? 0)%Z
      | WIRead | WIRecv => (seq <=? 0)%Z
      | _ => true end) then (s, []) else
  match get_top s t with
  | None => (s, [])
  | Some x =>
    if negb attached && negb (t_loaded x) then (s, []) else
    if (t_lastid x <? seq)%Z then (s, []) else
    let p := if found t x u then get_pud x u else blank_pud in
    (* mode = ModeInvalid for a deleted user: no bit set *)
    let mode := if p_deleted p then None else Some (p_mode p) in
    let m := match mode with Some m => m | None => 0 end in
    if (match w with WIKp => negb (is_writer m) | _ => negb (is_reader m) end) then (s, []) else
    if (match w with WIRead => (seq <=? p_read p)%Z | WIRecv => (seq <=? p_recv p)%Z | _ => false end) then (s, []) else
    let p' := match w with
              | WIRead => p_set_marks seq (if (p_recv p <? seq)%Z then seq else p_recv p) seq (p_drecv p) p
              | WIRecv => let rc := if (seq <? p_read p)%Z then p_read p else seq in
                          p_set_marks (p_read p) rc (p_dread p) rc p
              | _ => p end in
    (* presPubMessageCount: {pres read|recv} to the user's own sessions on 'me' that are not attached here *)
    let ms1 := match w with
               | WIRead => pres_single_offline t u mode WRead CNo (Some sid) true
               | WIRecv => pres_single_offline t u mode WRecv CNo (Some sid) true
               | _ => [] end in
    let x1 := match w with WIKp => x | _ => set_pud u p' x end in
    (send (ms1 ++ info_subs_offline t x1 u w (Some sid)) (put_top t x1 s), bcast_top_info t x1 u sid w)
  end.

(* replyDelMsg (topic.go:2984-3091, as of /repo 2721db4) for the range {low:1}: hard needs D (silently soft
   without it), soft needs R *)
Definition delmsg_op (s : state) (sid u : N) (t : tname) (hard : bool) : state * list out :=
  match get_top s t with
  | None => (s, [Skipped])
  | Some x =>
    if negb (sess_on s sid t) then (s, [Skipped]) else
    let p := if found t x u then get_pud x u else blank_pud in
    let mode := p_mode p in
    let hard := hard && has mode mD in
    if negb hard && negb (is_reader mode) then (s, [Ctrl sid 403]) else
    if (t_lastid x <? 1)%Z then (s, [Ctrl sid 400]) else
    if hard then
      (send (pres_subs_online t WDel (TMe u) (mkFlt mR 0 None None) (Some sid) ::
             pres_subs_offline false t x WDel CNo (mkFlt mR 0 None None) nil_flt (Some sid) true) s, [Ctrl sid 200])
    else
      (* presPubMessageDelete: nothing unless the user is a (non-deleted) presencer *)
      let ms := if p_deleted p || negb (is_presencer mode) then []
                else pres_subs_online t WDel (TMe u) (mkFlt 0 0 (Some u) None) (Some sid) ::
                     pres_single_offline t u (Some mode) WDel CNo (Some sid) true in
      (send ms s, [Ctrl sid 200])
  end.

(* the "off" fan-out of handleTopicTimeout (topic.go:497-502) *)
Definition timeout_offs (zombie : bool) (s : state) (t : tname) : list msg :=
  match t with
  | TMe u => match get_me s u with Some m => pres_users_of_interest zombie u (me_subs m) WOff | None => [] end
  | TGrp _ => match get_top s t with
              | Some x => pres_subs_offline zombie t x WOff CNo nil_flt nil_flt None false
              | None => [] end
  | _ => []
  end.

Definition idle (s : state) (t : tname) : bool :=
  match t with
  | TMe u => match get_me s u with Some m => match me_sess m with [] => true | _ => false end | None => false end
  | _ => match get_top s t with
         | Some x => t_loaded x && match t_sess x with [] => true | _ => false end
         | None => false end
  end.

Definition drop_topic (s : state) (t : tname) : state :=
  match t with
  | TMe u => set_me (adel N.eqb u) s
  | _ => match get_top s t with Some x => put_top t (unload_top x) s | None => s end
  end.

Definition sess_user (s : state) (sid : N) : option N :=
  match get_sess s sid with Some i => Some (ss_user i) | None => None end.
Definition sess_bkg (s : state) (sid : N) : bool :=
  match get_sess s sid with Some i => ss_bkg i | None => false end.

Definition step_gen (rep : bool) (s : state) (o : op) : state * list out :=
  match o with
  | New sid u g bkg =>
    match open_sess s sid u bkg, get_top s (TGrp g) with
    | Some (s1, b), None =>
      let t := TGrp g in
      let x := mkTop true false [(sid, u)] [(u, mkPud ModeCFull ModeCFull (b2z (negb b)) false 0 0 0 0)] u false 0 in
      let '(x2, ms) := if b then (x, []) else sub_notif_grp t x u sid in
      (send ms (put_top t x2 s1), [Ctrl sid 200])
    | _, _ => (s, [Skipped])
    end
  | Att sid u r bkg =>
    match open_sess s sid u bkg with
    | None => (s, [Skipped])
    | Some (s1, b) =>
      match r with
      | RMe => att_me s1 sid u b
      | RP2P v => att_p2p s1 sid u v b
      | RGrp g => att_grp s1 sid u g b
      end
    end
  | Det sid r =>
    match sess_user s sid with
    | None => (s, [Skipped])
    | Some u =>
      let t := resolve u r in
      if sess_on s sid t then (leave s sid u t (sess_bkg s sid), [Ctrl sid 200]) else (s, [Skipped])
    end
  | Unsub sid r =>
    match sess_user s sid with
    | None => (s, [Skipped])
    | Some u => unsub_op s sid u (resolve u r)
    end
  | Disc sid =>
    match sess_user s sid with
    | None => (s, [Skipped])
    | Some u =>
      (* cleanUp: background := false BEFORE unsubAll (session.go:423-425) *)
      let s1 := fold_left (fun acc t => leave acc sid u t false) (sess_topics s sid u) s in
      (set_sess (adel N.eqb sid) s1, [])
    end
  | Fg sid =>
    match get_sess s sid with
    | None => (s, [Skipped])
    | Some i =>
      if negb (ss_bkg i) then (s, [Skipped]) else
      let s1 := set_sess (aset N.eqb sid (mkSess (ss_user i) false)) s in
      (fold_left (fun acc t => to_fg acc sid (ss_user i) t) (sess_topics s sid (ss_user i)) s1, [])
    end
  | Want sid r mask =>
    match sess_user s sid with
    | None => (s, [Skipped])
    | Some u => match r with RMe => (s, [Skipped]) | _ => want_op_gen rep s sid u (resolve u r) mask end
    end
  | Given sid r v mask =>
    match sess_user s sid with
    | None => (s, [Skipped])
    | Some u =>
      match r with
      | RMe => (s, [Skipped])
      | _ => if u =? v then want_op_gen rep s sid u (resolve u r) mask   (* replySetSub: target = self *)
             else given_op_gen rep s sid u (resolve u r) v mask
      end
    end
  | Evict sid r v =>
    match sess_user s sid with
    | None => (s, [Skipped])
    | Some u => match r with RMe => (s, [Skipped]) | _ => evict_op s sid u (resolve u r) v end
    end
  | Pub sid r =>
    match sess_user s sid with
    | None => (s, [Skipped])
    | Some u => match r with RMe => (s, [Skipped]) | _ => pub_op s sid u (resolve u r) end
    end
  | Note sid u r w seq =>
    (* a session that has not attached to anything yet is not in the table; it may still send a "recv" *)
    if (match sess_user s sid with Some u' => negb (u' =? u) | None => false end) then (s, [Skipped]) else
    match r with RMe => (s, [Skipped]) | _ => note_op s sid u (resolve u r) w seq end
  | DelMsg sid r hard =>
    match sess_user s sid with
    | None => (s, [Skipped])
    | Some u => match r with RMe => (s, [Skipped]) | _ => delmsg_op s sid u (resolve u r) hard end
    end
  | Unload t =>
    if idle s t then (send (timeout_offs false s t) (drop_topic s t), []) else (s, [Skipped])
  | UnloadHub t =>
    if idle s t then (set_zomb (fun z => z ++ [(t, timeout_offs true s t)]) (drop_topic s t), []) else (s, [Skipped])
  | UnloadOff t =>
    match aget tname_eqb t (s_zomb s) with
    | Some ms => (send ms (set_zomb (adel tname_eqb t) s), [])
    | None => (s, [Skipped])
    end
  | Deliver i =>
    match take_nth i [] (s_net s) with
    | None => (s, [Skipped])
    | Some (g, rest) => deliver_msg (set_net (fun _ => rest) s) g
    end
  end.

Definition step := step_gen true.                (* the code with the repair *)
Definition step_unrepaired := step_gen false.    (* the code before findings/C10_p2p_unmute.diff *)
Definition want_op := want_op_gen true.
Definition given_op := given_op_gen true.

Fixpoint run_gen (rep : bool) (s : state) (h : list op) : state * list out :=
  match h with
  | [] => (s, [])
  | o :: r => let '(s1, o1) := step_gen rep s o in let '(s2, o2) := run_gen rep s1 r in (s2, o1 ++ o2)
  end.
Definition run := run_gen true.
Definition run_unrepaired := run_gen false.

Definition reach (s : state) : Prop := exists h, s = fst (run init h).

(* run to quiescence in global FIFO order (fuel bounds the handshake length) *)
Fixpoint drain (fuel : nat) (s : state) : state * list out :=
  match fuel with
  | O => (s, [])
  | S f =>
    match s_net s with
    | [] => (s, [])
    | _ => let '(s1, o1) := step s (Deliver 0) in let '(s2, o2) := drain f s1 in (s2, o1 ++ o2)
    end
  end.

(* every idle topic, in the canonical order of the driver: me by user, p2p, groups *)
Definition idle_topics (s : state) : list tname :=
  filter (idle s) (map (fun e => TMe (fst e)) (s_me s) ++ map fst (s_top s)).
