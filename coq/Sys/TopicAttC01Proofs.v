(* C01: proofs about a {pub} that lists attachments (model Sys/TopicAttC01.v). *)
From Coq Require Import ZArith NArith List Bool Lia.
From Tinode Require Import Base.Util Pure.Acs Sys.Topic Sys.TopicTac Sys.TopicFrame Sys.TopicNum Sys.TopicNumThm Sys.TopicAttC01.
Import ListNotations.
Open Scope Z_scope.

(* the three outcomes of a publish with attachments *)
Definition att_refused (s : store) (c : cache) (sid : N) (h : hres) : Prop :=
  h_ca h = c /\ seqs (h_st h) = seqs s /\ msgs (h_st h) = msgs s /\
  (t_seqid (h_st h) = t_seqid s \/ t_seqid (h_st h) = c_lastid c + 1) /\ no_ack (h_out h) /\
  exists code, h_out h = [(sid, Ctrl code [])] /\ 400 <= code.
Definition att_accepted (s : store) (c : cache) (sid u content : N) (noecho : bool) (h : hres) : Prop :=
  c_lastid (h_ca h) = c_lastid c + 1 /\ t_seqid (h_st h) = c_lastid c + 1 /\
  msgs (h_st h) = msgs s ++ [mkMsg (c_lastid c + 1) u content 0] /\
  ~ In (c_lastid c + 1) (seqs s) /\
  h_out h = (sid, Ctrl 202 [(P_seq, c_lastid c + 1)]) ::
            fanout_data (h_ca h) (if noecho then sid else 0%N) (Data (c_lastid c + 1) u content)
            ++ push_out (h_ca h) (c_lastid c + 1) u.
(* refused at the attachment-link call: the rows are written, lastID is not advanced *)
Definition att_link_failed (s : store) (c : cache) (sid u content : N) (h : hres) : Prop :=
  h_ca h = c /\ t_seqid (h_st h) = c_lastid c + 1 /\
  msgs (h_st h) = msgs s ++ [mkMsg (c_lastid c + 1) u content 0] /\
  ~ In (c_lastid c + 1) (seqs s) /\
  h_out h = [(sid, Ctrl 500 [])].

Lemma no_ack_single sid code : no_ack [(sid, Ctrl code [])].
Proof. intros a b H. destruct H as [H|[]]. discriminate. Qed.

Lemma publish_att_cases f s c n sid u content noecho atts :
  let h := publish_att f s c n sid u content noecho atts in
  att_refused s c sid h \/ att_accepted s c sid u content noecho h \/
  (att_link_failed s c sid u content h /\ link_safe_c01a f c u n atts = false).
Proof.
  cbn zeta. unfold publish_att, link_safe_c01a, link_call_c01a, call.
  destruct (negb (is_writer (pud_mode (get_pud c u)))).
  { left. unfold att_refused. cbn. repeat split; auto using no_ack_single. exists 403. split; [reflexivity|lia]. }
  destruct (negb (negb (fails f (S n)))).
  { left. unfold att_refused. cbn. repeat split; auto using no_ack_single. exists 500. split; [reflexivity|lia]. }
  destruct (negb (negb (fails f (S (S n))))).
  { left. unfold att_refused. cbn. repeat split; auto using no_ack_single. exists 500. split; [reflexivity|lia]. }
  destruct (ad_msg_save (st_seqid (c_lastid c + 1) s) (c_lastid c + 1) u content) as [s2|] eqn:SV.
  2:{ left. unfold att_refused. cbn. repeat split; auto using no_ack_single. exists 500. split; [reflexivity|lia]. }
  right.
  unfold ad_msg_save in SV.
  destruct (existsb (fun m => m_seq m =? c_lastid c + 1) (msgs (st_seqid (c_lastid c + 1) s))) eqn:EX; [discriminate|].
  inv SV.
  assert (~ In (c_lastid c + 1) (seqs s)) as NI.
  { intros Hin. unfold seqs in Hin. apply in_map_iff in Hin. destruct Hin as [m [Hm1 Hm2]].
    assert (existsb (fun m => m_seq m =? c_lastid c + 1) (msgs s) = true) as E.
    { apply existsb_exists. exists m. split; [assumption|]. lia. }
    cbn in EX. congruence. }
  destruct (att_ids_c01a atts) as [|a ids].
  { left. unfold att_accepted.
    destruct (is_reader (pud_mode (get_pud c u)));
      cbn [h_st h_ca h_out fst snd];
      repeat match goal with |- context [if ?b then _ else _] => destruct b end;
      cbn [c_lastid c_set_lastid c_set_users]; try rewrite seqid_subs_update; try rewrite msgs_subs_update;
      cbn [t_seqid msgs st_msgs st_seqid]; repeat split; auto. }
  destruct (is_reader (pud_mode (get_pud c u))); cbn [fst snd andb].
  - destruct (fails f (S (S (S (S n))))); cbn [negb orb andb].
    + right. split; [|apply andb_false_r].
      unfold att_link_failed. cbn [h_st h_ca h_out].
      repeat match goal with |- context [if ?b then _ else _] => destruct b end;
      try rewrite seqid_subs_update; try rewrite msgs_subs_update; cbn [t_seqid msgs st_msgs st_seqid]; repeat split; auto.
    + destruct (forallb att_known_c01a (a :: ids)); cbn [negb].
      * left. unfold att_accepted. cbn [h_st h_ca h_out].
        repeat match goal with |- context [if ?b then _ else _] => destruct b end;
        cbn [c_lastid c_set_lastid c_set_users]; try rewrite seqid_subs_update; try rewrite msgs_subs_update;
        cbn [t_seqid msgs st_msgs st_seqid]; repeat split; auto.
      * right. split; [|reflexivity].
        unfold att_link_failed. cbn [h_st h_ca h_out].
        repeat match goal with |- context [if ?b then _ else _] => destruct b end;
        try rewrite seqid_subs_update; try rewrite msgs_subs_update; cbn [t_seqid msgs st_msgs st_seqid]; repeat split; auto.
  - destruct (fails f (S (S (S n)))); cbn [negb orb andb].
    + right. split; [|apply andb_false_r].
      unfold att_link_failed. cbn [h_st h_ca h_out t_seqid msgs st_msgs st_seqid]. repeat split; auto.
    + destruct (forallb att_known_c01a (a :: ids)); cbn [negb].
      * left. unfold att_accepted. cbn [h_st h_ca h_out].
        repeat match goal with |- context [if ?b then _ else _] => destruct b end;
        cbn [c_lastid c_set_lastid c_set_users t_seqid msgs st_msgs st_seqid]; repeat split; auto.
      * right. split; [|reflexivity].
        unfold att_link_failed. cbn [h_st h_ca h_out t_seqid msgs st_msgs st_seqid]. repeat split; auto.
Qed.

Lemma acked_head sid n rest : acked ((sid, Ctrl 202 [(P_seq, n)]) :: rest) sid n.
Proof. left. reflexivity. Qed.

(* "a publish whose save failed consumes no number": whatever the attachments and whichever
   store call failed, a publish that acknowledges nothing leaves the cache (lastID) as it was *)
Lemma publish_att_failed_keeps_cache f s c n sid u content noecho atts :
  no_ack (h_out (publish_att f s c n sid u content noecho atts)) ->
  h_ca (publish_att f s c n sid u content noecho atts) = c.
Proof.
  intros NA. destruct (publish_att_cases f s c n sid u content noecho atts) as [R|[A|[L _]]].
  - apply R.
  - exfalso. destruct A as (_ & _ & _ & _ & O). rewrite O in NA. exact (NA _ _ (acked_head _ _ _)).
  - apply L.
Qed.

(* ... and stores nothing, PROVIDED the attachment link cannot fail *)
Lemma publish_att_failed_stores_nothing f s c n sid u content noecho atts :
  link_safe_c01a f c u n atts = true ->
  no_ack (h_out (publish_att f s c n sid u content noecho atts)) ->
  att_refused s c sid (publish_att f s c n sid u content noecho atts).
Proof.
  intros LS NA. destruct (publish_att_cases f s c n sid u content noecho atts) as [R|[A|[_ L]]].
  - exact R.
  - exfalso. destruct A as (_ & _ & _ & _ & O). rewrite O in NA. exact (NA _ _ (acked_head _ _ _)).
  - congruence.
Qed.

(* a number that is stored is never issued again: while lastID+1 is taken every publish is refused *)
Lemma publish_att_taken_number_refused f s c n sid u content noecho atts :
  In (c_lastid c + 1) (seqs s) ->
  att_refused s c sid (publish_att f s c n sid u content noecho atts).
Proof.
  intros T. destruct (publish_att_cases f s c n sid u content noecho atts) as [R|[A|[L _]]].
  - exact R.
  - exfalso. destruct A as (_ & _ & _ & NI & _). contradiction.
  - exfalso. destruct L as (_ & _ & _ & NI & _). contradiction.
Qed.

(* after a refusal at the link call the topic refuses every publish (until it is reloaded) *)
Lemma link_failure_blocks f s c n sid u content noecho atts :
  att_link_failed s c sid u content (publish_att f s c n sid u content noecho atts) ->
  forall f' n' sid' u' content' noecho' atts',
    let h := publish_att f s c n sid u content noecho atts in
    att_refused (h_st h) c sid' (publish_att f' (h_st h) (h_ca h) n' sid' u' content' noecho' atts').
Proof.
  intros L f' n' sid' u' content' noecho' atts'. cbn zeta.
  destruct L as (E1 & _ & E3 & _ & _). rewrite E1.
  apply publish_att_taken_number_refused. unfold seqs. rewrite E3. rewrite map_app. apply in_or_app. right. left. reflexivity.
Qed.

(* no listed URL names a file: the publish is the publish of the base model *)
Lemma publish_att_no_ids f s c n sid u content noecho atts :
  att_ids_c01a atts = [] ->
  publish_att f s c n sid u content noecho atts = publish f s c n sid u content noecho.
Proof.
  intros E. unfold publish_att, publish.
  destruct (negb (is_writer (pud_mode (get_pud c u)))); [reflexivity|].
  destruct (call f n) as [ok1 n1]. destruct (negb ok1); [reflexivity|].
  destruct (call f n1) as [ok2 n2]. destruct (negb ok2); [reflexivity|].
  destruct (ad_msg_save (st_seqid (c_lastid c + 1) s) (c_lastid c + 1) u content); [|reflexivity].
  rewrite E. reflexivity.
Qed.

Section ASim.
Variable dr : Z -> list (Z * Z) -> option (list (Z * Z)).
Variable nr : list (Z * Z) -> list (Z * Z).
Variable sm : sessmap.

Lemma astep_no_ids f x o : no_file_ids_c01a o = true ->
  astep dr nr sm f x o = step dr nr sm f x (base_op_c01a o).
Proof.
  destruct o as [bo|sid content noecho atts]; cbn [astep base_op_c01a no_file_ids_c01a]; [reflexivity|].
  intros E. destruct (att_ids_c01a atts) eqn:EA; [|discriminate].
  destruct (ca x) as [c|] eqn:CA; [|reflexivity].
  destruct (attached c sid) eqn:AT; [|reflexivity].
  rewrite (publish_att_no_ids _ _ _ _ _ _ _ _ _ EA).
  unfold step. rewrite CA. cbn. rewrite AT. cbn. reflexivity.
Qed.

Lemma arun_no_ids h : forall x,
  forallb (fun fo => no_file_ids_c01a (snd fo)) h = true ->
  arun dr nr sm x h = run dr nr sm x (map (fun fo => (fst fo, base_op_c01a (snd fo))) h).
Proof.
  induction h as [|[f o] r IH]; intros x E; [reflexivity|].
  cbn [forallb snd] in E. apply andb_true_iff in E. destruct E as [E1 E2].
  cbn [arun run map fst snd]. unfold astep_f, step_f. cbn [fst snd].
  rewrite (astep_no_ids f x o E1).
  destruct (step dr nr sm f x (base_op_c01a o)) as [x1 o1].
  destruct f; rewrite IH by exact E2; reflexivity.
Qed.
End ASim.

(* the witness: the owner publishes with one well-formed URL of a file that was never uploaded; no store fault *)
Definition att_wit_store : store := ad_sub_create (mkStore true 0 0 0 47 0 [] [] [] [(1%N, 47%N)]) 1%N 255%N 255%N.
Definition att_wit_cache : cache := load att_wit_store.
Definition att_wit : hres := publish_att NoFault att_wit_store att_wit_cache 0 1 1 7 false [AttUnknown].

Lemma att_wit_facts :
  h_out att_wit = [(1%N, Ctrl 500 [])] /\ c_lastid (h_ca att_wit) = 0 /\ map m_seq (msgs (h_st att_wit)) = [1] /\
  msgs att_wit_store = [].
Proof. vm_compute. repeat split; reflexivity. Qed.
