(* Executable model of the video-call state machine of one peer-to-peer topic of
   tinode/chat (server/calls.go 206-455, the invitation gate of
   server/topic.go handlePubBroadcast 1071-1100, saveAndBroadcastMessage 963-1054,
   unregisterSession 298-318, the timer case 583-584, handleNoteBroadcast 1105-1143,
   Session.note / Session.publish / Session.leave routing of server/session.go,
   infoCallSubsOffline of server/pres.go 503-532, evictUser / replyLeaveUnsub).

   One [step] = one client request (or the timer tick) handled to quiescence by
   the topic goroutine ("one handler at a time per topic").

   Scope: one p2p topic, its two participants (perUser has exactly the entries
   of [users]; a third user is any uid not in [users]), their R and P permission
   bits constant (only W changes: want and given separately), no cluster
   (no proxy/multiplexing sessions), topic never paused/deleted (isInactive =
   false), store never fails, the topic is not unloaded once loaded.
   Go >= 1.23 timer semantics: after Stop/Reset no stale tick is delivered, so
   "the timer case runs" iff the timer is armed.
   The model follows the code WITH the repair findings/C15_deleted.diff (handleCallEvent ignores a
   sender whose subscription is deleted); the handler as it was is kept as [_unrepaired].
   Re-subscription of an unsubscribed participant and the unsubscription of both
   participants (topic deletion) are outside the model (the generator never does it).

   Definitions only.  Proofs are in Sys/CallProofs.v. *)
From Coq Require Import ZArith NArith List Bool.
Import ListNotations.
Open Scope Z_scope.

Definition uid := N.
Definition sid := N.

Section Assoc.
  Context {A : Type}.
  Fixpoint lookup (k : N) (l : list (N * A)) : option A :=
    match l with
    | [] => None
    | (k', v) :: r => if N.eqb k k' then Some v else lookup k r
    end.
  Fixpoint update (k : N) (f : A -> A) (l : list (N * A)) : list (N * A) :=
    match l with
    | [] => []
    | (k', v) :: r => if N.eqb k k' then (k', f v) :: r else (k', v) :: update k f r
    end.
End Assoc.

Fixpoint mem (k : N) (l : list N) : bool :=
  match l with [] => false | x :: r => N.eqb k x || mem k r end.
Definition remove (k : N) (l : list N) : list N := filter (fun x => negb (N.eqb k x)) l.

(* {note what=call event=...} *)
Inductive event := EvRinging | EvAccept | EvOffer | EvAnswer | EvIce | EvHangup | EvUnknown.

(* head.webrtc: the client's own text in an invitation (a token), or one of the
   five server-written call states *)
Inductive wstate := WClient (tok : N) | WAccepted | WFinished | WDeclined | WMissed | WDisconnected.

(* videoCall: parties (the originator always, the callee after acceptance), the seq of
   the invitation message, its content.  len(parties) == 2 <-> c_callee is Some. *)
Record call := mkCall {
  c_ouid : uid; c_osid : sid; c_callee : option (sid * uid); c_seq : Z; c_content : N }.
Definition accepted (c : call) : bool := match c_callee c with Some _ => true | None => false end.

(* perUserData: W bit of modeWant and of modeGiven, deleted, topicName (= the other user) *)
Record pud := mkPud { p_want_w : bool; p_given_w : bool; p_deleted : bool; p_peer : uid }.
Definition is_writer (p : pud) : bool := p_want_w p && p_given_w p.

(* a stored message / the payload of a {data} frame; m_sender = 0: no head.sender *)
Record msg := mkMsg {
  m_seq : Z; m_from : uid; m_replace : option Z; m_webrtc : option wstate; m_sender : uid; m_content : N }.

Inductive frame :=
| FCtrl (code : Z) (seq : option Z)
| FData (m : msg) (topic : uid)                      (* topic as seen by the recipient: the other user *)
| FInfo (ev : event) (seq : Z) (from : uid) (topic : uid) (payload : option N)   (* on the p2p topic *)
| FInfoMe (ev : event) (seq : Z) (from : uid) (src : uid) (payload : option N).  (* on the recipient's 'me' *)

Definition out := (sid * frame)%type.

(* static configuration: calls configured (len(globals.iceServers) > 0); which user each
   connection belongs to *)
Record config := mkCfg { configured : bool; sess_user : list (sid * uid) }.

Record state := mkState {
  loaded : bool;            (* the topic is in the hub (after the first attach) *)
  current : option call;    (* Topic.currentCall *)
  timer : bool;             (* Topic.callEstablishmentTimer is armed *)
  lastid : Z;               (* Topic.lastID *)
  attached : list sid;      (* Topic.sessions *)
  on_me : list sid;         (* sessions attached to their user's 'me' topic *)
  dead : list sid;          (* closed connections *)
  users : list (uid * pud); (* Topic.perUser *)
  store : list msg }.       (* message rows, newest first *)

Definition set_loaded v s := mkState v (current s) (timer s) (lastid s) (attached s) (on_me s) (dead s) (users s) (store s).
Definition set_current v s := mkState (loaded s) v (timer s) (lastid s) (attached s) (on_me s) (dead s) (users s) (store s).
Definition set_timer v s := mkState (loaded s) (current s) v (lastid s) (attached s) (on_me s) (dead s) (users s) (store s).
Definition set_attached v s := mkState (loaded s) (current s) (timer s) (lastid s) v (on_me s) (dead s) (users s) (store s).
Definition set_on_me v s := mkState (loaded s) (current s) (timer s) (lastid s) (attached s) v (dead s) (users s) (store s).
Definition set_dead v s := mkState (loaded s) (current s) (timer s) (lastid s) (attached s) (on_me s) v (users s) (store s).
Definition set_users v s := mkState (loaded s) (current s) (timer s) (lastid s) (attached s) (on_me s) (dead s) v (store s).
Definition add_msg (m : msg) s := mkState (loaded s) (current s) (timer s) (m_seq m) (attached s) (on_me s) (dead s) (users s) (m :: store s).

Definition user_of (cfg : config) (s : sid) : uid :=
  match lookup s (sess_user cfg) with Some u => u | None => 0%N end.
Definition known (cfg : config) (s : sid) : bool :=
  match lookup s (sess_user cfg) with Some _ => true | None => false end.

(* Topic.original(uid) for a p2p topic *)
Definition peer_of (st : state) (u : uid) : uid :=
  match lookup u (users st) with Some p => p_peer p | None => 0%N end.

Definition writer (st : state) (u : uid) : bool :=
  match lookup u (users st) with Some p => is_writer p | None => false end.

Inductive op :=
| OAttach (s : sid)                       (* {sub topic=usrX} *)
| OAttachMe (s : sid)                     (* {sub topic=me} *)
| OLeave (s : sid)                        (* {leave} *)
| OUnsub (s : sid)                        (* {leave unsub=true} *)
| ODisc (s : sid)                         (* connection closed: Session.cleanUp *)
| OInvite (s : sid) (content : N) (w : N) (* {pub head={webrtc: w}} *)
| OPub (s : sid) (content : N)            (* {pub} *)
| OEvent (s : sid) (e : event) (seq : Z) (payload : N)  (* {note what=call} *)
| OTimeout                                (* callEstablishmentTimeout seconds pass *)
| OSetW (s : sid) (target : uid) (b : bool). (* {set sub mode}: own want (target 0/self) or the other's given *)

Arguments OAttach s%N.
Arguments OAttachMe s%N.
Arguments OLeave s%N.
Arguments OUnsub s%N.
Arguments ODisc s%N.
Arguments OInvite s%N content%N w%N.
Arguments OPub s%N content%N.
Arguments OEvent s%N e seq%Z payload%N.
Arguments OSetW s%N target%N b.

(* ------------------------------------------------------------------ *)
(* broadcastToSessions of a {data}: every attached session (both participants are readers) *)
Definition bcast_data (cfg : config) (st : state) (m : msg) : list out :=
  map (fun s => (s, FData m (peer_of st (user_of cfg s)))) (attached st).

(* saveAndBroadcastMessage(msg, asUid, false, nil, head, content).
   msess = msg.sess, has_id = (msg.Id != "").  Result flag: err == nil. *)
Definition save_and_broadcast (cfg : config) (st : state) (msess : sid) (has_id : bool) (as_uid : uid)
    (repl : option Z) (w : option wstate) (content : N) : state * list out * bool :=
  if negb (writer st as_uid) then (st, [(msess, FCtrl 403 None)], false)
  else
    let su := user_of cfg msess in
    let sender := if N.eqb su as_uid then 0%N else su in
    let m := mkMsg (lastid st + 1) as_uid repl w sender content in
    let st' := add_msg m st in
    (st', (if has_id then [(msess, FCtrl 202 (Some (m_seq m)))] else []) ++ bcast_data cfg st' m, true).

(* infoCallSubsOffline(from, target, event, seq, payload, skipSid, offlineOnly) *)
Definition me_info (cfg : config) (st : state) (from target : uid) (ev : event) (seq : Z) (payload : option N)
    (skip : option sid) (offline_only : bool) : list out :=
  match lookup target (users st) with
  | None => []
  | Some p =>
    if p_deleted p then []
    else map (fun s => (s, FInfoMe ev seq from (p_peer p) payload))
           (filter (fun s => N.eqb (user_of cfg s) target
                             && negb (match skip with Some k => N.eqb s k | None => false end)
                             && negb (offline_only && mem s (attached st))) (on_me st))
  end.

(* maybeEndCallInProgress(from, msg, callDidTimeout) with currentCall = c; from = 0: "" *)
Definition end_call (cfg : config) (st : state) (c : call) (from : uid) (msess : sid) (timeout : bool)
    : state * list out :=
  let st1 := set_timer false st in
  let w := if negb (N.eqb from 0) && accepted c then WFinished
           else if negb (N.eqb from 0) then (if N.eqb from (c_ouid c) then WMissed else WDeclined)
           else if timeout then WMissed else WDisconnected in
  let '(st2, o1, _) := save_and_broadcast cfg st1 msess false (c_ouid c) (Some (c_seq c)) (Some w) (c_content c) in
  let o2 := map (fun s => (s, FInfo EvHangup (c_seq c) 0%N (peer_of st2 (user_of cfg s)) None)) (attached st2) in
  let o3 := flat_map (fun up => me_info cfg st2 from (fst up) EvHangup (c_seq c) None None true) (users st2) in
  (set_current None st2, o1 ++ o2 ++ o3).

(* terminateCallInProgress(callDidTimeout): the dummy request carries the originator's session *)
Definition terminate (cfg : config) (st : state) (timeout : bool) : state * list out :=
  match current st with
  | None => (st, [])
  | Some c => end_call cfg st c 0%N (c_osid c) timeout
  end.

Definition is_party (c : call) (s : sid) : bool :=
  N.eqb s (c_osid c) || match c_callee c with Some (k, _) => N.eqb s k | None => false end.

(* the head of unregisterSession: a leaving party session terminates the call *)
Definition unregister_call (cfg : config) (st : state) (s : sid) : state * list out :=
  match current st with
  | Some c => if is_party c s then terminate cfg st false else (st, [])
  | None => (st, [])
  end.

(* handleCallEvent(msg) for msg.sess = s, msg.AsUser = user_of s.
   [gone] is the test applied to the sender's perUser entry besides its existence:
   the code as repaired (fix: findings/C15_deleted.diff) ignores a sender whose subscription is
   marked deleted (`!userFound || pud.deleted`); before the repair only `!userFound` was tested. *)
Definition handle_call_event_with (gone : pud -> bool) (cfg : config) (st : state) (s : sid) (e : event) (seq : Z) (payload : N)
    : state * list out :=
  match current st with
  | None => (st, [])
  | Some c =>
    if negb (c_seq c =? seq) then (st, [])
    else
      let as_uid := user_of cfg s in
      match lookup as_uid (users st) with
      | None => (st, [])
      | Some pd =>
        if gone pd then (st, []) else
        match e with
        | EvRinging | EvAccept =>
          if accepted c then (st, [])
          else if N.eqb (c_osid c) s || N.eqb (c_ouid c) as_uid then (st, [])
          else
            let fwd := (c_osid c, FInfo e (c_seq c) as_uid (peer_of st (c_ouid c)) None) in
            match e with
            | EvAccept =>
              let '(st1, o1, ok) := save_and_broadcast cfg st s false (c_ouid c) (Some (c_seq c)) (Some WAccepted) (c_content c) in
              if negb ok then (st1, o1)
              else
                let c' := mkCall (c_ouid c) (c_osid c) (Some (s, as_uid)) (c_seq c) (c_content c) in
                let st2 := set_timer false (set_current (Some c') st1) in
                let o2 := me_info cfg st2 as_uid as_uid EvAccept (c_seq c) (Some payload) (Some s) false in
                (st2, o1 ++ o2 ++ [fwd])
            | _ => (st, [fwd])
            end
        | EvOffer | EvAnswer | EvIce =>
          match c_callee c with
          | None => (st, [])
          | Some (ks, ku) =>
            if N.eqb s (c_osid c) then (st, [(ks, FInfo e (c_seq c) as_uid (peer_of st ku) (Some payload))])
            else if N.eqb s ks then (st, [(c_osid c, FInfo e (c_seq c) as_uid (peer_of st (c_ouid c)) (Some payload))])
            else (st, [])
          end
        | EvHangup =>
          if (if accepted c then negb (is_party c s)
              else N.eqb as_uid (c_ouid c) && negb (N.eqb (c_osid c) s))
          then (st, [])
          else end_call cfg st c as_uid s false
        | EvUnknown => (st, [])
        end
      end
  end.

Definition handle_call_event := handle_call_event_with p_deleted.
Definition handle_call_event_unrepaired := handle_call_event_with (fun _ => false).

(* events which Session.note routes through the hub when the session is not attached *)
Definition hub_routed (e : event) : bool :=
  match e with EvRinging | EvHangup | EvAccept => true | _ => false end.

Definition set_w (st : state) (u : uid) (want : bool) (b : bool) : state :=
  set_users (update u (fun p => if want then mkPud b (p_given_w p) (p_deleted p) (p_peer p)
                                 else mkPud (p_want_w p) b (p_deleted p) (p_peer p)) (users st)) st.

Definition participant (st : state) (u : uid) : bool :=
  match lookup u (users st) with Some p => negb (p_deleted p) | None => false end.

Definition step_raw (cfg : config) (st : state) (o : op) : state * list out :=
  match o with
  | OAttach s =>
    if mem s (attached st) then (st, [(s, FCtrl 304 None)])
    else if participant st (user_of cfg s) then (set_loaded true (set_attached (s :: attached st) st), [(s, FCtrl 200 None)])
    else (st, [])
  | OAttachMe s =>
    if mem s (on_me st) then (st, [(s, FCtrl 304 None)])
    else (set_on_me (s :: on_me st) st, [(s, FCtrl 200 None)])
  | OLeave s =>
    if negb (mem s (attached st)) then (st, [(s, FCtrl 304 None)])
    else
      let '(st1, o1) := unregister_call cfg st s in
      (set_attached (remove s (attached st1)) st1, o1 ++ [(s, FCtrl 200 None)])
  | OUnsub s =>
    if negb (mem s (attached st)) then (st, [(s, FCtrl 409 None)])
    else
      let '(st1, o1) := unregister_call cfg st s in
      let u := user_of cfg s in
      let mine := filter (fun k => N.eqb (user_of cfg k) u) (attached st1) in
      let st2 := set_users (update u (fun p => mkPud (p_want_w p) (p_given_w p) true (p_peer p)) (users st1)) st1 in
      let st3 := set_attached (filter (fun k => negb (N.eqb (user_of cfg k) u)) (attached st2)) st2 in
      (st3, o1 ++ [(s, FCtrl 200 None)] ++ map (fun k => (k, FCtrl 205 None)) (remove s mine))
  | ODisc s =>
    let '(st1, o1) := if mem s (attached st) then unregister_call cfg st s else (st, []) in
    (set_dead (s :: dead st1) (set_on_me (remove s (on_me st1)) (set_attached (remove s (attached st1)) st1)), o1)
  | OInvite s content w =>
    if negb (mem s (attached st)) then (st, [(s, FCtrl 409 None)])
    else if negb (configured cfg) then (st, [(s, FCtrl 501 None)])
    else match current st with
    | Some _ => (st, [(s, FCtrl 486 None)])
    | None =>
      let u := user_of cfg s in
      let '(st1, o1, ok) := save_and_broadcast cfg st s true u None (Some (WClient w)) content in
      if negb ok then (st1, o1)
      else (set_timer true (set_current (Some (mkCall u s None (lastid st1) content)) st1), o1)
    end
  | OPub s content =>
    if negb (mem s (attached st)) then (st, [(s, FCtrl 409 None)])
    else let '(st1, o1, _) := save_and_broadcast cfg st s true (user_of cfg s) None None content in (st1, o1)
  | OEvent s e seq payload =>
    if seq <=? 0 then (st, [])
    else if mem s (attached st) || (hub_routed e && loaded st) then
      if lastid st <? seq then (st, []) else handle_call_event cfg st s e seq payload
    else if hub_routed e then (st, [])
    else (st, [(s, FCtrl 409 None)])
  | OTimeout =>
    if timer st then terminate cfg (set_timer false st) true else (st, [])
  | OSetW s target b =>
    if negb (mem s (attached st)) then (st, [(s, FCtrl 409 None)])
    else
      let u := user_of cfg s in
      if N.eqb target 0 || N.eqb target u then (set_w st u true b, [])
      else (set_w st target false b, [])
  end.

Definition op_sid (o : op) : option sid :=
  match o with
  | OAttach s | OAttachMe s | OLeave s | OUnsub s | ODisc s | OInvite s _ _ | OPub s _ | OEvent s _ _ _ | OSetW s _ _ => Some s
  | OTimeout => None
  end.

(* a request needs a live, known connection; frames queued to a closed connection are dropped
   (Session.queueOut on a terminating session) *)
Definition step (cfg : config) (st : state) (o : op) : state * list out :=
  match op_sid o with
  | Some s => if negb (known cfg s) || mem s (dead st) then (st, [])
              else let '(st', os) := step_raw cfg st o in
                   (st', filter (fun so => negb (mem (fst so) (dead st'))) os)
  | None => let '(st', os) := step_raw cfg st o in
            (st', filter (fun so => negb (mem (fst so) (dead st'))) os)
  end.

Fixpoint run (cfg : config) (st : state) (ops : list op) : state * list (list out) :=
  match ops with
  | [] => (st, [])
  | o :: r => let '(st1, os) := step cfg st o in
              let '(st2, oss) := run cfg st1 r in (st2, os :: oss)
  end.

Definition final (cfg : config) (st : state) (ops : list op) : state := fst (run cfg st ops).

(* the same machine with the handler as it was before the repair (kept for the refutation
   c15_roles_subscribed_unrepaired_refuted) *)
Definition step_raw_unrepaired (cfg : config) (st : state) (o : op) : state * list out :=
  match o with
  | OEvent s e seq payload =>
    if seq <=? 0 then (st, [])
    else if mem s (attached st) || (hub_routed e && loaded st) then
      if lastid st <? seq then (st, []) else handle_call_event_unrepaired cfg st s e seq payload
    else if hub_routed e then (st, [])
    else (st, [(s, FCtrl 409 None)])
  | _ => step_raw cfg st o
  end.

Definition step_unrepaired (cfg : config) (st : state) (o : op) : state * list out :=
  match op_sid o with
  | Some s => if negb (known cfg s) || mem s (dead st) then (st, [])
              else let '(st', os) := step_raw_unrepaired cfg st o in
                   (st', filter (fun so => negb (mem (fst so) (dead st'))) os)
  | None => let '(st', os) := step_raw_unrepaired cfg st o in
            (st', filter (fun so => negb (mem (fst so) (dead st'))) os)
  end.

Fixpoint run_unrepaired (cfg : config) (st : state) (ops : list op) : state * list (list out) :=
  match ops with
  | [] => (st, [])
  | o :: r => let '(st1, os) := step_unrepaired cfg st o in
              let '(st2, oss) := run_unrepaired cfg st1 r in (st2, os :: oss)
  end.

Definition final_unrepaired (cfg : config) (st : state) (ops : list op) : state := fst (run_unrepaired cfg st ops).

(* the fresh p2p topic of users a and b *)
Definition init2 (a b : uid) : state :=
  mkState false None false 0 [] [] [] [(a, mkPud true true false b); (b, mkPud true true false a)] [].
