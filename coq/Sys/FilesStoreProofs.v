(* Lemmas about the store slice of Sys/Files.v: invariants over all histories,
   exactness of garbage collection, links kept while the parent exists. *)
From Coq Require Import NArith ZArith List Bool Lia.
From Tinode Require Import Pure.Url Sys.Files.
Import ListNotations.

(* ---- list helpers ---- *)
Lemma memN_In : forall x l, memN x l = true <-> In x l.
Proof.
  intros x l. unfold memN. rewrite existsb_exists. split.
  - intros [y [Hy He]]. apply N.eqb_eq in He. subst. exact Hy.
  - intros H. exists x. split; [exact H|apply N.eqb_refl].
Qed.

Lemma memN_false : forall x l, memN x l = false <-> ~ In x l.
Proof.
  intros x l. split.
  - intros H Hin. apply memN_In in Hin. congruence.
  - intros H. destruct (memN x l) eqn:E; [|reflexivity]. apply memN_In in E. contradiction.
Qed.

Lemma NoDup_snoc : forall (A : Type) (l : list A) (x : A), NoDup l -> ~ In x l -> NoDup (l ++ [x]).
Proof.
  induction l as [|a l IH]; intros x Hnd Hx; cbn [app].
  - constructor; [intros []|constructor].
  - inversion Hnd as [|? ? Ha Hl]; subst. constructor.
    + intros Hin. apply in_app_iff in Hin. destruct Hin as [Hin|[Hin|[]]]; [contradiction|].
      subst. apply Hx. left; reflexivity.
    + apply IH; [exact Hl|]. intros Hin. apply Hx. right; exact Hin.
Qed.

Lemma in_map_filter : forall (A : Type) (k : A -> N) (p : N -> bool) (l : list A) (d : N),
  In d (map k (filter (fun a => p (k a)) l)) <-> In d (map k l) /\ p d = true.
Proof.
  intros A k p l d. rewrite !in_map_iff. split.
  - intros [a [Hk Hin]]. apply filter_In in Hin. destruct Hin as [Hin Hp]. subst.
    split; [exists a; split; [reflexivity|exact Hin]|exact Hp].
  - intros [[a [Hk Hin]] Hp]. subst. exists a. split; [reflexivity|].
    apply filter_In. split; assumption.
Qed.

Lemma NoDup_map_filter : forall (A B : Type) (k : A -> B) (p : A -> bool) (l : list A),
  NoDup (map k l) -> NoDup (map k (filter p l)).
Proof.
  induction l as [|a l IH]; intros H; cbn [filter map]; [constructor|].
  cbn [map] in H. inversion H as [|? ? Ha Hl]; subst.
  destruct (p a); [|apply IH; exact Hl].
  cbn [map]. constructor; [|apply IH; exact Hl].
  intros Hin. apply Ha. apply in_map_iff in Hin. destruct Hin as [b [Hb Hin]].
  apply filter_In in Hin. destruct Hin as [Hin _]. apply in_map_iff. exists b. split; assumption.
Qed.

Lemma NoDup_map_inj : forall (A B : Type) (k : A -> B) (l : list A) (a b : A),
  NoDup (map k l) -> In a l -> In b l -> k a = k b -> a = b.
Proof.
  induction l as [|x l IH]; intros a b Hnd Ha Hb Hk; [destruct Ha|].
  cbn [map] in Hnd. inversion Hnd as [|? ? Hx Hl]; subst.
  destruct Ha as [Ha|Ha]; destruct Hb as [Hb|Hb]; subst.
  - reflexivity.
  - exfalso. apply Hx. rewrite Hk. apply in_map. exact Hb.
  - exfalso. apply Hx. rewrite <- Hk. apply in_map. exact Ha.
  - apply IH; assumption.
Qed.

Lemma firstn_In : forall (A : Type) (n : nat) (l : list A) (x : A), In x (firstn n l) -> In x l.
Proof.
  induction n as [|n IH]; intros l x H; [destruct H|].
  destruct l as [|a l]; [destruct H|]. cbn [firstn] in H. destruct H as [H|H]; [left; exact H|right; apply IH; exact H].
Qed.

(* ---- find_file / is_done ---- *)
Lemma find_file_filter : forall (p : N -> bool) (l : list file) (f : N),
  p f = true -> find_file f (filter (fun g => p (f_id g)) l) = find_file f l.
Proof.
  intros p l f Hp. unfold find_file. induction l as [|g l IH]; [reflexivity|].
  cbn [filter find]. destruct (p (f_id g)) eqn:Eg.
  - cbn [find]. destruct (f_id g =? f)%N; [reflexivity|exact IH].
  - destruct (f_id g =? f)%N eqn:Ef; [|exact IH].
    apply N.eqb_eq in Ef. subst. congruence.
Qed.

Lemma find_file_in : forall l f g, find_file f l = Some g -> In g l /\ f_id g = f.
Proof.
  intros l f g H. unfold find_file in H. apply find_some in H. destruct H as [H1 H2].
  apply N.eqb_eq in H2. split; assumption.
Qed.

Lemma is_done_app : forall l l' f, is_done f l = true -> is_done f (l ++ l') = true.
Proof.
  intros l l' f. unfold is_done, find_file. induction l as [|g l IH]; intros H; [discriminate|].
  cbn [app find] in *. destruct (f_id g =? f)%N; [exact H|apply IH; exact H].
Qed.

Lemma is_done_finish : forall l fid now f,
  is_done f l = true ->
  is_done f (map (fun g => if (f_id g =? fid)%N
                           then {| f_id := fid; f_done := true; f_upd := now; f_mime := f_mime g |}
                           else g) l) = true.
Proof.
  intros l fid now f. unfold is_done, find_file. induction l as [|g l IH]; intros H; [discriminate|].
  cbn [map find] in *.
  destruct (f_id g =? fid)%N eqn:Eg.
  - cbn [f_id]. apply N.eqb_eq in Eg. subst fid.
    destruct (f_id g =? f)%N; [reflexivity|apply IH; exact H].
  - destruct (f_id g =? f)%N; [exact H|apply IH; exact H].
Qed.

Lemma ids_finish : forall l fid now,
  map f_id (map (fun g => if (f_id g =? fid)%N
                          then {| f_id := fid; f_done := true; f_upd := now; f_mime := f_mime g |}
                          else g) l) = map f_id l.
Proof.
  intros l fid now. rewrite map_map. apply map_ext_in. intros g _.
  destruct (f_id g =? fid)%N eqn:E; [|reflexivity]. cbn [f_id]. apply N.eqb_eq in E. congruence.
Qed.

Lemma is_done_in_ids : forall l f, is_done f l = true -> In f (map f_id l).
Proof.
  intros l f H. unfold is_done in H. destruct (find_file f l) as [g|] eqn:E; [|discriminate].
  apply find_file_in in E. destruct E as [Hin Hid]. subst. apply in_map. exact Hin.
Qed.

(* ---- link_single does not touch files, disk, msgs, topics, users ---- *)
Lemma link_single_files : forall s tg fids, files (link_single s tg fids) = files s.
Proof. intros s tg [|f r]; [reflexivity|]. unfold link_single. destruct (_ && _); reflexivity. Qed.
Lemma link_single_disk : forall s tg fids, disk (link_single s tg fids) = disk s.
Proof. intros s tg [|f r]; [reflexivity|]. unfold link_single. destruct (_ && _); reflexivity. Qed.
Lemma link_single_msgs : forall s tg fids, msgs (link_single s tg fids) = msgs s.
Proof. intros s tg [|f r]; [reflexivity|]. unfold link_single. destruct (_ && _); reflexivity. Qed.
Lemma link_single_topics : forall s tg fids, topics (link_single s tg fids) = topics s.
Proof. intros s tg [|f r]; [reflexivity|]. unfold link_single. destruct (_ && _); reflexivity. Qed.
Lemma link_single_users : forall s tg fids, users (link_single s tg fids) = users s.
Proof. intros s tg [|f r]; [reflexivity|]. unfold link_single. destruct (_ && _); reflexivity. Qed.
Lemma link_single_next : forall s tg fids, next_mid (link_single s tg fids) = next_mid s.
Proof. intros s tg [|f r]; [reflexivity|]. unfold link_single. destruct (_ && _); reflexivity. Qed.

(* ---- GC candidates ---- *)
Lemma gc_removed_sub : forall s older limit g,
  In g (gc_removed s older limit) ->
  In g (files s) /\ linked (f_id g) (links s) = false /\ gc_older_ok older g = true.
Proof.
  intros s older limit g H. unfold gc_removed in H.
  assert (Hc : In g (filter (gc_candidate s older) (files s))).
  { destruct (0 <? limit)%Z; [apply firstn_In in H; exact H|exact H]. }
  apply filter_In in Hc. destruct Hc as [Hin Hc]. unfold gc_candidate in Hc.
  apply andb_true_iff in Hc. destruct Hc as [Hl Ho].
  split; [exact Hin|]. split; [|exact Ho].
  destruct (linked (f_id g) (links s)); [discriminate|reflexivity].
Qed.

Lemma linked_In : forall f t ls, In (f, t) ls -> linked f ls = true.
Proof.
  intros f t ls H. unfold linked. apply existsb_exists. exists (f, t). split; [exact H|apply N.eqb_refl].
Qed.

Lemma linked_not_removed : forall s older limit f t,
  In (f, t) (links s) -> memN f (map f_id (gc_removed s older limit)) = false.
Proof.
  intros s older limit f t H. apply memN_false. intros Hin.
  apply in_map_iff in Hin. destruct Hin as [g [Hg Hin]].
  apply gc_removed_sub in Hin. destruct Hin as [_ [Hl _]].
  subst. rewrite (linked_In _ _ _ H) in Hl. discriminate.
Qed.

(* ------------------------------------------------------------------ *)
(* invariants                                                           *)

Definition inv_ids (s : state) : Prop := NoDup (file_ids s).
Definition inv_disk (s : state) : Prop := forall d, In d (disk s) <-> In d (file_ids s).
Definition inv_msgs (s : state) : Prop :=
  NoDup (map fst (msgs s)) /\ forall m, In m (map fst (msgs s)) -> (m < next_mid s)%N.
Definition inv_links (s : state) : Prop :=
  forall f t, In (f, t) (links s) -> In f (file_ids s) /\ target_live s t = true.
Definition inv_att (s : state) : Prop :=
  forall f t, In (f, t) (att s) -> In (f, t) (links s) /\ is_done f (files s) = true.

Lemma step_inv_ids : forall s o, inv_ids s -> inv_ids (step s o).
Proof.
  intros s o H. unfold inv_ids, file_ids in *.
  destruct o; cbn [step].
  - destruct (memN fid (file_ids s) || (fid =? 0)%N) eqn:E; [exact H|].
    cbn [files]. rewrite map_app. cbn [map f_id]. apply NoDup_snoc; [exact H|].
    apply orb_false_iff in E. destruct E as [E _]. apply memN_false in E. exact E.
  - destruct (find_file fid (files s)) as [f|]; [|exact H].
    destruct (f_done f); [exact H|]. destruct ok.
    + unfold set_files. cbn [files]. rewrite ids_finish. exact H.
    + cbn [files]. apply NoDup_map_filter. exact H.
  - destruct (memN t (topics s)); exact H.
  - destruct (memN u (users s)); exact H.
  - destruct (memN topic (topics s)); exact H.
  - rewrite link_single_files. exact H.
  - rewrite link_single_files. exact H.
  - exact H.
  - exact H.
  - exact H.
  - cbn [files]. apply NoDup_map_filter. exact H.
Qed.

Lemma step_inv_disk : forall s o, inv_disk s -> inv_disk (step s o).
Proof.
  intros s o H. unfold inv_disk, file_ids in *.
  destruct o; cbn [step].
  - destruct (memN fid (file_ids s) || (fid =? 0)%N); [exact H|].
    cbn [files disk]. intros d. rewrite map_app, in_app_iff. cbn [map f_id In].
    rewrite <- H. tauto.
  - destruct (find_file fid (files s)) as [f|]; [|exact H].
    destruct (f_done f); [exact H|]. destruct ok.
    + unfold set_files. cbn [files disk]. rewrite ids_finish. exact H.
    + cbn [files disk]. intros d.
      rewrite (in_map_filter file f_id (fun x => negb (x =? fid)%N)).
      rewrite filter_In. rewrite H. tauto.
  - destruct (memN t (topics s)); exact H.
  - destruct (memN u (users s)); exact H.
  - destruct (memN topic (topics s)); exact H.
  - rewrite link_single_files, link_single_disk. exact H.
  - rewrite link_single_files, link_single_disk. exact H.
  - exact H.
  - exact H.
  - exact H.
  - cbn [files disk]. intros d.
    rewrite (in_map_filter file f_id (fun x => negb (memN x (map f_id (gc_removed s older limit))))).
    rewrite filter_In. rewrite H. tauto.
Qed.

Lemma step_next_mid_mono : forall s o, (next_mid s <= next_mid (step s o))%N.
Proof.
  intros s o. destruct o; cbn [step];
  [ destruct (_ || _)
  | destruct (find_file fid (files s)) as [f|]; [destruct (f_done f); [|destruct ok]|]
  | destruct (memN t (topics s)) | destruct (memN u (users s)) | destruct (memN topic (topics s))
  | rewrite link_single_next | rewrite link_single_next | | | | ];
  cbn [next_mid set_files]; lia.
Qed.

Lemma step_inv_msgs : forall s o, inv_msgs s -> inv_msgs (step s o).
Proof.
  intros s o [Hnd Hlt]. unfold inv_msgs in *.
  destruct o; cbn [step].
  - destruct (_ || _); cbn [msgs next_mid]; split; assumption.
  - destruct (find_file fid (files s)) as [f|]; [|split; assumption].
    destruct (f_done f); [split; assumption|]. destruct ok; cbn [msgs next_mid set_files]; split; assumption.
  - destruct (memN t (topics s)); cbn [msgs next_mid]; split; assumption.
  - destruct (memN u (users s)); cbn [msgs next_mid]; split; assumption.
  - destruct (memN topic (topics s)); [|split; assumption].
    cbn [msgs next_mid map fst]. split.
    + constructor; [|exact Hnd]. intros Hin. apply Hlt in Hin. lia.
    + intros m [Hm|Hm]; [subst; lia|]. apply Hlt in Hm. lia.
  - rewrite link_single_msgs, link_single_next. split; assumption.
  - rewrite link_single_msgs, link_single_next. split; assumption.
  - cbn [msgs next_mid]. split; [apply NoDup_map_filter; exact Hnd|].
    intros m Hm. apply Hlt. apply in_map_iff in Hm. destruct Hm as [x [Hx Hin]].
    apply filter_In in Hin. destruct Hin as [Hin _]. apply in_map_iff. exists x. split; assumption.
  - cbn [msgs next_mid]. split; [apply NoDup_map_filter; exact Hnd|].
    intros m Hm. apply Hlt. apply in_map_iff in Hm. destruct Hm as [x [Hx Hin]].
    apply filter_In in Hin. destruct Hin as [Hin _]. apply in_map_iff. exists x. split; assumption.
  - cbn [msgs next_mid]. split; assumption.
  - cbn [msgs next_mid]. split; assumption.
Qed.

(* ---- links point to existing records and existing parents ---- *)
Lemma target_live_ext : forall s s' t,
  msgs s' = msgs s -> topics s' = topics s -> users s' = users s -> target_live s' t = target_live s t.
Proof. intros s s' t H1 H2 H3. unfold target_live. rewrite H1, H2, H3. reflexivity. Qed.

Ltac live_same := unfold target_live in *; cbn [msgs topics users set_files] in *.

Lemma memN_cons : forall x a l, memN x (a :: l) = ((x =? a)%N || memN x l).
Proof. reflexivity. Qed.

Lemma in_fst_find : forall (m : N) (ms : list (N * N)),
  In m (map fst ms) -> exists y, find (fun x => (fst x =? m)%N) ms = Some y /\ In y ms /\ fst y = m.
Proof.
  intros m ms H. destruct (find (fun x => (fst x =? m)%N) ms) as [y|] eqn:E.
  - exists y. split; [reflexivity|]. apply find_some in E. destruct E as [E1 E2].
    apply N.eqb_eq in E2. split; assumption.
  - exfalso. apply in_map_iff in H. destruct H as [x [Hx Hin]].
    pose proof (find_none _ _ E x Hin) as Hn. cbv beta in Hn. rewrite Hx, N.eqb_refl in Hn. discriminate.
Qed.

Lemma link_single_inv_links : forall s tg fids, inv_links s -> inv_links (link_single s tg fids).
Proof.
  intros s tg fids H. unfold link_single. destruct fids as [|f r]; [exact H|].
  destruct (memN f (file_ids s) && target_live s tg) eqn:E; [|exact H].
  apply andb_true_iff in E. destruct E as [E1 E2].
  intros f0 t Hin. cbn [links] in Hin. unfold file_ids. cbn [files].
  live_same.
  apply in_app_iff in Hin. destruct Hin as [Hin|[Hin|[]]].
  - apply filter_In in Hin. destruct Hin as [Hin _]. exact (H f0 t Hin).
  - inversion Hin; subst. split; [apply memN_In; exact E1|exact E2].
Qed.

Lemma step_inv_links : forall s o, inv_links s -> inv_links (step s o).
Proof.
  intros s o H. destruct o; cbn [step].
  - (* OStart *)
    destruct (_ || _); [exact H|]. intros f t Hin. cbn [links] in Hin.
    destruct (H f t Hin) as [H1 H2]. unfold file_ids. cbn [files]. split.
    + rewrite map_app. apply in_app_iff. left. exact H1.
    + live_same. exact H2.
  - (* OFinish *)
    destruct (find_file fid (files s)) as [g|]; [|exact H].
    destruct (f_done g); [exact H|]. destruct ok.
    + intros f t Hin. unfold set_files in *. cbn [links] in Hin. destruct (H f t Hin) as [H1 H2].
      unfold file_ids. cbn [files]. rewrite ids_finish. split; [exact H1|].
      live_same. exact H2.
    + intros f t Hin. cbn [links] in Hin. apply filter_In in Hin. destruct Hin as [Hin Hne].
      cbn [fst] in Hne. destruct (H f t Hin) as [H1 H2]. unfold file_ids. cbn [files]. split.
      * apply (in_map_filter file f_id (fun x => negb (x =? fid)%N)). split; assumption.
      * live_same. exact H2.
  - (* OAddTopic *)
    destruct (memN t (topics s)); [exact H|]. intros f tg Hin. cbn [links] in Hin.
    destruct (H f tg Hin) as [H1 H2]. split; [exact H1|].
    destruct tg; unfold target_live in *; cbn [msgs topics users] in *; try exact H2.
    rewrite memN_cons, H2. apply orb_true_r.
  - (* OAddUser *)
    destruct (memN u (users s)); [exact H|]. intros f tg Hin. cbn [links] in Hin.
    destruct (H f tg Hin) as [H1 H2]. split; [exact H1|].
    destruct tg; unfold target_live in *; cbn [msgs topics users] in *; try exact H2.
    rewrite memN_cons, H2. apply orb_true_r.
  - (* OPublish *)
    destruct (memN topic (topics s)); [|exact H]. cbv zeta. intros f tg Hin. cbn [links] in Hin.
    unfold file_ids. cbn [files].
    apply in_app_iff in Hin. destruct Hin as [Hin|Hin].
    + destruct (H f tg Hin) as [H1 H2]. split; [exact H1|].
      destruct tg; unfold target_live in *; cbn [msgs topics users map fst] in *; try exact H2.
      rewrite memN_cons, H2. apply orb_true_r.
    + destruct (match fids with [] => false | _ :: _ => forallb (fun f0 => memN f0 (file_ids s)) fids end) eqn:Eok;
        [|destruct Hin].
      apply in_map_iff in Hin. destruct Hin as [f0 [Hf0 Hin]]. inversion Hf0; subst.
      split.
      * destruct fids as [|a r]; [discriminate|].
        rewrite forallb_forall in Eok. apply memN_In. apply Eok. exact Hin.
      * unfold target_live. cbn [msgs map fst]. rewrite memN_cons, N.eqb_refl. reflexivity.
  - apply link_single_inv_links. exact H.
  - apply link_single_inv_links. exact H.
  - (* ODelMsgs *)
    intros f tg Hin. cbn [links] in Hin. unfold drop_target in Hin. apply filter_In in Hin.
    destruct Hin as [Hin Hk]. cbn [snd] in Hk. destruct (H f tg Hin) as [H1 H2].
    split; [exact H1|].
    destruct tg as [m|x|x]; unfold target_live in *; cbn [msgs topics users] in *; try exact H2.
    apply memN_In. apply memN_In in H2.
    apply (in_map_filter (N * N) fst (fun x => negb (memN x mids))). split; [exact H2|exact Hk].
  - (* ODelTopic *)
    intros f tg Hin. cbn [links] in Hin. unfold drop_target in Hin. apply filter_In in Hin.
    destruct Hin as [Hin Hk]. cbn [snd] in Hk. destruct (H f tg Hin) as [H1 H2].
    split; [exact H1|].
    destruct tg as [m|x|x]; unfold target_live in *; cbn [msgs topics users] in *; try exact H2.
    + apply memN_In. apply memN_In in H2.
      destruct (in_fst_find m (msgs s) H2) as [y [Hf [Hy Hm]]].
      unfold msg_topic in Hk. rewrite Hf in Hk.
      apply in_map_iff. exists y. split; [exact Hm|]. apply filter_In. split; [exact Hy|exact Hk].
    + apply memN_In. apply memN_In in H2. apply filter_In. split; [exact H2|exact Hk].
  - (* ODelUser *)
    intros f tg Hin. cbn [links] in Hin. unfold drop_target in Hin. apply filter_In in Hin.
    destruct Hin as [Hin Hk]. cbn [snd] in Hk. destruct (H f tg Hin) as [H1 H2].
    split; [exact H1|].
    destruct tg as [m|x|x]; unfold target_live in *; cbn [msgs topics users] in *; try exact H2.
    apply memN_In. apply memN_In in H2. apply filter_In. split; [exact H2|exact Hk].
  - (* OGC *)
    intros f tg Hin. cbn [links] in Hin. destruct (H f tg Hin) as [H1 H2].
    unfold file_ids. cbn [files]. split.
    + apply (in_map_filter file f_id (fun x => negb (memN x (map f_id (gc_removed s older limit))))).
      split; [exact H1|]. rewrite (linked_not_removed s older limit f tg Hin). reflexivity.
    + live_same. exact H2.
Qed.

(* ---- accepted attachments of completed uploads stay linked ---- *)
Lemma link_single_inv_att : forall s tg fids, inv_att s -> inv_att (link_single s tg fids).
Proof.
  intros s tg fids H. unfold link_single. destruct fids as [|f r]; [exact H|].
  destruct (memN f (file_ids s) && target_live s tg); [|exact H].
  intros f0 t Hin. cbn [att links files] in *.
  apply in_app_iff in Hin. destruct Hin as [Hin|Hin].
  - apply filter_In in Hin. destruct Hin as [Hin Hk]. destruct (H f0 t Hin) as [H1 H2].
    split; [|exact H2]. apply in_app_iff. left. apply filter_In. split; assumption.
  - destruct (is_done f (files s)) eqn:Ed; [|destruct Hin].
    destruct Hin as [Hin|[]]. inversion Hin; subst. split; [|exact Ed].
    apply in_app_iff. right. left. reflexivity.
Qed.

Lemma drop_att : forall s gone f t,
  inv_att s -> In (f, t) (drop_target gone (att s)) ->
  In (f, t) (drop_target gone (links s)) /\ is_done f (files s) = true.
Proof.
  intros s gone f t H Hin. unfold drop_target in *. apply filter_In in Hin. destruct Hin as [Hin Hk].
  destruct (H f t Hin) as [H1 H2]. split; [|exact H2]. apply filter_In. split; assumption.
Qed.

Lemma step_inv_att : forall s o, inv_att s -> inv_att (step s o).
Proof.
  intros s o H. destruct o; cbn [step].
  - destruct (_ || _); [exact H|]. intros f t Hin. cbn [att links files] in *.
    destruct (H f t Hin) as [H1 H2]. split; [exact H1|apply is_done_app; exact H2].
  - destruct (find_file fid (files s)) as [g|] eqn:Eg; [|exact H].
    destruct (f_done g) eqn:Edg; [exact H|]. destruct ok.
    + intros f t Hin. unfold set_files in *. cbn [att links files] in *.
      destruct (H f t Hin) as [H1 H2]. split; [exact H1|apply is_done_finish; exact H2].
    + intros f t Hin. cbn [att links files] in *. destruct (H f t Hin) as [H1 H2].
      assert (Hne : negb (f =? fid)%N = true).
      { destruct (f =? fid)%N eqn:E; [|reflexivity]. apply N.eqb_eq in E. subst f.
        unfold is_done in H2. rewrite Eg in H2. congruence. }
      split.
      * apply filter_In. split; [exact H1|exact Hne].
      * unfold is_done. rewrite (find_file_filter (fun x => negb (x =? fid)%N) (files s) f Hne). exact H2.
  - destruct (memN t (topics s)); exact H.
  - destruct (memN u (users s)); exact H.
  - destruct (memN topic (topics s)); [|exact H]. cbv zeta. intros f t Hin. cbn [att links files] in *.
    apply in_app_iff in Hin. destruct Hin as [Hin|Hin].
    + destruct (H f t Hin) as [H1 H2]. split; [apply in_app_iff; left; exact H1|exact H2].
    + destruct (match fids with [] => false | _ :: _ => forallb (fun f0 => memN f0 (file_ids s)) fids end);
        [|destruct Hin].
      apply in_map_iff in Hin. destruct Hin as [f0 [Hf0 Hin]]. inversion Hf0; subst.
      apply filter_In in Hin. destruct Hin as [Hin Hd]. split; [|exact Hd].
      apply in_app_iff. right. apply in_map_iff. exists f. split; [reflexivity|exact Hin].
  - apply link_single_inv_att. exact H.
  - apply link_single_inv_att. exact H.
  - intros f tg Hin. cbn [att links files] in *. exact (drop_att s _ f tg H Hin).
  - intros f tg Hin. cbn [att links files] in *. exact (drop_att s _ f tg H Hin).
  - intros f tg Hin. cbn [att links files] in *. exact (drop_att s _ f tg H Hin).
  - intros f tg Hin. cbn [att links files] in *. destruct (H f tg Hin) as [H1 H2].
    split; [exact H1|].
    unfold is_done.
    rewrite (find_file_filter (fun x => negb (memN x (map f_id (gc_removed s older limit)))) (files s) f).
    + exact H2.
    + rewrite (linked_not_removed s older limit f tg H1). reflexivity.
Qed.

(* ---- every history ---- *)
Definition inv (s : state) : Prop :=
  inv_ids s /\ inv_disk s /\ inv_msgs s /\ inv_links s /\ inv_att s.

Lemma inv_init : inv init.
Proof.
  unfold inv, inv_ids, inv_disk, inv_msgs, inv_links, inv_att, init, file_ids. cbn.
  repeat split; try constructor; try tauto; intros; contradiction.
Qed.

Lemma inv_step : forall s o, inv s -> inv (step s o).
Proof.
  intros s o [H1 [H2 [H3 [H4 H5]]]].
  unfold inv. split; [apply step_inv_ids; exact H1|]. split; [apply step_inv_disk; exact H2|].
  split; [apply step_inv_msgs; exact H3|]. split; [apply step_inv_links; exact H4|apply step_inv_att; exact H5].
Qed.

Lemma inv_run_from : forall h s, inv s -> inv (run_from s h).
Proof.
  induction h as [|o h IH]; intros s H; [exact H|]. cbn [run_from fold_left]. apply IH. apply inv_step. exact H.
Qed.

Lemma inv_run : forall h, inv (run h).
Proof. intros h. apply (inv_run_from h init). exact inv_init. Qed.
