(* Lemmas about the store slice of Sys/Files.v: invariants over all histories,
   exactness of garbage collection, links kept while the parent exists. *)
From Coq Require Import NArith ZArith List Bool Lia.
From Tinode Require Import Pure.Url Sys.Files Sys.FilesGateProofs.
Import ListNotations.

(* ---- list helpers ---- *)
Lemma memN_In : forall x l, memN x l = true <-> In x l.
Proof.
  intros x l. unfold memN. rewrite existsb_exists. split.
  - intros [y [Hy He]]. apply N.eqb_eq in He. subst. exact Hy.
  - intros H. exists x. split; [exact H|apply N.eqb_refl].
Qed.

Lemma memN_false : forall x l, memN x l = false <-> ~ In x l.
Proof.
  intros x l. split.
  - intros H Hin. apply memN_In in Hin. congruence.
  - intros H. destruct (memN x l) eqn:E; [|reflexivity]. apply memN_In in E. contradiction.
Qed.

Lemma NoDup_snoc : forall (A : Type) (l : list A) (x : A), NoDup l -> ~ In x l -> NoDup (l ++ [x]).
Proof.
  induction l as [|a l IH]; intros x Hnd Hx; cbn [app].
  - constructor; [intros []|constructor].
  - inversion Hnd as [|? ? Ha Hl]; subst. constructor.
    + intros Hin. apply in_app_iff in Hin. destruct Hin as [Hin|[Hin|[]]]; [contradiction|].
      subst. apply Hx. left; reflexivity.
    + apply IH; [exact Hl|]. intros Hin. apply Hx. right; exact Hin.
Qed.

Lemma in_map_filter : forall (A : Type) (k : A -> N) (p : N -> bool) (l : list A) (d : N),
  In d (map k (filter (fun a => p (k a)) l)) <-> In d (map k l) /\ p d = true.
Proof.
  intros A k p l d. rewrite !in_map_iff. split.
  - intros [a [Hk Hin]]. apply filter_In in Hin. destruct Hin as [Hin Hp]. subst.
    split; [exists a; split; [reflexivity|exact Hin]|exact Hp].
  - intros [[a [Hk Hin]] Hp]. subst. exists a. split; [reflexivity|].
    apply filter_In. split; assumption.
Qed.

Lemma NoDup_map_filter : forall (A B : Type) (k : A -> B) (p : A -> bool) (l : list A),
  NoDup (map k l) -> NoDup (map k (filter p l)).
Proof.
  induction l as [|a l IH]; intros H; cbn [filter map]; [constructor|].
  cbn [map] in H. inversion H as [|? ? Ha Hl]; subst.
  destruct (p a); [|apply IH; exact Hl].
  cbn [map]. constructor; [|apply IH; exact Hl].
  intros Hin. apply Ha. apply in_map_iff in Hin. destruct Hin as [b [Hb Hin]].
  apply filter_In in Hin. destruct Hin as [Hin _]. apply in_map_iff. exists b. split; assumption.
Qed.

Lemma NoDup_map_inj : forall (A B : Type) (k : A -> B) (l : list A) (a b : A),
  NoDup (map k l) -> In a l -> In b l -> k a = k b -> a = b.
Proof.
  induction l as [|x l IH]; intros a b Hnd Ha Hb Hk; [destruct Ha|].
  cbn [map] in Hnd. inversion Hnd as [|? ? Hx Hl]; subst.
  destruct Ha as [Ha|Ha]; destruct Hb as [Hb|Hb]; subst.
  - reflexivity.
  - exfalso. apply Hx. rewrite Hk. apply in_map. exact Hb.
  - exfalso. apply Hx. rewrite <- Hk. apply in_map. exact Ha.
  - apply IH; assumption.
Qed.

Lemma firstn_In : forall (A : Type) (n : nat) (l : list A) (x : A), In x (firstn n l) -> In x l.
Proof.
  induction n as [|n IH]; intros l x H; [destruct H|].
  destruct l as [|a l]; [destruct H|]. cbn [firstn] in H. destruct H as [H|H]; [left; exact H|right; apply IH; exact H].
Qed.

(* ---- find_file / is_done ---- *)
Lemma find_file_filter : forall (p : N -> bool) (l : list file) (f : N),
  p f = true -> find_file f (filter (fun g => p (f_id g)) l) = find_file f l.
Proof.
  intros p l f Hp. unfold find_file. induction l as [|g l IH]; [reflexivity|].
  cbn [filter find]. destruct (p (f_id g)) eqn:Eg.
  - cbn [find]. destruct (f_id g =? f)%N; [reflexivity|exact IH].
  - destruct (f_id g =? f)%N eqn:Ef; [|exact IH].
    apply N.eqb_eq in Ef. subst. congruence.
Qed.

Lemma find_file_in : forall l f g, find_file f l = Some g -> In g l /\ f_id g = f.
Proof.
  intros l f g H. unfold find_file in H. apply find_some in H. destruct H as [H1 H2].
  apply N.eqb_eq in H2. split; assumption.
Qed.

Lemma is_done_app : forall l l' f, is_done f l = true -> is_done f (l ++ l') = true.
Proof.
  intros l l' f. unfold is_done, find_file. induction l as [|g l IH]; intros H; [discriminate|].
  cbn [app find] in *. destruct (f_id g =? f)%N; [exact H|apply IH; exact H].
Qed.

Lemma is_done_finish : forall l fid now f,
  is_done f l = true ->
  is_done f (map (fun g => if (f_id g =? fid)%N
                           then {| f_id := fid; f_done := true; f_upd := now; f_mime := f_mime g |}
                           else g) l) = true.
Proof.
  intros l fid now f. unfold is_done, find_file. induction l as [|g l IH]; intros H; [discriminate|].
  cbn [map find] in *.
  destruct (f_id g =? fid)%N eqn:Eg.
  - cbn [f_id]. apply N.eqb_eq in Eg. subst fid.
    destruct (f_id g =? f)%N; [reflexivity|apply IH; exact H].
  - destruct (f_id g =? f)%N; [exact H|apply IH; exact H].
Qed.

Lemma ids_finish : forall l fid now,
  map f_id (map (fun g => if (f_id g =? fid)%N
                          then {| f_id := fid; f_done := true; f_upd := now; f_mime := f_mime g |}
                          else g) l) = map f_id l.
Proof.
  intros l fid now. rewrite map_map. apply map_ext_in. intros g _.
  destruct (f_id g =? fid)%N eqn:E; [|reflexivity]. cbn [f_id]. apply N.eqb_eq in E. congruence.
Qed.

Lemma is_done_in_ids : forall l f, is_done f l = true -> In f (map f_id l).
Proof.
  intros l f H. unfold is_done in H. destruct (find_file f l) as [g|] eqn:E; [|discriminate].
  apply find_file_in in E. destruct E as [Hin Hid]. subst. apply in_map. exact Hin.
Qed.

Lemma find_file_filter_none : forall (p : N -> bool) (l : list file) (f : N),
  p f = false -> find_file f (filter (fun g => p (f_id g)) l) = None.
Proof.
  intros p l f Hp. unfold find_file. induction l as [|g l IH]; [reflexivity|].
  cbn [filter]. destruct (p (f_id g)) eqn:Eg; [|exact IH].
  cbn [find]. destruct (f_id g =? f)%N eqn:Ef; [|exact IH].
  apply N.eqb_eq in Ef. subst. congruence.
Qed.

Lemma is_done_filter : forall (p : N -> bool) (l : list file) (f : N),
  is_done f (filter (fun g => p (f_id g)) l) = true -> p f = true /\ is_done f l = true.
Proof.
  intros p l f H. unfold is_done in *. destruct (p f) eqn:Ep.
  - rewrite (find_file_filter p l f Ep) in H. split; [reflexivity|exact H].
  - rewrite (find_file_filter_none p l f Ep) in H. discriminate.
Qed.

Lemma is_done_snoc_inv : forall l g f,
  f_done g = false -> is_done f (l ++ [g]) = true -> is_done f l = true.
Proof.
  intros l g f Hg. unfold is_done, find_file. induction l as [|x l IH]; intros H.
  - cbn [app find] in H. destruct (f_id g =? f)%N; [congruence|discriminate].
  - cbn [app find] in *. destruct (f_id x =? f)%N; [exact H|apply IH; exact H].
Qed.

Lemma is_done_finish_inv : forall l fid now f,
  is_done f (map (fun g => if (f_id g =? fid)%N
                           then {| f_id := fid; f_done := true; f_upd := now; f_mime := f_mime g |}
                           else g) l) = true ->
  f = fid \/ is_done f l = true.
Proof.
  intros l fid now f. unfold is_done, find_file. induction l as [|g l IH]; intros H; [discriminate|].
  cbn [map find] in *.
  destruct (f_id g =? fid)%N eqn:Eg.
  - cbn [f_id] in H. apply N.eqb_eq in Eg.
    destruct (fid =? f)%N eqn:Ef.
    + left. apply N.eqb_eq in Ef. congruence.
    + rewrite Eg, Ef. apply IH. exact H.
  - destruct (f_id g =? f)%N; [right; exact H|apply IH; exact H].
Qed.

Lemma filter_all : forall (A : Type) (p : A -> bool) (l : list A),
  (forall x, In x l -> p x = true) -> filter p l = l.
Proof.
  induction l as [|a l IH]; intros H; [reflexivity|]. cbn [filter].
  rewrite (H a (or_introl eq_refl)). f_equal. apply IH. intros x Hx. apply H. right. exact Hx.
Qed.

(* ---- link_single does not touch files, disk, msgs, topics, users ---- *)
Lemma link_single_files : forall s tg fids, files (link_single s tg fids) = files s.
Proof. intros s tg [|f r]; [reflexivity|]. unfold link_single. destruct (_ && _); reflexivity. Qed.
Lemma link_single_disk : forall s tg fids, disk (link_single s tg fids) = disk s.
Proof. intros s tg [|f r]; [reflexivity|]. unfold link_single. destruct (_ && _); reflexivity. Qed.
Lemma link_single_msgs : forall s tg fids, msgs (link_single s tg fids) = msgs s.
Proof. intros s tg [|f r]; [reflexivity|]. unfold link_single. destruct (_ && _); reflexivity. Qed.
Lemma link_single_topics : forall s tg fids, topics (link_single s tg fids) = topics s.
Proof. intros s tg [|f r]; [reflexivity|]. unfold link_single. destruct (_ && _); reflexivity. Qed.
Lemma link_single_users : forall s tg fids, users (link_single s tg fids) = users s.
Proof. intros s tg [|f r]; [reflexivity|]. unfold link_single. destruct (_ && _); reflexivity. Qed.
Lemma link_single_next : forall s tg fids, next_mid (link_single s tg fids) = next_mid s.
Proof. intros s tg [|f r]; [reflexivity|]. unfold link_single. destruct (_ && _); reflexivity. Qed.

(* ---- GC candidates ---- *)
Lemma gc_removed_sub : forall s older limit g,
  In g (gc_removed s older limit) ->
  In g (files s) /\ linked (f_id g) (links s) = false /\ gc_older_ok older g = true.
Proof.
  intros s older limit g H. unfold gc_removed in H.
  assert (Hc : In g (filter (gc_candidate s older) (files s))).
  { destruct (0 <? limit)%Z; [apply firstn_In in H; exact H|exact H]. }
  apply filter_In in Hc. destruct Hc as [Hin Hc]. unfold gc_candidate in Hc.
  apply andb_true_iff in Hc. destruct Hc as [Hl Ho].
  split; [exact Hin|]. split; [|exact Ho].
  destruct (linked (f_id g) (links s)); [discriminate|reflexivity].
Qed.

Lemma linked_In : forall f t ls, In (f, t) ls -> linked f ls = true.
Proof.
  intros f t ls H. unfold linked. apply existsb_exists. exists (f, t). split; [exact H|apply N.eqb_refl].
Qed.

Lemma linked_not_removed : forall s older limit f t,
  In (f, t) (links s) -> memN f (map f_id (gc_removed s older limit)) = false.
Proof.
  intros s older limit f t H. apply memN_false. intros Hin.
  apply in_map_iff in Hin. destruct Hin as [g [Hg Hin]].
  apply gc_removed_sub in Hin. destruct Hin as [_ [Hl _]].
  subst. rewrite (linked_In _ _ _ H) in Hl. discriminate.
Qed.

(* ------------------------------------------------------------------ *)
(* invariants                                                           *)

Definition inv_ids (s : state) : Prop := NoDup (file_ids s).
(* stored bytes belong to upload records; every completed upload has its bytes (a record in
   status 'started' may have lost them: failed FinishUpload) *)
Definition inv_disk (s : state) : Prop :=
  (forall d, In d (disk s) -> In d (file_ids s)) /\
  (forall f, is_done f (files s) = true -> In f (disk s)).
Definition inv_msgs (s : state) : Prop :=
  NoDup (map fst (msgs s)) /\ forall m, In m (map fst (msgs s)) -> (m < next_mid s)%N.
Definition inv_links (s : state) : Prop :=
  forall f t, In (f, t) (links s) -> In f (file_ids s) /\ target_live s t = true.
Definition inv_att (s : state) : Prop :=
  forall f t, In (f, t) (att s) -> In (f, t) (links s) /\ is_done f (files s) = true.

Lemma step_inv_ids : forall s o, inv_ids s -> inv_ids (step s o).
Proof.
  intros s o H. unfold inv_ids, file_ids in *.
  destruct o; cbn [step].
  - destruct (memN fid (file_ids s) || (fid =? 0)%N) eqn:E; [exact H|].
    cbn [files]. rewrite map_app. cbn [map f_id]. apply NoDup_snoc; [exact H|].
    apply orb_false_iff in E. destruct E as [E _]. apply memN_false in E. exact E.
  - destruct (find_file fid (files s)) as [f|]; [|exact H].
    destruct (f_done f); [exact H|]. destruct ok.
    + destruct (memN fid (disk s)); [|exact H]. unfold set_files. cbn [files]. rewrite ids_finish. exact H.
    + cbn [files]. apply NoDup_map_filter. exact H.
  - destruct (memN t (topics s)); exact H.
  - destruct (memN u (users s)); exact H.
  - destruct (memN topic (topics s)); exact H.
  - rewrite link_single_files. exact H.
  - rewrite link_single_files. exact H.
  - exact H.
  - exact H.
  - exact H.
  - cbn [files]. apply NoDup_map_filter. exact H.
  - destruct (is_done fid (files s)); exact H.
Qed.

Lemma step_inv_disk : forall s o, inv_disk s -> inv_disk (step s o).
Proof.
  intros s o [Ha Hb]. unfold inv_disk, file_ids in *.
  destruct o; cbn [step].
  - destruct (memN fid (file_ids s) || (fid =? 0)%N); [split; assumption|].
    cbn [files disk]. split.
    + intros d Hd. rewrite map_app, in_app_iff. cbn [map f_id In].
      destruct Hd as [Hd|Hd]; [right; left; exact Hd|left; apply Ha; exact Hd].
    + intros f Hf. right. apply Hb. eapply is_done_snoc_inv; [|exact Hf]. reflexivity.
  - destruct (find_file fid (files s)) as [f|]; [|split; assumption].
    destruct (f_done f); [split; assumption|]. destruct ok.
    + destruct (memN fid (disk s)) eqn:Ed; [|split; assumption].
      unfold set_files. cbn [files disk]. rewrite ids_finish. split; [exact Ha|].
      intros f0 Hf0. apply is_done_finish_inv in Hf0. destruct Hf0 as [Hf0|Hf0].
      * subst f0. apply memN_In. exact Ed.
      * apply Hb. exact Hf0.
    + cbn [files disk]. split.
      * intros d Hd. apply filter_In in Hd. destruct Hd as [Hd Hne].
        apply (in_map_filter file f_id (fun x => negb (x =? fid)%N)). split; [apply Ha; exact Hd|exact Hne].
      * intros f0 Hf0. apply (is_done_filter (fun x => negb (x =? fid)%N)) in Hf0. destruct Hf0 as [Hne Hf0].
        apply filter_In. split; [apply Hb; exact Hf0|exact Hne].
  - destruct (memN t (topics s)); split; assumption.
  - destruct (memN u (users s)); split; assumption.
  - destruct (memN topic (topics s)); split; assumption.
  - rewrite link_single_files, link_single_disk. split; assumption.
  - rewrite link_single_files, link_single_disk. split; assumption.
  - split; assumption.
  - split; assumption.
  - split; assumption.
  - cbn [files disk]. split.
    + intros d Hd. apply filter_In in Hd. destruct Hd as [Hd Hne].
      apply (in_map_filter file f_id (fun x => negb (memN x (map f_id (gc_removed s older limit))))).
      split; [apply Ha; exact Hd|exact Hne].
    + intros f0 Hf0.
      apply (is_done_filter (fun x => negb (memN x (map f_id (gc_removed s older limit))))) in Hf0.
      destruct Hf0 as [Hne Hf0]. apply filter_In. split; [apply Hb; exact Hf0|exact Hne].
  - destruct (is_done fid (files s)) eqn:Ed; [split; assumption|]. cbn [files disk]. split.
    + intros d Hd. apply filter_In in Hd. apply Ha. tauto.
    + intros f0 Hf0. apply filter_In. split; [apply Hb; exact Hf0|].
      apply negb_true_iff. apply N.eqb_neq. intros ->. congruence.
Qed.

Lemma step_next_mid_mono : forall s o, (next_mid s <= next_mid (step s o))%N.
Proof.
  intros s o. destruct o; cbn [step];
  [ destruct (_ || _)
  | destruct (find_file fid (files s)) as [f|]; [destruct (f_done f); [|destruct ok; [destruct (memN fid (disk s))|]]|]
  | destruct (memN t (topics s)) | destruct (memN u (users s)) | destruct (memN topic (topics s))
  | rewrite link_single_next | rewrite link_single_next | | | | | destruct (is_done fid (files s)) ];
  cbn [next_mid set_files]; lia.
Qed.

Lemma step_inv_msgs : forall s o, inv_msgs s -> inv_msgs (step s o).
Proof.
  intros s o [Hnd Hlt]. unfold inv_msgs in *.
  destruct o; cbn [step].
  - destruct (_ || _); cbn [msgs next_mid]; split; assumption.
  - destruct (find_file fid (files s)) as [f|]; [|split; assumption].
    destruct (f_done f); [split; assumption|].
    destruct ok; [destruct (memN fid (disk s))|]; cbn [msgs next_mid set_files]; split; assumption.
  - destruct (memN t (topics s)); cbn [msgs next_mid]; split; assumption.
  - destruct (memN u (users s)); cbn [msgs next_mid]; split; assumption.
  - destruct (memN topic (topics s)); [|split; assumption].
    cbn [msgs next_mid map fst]. split.
    + constructor; [|exact Hnd]. intros Hin. apply Hlt in Hin. lia.
    + intros m [Hm|Hm]; [subst; lia|]. apply Hlt in Hm. lia.
  - rewrite link_single_msgs, link_single_next. split; assumption.
  - rewrite link_single_msgs, link_single_next. split; assumption.
  - cbn [msgs next_mid]. split; [apply NoDup_map_filter; exact Hnd|].
    intros m Hm. apply Hlt. apply in_map_iff in Hm. destruct Hm as [x [Hx Hin]].
    apply filter_In in Hin. destruct Hin as [Hin _]. apply in_map_iff. exists x. split; assumption.
  - cbn [msgs next_mid]. split; [apply NoDup_map_filter; exact Hnd|].
    intros m Hm. apply Hlt. apply in_map_iff in Hm. destruct Hm as [x [Hx Hin]].
    apply filter_In in Hin. destruct Hin as [Hin _]. apply in_map_iff. exists x. split; assumption.
  - cbn [msgs next_mid]. split; assumption.
  - cbn [msgs next_mid]. split; assumption.
  - destruct (is_done fid (files s)); cbn [msgs next_mid]; split; assumption.
Qed.

(* ---- links point to existing records and existing parents ---- *)
Lemma target_live_ext : forall s s' t,
  msgs s' = msgs s -> topics s' = topics s -> users s' = users s -> target_live s' t = target_live s t.
Proof. intros s s' t H1 H2 H3. unfold target_live. rewrite H1, H2, H3. reflexivity. Qed.

Ltac live_same := unfold target_live in *; cbn [msgs topics users set_files] in *.

Lemma memN_cons : forall x a l, memN x (a :: l) = ((x =? a)%N || memN x l).
Proof. reflexivity. Qed.

Lemma in_fst_find : forall (m : N) (ms : list (N * N)),
  In m (map fst ms) -> exists y, find (fun x => (fst x =? m)%N) ms = Some y /\ In y ms /\ fst y = m.
Proof.
  intros m ms H. destruct (find (fun x => (fst x =? m)%N) ms) as [y|] eqn:E.
  - exists y. split; [reflexivity|]. apply find_some in E. destruct E as [E1 E2].
    apply N.eqb_eq in E2. split; assumption.
  - exfalso. apply in_map_iff in H. destruct H as [x [Hx Hin]].
    pose proof (find_none _ _ E x Hin) as Hn. cbv beta in Hn. rewrite Hx, N.eqb_refl in Hn. discriminate.
Qed.

Lemma link_single_inv_links : forall s tg fids, inv_links s -> inv_links (link_single s tg fids).
Proof.
  intros s tg fids H. unfold link_single. destruct fids as [|f r]; [exact H|].
  destruct (memN f (file_ids s) && target_live s tg) eqn:E; [|exact H].
  apply andb_true_iff in E. destruct E as [E1 E2].
  intros f0 t Hin. cbn [links] in Hin. unfold file_ids. cbn [files].
  live_same.
  apply in_app_iff in Hin. destruct Hin as [Hin|[Hin|[]]].
  - apply filter_In in Hin. destruct Hin as [Hin _]. exact (H f0 t Hin).
  - inversion Hin; subst. split; [apply memN_In; exact E1|exact E2].
Qed.

Lemma step_inv_links : forall s o, inv_links s -> inv_links (step s o).
Proof.
  intros s o H. destruct o; cbn [step].
  - (* OStart *)
    destruct (_ || _); [exact H|]. intros f t Hin. cbn [links] in Hin.
    destruct (H f t Hin) as [H1 H2]. unfold file_ids. cbn [files]. split.
    + rewrite map_app. apply in_app_iff. left. exact H1.
    + live_same. exact H2.
  - (* OFinish *)
    destruct (find_file fid (files s)) as [g|]; [|exact H].
    destruct (f_done g); [exact H|]. destruct ok.
    + destruct (memN fid (disk s)); [|exact H].
      intros f t Hin. unfold set_files in *. cbn [links] in Hin. destruct (H f t Hin) as [H1 H2].
      unfold file_ids. cbn [files]. rewrite ids_finish. split; [exact H1|].
      live_same. exact H2.
    + intros f t Hin. cbn [links] in Hin. apply filter_In in Hin. destruct Hin as [Hin Hne].
      cbn [fst] in Hne. destruct (H f t Hin) as [H1 H2]. unfold file_ids. cbn [files]. split.
      * apply (in_map_filter file f_id (fun x => negb (x =? fid)%N)). split; assumption.
      * live_same. exact H2.
  - (* OAddTopic *)
    destruct (memN t (topics s)); [exact H|]. intros f tg Hin. cbn [links] in Hin.
    destruct (H f tg Hin) as [H1 H2]. split; [exact H1|].
    destruct tg; unfold target_live in *; cbn [msgs topics users] in *; try exact H2.
    rewrite memN_cons, H2. apply orb_true_r.
  - (* OAddUser *)
    destruct (memN u (users s)); [exact H|]. intros f tg Hin. cbn [links] in Hin.
    destruct (H f tg Hin) as [H1 H2]. split; [exact H1|].
    destruct tg; unfold target_live in *; cbn [msgs topics users] in *; try exact H2.
    rewrite memN_cons, H2. apply orb_true_r.
  - (* OPublish *)
    destruct (memN topic (topics s)); [|exact H]. cbv zeta. intros f tg Hin. cbn [links] in Hin.
    unfold file_ids. cbn [files].
    apply in_app_iff in Hin. destruct Hin as [Hin|Hin].
    + destruct (H f tg Hin) as [H1 H2]. split; [exact H1|].
      destruct tg; unfold target_live in *; cbn [msgs topics users map fst] in *; try exact H2.
      rewrite memN_cons, H2. apply orb_true_r.
    + destruct (match fids with [] => false | _ :: _ => forallb (fun f0 => memN f0 (file_ids s)) fids end) eqn:Eok;
        [|destruct Hin].
      apply in_map_iff in Hin. destruct Hin as [f0 [Hf0 Hin]]. inversion Hf0; subst.
      split.
      * destruct fids as [|a r]; [discriminate|].
        rewrite forallb_forall in Eok. apply memN_In. apply Eok. exact Hin.
      * unfold target_live. cbn [msgs map fst]. rewrite memN_cons, N.eqb_refl. reflexivity.
  - apply link_single_inv_links. exact H.
  - apply link_single_inv_links. exact H.
  - (* ODelMsgs *)
    intros f tg Hin. cbn [links] in Hin. unfold drop_target in Hin. apply filter_In in Hin.
    destruct Hin as [Hin Hk]. cbn [snd] in Hk. destruct (H f tg Hin) as [H1 H2].
    split; [exact H1|].
    destruct tg as [m|x|x]; unfold target_live in *; cbn [msgs topics users] in *; try exact H2.
    apply memN_In. apply memN_In in H2.
    apply (in_map_filter (N * N) fst (fun x => negb (memN x mids))). split; [exact H2|exact Hk].
  - (* ODelTopic *)
    intros f tg Hin. cbn [links] in Hin. unfold drop_target in Hin. apply filter_In in Hin.
    destruct Hin as [Hin Hk]. cbn [snd] in Hk. destruct (H f tg Hin) as [H1 H2].
    split; [exact H1|].
    destruct tg as [m|x|x]; unfold target_live in *; cbn [msgs topics users] in *; try exact H2.
    + apply memN_In. apply memN_In in H2.
      destruct (in_fst_find m (msgs s) H2) as [y [Hf [Hy Hm]]].
      unfold msg_topic in Hk. rewrite Hf in Hk.
      apply in_map_iff. exists y. split; [exact Hm|]. apply filter_In. split; [exact Hy|exact Hk].
    + apply memN_In. apply memN_In in H2. apply filter_In. split; [exact H2|exact Hk].
  - (* ODelUser *)
    intros f tg Hin. cbn [links] in Hin. unfold drop_target in Hin. apply filter_In in Hin.
    destruct Hin as [Hin Hk]. cbn [snd] in Hk. destruct (H f tg Hin) as [H1 H2].
    split; [exact H1|].
    destruct tg as [m|x|x]; unfold target_live in *; cbn [msgs topics users] in *; try exact H2.
    apply memN_In. apply memN_In in H2. apply filter_In. split; [exact H2|exact Hk].
  - (* OGC *)
    intros f tg Hin. cbn [links] in Hin. destruct (H f tg Hin) as [H1 H2].
    unfold file_ids. cbn [files]. split.
    + apply (in_map_filter file f_id (fun x => negb (memN x (map f_id (gc_removed s older limit))))).
      split; [exact H1|]. rewrite (linked_not_removed s older limit f tg Hin). reflexivity.
    + live_same. exact H2.
  - (* ODropBytes *)
    destruct (is_done fid (files s)); exact H.
Qed.

(* ---- accepted attachments of completed uploads stay linked ---- *)
Lemma link_single_inv_att : forall s tg fids, inv_att s -> inv_att (link_single s tg fids).
Proof.
  intros s tg fids H. unfold link_single. destruct fids as [|f r]; [exact H|].
  destruct (memN f (file_ids s) && target_live s tg); [|exact H].
  intros f0 t Hin. cbn [att links files] in *.
  apply in_app_iff in Hin. destruct Hin as [Hin|Hin].
  - apply filter_In in Hin. destruct Hin as [Hin Hk]. destruct (H f0 t Hin) as [H1 H2].
    split; [|exact H2]. apply in_app_iff. left. apply filter_In. split; assumption.
  - destruct (is_done f (files s)) eqn:Ed; [|destruct Hin].
    destruct Hin as [Hin|[]]. inversion Hin; subst. split; [|exact Ed].
    apply in_app_iff. right. left. reflexivity.
Qed.

Lemma drop_att : forall s gone f t,
  inv_att s -> In (f, t) (drop_target gone (att s)) ->
  In (f, t) (drop_target gone (links s)) /\ is_done f (files s) = true.
Proof.
  intros s gone f t H Hin. unfold drop_target in *. apply filter_In in Hin. destruct Hin as [Hin Hk].
  destruct (H f t Hin) as [H1 H2]. split; [|exact H2]. apply filter_In. split; assumption.
Qed.

Lemma step_inv_att : forall s o, inv_att s -> inv_att (step s o).
Proof.
  intros s o H. destruct o; cbn [step].
  - destruct (_ || _); [exact H|]. intros f t Hin. cbn [att links files] in *.
    destruct (H f t Hin) as [H1 H2]. split; [exact H1|apply is_done_app; exact H2].
  - destruct (find_file fid (files s)) as [g|] eqn:Eg; [|exact H].
    destruct (f_done g) eqn:Edg; [exact H|]. destruct ok.
    + destruct (memN fid (disk s)); [|exact H].
      intros f t Hin. unfold set_files in *. cbn [att links files] in *.
      destruct (H f t Hin) as [H1 H2]. split; [exact H1|apply is_done_finish; exact H2].
    + intros f t Hin. cbn [att links files] in *. destruct (H f t Hin) as [H1 H2].
      assert (Hne : negb (f =? fid)%N = true).
      { destruct (f =? fid)%N eqn:E; [|reflexivity]. apply N.eqb_eq in E. subst f.
        unfold is_done in H2. rewrite Eg in H2. congruence. }
      split.
      * apply filter_In. split; [exact H1|exact Hne].
      * unfold is_done. rewrite (find_file_filter (fun x => negb (x =? fid)%N) (files s) f Hne). exact H2.
  - destruct (memN t (topics s)); exact H.
  - destruct (memN u (users s)); exact H.
  - destruct (memN topic (topics s)); [|exact H]. cbv zeta. intros f t Hin. cbn [att links files] in *.
    apply in_app_iff in Hin. destruct Hin as [Hin|Hin].
    + destruct (H f t Hin) as [H1 H2]. split; [apply in_app_iff; left; exact H1|exact H2].
    + destruct (match fids with [] => false | _ :: _ => forallb (fun f0 => memN f0 (file_ids s)) fids end);
        [|destruct Hin].
      apply in_map_iff in Hin. destruct Hin as [f0 [Hf0 Hin]]. inversion Hf0; subst.
      apply filter_In in Hin. destruct Hin as [Hin Hd]. split; [|exact Hd].
      apply in_app_iff. right. apply in_map_iff. exists f. split; [reflexivity|exact Hin].
  - apply link_single_inv_att. exact H.
  - apply link_single_inv_att. exact H.
  - intros f tg Hin. cbn [att links files] in *. exact (drop_att s _ f tg H Hin).
  - intros f tg Hin. cbn [att links files] in *. exact (drop_att s _ f tg H Hin).
  - intros f tg Hin. cbn [att links files] in *. exact (drop_att s _ f tg H Hin).
  - intros f tg Hin. cbn [att links files] in *. destruct (H f tg Hin) as [H1 H2].
    split; [exact H1|].
    unfold is_done.
    rewrite (find_file_filter (fun x => negb (memN x (map f_id (gc_removed s older limit)))) (files s) f).
    + exact H2.
    + rewrite (linked_not_removed s older limit f tg H1). reflexivity.
  - destruct (is_done fid (files s)); exact H.
Qed.

(* ---- every history ---- *)
Definition inv (s : state) : Prop :=
  inv_ids s /\ inv_disk s /\ inv_msgs s /\ inv_links s /\ inv_att s.

Lemma inv_init : inv init.
Proof.
  unfold inv, inv_ids, inv_disk, inv_msgs, inv_links, inv_att, init, file_ids. cbn.
  repeat split; try constructor; try tauto; intros; try contradiction; discriminate.
Qed.

Lemma inv_step : forall s o, inv s -> inv (step s o).
Proof.
  intros s o [H1 [H2 [H3 [H4 H5]]]].
  unfold inv. split; [apply step_inv_ids; exact H1|]. split; [apply step_inv_disk; exact H2|].
  split; [apply step_inv_msgs; exact H3|]. split; [apply step_inv_links; exact H4|apply step_inv_att; exact H5].
Qed.

Lemma inv_run_from : forall h s, inv s -> inv (run_from s h).
Proof.
  induction h as [|o h IH]; intros s H; [exact H|]. cbn [run_from fold_left]. apply IH. apply inv_step. exact H.
Qed.

Lemma inv_run : forall h, inv (run h).
Proof. intros h. apply (inv_run_from h init). exact inv_init. Qed.

(* ------------------------------------------------------------------ *)
(* garbage collection is exact                                          *)

Lemma gc_exact_step : forall s older limit,
  inv_ids s ->
  let s' := step s (OGC older limit) in
  let rem := gc_removed s older limit in
  (forall f, In f (files s) -> (In f (files s') <-> ~ In f rem)) /\
  (forall f, In f (files s') -> In f (files s)) /\
  (forall f, In f rem ->
     In f (files s) /\ linked (f_id f) (links s) = false /\ gc_older_ok older f = true) /\
  ((limit <= 0)%Z -> forall f, In f (files s) -> linked (f_id f) (links s) = false ->
     gc_older_ok older f = true -> In f rem) /\
  ((0 < limit)%Z ->
     length rem = Nat.min (Z.to_nat limit) (length (filter (gc_candidate s older) (files s)))) /\
  (forall f, In f (files s) -> linked (f_id f) (links s) = true -> In f (files s')) /\
  (forall f, In f rem ->
     In (f_id f) (gc_deleted_locations s older limit) /\ ~ In (f_id f) (disk s')) /\
  (forall d, In d (disk s) -> ~ In d (gc_deleted_locations s older limit) -> In d (disk s')) /\
  links s' = links s /\ msgs s' = msgs s /\ topics s' = topics s /\ users s' = users s.
Proof.
  intros s older limit Hnd s' rem.
  assert (Hsub := gc_removed_sub s older limit).
  assert (Hiff : forall f, In f (files s) -> (In f (files s') <-> ~ In f rem)).
  { intros f Hf. subst s'. cbn [step files]. rewrite filter_In. split.
    - intros [_ Hk] Hin. apply negb_true_iff in Hk. apply memN_false in Hk. apply Hk.
      apply in_map. exact Hin.
    - intros Hn. split; [exact Hf|]. apply negb_true_iff. apply memN_false. intros Hin.
      apply in_map_iff in Hin. destruct Hin as [g [Hg Hin]].
      assert (g = f).
      { apply (NoDup_map_inj file N f_id (files s)); try assumption.
        apply (Hsub g Hin). }
      subst g. exact (Hn Hin). }
  split; [exact Hiff|].
  split. { intros f Hf. subst s'. cbn [step files] in Hf. apply filter_In in Hf. tauto. }
  split; [exact Hsub|].
  split.
  { intros Hl f Hf Hlk Ho. subst rem. unfold gc_removed.
    assert (E : (0 <? limit)%Z = false) by (apply Z.ltb_ge; exact Hl). rewrite E.
    apply filter_In. split; [exact Hf|]. unfold gc_candidate. rewrite Hlk. exact Ho. }
  split.
  { intros Hl. subst rem. unfold gc_removed.
    assert (E : (0 <? limit)%Z = true) by (apply Z.ltb_lt; exact Hl). rewrite E.
    apply firstn_length. }
  split.
  { intros f Hf Hlk. apply Hiff; [exact Hf|]. intros Hin. apply Hsub in Hin.
    destruct Hin as [_ [Hl _]]. congruence. }
  split.
  { intros f Hf. split; [unfold gc_deleted_locations; apply in_map; exact Hf|].
    subst s'. cbn [step disk]. rewrite filter_In. intros [_ Hk].
    apply negb_true_iff in Hk. apply memN_false in Hk. apply Hk. apply in_map. exact Hf. }
  split.
  { intros d Hd Hn. subst s'. cbn [step disk]. apply filter_In. split; [exact Hd|].
    apply negb_true_iff. apply memN_false. exact Hn. }
  subst s'. cbn [step links msgs topics users]. repeat split; reflexivity.
Qed.

(* ------------------------------------------------------------------ *)
(* links are kept while the parent exists                               *)

Lemma run_app : forall h1 h2, run (h1 ++ h2) = run_from (run h1) h2.
Proof. intros h1 h2. unfold run, run_from. apply fold_left_app. Qed.

Lemma next_mid_mono_run : forall h s, (next_mid s <= next_mid (run_from s h))%N.
Proof.
  induction h as [|o h IH]; intros s; cbn [run_from fold_left]; [lia|].
  pose proof (step_next_mid_mono s o). pose proof (IH (step s o)). unfold run_from in *. lia.
Qed.

Lemma live_msg_back : forall s o m,
  (m < next_mid s)%N -> target_live (step s o) (TMsg m) = true -> target_live s (TMsg m) = true.
Proof.
  intros s o m Hm H. unfold target_live in *.
  destruct o; cbn [step] in H.
  - destruct (_ || _); exact H.
  - destruct (find_file fid (files s)) as [g|]; [|exact H].
    destruct (f_done g); [exact H|]. destruct ok; [destruct (memN fid (disk s))|]; exact H.
  - destruct (memN t (topics s)); exact H.
  - destruct (memN u (users s)); exact H.
  - destruct (memN topic (topics s)); [|exact H]. cbn [msgs map fst] in H.
    rewrite memN_cons in H. apply orb_true_iff in H. destruct H as [H|H]; [|exact H].
    apply N.eqb_eq in H. lia.
  - rewrite link_single_msgs in H. exact H.
  - rewrite link_single_msgs in H. exact H.
  - cbn [msgs] in H. apply memN_In. apply memN_In in H.
    apply in_map_iff in H. destruct H as [x [Hx Hin]]. apply filter_In in Hin.
    apply in_map_iff. exists x. tauto.
  - cbn [msgs] in H. apply memN_In. apply memN_In in H.
    apply in_map_iff in H. destruct H as [x [Hx Hin]]. apply filter_In in Hin.
    apply in_map_iff. exists x. tauto.
  - exact H.
  - exact H.
  - destruct (is_done fid (files s)); exact H.
Qed.

Lemma live_back_run : forall h s m,
  (m < next_mid s)%N -> target_live (run_from s h) (TMsg m) = true -> target_live s (TMsg m) = true.
Proof.
  induction h as [|o h IH]; intros s m Hm H; cbn [run_from fold_left] in H; [exact H|].
  apply (live_msg_back s o m Hm). apply IH; [|exact H].
  pose proof (step_next_mid_mono s o). lia.
Qed.

Lemma link_single_att_keep : forall s tg fids f t,
  target_eqb t tg = false -> In (f, t) (att s) -> In (f, t) (att (link_single s tg fids)).
Proof.
  intros s tg fids f t He Hin. unfold link_single. destruct fids as [|f0 r]; [exact Hin|].
  destruct (_ && _); [|exact Hin]. cbn [att]. apply in_app_iff. left.
  apply filter_In. split; [exact Hin|]. cbn [snd]. rewrite He. reflexivity.
Qed.

Lemma drop_keep : forall gone f t ls,
  gone t = false -> In (f, t) ls -> In (f, t) (drop_target gone ls).
Proof.
  intros gone f t ls Hg Hin. unfold drop_target. apply filter_In. split; [exact Hin|].
  cbn [snd]. rewrite Hg. reflexivity.
Qed.

Lemma att_persist_msg : forall s o f m,
  inv_msgs s -> In (f, TMsg m) (att s) -> target_live (step s o) (TMsg m) = true ->
  In (f, TMsg m) (att (step s o)).
Proof.
  intros s o f m [Hnd _] Hin Hl. unfold target_live in Hl.
  destruct o; cbn [step] in *.
  - destruct (_ || _); exact Hin.
  - destruct (find_file fid (files s)) as [g|]; [|exact Hin].
    destruct (f_done g); [exact Hin|]. destruct ok; [destruct (memN fid (disk s))|]; exact Hin.
  - destruct (memN t (topics s)); exact Hin.
  - destruct (memN u (users s)); exact Hin.
  - destruct (memN topic (topics s)); [|exact Hin]. cbn [att]. apply in_app_iff. left. exact Hin.
  - apply link_single_att_keep; [reflexivity|exact Hin].
  - apply link_single_att_keep; [reflexivity|exact Hin].
  - cbn [att msgs] in *. apply drop_keep; [|exact Hin].
    apply memN_In in Hl.
    apply (in_map_filter (N * N) fst (fun x => negb (memN x mids))) in Hl.
    destruct Hl as [_ Hl]. apply negb_true_iff in Hl. exact Hl.
  - cbn [att msgs] in *. apply drop_keep; [|exact Hin].
    apply memN_In in Hl. apply in_map_iff in Hl. destruct Hl as [y [Hy Hyin]].
    apply filter_In in Hyin. destruct Hyin as [Hyin Hyt].
    unfold msg_topic.
    assert (Hm : In m (map fst (msgs s))) by (apply in_map_iff; exists y; split; assumption).
    destruct (in_fst_find m (msgs s) Hm) as [y' [Hf [Hy' Hm']]]. rewrite Hf.
    assert (y' = y).
    { apply (NoDup_map_inj (N * N) N fst (msgs s)); try assumption. congruence. }
    subst y'. apply negb_true_iff in Hyt. exact Hyt.
  - cbn [att]. apply drop_keep; [reflexivity|exact Hin].
  - exact Hin.
  - destruct (is_done fid (files s)); exact Hin.
Qed.

Lemma msg_link_persists : forall h s f m,
  inv s -> (m < next_mid s)%N -> In (f, TMsg m) (att s) ->
  target_live (run_from s h) (TMsg m) = true -> In (f, TMsg m) (att (run_from s h)).
Proof.
  induction h as [|o h IH]; intros s f m Hinv Hm Hin Hl; cbn [run_from fold_left] in *; [exact Hin|].
  assert (Hm' : (m < next_mid (step s o))%N) by (pose proof (step_next_mid_mono s o); lia).
  apply IH; try assumption.
  - apply inv_step. exact Hinv.
  - destruct Hinv as [_ [_ [Hmsgs _]]]. apply att_persist_msg; try assumption.
    apply (live_back_run h (step s o) m Hm'). exact Hl.
Qed.

Lemma att_stored : forall s f t, inv s -> In (f, t) (att s) ->
  In (f, t) (links s) /\ In f (file_ids s) /\ In f (disk s) /\ is_done f (files s) = true.
Proof.
  intros s f t [_ [Hdisk [_ [Hlinks Hatt]]]] Hin.
  destruct (Hatt f t Hin) as [H1 H2]. destruct (Hlinks f t H1) as [H3 _].
  split; [exact H1|]. split; [exact H3|]. split; [apply (proj2 Hdisk); exact H2|exact H2].
Qed.

Lemma publish_att : forall s topic fids f,
  memN topic (topics s) = true -> forallb (fun x => memN x (file_ids s)) fids = true ->
  In f fids -> is_done f (files s) = true ->
  In (f, TMsg (next_mid s)) (att (step s (OPublish topic fids))) /\
  next_mid (step s (OPublish topic fids)) = N.succ (next_mid s).
Proof.
  intros s topic fids f Ht Hall Hin Hd. cbn [step]. rewrite Ht. cbv zeta. cbn [att next_mid].
  split; [|reflexivity]. apply in_app_iff. right.
  destruct fids as [|a r]; [destruct Hin|]. rewrite Hall.
  apply in_map_iff. exists f. split; [reflexivity|]. apply filter_In. split; assumption.
Qed.

Lemma linked_msg : forall h1 topic fids h2 f,
  let s1 := run h1 in
  memN topic (topics s1) = true ->
  forallb (fun x => memN x (file_ids s1)) fids = true ->
  In f fids -> is_done f (files s1) = true ->
  let mid := next_mid s1 in
  let s2 := run (h1 ++ OPublish topic fids :: h2) in
  target_live s2 (TMsg mid) = true ->
  In (f, TMsg mid) (links s2) /\ In f (file_ids s2) /\ In f (disk s2) /\ is_done f (files s2) = true.
Proof.
  intros h1 topic fids h2 f s1 Ht Hall Hin Hd mid s2 Hl.
  assert (Hs2 : s2 = run_from (step s1 (OPublish topic fids)) h2).
  { subst s2 s1. rewrite run_app. reflexivity. }
  destruct (publish_att s1 topic fids f Ht Hall Hin Hd) as [Hatt Hnext].
  assert (Hinv1 : inv (step s1 (OPublish topic fids))) by (apply inv_step; apply inv_run).
  rewrite Hs2 in *.
  apply att_stored; [apply inv_run_from; exact Hinv1|].
  apply msg_link_persists; try assumption. rewrite Hnext. subst mid. lia.
Qed.

(* an accepted publish whose list names a missing upload links nothing *)
Lemma publish_missing_links_nothing : forall s topic fids,
  forallb (fun x => memN x (file_ids s)) fids = false ->
  links (step s (OPublish topic fids)) = links s.
Proof.
  intros s topic fids H. cbn [step]. destruct (memN topic (topics s)); [|reflexivity].
  cbv zeta. cbn [links]. destruct fids as [|a r]; [apply app_nil_r|]. rewrite H. apply app_nil_r.
Qed.

(* ---- avatars ---- *)
Lemma avatar_persist : forall s o f tg,
  match tg with TMsg _ => False | _ => True end ->
  avatar_kept tg o = true -> In (f, tg) (att s) -> In (f, tg) (att (step s o)).
Proof.
  intros s o f tg Htg Hk Hin.
  destruct o; cbn [step].
  - destruct (_ || _); exact Hin.
  - destruct (find_file fid (files s)) as [g|]; [|exact Hin].
    destruct (f_done g); [exact Hin|]. destruct ok; [destruct (memN fid (disk s))|]; exact Hin.
  - destruct (memN t (topics s)); exact Hin.
  - destruct (memN u (users s)); exact Hin.
  - destruct (memN topic (topics s)); [|exact Hin]. cbn [att]. apply in_app_iff. left. exact Hin.
  - apply link_single_att_keep; [|exact Hin].
    destruct tg as [m|x|x]; cbn [target_eqb avatar_kept] in *; try reflexivity.
    apply negb_true_iff in Hk. rewrite N.eqb_sym. exact Hk.
  - apply link_single_att_keep; [|exact Hin].
    destruct tg as [m|x|x]; cbn [target_eqb avatar_kept] in *; try reflexivity.
    apply negb_true_iff in Hk. rewrite N.eqb_sym. exact Hk.
  - cbn [att]. apply drop_keep; [|exact Hin]. destruct tg; [destruct Htg|reflexivity|reflexivity].
  - cbn [att]. apply drop_keep; [|exact Hin].
    destruct tg as [m|x|x]; cbn [avatar_kept] in *; [destruct Htg| |reflexivity].
    apply negb_true_iff in Hk. rewrite N.eqb_sym. exact Hk.
  - cbn [att]. apply drop_keep; [|exact Hin].
    destruct tg as [m|x|x]; cbn [avatar_kept] in *; [destruct Htg|reflexivity|].
    apply negb_true_iff in Hk. rewrite N.eqb_sym. exact Hk.
  - exact Hin.
  - destruct (is_done fid (files s)); exact Hin.
Qed.

Lemma avatar_persists_run : forall h s f tg,
  match tg with TMsg _ => False | _ => True end ->
  forallb (avatar_kept tg) h = true -> In (f, tg) (att s) -> In (f, tg) (att (run_from s h)).
Proof.
  induction h as [|o h IH]; intros s f tg Htg Hk Hin; cbn [run_from fold_left]; [exact Hin|].
  cbn [forallb] in Hk. apply andb_true_iff in Hk. destruct Hk as [Hk1 Hk2].
  apply IH; try assumption. apply avatar_persist; assumption.
Qed.

Lemma link_single_att : forall s tg f rest,
  memN f (file_ids s) = true -> target_live s tg = true -> is_done f (files s) = true ->
  In (f, tg) (att (link_single s tg (f :: rest))).
Proof.
  intros s tg f rest H1 H2 H3. unfold link_single. rewrite H1, H2. cbn [andb att].
  rewrite H3. apply in_app_iff. right. left. reflexivity.
Qed.

Lemma linked_avatar : forall h1 tg f rest h2,
  match tg with TMsg _ => False | _ => True end ->
  let s1 := run h1 in
  memN f (file_ids s1) = true -> target_live s1 tg = true -> is_done f (files s1) = true ->
  forallb (avatar_kept tg) h2 = true ->
  let s2 := run_from (link_single s1 tg (f :: rest)) h2 in
  In (f, tg) (links s2) /\ In f (file_ids s2) /\ In f (disk s2) /\ is_done f (files s2) = true.
Proof.
  intros h1 tg f rest h2 Htg s1 H1 H2 H3 Hk s2.
  assert (Hinv : inv (link_single s1 tg (f :: rest))).
  { destruct tg as [m|t|u]; [destruct Htg| |].
    - exact (inv_step s1 (OTopicAvatar t (f :: rest)) (inv_run h1)).
    - exact (inv_step s1 (OUserAvatar u (f :: rest)) (inv_run h1)). }
  apply att_stored; [apply inv_run_from; exact Hinv|].
  apply avatar_persists_run; try assumption. apply link_single_att; assumption.
Qed.

(* an avatar update whose first resolvable id names no record changes nothing (rolled back) *)
Lemma avatar_missing_keeps : forall s tg f rest,
  memN f (file_ids s) = false -> link_single s tg (f :: rest) = s.
Proof. intros s tg f rest H. unfold link_single. rewrite H. reflexivity. Qed.

(* ---- download ---- *)
Lemma download_with_names_record : forall chk s serve url f,
  download_with chk s serve url = Some f ->
  get_id_from_url serve url = f_id f /\ f_id f <> 0%N /\ In f (files s) /\ In (f_id f) (disk s) /\
  (chk = true -> f_done f = true).
Proof.
  intros chk s serve url f H. unfold download_with in H.
  destruct (get_id_from_url serve url =? 0)%N eqn:Ez; [discriminate|].
  destruct (find_file (get_id_from_url serve url) (files s)) as [g|] eqn:Eg; [|discriminate].
  destruct ((negb chk || f_done g) && memN (get_id_from_url serve url) (disk s)) eqn:Ed; [|discriminate].
  apply andb_true_iff in Ed. destruct Ed as [Ec Ed].
  inversion H; subst g. apply find_file_in in Eg. destruct Eg as [Hin Hid].
  apply N.eqb_neq in Ez. apply memN_In in Ed. rewrite Hid in *.
  repeat split; try assumption. intros ->. exact Ec.
Qed.

Lemma download_names_record : forall s serve url f,
  download s serve url = Some f ->
  get_id_from_url serve url = f_id f /\ f_id f <> 0%N /\ In f (files s) /\ In (f_id f) (disk s).
Proof.
  intros s serve url f H. destruct (download_with_names_record true s serve url f H) as [H1 [H2 [H3 [H4 _]]]].
  repeat split; assumption.
Qed.

(* every URL, every state of the store slice: what a download serves is a COMPLETED upload *)
Lemma download_completed : forall s serve url f,
  download s serve url = Some f ->
  f_done f = true /\ is_done (f_id f) (files s) = true /\
  get_id_from_url serve url = f_id f /\ f_id f <> 0%N /\ In f (files s) /\ In (f_id f) (disk s).
Proof.
  intros s serve url f H.
  assert (H' := H). unfold download, download_with in H'.
  destruct (get_id_from_url serve url =? 0)%N; [discriminate|].
  destruct (find_file (get_id_from_url serve url) (files s)) as [g|] eqn:Eg; [|discriminate].
  destruct ((negb true || f_done g) && _) eqn:Ed; [|discriminate]. inversion H'; subst g.
  destruct (download_with_names_record true s serve url f H) as [H1 [H2 [H3 [H4 H5]]]].
  split; [exact (H5 eq_refl)|]. split; [|repeat split; assumption].
  unfold is_done. rewrite <- H1, Eg. exact (H5 eq_refl).
Qed.

(* a record that is not completed is invisible to every URL *)
Lemma download_started_none : forall s serve url,
  is_done (get_id_from_url serve url) (files s) = false -> download s serve url = None.
Proof.
  intros s serve url H. destruct (download s serve url) as [f|] eqn:E; [|reflexivity].
  destruct (download_completed s serve url f E) as [_ [Hd [Hid _]]]. rewrite <- Hid in Hd. congruence.
Qed.

(* ---- provenance of records: every record was started by an upload with its content type,
   every completed record was finished successfully ---- *)
Lemma step_file_origin : forall s o f,
  In f (files (step s o)) ->
  In f (files s) \/
  (o = OStart (f_id f) (f_upd f) (f_mime f) /\ f_done f = false) \/
  (o = OFinish (f_id f) true (f_upd f) /\ f_done f = true /\
   exists g, In g (files s) /\ f_id g = f_id f /\ f_mime g = f_mime f).
Proof.
  intros s o f H. destruct o; cbn [step] in H.
  - destruct (_ || _); [left; exact H|]. cbn [files] in H. apply in_app_iff in H.
    destruct H as [H|[H|[]]]; [left; exact H|]. subst f. right. left. split; reflexivity.
  - destruct (find_file fid (files s)) as [g|] eqn:Eg; [|left; exact H].
    destruct (f_done g) eqn:Edg; [left; exact H|]. destruct ok.
    + destruct (memN fid (disk s)); [|left; exact H].
      unfold set_files in H. cbn [files] in H. apply in_map_iff in H. destruct H as [x [Hx Hin]].
      destruct (f_id x =? fid)%N eqn:Ex; [|left; subst; exact Hin].
      apply N.eqb_eq in Ex. right. right. subst f. cbn [f_id f_upd f_mime f_done].
      split; [reflexivity|]. split; [reflexivity|]. exists x.
      split; [exact Hin|]. split; [exact Ex|reflexivity].
    + cbn [files] in H. apply filter_In in H. left. tauto.
  - destruct (memN t (topics s)); left; exact H.
  - destruct (memN u (users s)); left; exact H.
  - destruct (memN topic (topics s)); left; exact H.
  - rewrite link_single_files in H. left; exact H.
  - rewrite link_single_files in H. left; exact H.
  - left; exact H.
  - left; exact H.
  - left; exact H.
  - cbn [files] in H. apply filter_In in H. left. tauto.
  - destruct (is_done fid (files s)); left; exact H.
Qed.

Lemma file_provenance : forall h f,
  In f (files (run h)) ->
  (exists t0, In (OStart (f_id f) t0 (f_mime f)) h) /\
  (f_done f = true -> In (OFinish (f_id f) true (f_upd f)) h).
Proof.
  induction h as [|o h IH] using rev_ind; intros f Hin; [destruct Hin|].
  rewrite run_app in Hin. cbn [run_from fold_left] in Hin.
  destruct (step_file_origin _ _ _ Hin) as [H|[[Ho Hd]|[Ho [Hd [g [Hg [Hid Hm]]]]]]].
  - destruct (IH f H) as [[t0 H1] H2]. split.
    + exists t0. apply in_app_iff. left. exact H1.
    + intros Hd. apply in_app_iff. left. exact (H2 Hd).
  - split.
    + exists (f_upd f). apply in_app_iff. right. left. exact Ho.
    + intros Hd'. congruence.
  - destruct (IH g Hg) as [[t0 H1] _]. rewrite Hid, Hm in H1. split.
    + exists t0. apply in_app_iff. left. exact H1.
    + intros _. apply in_app_iff. right. left. exact Ho.
Qed.

(* ---- nothing else is removed ---- *)
Lemma record_removed_only_by : forall s o f,
  inv_ids s -> In f (files s) -> ~ In (f_id f) (file_ids (step s o)) ->
  (exists older limit, o = OGC older limit /\ In f (gc_removed s older limit)) \/
  (exists now, o = OFinish (f_id f) false now /\ f_done f = false).
Proof.
  intros s o f Hnd Hin Hgone. unfold file_ids in Hgone.
  assert (Hid : In (f_id f) (map f_id (files s))) by (apply in_map; exact Hin).
  destruct o; cbn [step] in Hgone.
  - exfalso. apply Hgone. destruct (_ || _); [exact Hid|].
    cbn [files]. rewrite map_app. apply in_app_iff. left. exact Hid.
  - destruct (find_file fid (files s)) as [g|] eqn:Eg; [|contradiction].
    destruct (f_done g) eqn:Edg; [contradiction|]. destruct ok.
    + exfalso. apply Hgone. destruct (memN fid (disk s)); [|exact Hid].
      unfold set_files. cbn [files]. rewrite ids_finish. exact Hid.
    + cbn [files] in Hgone. right. exists now.
      destruct (f_id f =? fid)%N eqn:Ef.
      * apply N.eqb_eq in Ef. subst fid. split; [reflexivity|].
        apply find_file_in in Eg. destruct Eg as [Hg Hgid].
        assert (g = f) by (apply (NoDup_map_inj file N f_id (files s)); assumption).
        subst g. exact Edg.
      * exfalso. apply Hgone. apply in_map. apply filter_In. split; [exact Hin|]. rewrite Ef. reflexivity.
  - exfalso. apply Hgone. destruct (memN t (topics s)); exact Hid.
  - exfalso. apply Hgone. destruct (memN u (users s)); exact Hid.
  - exfalso. apply Hgone. destruct (memN topic (topics s)); exact Hid.
  - exfalso. apply Hgone. rewrite link_single_files. exact Hid.
  - exfalso. apply Hgone. rewrite link_single_files. exact Hid.
  - contradiction.
  - contradiction.
  - contradiction.
  - left. exists older, limit. split; [reflexivity|]. cbn [files] in Hgone.
    destruct (memN (f_id f) (map f_id (gc_removed s older limit))) eqn:Em.
    + apply memN_In in Em. apply in_map_iff in Em. destruct Em as [g [Hg Hgin]].
      assert (g = f).
      { apply (NoDup_map_inj file N f_id (files s)); try assumption.
        apply (gc_removed_sub s older limit g Hgin). }
      subst g. exact Hgin.
    + exfalso. apply Hgone. apply in_map. apply filter_In. split; [exact Hin|]. rewrite Em. reflexivity.
  - exfalso. apply Hgone. destruct (is_done fid (files s)); exact Hid.
Qed.

Lemma bytes_removed_only_by : forall s o d,
  In d (disk s) -> ~ In d (disk (step s o)) ->
  (exists older limit, o = OGC older limit /\ In d (gc_deleted_locations s older limit)) \/
  (exists now, o = OFinish d false now /\ is_done d (files s) = false) \/
  (o = ODropBytes d /\ is_done d (files s) = false).
Proof.
  intros s o d Hin Hgone. destruct o; cbn [step] in Hgone.
  - exfalso. apply Hgone. destruct (_ || _); [exact Hin|]. right. exact Hin.
  - destruct (find_file fid (files s)) as [g|] eqn:Eg; [|contradiction].
    destruct (f_done g) eqn:Edg; [contradiction|]. destruct ok.
    + exfalso. apply Hgone. destruct (memN fid (disk s)); exact Hin.
    + cbn [disk] in Hgone. right. left. exists now.
      destruct (d =? fid)%N eqn:Ef.
      * apply N.eqb_eq in Ef. subst fid. split; [reflexivity|]. unfold is_done. rewrite Eg. exact Edg.
      * exfalso. apply Hgone. apply filter_In. split; [exact Hin|]. rewrite Ef. reflexivity.
  - exfalso. apply Hgone. destruct (memN t (topics s)); exact Hin.
  - exfalso. apply Hgone. destruct (memN u (users s)); exact Hin.
  - exfalso. apply Hgone. destruct (memN topic (topics s)); exact Hin.
  - exfalso. apply Hgone. rewrite link_single_disk. exact Hin.
  - exfalso. apply Hgone. rewrite link_single_disk. exact Hin.
  - contradiction.
  - contradiction.
  - contradiction.
  - left. exists older, limit. split; [reflexivity|]. cbn [disk] in Hgone. unfold gc_deleted_locations.
    destruct (memN d (map f_id (gc_removed s older limit))) eqn:Em; [apply memN_In; exact Em|].
    exfalso. apply Hgone. apply filter_In. split; [exact Hin|]. rewrite Em. reflexivity.
  - right. right. destruct (is_done fid (files s)) eqn:Ed; [contradiction|]. cbn [disk] in Hgone.
    destruct (d =? fid)%N eqn:Ef.
    + apply N.eqb_eq in Ef. subst fid. split; [reflexivity|exact Ed].
    + exfalso. apply Hgone. apply filter_In. split; [exact Hin|]. rewrite Ef. reflexivity.
Qed.

(* ---- deleting a message / topic / user removes its link rows ---- *)
Lemma del_msgs_unlinks : forall s mids f m,
  In m mids -> ~ In (f, TMsg m) (links (step s (ODelMsgs mids))).
Proof.
  intros s mids f m Hm Hin. cbn [step links] in Hin. unfold drop_target in Hin.
  apply filter_In in Hin. destruct Hin as [_ Hk]. cbn [snd] in Hk.
  apply memN_In in Hm. rewrite Hm in Hk. discriminate.
Qed.

Lemma del_topic_unlinks : forall s t f,
  ~ In (f, TTopic t) (links (step s (ODelTopic t))) /\
  (forall m, msg_topic m (msgs s) = Some t -> ~ In (f, TMsg m) (links (step s (ODelTopic t)))).
Proof.
  intros s t f. split.
  - intros Hin. cbn [step links] in Hin. unfold drop_target in Hin.
    apply filter_In in Hin. destruct Hin as [_ Hk]. cbn [snd] in Hk. rewrite N.eqb_refl in Hk. discriminate.
  - intros m Hm Hin. cbn [step links] in Hin. unfold drop_target in Hin.
    apply filter_In in Hin. destruct Hin as [_ Hk]. cbn [snd] in Hk. rewrite Hm, N.eqb_refl in Hk. discriminate.
Qed.

Lemma del_user_unlinks : forall s u f, ~ In (f, TUser u) (links (step s (ODelUser u))).
Proof.
  intros s u f Hin. cbn [step links] in Hin. unfold drop_target in Hin.
  apply filter_In in Hin. destruct Hin as [_ Hk]. cbn [snd] in Hk. rewrite N.eqb_refl in Hk. discriminate.
Qed.

(* deletions touch no upload record and no stored bytes *)
Lemma deletions_keep_files : forall s o,
  match o with ODelMsgs _ | ODelTopic _ | ODelUser _ => True | _ => False end ->
  files (step s o) = files s /\ disk (step s o) = disk s.
Proof. intros s o H. destruct o; try destruct H; split; reflexivity. Qed.

(* ---- an upload without a link row is collected by the next unlimited GC run past its time ---- *)
Lemma unreferenced_collected : forall s f older limit,
  inv_ids s -> In f (files s) -> linked (f_id f) (links s) = false -> gc_older_ok older f = true ->
  (limit <= 0)%Z ->
  ~ In (f_id f) (file_ids (step s (OGC older limit))) /\ ~ In (f_id f) (disk (step s (OGC older limit))).
Proof.
  intros s f older limit Hnd Hin Hl Ho Hlim.
  destruct (gc_exact_step s older limit Hnd) as [_ [_ [_ [Hall _]]]].
  assert (Hrem : In f (gc_removed s older limit)) by (apply Hall; assumption).
  assert (Hm : memN (f_id f) (map f_id (gc_removed s older limit)) = true).
  { apply memN_In. apply in_map. exact Hrem. }
  split.
  - unfold file_ids. cbn [step files]. intros H.
    apply (in_map_filter file f_id (fun x => negb (memN x (map f_id (gc_removed s older limit))))) in H.
    destruct H as [_ H]. rewrite Hm in H. discriminate.
  - cbn [step disk]. intros H. apply filter_In in H. destruct H as [_ H]. rewrite Hm in H. discriminate.
Qed.

Lemma linked_true_In : forall f ls, linked f ls = true -> exists t, In (f, t) ls.
Proof.
  intros f ls H. unfold linked in H. apply existsb_exists in H. destruct H as [[g t] [Hin He]].
  cbn [fst] in He. apply N.eqb_eq in He. subst g. exists t. exact Hin.
Qed.

Lemma find_file_snoc : forall l g id,
  find_file id (l ++ [g]) =
  match find_file id l with Some x => Some x | None => if (f_id g =? id)%N then Some g else None end.
Proof.
  intros l g id. unfold find_file. induction l as [|x l IH]; cbn [app find]; [reflexivity|].
  destruct (f_id x =? id)%N; [reflexivity|exact IH].
Qed.

(* ---- the upload whose FinishUpload failed (500): exactly what is left ---- *)
Lemma failed_upload_exact : forall s fid now mime,
  inv s -> memN fid (file_ids s) = false -> fid <> 0%N ->
  let s' := apply_effect s EResidueNoBytes fid now mime in
  let rec := {| f_id := fid; f_done := false; f_upd := now; f_mime := mime |} in
  files s' = files s ++ [rec] /\ disk s' = disk s /\ links s' = links s /\ msgs s' = msgs s /\
  next_mid s' = next_mid s /\ topics s' = topics s /\ users s' = users s /\
  (forall serve url, download s' serve url = download s serve url) /\
  linked fid (links s') = false /\
  (forall older limit, (limit <= 0)%Z -> gc_older_ok older rec = true ->
     ~ In fid (file_ids (step s' (OGC older limit))) /\ ~ In fid (disk (step s' (OGC older limit)))).
Proof.
  intros s fid now mime Hinv Hfresh Hnz s' rec.
  assert (Hinv' : inv s').
  { subst s'. cbn [apply_effect]. apply inv_step. apply inv_step. exact Hinv. }
  destruct Hinv as [Hids [[Hda Hdb] [_ [Hlinks _]]]].
  assert (Hz : (fid =? 0)%N = false) by (apply N.eqb_neq; exact Hnz).
  assert (Hstart : step s (OStart fid now mime) =
    {| files := files s ++ [rec]; links := links s; msgs := msgs s; next_mid := next_mid s;
       topics := topics s; users := users s; disk := fid :: disk s; att := att s |}).
  { cbn [step]. rewrite Hfresh, Hz. reflexivity. }
  assert (Hnd : is_done fid (files s ++ [rec]) = false).
  { destruct (is_done fid (files s ++ [rec])) eqn:E; [|reflexivity].
    apply (is_done_snoc_inv (files s) rec fid eq_refl) in E. apply is_done_in_ids in E.
    apply memN_false in Hfresh. contradiction. }
  assert (Hnotdisk : ~ In fid (disk s)).
  { intros H. apply Hda in H. apply memN_false in Hfresh. contradiction. }
  assert (Hs' : s' =
    {| files := files s ++ [rec]; links := links s; msgs := msgs s; next_mid := next_mid s;
       topics := topics s; users := users s; disk := disk s; att := att s |}).
  { subst s'. cbn [apply_effect]. rewrite Hstart. cbn [step files]. rewrite Hnd.
    cbn [files links msgs next_mid topics users att disk filter]. rewrite N.eqb_refl. cbn [negb].
    rewrite filter_all; [reflexivity|].
    intros x Hx. apply negb_true_iff. apply N.eqb_neq. intros ->. contradiction. }
  assert (Hlk : linked fid (links s) = false).
  { destruct (linked fid (links s)) eqn:E; [|reflexivity]. apply linked_true_In in E. destruct E as [t Ht].
    apply Hlinks in Ht. destruct Ht as [Ht _]. apply memN_false in Hfresh. contradiction. }
  rewrite Hs' in *. cbn [files disk links msgs next_mid topics users].
  repeat (split; [reflexivity|]).
  split.
  { intros serve url. unfold download, download_with. cbn [files disk].
    destruct (get_id_from_url serve url =? 0)%N; [reflexivity|].
    rewrite find_file_snoc. destruct (find_file (get_id_from_url serve url) (files s)) as [x|]; [reflexivity|].
    subst rec. cbn [f_id]. destruct (fid =? get_id_from_url serve url)%N; reflexivity. }
  split; [exact Hlk|].
  intros older limit Hlim Ho.
  assert (Hin : In rec (files s ++ [rec])) by (apply in_app_iff; right; left; reflexivity).
  destruct Hinv' as [Hids' _].
  exact (unreferenced_collected _ rec older limit Hids' Hin Hlk Ho Hlim).
Qed.

(* a request answered with a status other than 200 that nevertheless left something behind *)
Lemma failed_upload_request : forall h r fid now mime c e,
  let s := run h in
  upload_gate r = Reply c e -> c <> 200%Z -> e <> ENone ->
  memN fid (file_ids s) = false -> fid <> 0%N ->
  let s' := fst (apply_upload s r fid now mime) in
  let rec := {| f_id := fid; f_done := false; f_upd := now; f_mime := mime |} in
  c = 500%Z /\ u_fault r = FFinish /\
  files s' = files s ++ [rec] /\ disk s' = disk s /\ links s' = links s /\ msgs s' = msgs s /\
  next_mid s' = next_mid s /\ topics s' = topics s /\ users s' = users s /\
  (forall serve url, download s' serve url = download s serve url) /\
  linked fid (links s') = false /\
  (forall older limit, (limit <= 0)%Z -> gc_older_ok older rec = true ->
     ~ In fid (file_ids (step s' (OGC older limit))) /\ ~ In fid (disk (step s' (OGC older limit)))).
Proof.
  intros h r fid now mime c e s Hg Hc He Hfresh Hnz.
  destruct (upload_refused_effect r c e Hg Hc) as [Hn|[He' [Hc' Hf]]]; [contradiction|].
  subst e c. unfold apply_upload. cbn [fst]. rewrite Hg. cbn [effect_of].
  split; [reflexivity|]. split; [exact Hf|].
  exact (failed_upload_exact s fid now mime (inv_run h) Hfresh Hnz).
Qed.

Lemma unreferenced_collected_run : forall h f older limit,
  let s := run h in
  In f (files s) -> linked (f_id f) (links s) = false -> gc_older_ok older f = true -> (limit <= 0)%Z ->
  ~ In (f_id f) (file_ids (step s (OGC older limit))) /\ ~ In (f_id f) (disk (step s (OGC older limit))).
Proof.
  intros h f older limit s H1 H2 H3 H4. destruct (inv_run h) as [Hids _].
  exact (unreferenced_collected s f older limit Hids H1 H2 H3 H4).
Qed.

Lemma record_removed_only_by_run : forall h o f,
  let s := run h in
  In f (files s) -> ~ In (f_id f) (file_ids (step s o)) ->
  (exists older limit, o = OGC older limit /\ In f (gc_removed s older limit) /\
     linked (f_id f) (links s) = false /\ gc_older_ok older f = true) \/
  (exists now, o = OFinish (f_id f) false now /\ f_done f = false).
Proof.
  intros h o f s H1 H2. destruct (inv_run h) as [Hids _].
  destruct (record_removed_only_by s o f Hids H1 H2) as [[older [limit [Ho Hr]]]|H]; [left|right; exact H].
  exists older, limit. split; [exact Ho|]. split; [exact Hr|].
  destruct (gc_removed_sub s older limit f Hr) as [_ [Ha Hb]]. split; assumption.
Qed.

Lemma download_provenance : forall h serve url f,
  download (run h) serve url = Some f ->
  (exists t0, In (OStart (f_id f) t0 (f_mime f)) h) /\ In (OFinish (f_id f) true (f_upd f)) h.
Proof.
  intros h serve url f H. destruct (download_completed _ _ _ _ H) as [Hd [_ [_ [_ [Hin _]]]]].
  destruct (file_provenance h f Hin) as [H1 H2]. split; [exact H1|exact (H2 Hd)].
Qed.

(* ---- the whole download request: gate and store slice together ---- *)
Lemma serve_request_served : forall s r serve url o f,
  serve_request s r serve url = (o, Some f) ->
  o = Reply 200 EServed /\ s_meth r = MGet /\ first_some (s_keys r) = Some KValid /\
  (exists u, auth_of (s_creds r) (s_sid r) = AuthUid u /\ u <> 0%N) /\
  download s serve url = Some f /\
  f_done f = true /\ In f (files s) /\ get_id_from_url serve url = f_id f /\ In (f_id f) (disk s).
Proof.
  intros s r serve url o f H. unfold serve_request in H.
  remember (download s serve url) as d eqn:Ed.
  set (r' := {| s_meth := s_meth r; s_keys := s_keys r; s_creds := s_creds r; s_sid := s_sid r;
                s_handler := s_handler r; s_hdr := s_hdr r;
                s_found := match d with Some _ => true | None => false end |}) in *.
  injection H as Ho Hf.
  destruct (effect_of (serve_gate r')) eqn:Ee; try discriminate.
  assert (Hw : effect_of (serve_gate r') <> ENone) by (rewrite Ee; discriminate).
  destruct (serve_gate_work r' Hw) as [Hm [Hk [Ha [_ [_ [_ Hg]]]]]].
  split; [rewrite <- Ho; exact Hg|]. split; [exact Hm|]. split; [exact (key_check_source _ Hk)|]. split; [exact Ha|].
  split; [exact Hf|]. rewrite Ed in Hf.
  destruct (download_completed s serve url f Hf) as [H1 [_ [H3 [_ [H5 H6]]]]].
  repeat split; assumption.
Qed.

Lemma serve_request_nothing : forall s r serve url o,
  serve_request s r serve url = (o, None) -> effect_of o = ENone.
Proof.
  intros s r serve url o H. unfold serve_request in H.
  remember (download s serve url) as d eqn:Ed.
  set (r' := {| s_meth := s_meth r; s_keys := s_keys r; s_creds := s_creds r; s_sid := s_sid r;
                s_handler := s_handler r; s_hdr := s_hdr r;
                s_found := match d with Some _ => true | None => false end |}) in *.
  injection H as Ho Hf. rewrite <- Ho.
  destruct (effect_eq_none (effect_of (serve_gate r'))) as [He|He]; [exact He|]. exfalso.
  destruct (serve_gate_work r' He) as [_ [_ [_ [_ [_ [Hfound Hg]]]]]].
  rewrite Hg in Hf. cbn [effect_of] in Hf. subst r'. cbn [s_found] in Hfound.
  destruct d; discriminate.
Qed.

(* ---- a completed upload that has a link row survives EVERY operation ---- *)
Lemma linked_never_removed : forall h o f t,
  let s := run h in
  In (f, t) (links s) -> is_done f (files s) = true ->
  In f (file_ids (step s o)) /\ In f (disk (step s o)).
Proof.
  intros h o f t s Hl Hd.
  destruct (inv_run h) as [Hids [[_ Hdb] _]]. fold s in Hids, Hdb.
  assert (Hlk : linked f (links s) = true) by (exact (linked_In f t (links s) Hl)).
  unfold is_done in Hd. destruct (find_file f (files s)) as [g|] eqn:Eg; [|discriminate].
  destruct (find_file_in _ _ _ Eg) as [Hg Hgid].
  split.
  - destruct (in_dec N.eq_dec f (file_ids (step s o))) as [H|H]; [exact H|]. exfalso.
    rewrite <- Hgid in H.
    destruct (record_removed_only_by s o g Hids Hg H) as [[older [limit [_ Hr]]]|[now [_ Hnd]]].
    + destruct (gc_removed_sub s older limit g Hr) as [_ [Hn _]]. rewrite Hgid in Hn. congruence.
    + congruence.
  - assert (Hdisk : In f (disk s)) by (apply Hdb; unfold is_done; rewrite Eg; exact Hd).
    destruct (in_dec N.eq_dec f (disk (step s o))) as [H|H]; [exact H|]. exfalso.
    destruct (bytes_removed_only_by s o f Hdisk H) as [[older [limit [_ Hr]]]|[[now [_ Hnd]]|[_ Hnd]]].
    + unfold gc_deleted_locations in Hr. apply in_map_iff in Hr. destruct Hr as [g' [Hid' Hr]].
      destruct (gc_removed_sub s older limit g' Hr) as [_ [Hn _]]. rewrite Hid' in Hn. congruence.
    + unfold is_done in Hnd. rewrite Eg in Hnd. congruence.
    + unfold is_done in Hnd. rewrite Eg in Hnd. congruence.
Qed.

(* ---- end to end: a listed URL stays downloadable while the message exists ---- *)
Lemma resolve_In : forall serve urls f,
  In f (resolve serve urls) <-> f <> 0%N /\ exists u, In u urls /\ get_id_from_url serve u = f.
Proof.
  intros serve urls f. unfold resolve. rewrite filter_In, in_map_iff. split.
  - intros [[u [Hu Hin]] Hnz]. split; [apply N.eqb_neq; apply negb_true_iff; exact Hnz|].
    exists u. split; assumption.
  - intros [Hnz [u [Hin Hu]]]. split; [exists u; split; assumption|].
    apply negb_true_iff. apply N.eqb_neq. exact Hnz.
Qed.

Definition inv_nz (s : state) : Prop := forall f, In f (files s) -> f_id f <> 0%N.

Lemma step_inv_nz : forall s o, inv_nz s -> inv_nz (step s o).
Proof.
  intros s o H f Hin. destruct o; cbn [step] in Hin.
  - destruct (memN fid (file_ids s) || (fid =? 0)%N) eqn:E; [exact (H f Hin)|].
    cbn [files] in Hin. apply in_app_iff in Hin. destruct Hin as [Hin|[Hin|[]]]; [exact (H f Hin)|].
    subst f. cbn [f_id]. apply orb_false_iff in E. destruct E as [_ E]. apply N.eqb_neq. exact E.
  - destruct (find_file fid (files s)) as [g|] eqn:Eg; [|exact (H f Hin)].
    destruct (f_done g); [exact (H f Hin)|]. destruct ok.
    + destruct (memN fid (disk s)); [|exact (H f Hin)].
      unfold set_files in Hin. cbn [files] in Hin. apply in_map_iff in Hin. destruct Hin as [x [Hx Hin]].
      destruct (f_id x =? fid)%N eqn:Ex; [|rewrite <- Hx; exact (H x Hin)].
      apply N.eqb_eq in Ex. rewrite <- Hx. cbn [f_id]. rewrite <- Ex. exact (H x Hin).
    + cbn [files] in Hin. apply filter_In in Hin. exact (H f (proj1 Hin)).
  - destruct (memN t (topics s)); exact (H f Hin).
  - destruct (memN u (users s)); exact (H f Hin).
  - destruct (memN topic (topics s)); exact (H f Hin).
  - rewrite link_single_files in Hin. exact (H f Hin).
  - rewrite link_single_files in Hin. exact (H f Hin).
  - exact (H f Hin).
  - exact (H f Hin).
  - exact (H f Hin).
  - cbn [files] in Hin. apply filter_In in Hin. exact (H f (proj1 Hin)).
  - destruct (is_done fid (files s)); exact (H f Hin).
Qed.

Lemma inv_nz_run : forall h, inv_nz (run h).
Proof.
  intros h. unfold run. assert (G : forall l s, inv_nz s -> inv_nz (fold_left step l s)).
  { induction l as [|o l IH]; intros s Hs; [exact Hs|]. cbn [fold_left]. apply IH. apply step_inv_nz. exact Hs. }
  apply G. intros f [].
Qed.

(* a completed upload whose bytes are present is served by every URL that yields its id *)
Lemma download_of_done : forall s serve url,
  get_id_from_url serve url <> 0%N -> is_done (get_id_from_url serve url) (files s) = true ->
  In (get_id_from_url serve url) (disk s) ->
  exists g, download s serve url = Some g /\ f_id g = get_id_from_url serve url /\ f_done g = true.
Proof.
  intros s serve url Hnz Hd Hdisk. unfold download, download_with.
  apply N.eqb_neq in Hnz. rewrite Hnz. unfold is_done in Hd.
  destruct (find_file (get_id_from_url serve url) (files s)) as [g|] eqn:Eg; [|discriminate].
  apply memN_In in Hdisk. rewrite Hd, Hdisk. cbn [negb orb andb].
  exists g. split; [reflexivity|]. split; [exact (proj2 (find_file_in _ _ _ Eg))|exact Hd].
Qed.

Lemma listed_url_linked : forall h1 serve topic urls h2 url,
  let s1 := run h1 in
  let fids := resolve serve urls in
  memN topic (topics s1) = true ->
  forallb (fun x => memN x (file_ids s1)) fids = true ->
  In url urls -> is_done (get_id_from_url serve url) (files s1) = true ->
  let mid := next_mid s1 in
  let s2 := run (h1 ++ OPublish topic fids :: h2) in
  target_live s2 (TMsg mid) = true ->
  let f := get_id_from_url serve url in
  In (f, TMsg mid) (links s2) /\ In f (file_ids s2) /\ In f (disk s2) /\
  exists g, download s2 serve url = Some g /\ f_id g = f /\ f_done g = true.
Proof.
  intros h1 serve topic urls h2 url s1 fids Ht Hall Hin Hd mid s2 Hl. cbv zeta.
  set (f := get_id_from_url serve url) in *.
  assert (Hnz : f <> 0%N).
  { unfold is_done in Hd. destruct (find_file f (files s1)) as [g|] eqn:Eg; [|discriminate].
    destruct (find_file_in _ _ _ Eg) as [Hg Hid]. rewrite <- Hid. exact (inv_nz_run h1 g Hg). }
  assert (Hf : In f fids).
  { apply resolve_In. split; [exact Hnz|]. exists url. split; [exact Hin|reflexivity]. }
  destruct (linked_msg h1 topic fids h2 f Ht Hall Hf Hd Hl) as [H1 [H2 [H3 H4]]].
  split; [exact H1|]. split; [exact H2|]. split; [exact H3|].
  exact (download_of_done s2 serve url Hnz H4 H3).
Qed.
