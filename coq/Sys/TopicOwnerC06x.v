(* C06 (part x): store faults on the OFFER of ownership.
   Topic.another_user_sub writes the cache only after store.Subs.Update went through, so a
   {set sub} naming another user that is not acknowledged leaves the store AND the cache as they
   were (aus_err_same_c06x, step_failed_offer_c06x: no invariant needed, any fault plan).
   Hence the ownership invariant and the step laws of TopicOwnerProofs.v, which are stated there
   for faulted requests that do not name O at all, also hold when the faulted request is a
   {set sub} naming ANOTHER user with any mode, O included (fault_safe_c06x): the only faults
   left outside are those inside the actor's OWN {sub}/{set sub} naming O - the three-write
   acceptance of a transfer, which is the known finding. *)
From Coq Require Import ZArith NArith List Bool Lia.
From Tinode Require Import Base.Util Pure.Acs Sys.Topic Sys.TopicTac Sys.TopicFrame Sys.TopicNum Sys.TopicMarks
  Sys.TopicOwner Sys.TopicOwnerProofs.
Import ListNotations.
Local Open Scope N_scope.

(* every error return of anotherUserSub is taken before anything is written *)
Lemma aus_err_same_c06x f s c n sid u t mode : forall code,
  snd (another_user_sub f s c n sid u t mode) = SubErr code ->
  h_st (fst (another_user_sub f s c n sid u t mode)) = s /\
  h_ca (fst (another_user_sub f s c n sid u t mode)) = c.
Proof.
  unfold another_user_sub. cbv zeta.
  repeat (break_match; cbn [fst snd h_st h_ca]); intros code H; try discriminate H; split; reflexivity.
Qed.

(* a reply that acknowledges a {set sub}: 200 with the new acs, or 304 *)
Definition acks_c06x (fr : frame) : bool :=
  match fr with
  | CtrlAcs _ _ _ _ => true
  | Ctrl code _ => (code <? 400)%Z
  | _ => false
  end.

Section OfferC06x.
Variable dr : Z -> list (Z * Z) -> option (list (Z * Z)).
Variable nr : list (Z * Z) -> list (Z * Z).
Variable sm : sessmap.

(* An attached session's {set sub} naming another user that is not acknowledged (refused, or the
   store call failed and the request is never answered) changes neither the store nor the cache,
   whatever the state and the fault plan. *)
Lemma step_failed_offer_c06x f x sid t mode c :
  ca x = Some c -> attached c sid = true -> t <> 0 -> t <> sess_uid sm sid ->
  (forall fr, In (sid, fr) (snd (step dr nr sm f x (OSetSub sid t mode))) -> acks_c06x fr = false) ->
  st (fst (step dr nr sm f x (OSetSub sid t mode))) = st x /\
  ca (fst (step dr nr sm f x (OSetSub sid t mode))) = ca x.
Proof.
  intros EC AT T0 TU. destruct x as [s cx n0]. cbn [ca st] in *. subst cx.
  unfold step. cbn [st ca]. rewrite AT. cbn [negb]. unfold set_sub.
  assert ((t =? 0) || N.eqb t (sess_uid sm sid) = false) as SELF.
  { apply orb_false_iff. split; now apply N.eqb_neq. }
  rewrite SELF.
  pose proof (aus_err_same_c06x f s c 0 sid (sess_uid sm sid) t mode) as ES.
  destruct (another_user_sub f s c 0 sid (sess_uid sm sid) t mode) as [h r]. cbn [fst snd] in *.
  destruct r as [code|ch]; cbn [fst snd st ca h_st h_ca h_out h_n].
  - intros _. destruct (ES code eq_refl) as [-> ->]. split; reflexivity.
  - intros NA. exfalso.
    specialize (NA (match ch with Some (w, g) => CtrlAcs 200 t w g | None => Ctrl 304 [] end)).
    assert (acks_c06x (match ch with Some (w, g) => CtrlAcs 200 t w g | None => Ctrl 304 [] end) = true) as AK
      by (destruct ch as [[w g]|]; reflexivity).
    rewrite NA in AK; [discriminate|]. apply in_or_app. right. left. reflexivity.
Qed.

(* ---------- the invariant with faulted offers ---------- *)
(* fault-free, or the request does not name O, or it is a {set sub} naming another user *)
Definition fault_safe_c06x (fo : fault * op) : Prop :=
  fault_safe fo \/ exists t, is_set_op sm (snd fo) t.
Definition hist_ok_c06x (h : list (fault * op)) : Prop :=
  Forall (fun fo => actor_ok sm (snd fo) /\ fault_safe_c06x fo) h.

Lemma hist_ok_weaken_c06x h : hist_ok sm h -> hist_ok_c06x h.
Proof.
  unfold hist_ok, hist_ok_c06x. intros H. eapply Forall_impl; [|exact H].
  intros fo [A B]. split; [exact A|left; exact B].
Qed.

Lemma set_sub_other_inv_c06x (is_set : N -> Prop) (asks : Prop) f s c n sid u target mode :
  oinv sm s c -> target <> 0 -> target <> u -> is_set target ->
  let h := set_sub f s c n sid u target mode in
  oinv sm (h_st h) (h_ca h) /\ ssum u is_set asks s (h_st h).
Proof.
  intros I E1 E2 HS. cbn zeta. unfold set_sub.
  assert ((target =? 0) || N.eqb target u = false) as SELF.
  { apply orb_false_iff. split; now apply N.eqb_neq. }
  rewrite SELF.
  pose proof (aus_inv sm is_set asks f s c n sid u target mode I E2 E1 HS) as TI. cbn zeta in TI.
  destruct (another_user_sub f s c n sid u target mode) as [h r]. cbn [fst snd] in TI. destruct TI as [I2 SS].
  destruct r; cbn [h_st h_ca]; auto.
Qed.

Lemma step_owner_c06x f x o : oinv_state sm x -> actor_ok sm o -> fault_safe_c06x (f, o) ->
  oinv_state sm (fst (step dr nr sm f x o)) /\ step_sum sm o (st x) (st (fst (step dr nr sm f x o))).
Proof.
  intros I AO [FS|[t HS0]]; [now apply step_owner|].
  cbn [snd] in HS0. destruct HS0 as [sid [mode [-> [T0 TU]]]]. destruct x as [s cx n0]. unfold oinv_state in *. cbn [st ca] in *.
  assert (step_sum sm (OSetSub sid t mode) s s) as SAME by (apply SumSame; reflexivity).
  assert (is_set_op sm (OSetSub sid t mode) t) as HS by (eexists _, _; eauto).
  assert (forall (P : store -> Prop), P s -> (forall w g mw, smode s (sess_uid sm sid) = Some (w, g, false) -> is_owner mw = is_owner w ->
             P (ad_subs_update s (sess_uid sm sid) (mkUpd (Some mw) None None None None))) ->
            P (o_st (offline_set_sub f s sid (sess_uid sm sid) t mode))) as OFF.
  { intros P P0 P1. destruct (offline_set_sub_cases f s sid (sess_uid sm sid) t mode) as [->|[w [g [mw [SU [EW [_ ->]]]]]]]; eauto. }
  cbn in AO.
  unfold step, oinv_state; cbn [st ca negb].
  destruct cx as [c|]; [destruct (attached c sid)|]; cbn [negb fst st ca].
  - apply (set_sub_other_inv_c06x (is_set_op sm (OSetSub sid t mode)) (asks_op sm (OSetSub sid t mode))); auto.
  - apply (OFF (fun s' => oinv sm s' c /\ step_sum sm (OSetSub sid t mode) s s')); [split; assumption|].
    intros w g mw SU EW. destruct I as [SI CI].
    destruct (sinv_offline sm (is_set_op sm (OSetSub sid t mode)) (asks_op sm (OSetSub sid t mode)) s _ w g mw SI AO SU EW) as [S1 [S2 S3]].
    split; [split; auto|exact S3].
  - apply (OFF (fun s' => sinv s' /\ step_sum sm (OSetSub sid t mode) s s')); [split; assumption|].
    intros w g mw SU EW.
    destruct (sinv_offline sm (is_set_op sm (OSetSub sid t mode)) (asks_op sm (OSetSub sid t mode)) s _ w g mw I AO SU EW) as [S1 [S2 S3]].
    split; assumption.
Qed.

Lemma step_f_owner_c06x x fo : oinv_state sm x -> actor_ok sm (snd fo) -> fault_safe_c06x fo ->
  oinv_state sm (fst (step_f dr nr sm x fo)) /\ step_sum sm (snd fo) (st x) (st (fst (step_f dr nr sm x fo))).
Proof.
  intros I AO FS. unfold step_f. destruct fo as [f o]. cbn [fst snd] in *.
  destruct (step_owner_c06x f x o I AO FS) as [I1 S1].
  destruct (step dr nr sm f x o) as [x1 o1]. cbn [fst] in *.
  destruct f; cbn [fst st]; auto. split; [|exact S1]. now apply oinv_state_sinv in I1.
Qed.

Lemma run_owner_c06x h : forall x, oinv_state sm x -> hist_ok_c06x h -> oinv_state sm (fst (run dr nr sm x h)).
Proof.
  induction h as [|fo h IH]; intros x I H; cbn [run fst]; [exact I|].
  inversion H as [|? ? [AO FS] H']; subst.
  destruct (step_f_owner_c06x x fo I AO FS) as [I1 _].
  destruct (step_f dr nr sm x fo) as [x1 o1]. cbn [fst] in I1.
  specialize (IH x1 I1 H'). destruct (run dr nr sm x1 h) as [x2 os]. exact IH.
Qed.

Lemma run_one_owner_c06x s h : sinv s -> hist_ok_c06x h -> one_owner (fst (run dr nr sm (mkState s None 0) h)).
Proof. intros SI H. apply oinv_state_one_owner with (sm := sm). apply run_owner_c06x; [exact SI|exact H]. Qed.

(* ownership moves only by the acceptance of a grant that is IN THE STORE: if topics.owner changes
   at a step, the actor asked for O in his own request, his stored live row had O in given (not in
   want) before the step, he is the new owner and the previous owner keeps O nowhere *)
Lemma step_transfer_c06x x fo : oinv_state sm x -> actor_ok sm (snd fo) -> fault_safe_c06x fo ->
  let x' := fst (step_f dr nr sm x fo) in
  t_owner (st x') <> t_owner (st x) ->
  asks_op sm (snd fo) /\ t_owner (st x') = op_user sm (snd fo) /\
  (exists w g, smode (st x) (op_user sm (snd fo)) = Some (w, g, false) /\ is_owner g = true /\ is_owner w = false) /\
  (exists w' g', smode (st x') (t_owner (st x)) = Some (w', g', false) /\ is_owner w' = false /\ is_owner g' = false).
Proof.
  intros I AO FS. cbn zeta. intros NE. destruct (step_f_owner_c06x x fo I AO FS) as [_ SS].
  destruct SS as [A B|A B C|t T1 T2 A B C|T1 T2 T3 T4 T5 T6]; try congruence. auto.
Qed.

(* and a step that leaves topics.owner alone leaves the owner's stored row live with O in want and given *)
Lemma step_owner_stays_c06x x fo : oinv_state sm x -> actor_ok sm (snd fo) -> fault_safe_c06x fo ->
  let x' := fst (step_f dr nr sm x fo) in
  exists w g, smode (st x') (t_owner (st x')) = Some (w, g, false) /\ is_owner w = true /\ is_owner g = true.
Proof.
  intros I AO FS. cbn zeta. destruct (step_f_owner_c06x x fo I AO FS) as [I1 _].
  apply oinv_state_sinv in I1. destruct I1 as [_ _ _ _ P].
  specialize (P (t_owner (st (fst (step_f dr nr sm x fo))))).
  destruct (smode _ (t_owner (st (fst (step_f dr nr sm x fo))))) as [[[w g] d]|]; cbn in P; [|congruence].
  rewrite N.eqb_refl in P. destruct P as [-> [W G]]. eauto.
Qed.
End OfferC06x.
