(* C08: the coherence invariant is preserved by every request that is free of the
   known triggers, for every fault plan (proofs). *)
From Coq Require Import ZArith NArith List Bool Lia.
From Tinode Require Import Base.Util Pure.Acs Sys.Topic Sys.TopicTac Sys.TopicFrame Sys.TopicCohC08 Sys.TopicCohC08Proofs.
Import ListNotations.
Open Scope Z_scope.

(* ------------------------------------------------------------------ *)
(* coh is the pointwise form of coherent *)
Lemma coh_agree s c : wf_store s -> coh s c -> cache_agree c (load s).
Proof.
  intros [ND [NZ [A1 [A2 _]]]] [E1 [E2 [E3 [E4 [P O]]]]].
  unfold cache_agree, load. cbn [c_lastid c_delid c_owner c_auth c_anon c_users].
  repeat split; try assumption.
  - symmetry. apply load_owner_wf; assumption.
  - intros u. rewrite P. symmetry. apply load_users_core. exact ND.
Qed.

Lemma coh_load s : wf_store s -> coh s (load s).
Proof.
  intros [ND [NZ [A1 [A2 [o O]]]]]. unfold coh, load. cbn [c_lastid c_delid c_owner c_auth c_anon c_users].
  do 4 (split; [reflexivity|]). split.
  - intros v. apply load_users_core. exact ND.
  - rewrite (load_owner_wf _ _ ND O). exact O.
Qed.

Lemma inv_coherent x : inv x -> coherent x.
Proof.
  unfold inv, coherent. intros [W C]. destruct (ca x); [|exact I]. apply coh_agree; [assumption|apply C].
Qed.

(* what coh says about one user *)
Lemma coh_at s c v :
  coh s c ->
  match alookup v (c_users c) with
  | Some p => exists r, find_sub v (subs s) = Some r /\ s_deleted r = false /\
                        s_want r = p_want p /\ s_given r = p_given p /\ s_read r = p_read p /\ s_recv r = p_recv p /\ s_delid r = p_delid p
  | None => match find_sub v (subs s) with Some r => s_deleted r = true | None => True end
  end.
Proof.
  intros [_ [_ [_ [_ [P _]]]]]. specialize (P v). unfold row_core in P.
  destruct (alookup v (c_users c)) as [p|]; cbn in P.
  - destruct (find_sub v (subs s)) as [r|]; [|discriminate]. destruct (s_deleted r) eqn:D; [discriminate|].
    exists r. unfold core in P. inv P. repeat split; congruence.
  - destruct (find_sub v (subs s)) as [r|]; [|exact I]. destruct (s_deleted r); [reflexivity|discriminate].
Qed.

(* evictUser touches only the online counter, or removes the entry *)
Lemma evict_core c u unsub k c' o :
  evict_user c u unsub k = (c', o) ->
  c_lastid c' = c_lastid c /\ c_delid c' = c_delid c /\ c_owner c' = c_owner c /\ c_auth c' = c_auth c /\ c_anon c' = c_anon c /\
  forall v, option_map core (alookup v (c_users c')) =
            if unsub && N.eqb v u then None else option_map core (alookup v (c_users c)).
Proof.
  unfold evict_user. intros H. inv H. destruct unsub; cbn [andb].
  - cbn. repeat split. intros v. rewrite alookup_aremove. destruct (N.eqb v u); reflexivity.
  - cbn [c_users c_set_sess]. destruct (alookup u (c_users c)) as [p|] eqn:L; cbn; repeat split.
    intros v. rewrite alookup_aset. destruct (N.eqb_spec v u); [|reflexivity]. subst. rewrite L. reflexivity.
Qed.

(* ------------------------------------------------------------------ *)
(* coh, per user *)
Definition corerow (r : subrow) : N * N * (Z * Z * Z) := (s_want r, s_given r, (s_read r, s_recv r, s_delid r)).
Definition vrel (o v : N) (cp : option pud) (sr : option subrow) : Prop :=
  match sr with
  | Some r => option_map core cp = (if s_deleted r then None else Some (corerow r)) /\
              (is_owner (s_want r) = true -> s_deleted r = false /\ is_owner (s_given r) = true /\ v = o)
  | None => option_map core cp = None
  end.
Definition oinv (s : store) (o : N) : Prop :=
  o <> 0%N /\ exists r, find_sub o (subs s) = Some r /\ is_owner (s_want r) = true.

Lemma coh_parts s c :
  coh s c <->
  (c_lastid c = t_seqid s /\ c_delid c = t_delid s /\ c_auth c = t_auth s /\ c_anon c = t_anon s) /\
  (forall v, vrel (c_owner c) v (alookup v (c_users c)) (find_sub v (subs s))) /\ oinv s (c_owner c).
Proof.
  unfold coh, owner_row, oinv, vrel, row_core, corerow. split.
  - intros [E1 [E2 [E3 [E4 [P [NZ [EX U]]]]]]]. repeat split; try assumption.
    intros v. specialize (P v). specialize (U v).
    destruct (find_sub v (subs s)) as [r|]; [|exact P]. split; [exact P|]. intros O. apply (U r eq_refl O).
  - intros [[E1 [E2 [E3 E4]]] [P [NZ EX]]].
    do 4 (split; [assumption|]). split; [|split; [exact NZ|split; [exact EX|]]].
    + intros v. specialize (P v). destruct (find_sub v (subs s)) as [r|]; [apply P|exact P].
    + intros v r F O. specialize (P v). rewrite F in P. destruct P as [_ P]. apply (P O).
Qed.

Lemma coh_frame s c s' c' :
  coh s c -> sframe s s' -> cframe c c' ->
  (forall v, vrel (c_owner c') v (alookup v (c_users c')) (find_sub v (subs s'))) -> oinv s' (c_owner c') -> coh s' c'.
Proof.
  intros C [_ [S1 [S2 [S3 [S4 _]]]]] [C1 [C2 [C3 C4]]] P O. apply coh_parts in C. destruct C as [[E1 [E2 [E3 E4]]] _].
  apply coh_parts. split; [repeat split; congruence|]. split; assumption.
Qed.

(* the rest of wf_store *)
Definition shape (s : store) : Prop := NoDup (map s_user (subs s)) /\ ~ In 0%N (map s_user (subs s)).
Lemma wf_parts s :
  wf_store s <-> shape s /\ is_owner (t_auth s) = false /\ (forall u a, alookup u (users s) = Some a -> is_owner a = false) /\ exists o, owner_row s o.
Proof.
  unfold wf_store, shape. split.
  - intros [ND [NZ R]]. repeat split; try tauto. intros Hin. apply in_map_iff in Hin. destruct Hin as [r [E Hr]]. apply (NZ r Hr E).
  - intros [[ND NZ] R]. repeat split; try tauto. intros r Hr E. apply NZ. rewrite <- E. apply in_map. exact Hr.
Qed.

Lemma wf_frame s s' c' :
  wf_store s -> sframe s s' -> shape s' -> coh s' c' -> wf_store s'.
Proof.
  intros W [_ [_ [_ [S3 [_ [_ S6]]]]]] SH C. apply wf_parts in W. destruct W as [_ [A [B _]]].
  apply wf_parts. repeat split; try apply SH.
  - congruence.
  - rewrite S6. exact B.
  - exists (c_owner c'). apply C.
Qed.

Definition good (s : store) (c : cache) : Prop := wf_store s /\ coh s c.

(* shape through the primitives *)
Lemma shape_subs_update s u up : shape s -> shape (ad_subs_update s u up).
Proof. unfold shape. rewrite users_subs_update. tauto. Qed.
Lemma shape_subs_delete s u s' : ad_subs_delete s u = Some s' -> shape s -> shape s'.
Proof. intros H. unfold shape. rewrite (users_subs_delete _ _ _ H). tauto. Qed.
Lemma shape_sub_create s u w g : u <> 0%N -> shape s -> shape (ad_sub_create s u w g).
Proof.
  intros NZ [ND N0]. unfold shape. rewrite users_sub_create. destruct (find_sub u (subs s)) eqn:F; [tauto|].
  split.
  - apply NoDup_app_single; [exact ND|]. apply find_sub_none. exact F.
  - intros Hin. apply in_app_or in Hin. destruct Hin as [Hin|[Hin|[]]]; [tauto|congruence].
Qed.

(* ------------------------------------------------------------------ *)
(* tactics *)
Lemma vrel_old s c v : coh s c -> vrel (c_owner c) v (alookup v (c_users c)) (find_sub v (subs s)).
Proof. intros C. apply coh_parts in C. apply C. Qed.
Lemma oinv_old s c : coh s c -> oinv s (c_owner c).
Proof. intros C. apply coh_parts in C. apply C. Qed.

Lemma good_build s c s' c' :
  good s c -> sframe s s' -> cframe c c' -> shape s' ->
  (forall v, vrel (c_owner c') v (alookup v (c_users c')) (find_sub v (subs s'))) -> oinv s' (c_owner c') -> good s' c'.
Proof.
  intros [W C] Hs Hc SH P O.
  assert (coh s' c') as C' by (eapply coh_frame; eassumption).
  split; [|exact C']. eapply wf_frame; eassumption.
Qed.

Lemma good_shape s c : good s c -> shape s.
Proof. intros [W _]. apply wf_parts in W. apply W. Qed.

Lemma eqb0 u : u <> 0%N -> (u =? 0)%N = false.
Proof. intros H. now apply N.eqb_neq. Qed.

Lemma get_pud_has c u bit : has (pud_mode (get_pud c u)) bit = true -> alookup u (c_users c) = Some (get_pud c u).
Proof.
  unfold get_pud. destruct (alookup u (c_users c)); [reflexivity|]. unfold has, pud_mode, blank_pud. cbn. discriminate.
Qed.

(* the cached record after a store update of the same user *)
Definition core_after (up : subupd) (p : pud) : N * N * (Z * Z * Z) :=
  (match u_want up with Some v => v | None => p_want p end,
   match u_given up with Some v => v | None => p_given p end,
   (match u_read up with Some v => v | None => p_read p end,
    match u_recv up with Some v => v | None => p_recv p end,
    match u_delid up with Some v => v | None => p_delid p end)).

Lemma vrel_update s c u up p p' :
  coh s c -> u <> 0%N -> alookup u (c_users c) = Some p ->
  core p' = core_after up p ->
  (is_owner (p_want p') = true -> is_owner (p_given p') = true /\ u = c_owner c) ->
  forall v, vrel (c_owner c) v (alookup v (aset u p' (c_users c))) (find_sub v (subs (ad_subs_update s u up))).
Proof.
  intros C NZ L E O v. rewrite alookup_aset, row_subs_update, (eqb0 _ NZ). cbn [orb].
  destruct (N.eqb_spec v u) as [->|NE]; [|apply vrel_old; exact C].
  pose proof (coh_at _ _ u C) as A. rewrite L in A. destruct A as [r [F [D [A1 [A2 [A3 [A4 A5]]]]]]].
  rewrite F. cbn [option_map vrel apply_upd s_deleted s_want s_given]. rewrite D. split.
  - f_equal. rewrite E. unfold core_after, corerow, apply_upd; cbn. rewrite A1, A2, A3, A4, A5. reflexivity.
  - unfold core, core_after in E. inv E.
    replace (match u_want up with Some v => v | None => s_want r end) with (p_want p') by (rewrite A1; congruence).
    replace (match u_given up with Some v => v | None => s_given r end) with (p_given p') by (rewrite A2; congruence).
    intros W. split; [reflexivity|]. apply O. exact W.
Qed.

Lemma oinv_update s o u up :
  oinv s o -> (forall w, u_want up = Some w -> (u = o \/ u = 0%N) -> is_owner w = true) -> oinv (ad_subs_update s u up) o.
Proof.
  intros [NZ [r [F W]]] H. split; [exact NZ|]. rewrite row_subs_update, F.
  destruct ((u =? 0)%N || (o =? u)%N) eqn:E.
  - exists (apply_upd up r). split; [reflexivity|]. cbn. destruct (u_want up) as [w|] eqn:UW; [|exact W].
    apply (H w eq_refl). apply orb_true_iff in E. destruct E as [E|E]; apply N.eqb_eq in E; auto.
  - exists r. split; [reflexivity|exact W].
Qed.

Lemma coh_pud s c u p :
  coh s c -> alookup u (c_users c) = Some p -> is_owner (p_want p) = true -> is_owner (p_given p) = true /\ u = c_owner c.
Proof.
  intros C L W. pose proof (coh_at _ _ u C) as A. rewrite L in A. destruct A as [r [F [D [A1 [A2 _]]]]].
  pose proof (vrel_old _ _ u C) as V. rewrite F in V. destruct V as [_ V]. rewrite A1, A2 in V. destruct (V W) as [_ V']. exact V'.
Qed.
(* the owner is cached, with O in want and given *)
Lemma coh_owner s c :
  coh s c -> exists p, alookup (c_owner c) (c_users c) = Some p /\ is_owner (p_want p) = true /\ is_owner (p_given p) = true.
Proof.
  intros C. destruct (oinv_old _ _ C) as [NZ [r [F W]]].
  pose proof (vrel_old _ _ (c_owner c) C) as V. rewrite F in V. destruct V as [V1 V2]. destruct (V2 W) as [D [G _]].
  rewrite D in V1. destruct (alookup (c_owner c) (c_users c)) as [p|]; [|discriminate].
  exists p. split; [reflexivity|]. cbn in V1. unfold core, corerow in V1. inv V1. split; congruence.
Qed.

Lemma note_good f s c n sid u what seq :
  good s c -> u <> 0%N -> ~ (what = K_read /\ p_recv (get_pud c u) < seq) ->
  good (h_st (note f s c n sid u what seq)) (h_ca (note f s c n sid u what seq)).
Proof.
  intros G NZ NT.
  pose proof (note_frame f s c n sid u what seq) as [Hs Hc].
  revert Hs Hc. unfold note.
  repeat break_match; cbn [h_st h_ca]; intros Hs Hc; try exact G.
  all: eapply good_build; try eassumption.
  all: try (apply shape_subs_update; eapply good_shape; eassumption).
  all: cbn [c_owner c_users c_set_users].
  all: try (apply oinv_update; [apply oinv_old; apply G|cbn; discriminate]).
  all: try (exfalso; apply NT; split; [now apply N.eqb_eq|lia]).
  all: apply negb_false_iff in Heqb2.
  all: eapply vrel_update; [apply G|exact NZ|eapply get_pud_has; exact Heqb2| |intros W; apply (coh_pud _ _ _ _ (proj2 G) (get_pud_has _ _ _ Heqb2) W)].
  all: reflexivity.
Qed.

(* queries change nothing *)
Lemma get_data_same f s c n sid u a b l : h_st (get_data f s c n sid u a b l) = s /\ h_ca (get_data f s c n sid u a b l) = c.
Proof. unfold get_data. repeat break_match; split; reflexivity. Qed.
Lemma get_desc_same s c n sid u : h_st (get_desc s c n sid u) = s /\ h_ca (get_desc s c n sid u) = c.
Proof. unfold get_desc. repeat break_match; split; reflexivity. Qed.
Lemma get_sub_same f s c n sid u : h_st (get_sub f s c n sid u) = s /\ h_ca (get_sub f s c n sid u) = c.
Proof. unfold get_sub. repeat break_match; split; reflexivity. Qed.
Lemma get_del_same nr f s c n sid u a b l : h_st (get_del nr f s c n sid u a b l) = s /\ h_ca (get_del nr f s c n sid u a b l) = c.
Proof. unfold get_del. repeat break_match; split; reflexivity. Qed.

(* changes of the session list and of online counters *)
Lemma vrel_online s c u z p :
  coh s c -> alookup u (c_users c) = Some p ->
  forall v, vrel (c_owner c) v (alookup v (aset u (p_set_online z p) (c_users c))) (find_sub v (subs s)).
Proof.
  intros C L v. rewrite alookup_aset. destruct (N.eqb_spec v u) as [->|NE]; [|apply vrel_old; exact C].
  pose proof (vrel_old _ _ u C) as V. rewrite L in V. exact V.
Qed.

Lemma good_sess s c f : good s c -> good s (c_set_sess f c).
Proof. intros [W C]. split; [exact W|]. exact C. Qed.

Lemma good_online s c u z p : good s c -> alookup u (c_users c) = Some p -> good s (c_set_users (aset u (p_set_online z p)) c).
Proof.
  intros G L. eapply good_build; [exact G|apply sframe_refl|apply cframe_users|eapply good_shape; exact G| |apply (oinv_old s c); apply G].
  cbn [c_owner c_users c_set_users]. apply vrel_online; [apply G|exact L].
Qed.

Lemma good_evict s c u k c' o : good s c -> evict_user c u false k = (c', o) -> good s c'.
Proof.
  unfold evict_user. intros G H. inv H. cbn [c_users c_set_sess].
  destruct (alookup u (c_users c)) as [p|] eqn:L.
  - apply (good_online s (c_set_sess _ c) u 0 p); [apply good_sess; exact G|exact L].
  - apply good_sess. exact G.
Qed.


(* ------------------------------------------------------------------ *)
(* attached sessions act for cached users *)
Section AssocIn.
  Context {A : Type}.
  Lemma alookup_In (k : N) (l : list (N * A)) v : alookup k l = Some v -> In (k, v) l.
  Proof.
    induction l as [|[k0 v0] l IH]; cbn; [discriminate|].
    destruct (N.eqb_spec k k0) as [->|NE]; [intros H; inv H; now left|]. intros H. right. apply IH. exact H.
  Qed.
  Lemma In_aset (k : N) (v : A) l x : In x (aset k v l) -> x = (k, v) \/ In x l.
  Proof.
    induction l as [|[k0 v0] l IH]; cbn.
    - intros [H|[]]; auto.
    - destruct (N.eqb k k0); cbn.
      + intros [H|H]; auto.
      + intros [H|H]; auto. destruct (IH H); auto.
  Qed.
  Lemma In_aremove (k : N) (l : list (N * A)) x : In x (aremove k l) -> In x l.
  Proof.
    induction l as [|[k0 v0] l IH]; cbn; [tauto|].
    destruct (N.eqb k k0); cbn; [auto|]. intros [H|H]; auto.
  Qed.
End AssocIn.

Lemma sess_ok_users_aset c u p : sess_ok c -> sess_ok (c_set_users (aset u p) c).
Proof.
  intros S sid su bkg H. cbn [c_sess c_users c_set_users] in *. rewrite alookup_aset.
  destruct (N.eqb su u); [discriminate|]. eapply S; exact H.
Qed.
Lemma sess_ok_users_map c g : sess_ok c -> sess_ok (c_set_users (map (fun e => (fst e, g (snd e)))) c).
Proof.
  intros S sid su bkg H. cbn [c_sess c_users c_set_users] in *. rewrite alookup_map_snd.
  specialize (S _ _ _ H). destruct (alookup su (c_users c)); [discriminate|congruence].
Qed.
Lemma sess_ok_sess_aremove c sid : sess_ok c -> sess_ok (c_set_sess (aremove sid) c).
Proof.
  intros S sid' su bkg H. cbn [c_sess c_users c_set_sess] in *. apply In_aremove in H. eapply S; exact H.
Qed.
Lemma sess_ok_sess_aset c sid u b : sess_ok c -> alookup u (c_users c) <> None -> sess_ok (c_set_sess (aset sid (u, b)) c).
Proof.
  intros S L sid' su bkg H. cbn [c_sess c_users c_set_sess] in *. apply In_aset in H.
  destruct H as [H|H]; [inv H; exact L|]. eapply S; exact H.
Qed.
Lemma sess_ok_evict c u unsub k c' o : sess_ok c -> evict_user c u unsub k = (c', o) -> sess_ok c'.
Proof.
  unfold evict_user. intros S H. inv H.
  assert (forall sid su bkg, In (sid, (su, bkg)) (filter (fun e => negb (N.eqb (fst (snd e)) u)) (c_sess c)) ->
                             alookup su (c_users c) <> None /\ su <> u) as F.
  { intros sid su bkg H. apply filter_In in H. destruct H as [H1 H2]. cbn in H2. split; [eapply S; exact H1|].
    apply negb_true_iff in H2. now apply N.eqb_neq. }
  destruct unsub.
  - intros sid su bkg H. cbn [c_sess c_users c_set_users c_set_sess] in *. destruct (F _ _ _ H) as [F1 F2].
    rewrite alookup_aremove. destruct (N.eqb_spec su u); [contradiction|exact F1].
  - cbn [c_users c_set_sess]. destruct (alookup u (c_users c)) as [p|].
    + intros sid su bkg H. cbn [c_sess c_users c_set_users c_set_sess] in *. destruct (F _ _ _ H) as [F1 F2].
      rewrite alookup_aset. destruct (N.eqb su u); [discriminate|exact F1].
    + intros sid su bkg H. cbn [c_sess c_users c_set_sess] in *. apply (F _ _ _ H).
Qed.

(* ------------------------------------------------------------------ *)
(* leave, unsubscribe, eviction by an administrator *)
Definition good3 (s : store) (c : cache) : Prop := good s c /\ sess_ok c.

Lemma leave_good s c sid u : good3 s c -> good3 s (fst (leave c sid u)).
Proof.
  intros [G S]. unfold leave. destruct (alookup sid (c_sess c)) as [[su bkg]|] eqn:L; cbn [fst]; [|split; assumption].
  pose proof (S _ _ _ (alookup_In _ _ _ L)) as Hu.
  cbn [c_users c_set_sess]. destruct (alookup su (c_users c)) as [p|] eqn:Lu; [|congruence].
  destruct bkg.
  - split; [apply good_sess; exact G|apply sess_ok_sess_aremove; exact S].
  - split.
    + apply (good_online s (c_set_sess _ c) su _ p); [apply good_sess; exact G|exact Lu].
    + apply sess_ok_users_aset. apply sess_ok_sess_aremove. exact S.
Qed.

Lemma subs_delete_some s c u p : coh s c -> alookup u (c_users c) = Some p -> exists s', ad_subs_delete s u = Some s'.
Proof.
  intros C L. pose proof (coh_at _ _ u C) as A. rewrite L in A. destruct A as [r [F [D _]]].
  unfold ad_subs_delete, ad_sub_get. rewrite F, D. cbn. eauto.
Qed.

Lemma good_delete s c u k s' c' o :
  good s c -> u <> c_owner c -> ad_subs_delete s u = Some s' -> evict_user c u true k = (c', o) -> good s' c'.
Proof.
  intros G NO HD HE. destruct (evict_core _ _ _ _ _ _ HE) as [E1 [E2 [E3 [E4 [E5 E6]]]]].
  eapply good_build; [exact G|eapply sframe_subs_delete; exact HD|repeat split; assumption
                     |eapply shape_subs_delete; [exact HD|eapply good_shape; exact G]| |].
  - intros v. rewrite E3, (row_subs_delete _ _ _ v HD).
    pose proof (vrel_old _ _ v (proj2 G)) as V. unfold vrel in *. specialize (E6 v). cbn [andb] in E6.
    destruct (N.eqb_spec v u) as [E|NE].
    + rewrite E in *. destruct (find_sub u (subs s)) as [r|]; cbn [option_map]; rewrite E6; [|reflexivity].
      cbn [del_row s_deleted s_want s_given]. split; [reflexivity|].
      intros W. destruct V as [_ V]. destruct (V W) as [_ [_ X]]. contradiction.
    + rewrite E6. exact V.
  - rewrite E3. destruct (oinv_old _ _ (proj2 G)) as [NZ [r [F W]]]. split; [exact NZ|].
    rewrite (row_subs_delete _ _ _ _ HD). destruct (N.eqb_spec (c_owner c) u); [congruence|]. eauto.
Qed.

Lemma leave_unsub_good f s c n sid u :
  good3 s c -> good3 (h_st (leave_unsub f s c n sid u)) (h_ca (leave_unsub f s c n sid u)).
Proof.
  intros [G S]. unfold leave_unsub.
  destruct (N.eqb_spec (c_owner c) u) as [E|NE]; [split; assumption|].
  destruct (call f n) as [ok1 n1]. destruct (negb ok1); [split; assumption|].
  destruct (ad_subs_delete s u) as [s1|] eqn:HD; [|split; assumption].
  destruct (evict_user c u true sid) as [c1 o1] eqn:HE. cbn [h_st h_ca]. split.
  - eapply good_delete; try eassumption. congruence.
  - eapply sess_ok_evict; eassumption.
Qed.

Lemma del_sub_good f s c n sid u target :
  good3 s c -> good3 (h_st (del_sub f s c n sid u target)) (h_ca (del_sub f s c n sid u target)).
Proof.
  intros [G S]. unfold del_sub.
  destruct (negb (is_admin (user_mode c u))); [split; assumption|].
  destruct ((target =? 0)%N || (target =? u)%N); [split; assumption|].
  destruct (alookup target (c_users c)) as [pt|] eqn:L; [|split; assumption].
  destruct (is_owner (pud_mode pt)) eqn:O; [split; assumption|].
  destruct (negb (is_joiner (p_want pt))); [split; assumption|].
  destruct (call f n) as [ok1 n1]. destruct (negb ok1); [split; assumption|].
  destruct (subs_delete_some _ _ _ _ (proj2 G) L) as [s' HD]. rewrite HD.
  destruct (evict_user c target true 0) as [c1 o1] eqn:HE. cbn [h_st h_ca]. split.
  - eapply good_delete; try eassumption. intros E. subst target.
    destruct (coh_owner _ _ (proj2 G)) as [p [Lp [W Gv]]]. rewrite L in Lp. inv Lp.
    unfold pud_mode in O. rewrite is_owner_land, W, Gv in O. discriminate.
  - eapply sess_ok_evict; eassumption.
Qed.

(* ------------------------------------------------------------------ *)
(* publish *)
Definition no_fault_or_first (f : fault) (n : nat) : Prop :=
  (fails f (S n) = false /\ fails f (S (S n)) = false /\ fails f (S (S (S n))) = false) \/ fails f (S n) = true.

Lemma wf_scalar s s' :
  wf_store s -> subs s' = subs s -> t_auth s' = t_auth s -> users s' = users s -> wf_store s'.
Proof.
  unfold wf_store, owner_row. intros W E1 E2 E3. rewrite E1, E2, E3. exact W.
Qed.

Lemma msg_save_fresh s seq u content :
  (forall m, In m (seqs s) -> m < seq) ->
  ad_msg_save s seq u content = Some (st_msgs (fun l => l ++ [mkMsg seq u content 0]) s).
Proof.
  intros H. unfold ad_msg_save.
  destruct (existsb (fun m => m_seq m =? seq) (msgs s)) eqn:E; [|reflexivity].
  apply existsb_exists in E. destruct E as [m [Hm E]]. apply Z.eqb_eq in E.
  assert (In (m_seq m) (seqs s)) as I by (unfold seqs; apply in_map; exact Hm). specialize (H _ I). lia.
Qed.

Lemma publish_good f s c n sid u content noecho :
  good3 s c -> u <> 0%N -> (forall m, In m (seqs s) -> m <= c_lastid c) ->
  (is_writer (user_mode c u) = true -> is_reader (user_mode c u) = true) ->
  no_fault_or_first f n ->
  good3 (h_st (publish f s c n sid u content noecho)) (h_ca (publish f s c n sid u content noecho)).
Proof.
  intros [G S] NZ FR RD NF. unfold publish. fold (user_mode c u).
  destruct (is_writer (user_mode c u)) eqn:W; cbn [negb]; [|split; assumption].
  specialize (RD eq_refl). rewrite RD.
  unfold call. destruct NF as [[N1 [N2 N3]]|NF]; [|rewrite NF; cbn [negb]; split; assumption].
  rewrite N1, N2, ?N3. cbn [negb].
  rewrite msg_save_fresh by (intros m Hm; cbn in Hm; specialize (FR m Hm); lia).
  pose proof (get_pud_has _ _ _ RD) as L. rewrite L. cbn [h_st h_ca andb].
  set (seq := c_lastid c + 1). set (p := get_pud c u) in *.
  destruct G as [Wf C].
  assert (coh (ad_subs_update (st_msgs (fun l => l ++ [mkMsg seq u content 0]) (st_seqid seq s)) u (mkUpd None None (Some seq) (Some seq) None))
              (c_set_users (aset u (p_set_marks seq seq p)) (c_set_lastid seq c))) as C'.
  { pose proof C as C0. apply coh_parts in C0. destruct C0 as [[E1 [E2 [E3 E4]]] _].
    apply coh_parts. split; [|split].
    - destruct (scal_subs_update (st_msgs (fun l => l ++ [mkMsg seq u content 0]) (st_seqid seq s)) u (mkUpd None None (Some seq) (Some seq) None))
        as [S1 [S2 [S3 [S4 _]]]]. rewrite S1, S2, S3, S4. cbn. repeat split; assumption.
    - cbn [c_owner c_users c_set_users c_set_lastid]. intros v.
      assert (forall up, find_sub v (subs (ad_subs_update (st_msgs (fun l => l ++ [mkMsg seq u content 0]) (st_seqid seq s)) u up)) =
                         find_sub v (subs (ad_subs_update s u up))) as E by (intros up; rewrite !row_subs_update; reflexivity).
      rewrite E. eapply vrel_update; [exact C|exact NZ|exact L|reflexivity|].
      intros O. apply (coh_pud _ _ _ _ C L O).
    - cbn [c_owner c_set_users c_set_lastid].
      destruct (oinv_old _ _ C) as [NZo [r [F Wr]]]. split; [exact NZo|].
      rewrite row_subs_update. cbn [subs st_msgs st_seqid]. rewrite F.
      destruct ((u =? 0)%N || (c_owner c =? u)%N); [exists (apply_upd (mkUpd None None (Some seq) (Some seq) None) r)|exists r]; split; try reflexivity; exact Wr. }
  split; [split; [|exact C']|].
  - apply wf_parts in Wf. destruct Wf as [SH [A [B _]]]. apply wf_parts.
    destruct (scal_subs_update (st_msgs (fun l => l ++ [mkMsg seq u content 0]) (st_seqid seq s)) u (mkUpd None None (Some seq) (Some seq) None))
      as [_ [_ [S3 [_ S5]]]].
    split; [apply shape_subs_update; exact SH|]. rewrite S3, S5. cbn [t_auth users st_msgs st_seqid].
    repeat split; try assumption. exists (c_owner c). apply C'.
  - apply sess_ok_users_aset. exact S.
Qed.

(* ------------------------------------------------------------------ *)
(* delete messages *)
Lemma vrel_delid_all s c d :
  coh s c ->
  forall v, vrel (c_owner c) v (alookup v (map (fun e => (fst e, p_set_delid d (snd e))) (c_users c)))
                 (find_sub v (subs (ad_subs_update s 0%N (mkUpd None None None None (Some d))))).
Proof.
  intros C v. rewrite alookup_map_snd, row_subs_update. cbn [orb N.eqb].
  pose proof (vrel_old _ _ v C) as V. unfold vrel in *.
  destruct (find_sub v (subs s)) as [r|]; cbn [option_map].
  - cbn [apply_upd s_deleted s_want s_given u_want u_given]. destruct V as [V1 V2]. split; [|exact V2].
    destruct (s_deleted r).
    + destruct (alookup v (c_users c)); [discriminate|reflexivity].
    + destruct (alookup v (c_users c)) as [p|]; [|discriminate]. cbn in *. unfold core, corerow in *. cbn. inv V1. reflexivity.
  - destruct (alookup v (c_users c)); [discriminate|reflexivity].
Qed.

Lemma del_msg_good dr f s c n sid u req hard :
  good3 s c -> u <> 0%N -> no_fault_or_first f n ->
  good3 (h_st (del_msg dr f s c n sid u req hard)) (h_ca (del_msg dr f s c n sid u req hard)).
Proof.
  intros [G S] NZ NF. unfold del_msg. cbv zeta.
  destruct (negb (hard && is_deleter (user_mode c u)) && negb (is_reader (user_mode c u))) eqn:M; [split; assumption|].
  destruct (dr (c_lastid c) req) as [ranges|]; [|split; assumption].
  unfold call. destruct NF as [[N1 [N2 N3]]|NF]; [|rewrite NF; cbn [negb]; split; assumption].
  rewrite N1, N2, N3. cbn [negb h_st h_ca].
  set (delid := c_delid c + 1).
  assert (alookup u (c_users c) = Some (get_pud c u)) as L.
  { apply andb_false_iff in M. destruct M as [M|M]; apply negb_false_iff in M.
    - apply andb_true_iff in M. destruct M as [_ M]. eapply get_pud_has; exact M.
    - eapply get_pud_has; exact M. }
  destruct G as [Wf C]. pose proof C as C0. apply coh_parts in C0. destruct C0 as [[E1 [E2 [E3 E4]]] _].
  set (fu := if hard && is_deleter (user_mode c u) then 0%N else u).
  set (s1 := st_delid delid (ad_msg_delete_list s delid fu ranges)).
  assert (subs s1 = subs s) as SS by (unfold s1; cbn [subs st_delid]; apply subs_delete_list).
  assert (t_seqid s1 = t_seqid s /\ t_auth s1 = t_auth s /\ t_anon s1 = t_anon s /\ users s1 = users s /\ t_delid s1 = delid) as [T1 [T2 [T3 [T4 T5]]]].
  { unfold s1, ad_msg_delete_list. destruct (fu =? 0)%N; repeat split. }
  set (up := mkUpd None None None None (Some delid)).
  assert (forall v, find_sub v (subs (ad_subs_update s1 fu up)) = find_sub v (subs (ad_subs_update s fu up))) as RW.
  { intros v. rewrite !row_subs_update, SS. reflexivity. }
  destruct (scal_subs_update s1 fu up) as [S1 [S2 [S3 [S4 S5]]]].
  match goal with |- good3 ?SS ?CC => assert (coh SS CC) as C' end.
  { apply coh_parts. split; [|split].
    - rewrite S1, S2, S3, S4, T1, T2, T3, T5.
      destruct (hard && is_deleter (user_mode c u)); cbn; repeat split; assumption.
    - intros v. rewrite RW. unfold fu. destruct (hard && is_deleter (user_mode c u)).
      + cbn [c_owner c_users c_set_users c_set_delid]. apply vrel_delid_all. exact C.
      + cbn [c_owner c_users c_set_users c_set_delid].
        replace (get_pud (c_set_delid delid c) u) with (get_pud c u) by reflexivity.
        eapply vrel_update; [exact C|exact NZ|exact L|reflexivity|]. intros O. apply (coh_pud _ _ _ _ C L O).
    - assert (c_owner (if hard && is_deleter (user_mode c u)
                       then c_set_users (map (fun e => (fst e, p_set_delid delid (snd e)))) (c_set_delid delid c)
                       else c_set_users (aset u (p_set_delid delid (get_pud (c_set_delid delid c) u))) (c_set_delid delid c)) = c_owner c) as EO
          by (destruct (hard && is_deleter (user_mode c u)); reflexivity).
      rewrite EO. destruct (oinv_old _ _ C) as [NZo [r [F Wr]]]. split; [exact NZo|].
      rewrite RW, row_subs_update, F.
      destruct ((fu =? 0)%N || (c_owner c =? fu)%N); [exists (apply_upd up r)|exists r]; split; try reflexivity; exact Wr. }
  split; [split; [|exact C']|].
  - apply wf_parts in Wf. destruct Wf as [SH [A [B _]]]. apply wf_parts.
    split; [apply shape_subs_update; unfold shape; rewrite SS; exact SH|]. rewrite S3, S5, T2, T4.
    repeat split; try assumption. eexists. apply C'.
  - destruct (hard && is_deleter (user_mode c u)); [apply sess_ok_users_map|apply sess_ok_users_aset]; exact S.
Qed.

(* ------------------------------------------------------------------ *)
(* generic store+cache updates *)
Lemma good_update s c u up p p' :
  good s c -> u <> 0%N -> alookup u (c_users c) = Some p ->
  core p' = core_after up p ->
  (is_owner (p_want p') = true -> is_owner (p_given p') = true /\ u = c_owner c) ->
  (u = c_owner c -> is_owner (p_want p') = true) ->
  good (ad_subs_update s u up) (c_set_users (aset u p') c).
Proof.
  intros G NZ L E O1 O2.
  eapply good_build; [exact G|apply sframe_subs_update|apply cframe_users|apply shape_subs_update; eapply good_shape; exact G| |].
  - cbn [c_owner c_users c_set_users]. eapply vrel_update; try eassumption. apply G.
  - cbn [c_owner c_set_users]. apply oinv_update; [apply oinv_old; apply G|].
    intros w UW [Eo|E0]; [|contradiction]. specialize (O2 Eo). unfold core, core_after in E. rewrite UW in E. inv E. congruence.
Qed.

Lemma good_create s c t w g :
  good s c -> t <> 0%N -> alookup t (c_users c) = None -> is_owner w = false ->
  good (ad_sub_create s t w g) (c_set_users (aset t (mkPud w g 0 0 0 0)) c).
Proof.
  intros G NZ L W.
  assert (t <> c_owner c) as NO.
  { intros E. destruct (coh_owner _ _ (proj2 G)) as [p [Lp _]]. rewrite <- E in Lp. congruence. }
  eapply good_build; [exact G|apply sframe_sub_create|apply cframe_users|apply shape_sub_create; [exact NZ|eapply good_shape; exact G]| |].
  - cbn [c_owner c_users c_set_users]. intros v. rewrite alookup_aset, row_sub_create.
    destruct (N.eqb_spec v t) as [->|NE]; [|apply vrel_old; apply G].
    cbn. split; [reflexivity|]. rewrite W. discriminate.
  - cbn [c_owner c_set_users]. destruct (oinv_old _ _ (proj2 G)) as [NZo [r [F Wr]]]. split; [exact NZo|].
    rewrite row_sub_create. destruct (N.eqb_spec (c_owner c) t); [congruence|]. eauto.
Qed.

(* a row that is not cached is absent or soft-deleted, and its want has no O *)
Lemma uncached_want s c t r :
  coh s c -> alookup t (c_users c) = None -> ad_sub_get s t true = Some r -> is_owner (s_want r) = false.
Proof.
  intros C L H. unfold ad_sub_get in H. destruct (find_sub t (subs s)) as [r0|] eqn:F; [|discriminate].
  rewrite andb_false_r in H. inv H.
  pose proof (coh_at _ _ t C) as A. rewrite L, F in A.
  pose proof (vrel_old _ _ t C) as V. rewrite F in V. destruct V as [_ V].
  destruct (is_owner (s_want r)) eqn:O; [|reflexivity]. destruct (V eq_refl) as [D _]. congruence.
Qed.

Lemma is_owner_ldiff_O m : is_owner (N.ldiff m mO) = false.
Proof.
  unfold is_owner, has, mO. apply negb_false_iff, N.eqb_eq.
  apply N.bits_inj. intros n. rewrite N.land_spec, N.ldiff_spec, N.bits_0.
  destruct (N.testbit 128 n); [rewrite andb_false_r; reflexivity|apply andb_false_r].
Qed.
Lemma is_owner_lor a b : is_owner (N.lor a b) = is_owner a || is_owner b.
Proof.
  unfold is_owner, has, mO.
  assert (forall x, negb (N.land x 128 =? 0)%N = N.testbit x 7) as T.
  { intros x. destruct (N.testbit x 7) eqn:B.
    - apply negb_true_iff, N.eqb_neq. intros E.
      assert (N.testbit (N.land x 128) 7 = true) as X by (rewrite N.land_spec, B; reflexivity). rewrite E in X. discriminate.
    - apply negb_false_iff, N.eqb_eq. apply N.bits_inj. intros n. rewrite N.land_spec, N.bits_0.
      destruct (N.eq_dec n 7) as [->|NE]; [rewrite B; reflexivity|].
      replace (N.testbit 128 n) with false; [apply andb_false_r|]. symmetry. change 128%N with (2 ^ 7)%N. apply N.pow2_bits_false. congruence. }
  rewrite !T. apply N.lor_spec.
Qed.
Lemma is_owner_ldiff_D m : is_owner (N.ldiff m mD) = is_owner m.
Proof.
  unfold is_owner, has, mO, mD.
  assert (forall x, negb (N.land x 128 =? 0)%N = N.testbit x 7) as T.
  { intros x. destruct (N.testbit x 7) eqn:B.
    - apply negb_true_iff, N.eqb_neq. intros E.
      assert (N.testbit (N.land x 128) 7 = true) as X by (rewrite N.land_spec, B; reflexivity). rewrite E in X. discriminate.
    - apply negb_false_iff, N.eqb_eq. apply N.bits_inj. intros n. rewrite N.land_spec, N.bits_0.
      destruct (N.eq_dec n 7) as [->|NE]; [rewrite B; reflexivity|].
      replace (N.testbit 128 n) with false; [apply andb_false_r|]. symmetry. change 128%N with (2 ^ 7)%N. apply N.pow2_bits_false. congruence. }
  rewrite !T, N.ldiff_spec. change (N.testbit 64 7) with false. apply andb_true_r.
Qed.

Lemma invite_want f s c target given n1 n2 w :
  good s c -> alookup target (c_users c) = None ->
  match ad_sub_get s target true with
  | Some r => (n1, Some (inr (s_want r)))
  | None => let '(ok2, n2) := call f n1 in
            if negb ok2 then (n2, Some (inl 500)) else
            match alookup target (users s) with
            | Some acc => (n2, Some (inr (N.land acc given)))
            | None => (n2, Some (inl 404))
            end
  end = (n2, Some (@inr Z N w)) -> is_owner w = false.
Proof.
  intros [Wf C] L H. destruct (ad_sub_get s target true) as [r|] eqn:SG.
  - inv H. eapply uncached_want; eassumption.
  - destruct (call f n1) as [ok2 n2']. destruct (negb ok2); [discriminate|].
    destruct (alookup target (users s)) as [acc|] eqn:LU; [|discriminate]. inv H.
    rewrite is_owner_land. destruct Wf as [_ [_ [_ [A _]]]]. rewrite (A _ _ LU). reflexivity.
Qed.

Ltac split3 G3 := destruct G3 as [G S]; split.
Ltac evict_then :=
  match goal with
  | G3 : good3 _ _, H : evict_user ?C0 _ false _ = (?c0, _) |- good3 ?S' ?c0 =>
    destruct G3 as [G S]; split; [eapply (good_evict S' C0); [|exact H]|eapply sess_ok_evict; [|exact H]]
  | G3 : good3 _ _ |- good3 _ _ => destruct G3 as [G S]; split
  end.

Lemma another_user_sub_good f s c n sid u target mode :
  good3 s c -> target <> 0%N ->
  good3 (h_st (fst (another_user_sub f s c n sid u target mode))) (h_ca (fst (another_user_sub f s c n sid u target mode))).
Proof.
  intros G3 NZ. unfold another_user_sub.
  repeat break_match; cbn [fst h_st h_ca]; try exact G3.
  all: repeat match goal with H : (_, _) = (_, _) |- _ => inv H end.
  all: evict_then.
  all: try exact G; try exact S; try (apply sess_ok_users_aset; exact S).
  (* permission change of a cached target *)
  1-2: (eapply good_update; [exact G|exact NZ|eassumption|reflexivity| |]; cbn [p_want p_given p_set_modes];
        [intros O; destruct (coh_pud _ _ _ _ (proj2 G) ltac:(eassumption) O) as [_ E]; split; [|exact E];
         rewrite E, N.eqb_refl in *; cbn [andb] in *;
         match goal with H : negb (is_owner ?m) || _ = false |- _ => apply orb_false_iff in H; destruct H as [H _]; now apply negb_false_iff in H end
        |intros E; destruct (coh_owner _ _ (proj2 G)) as [po [Lo [Wo _]]]; rewrite <- E in Lo; congruence]).
  (* invitation of a user who is not cached *)
  all: apply good_create; [exact G|exact NZ|assumption|eapply invite_want; eassumption].
Qed.

(* ------------------------------------------------------------------ *)
(* thisUserSub, restated in named pieces (definitionally equal to Topic.this_user_sub) *)
Definition tus_chk (c : cache) (u mw : N) (p0 : pud) : option (N * N * bool) :=
  let oldw := p_want p0 in let oldg := p_given p0 in
  if (mw =? ModeUnset)%N then Some (mw, oldg, false) else
  if N.eqb (c_owner c) u && (negb (is_owner mw) || negb (is_joiner mw)) then None else
  if is_owner oldg then
    let oc := is_owner mw && negb (is_owner oldw) in
    let g' := if is_owner mw && negb (better_equal oldg mw) then N.lor oldg mw else oldg in
    Some (mw, g', oc)
  else if is_owner mw then None
  else if is_admin oldg && is_admin mw then
    let mwd := N.land mw (N.lxor 255 mD) in
    let g' := if negb (better_equal oldg (N.ldiff mw mD)) then N.lor oldg (N.ldiff mw mD) else oldg in
    Some (mw, g', false)
  else Some (mw, oldg, false).

Definition tus_w1 (c : cache) (u mw1 g1 : N) (p0 : pud) : N :=
  let oldw := p_want p0 in
  if (mw1 =? ModeUnset)%N then
    (if negb (is_joiner oldw) then
       (if N.eqb (c_owner c) u then N.lor g1 (c_auth c) else N.ldiff (N.lor g1 (c_auth c)) mO)
     else oldw)
  else mw1.

Definition tus_finish (u : N) (newsub_pkt : bool) (w1 g1 oldw oldg : N) (s3 : store) (c3 : cache) (n3 : nat) : hres * sub_res :=
  let mk s c n o r := (mkH s c n o, r) in
  let p1 := p_set_modes w1 g1 (get_pud c3 u) in
  let c4 := c_set_users (aset u p1) c3 in
  let changed := newsub_pkt || negb ((w1 =? oldw)%N && (g1 =? oldg)%N) in
  let ch := if changed then Some (w1, g1) else None in
  if negb (is_joiner w1) then
    let '(c5, o5) := evict_user c4 u false 0%N in mk s3 c5 n3 o5 (SubOk ch)
  else if negb (is_joiner g1) then mk s3 c4 n3 [] (SubErr 403)
  else mk s3 c4 n3 [] (SubOk ch).

Definition tus_existing (f : fault) (s : store) (c : cache) (n : nat) (u mw : N) (newsub_pkt : bool) (p0 : pud) : hres * sub_res :=
  let mk s c n o r := (mkH s c n o, r) in
  let oldw := p_want p0 in let oldg := p_given p0 in
  match tus_chk c u mw p0 with
  | None => mk s c n [] (SubErr 403)
  | Some (mw1, g1, owner_change) =>
    let w1 := tus_w1 c u mw1 g1 p0 in
    let upd := mkUpd (if (w1 =? oldw)%N then None else Some w1) (if (g1 =? oldg)%N then None else Some g1) None None None in
    let need_upd := negb ((w1 =? oldw)%N && (g1 =? oldg)%N) in
    let '(ok1, n1) := if need_upd then call f n else (true, n) in
    if negb ok1 then mk s c n1 [] (SubErr 500) else
    let s1 := if need_upd then ad_subs_update s u upd else s in
    if owner_change then
      let prev := c_owner c in
      let pp := get_pud c prev in
      let pw := N.ldiff (p_want pp) mO in let pg := N.ldiff (p_given pp) mO in
      let '(ok2, n2) := call f n1 in
      if negb ok2 then mk s1 c n2 [] (SubErr 0) else
      let s2 := ad_subs_update s1 prev (mkUpd (Some pw) (Some pg) None None None) in
      let '(ok3, n3) := call f n2 in
      if negb ok3 then mk s2 c n3 [] (SubErr 0) else
      let s3 := st_owner u s2 in
      tus_finish u newsub_pkt w1 g1 oldw oldg s3 (c_set_owner u (c_set_users (aset prev (p_set_modes pw pg pp)) c)) n3
    else tus_finish u newsub_pkt w1 g1 oldw oldg s1 c n1
  end.

Definition tus_new (f : fault) (s : store) (c : cache) (n : nat) (u mw : N) (newsub_pkt : bool) : hres * sub_res :=
  let mk s c n o r := (mkH s c n o, r) in
  if max_subs <=? Z.of_nat (length (c_users c)) then mk s c n [] (SubErr 422) else
  let '(ok1, n1) := call f n in
  if negb ok1 then mk s c n1 [] (SubErr 500) else
  let prev := ad_sub_get s u true in
  let given0 := match prev with Some r => s_given r | None => ModeUnset end in
  let given := if (given0 =? ModeUnset)%N then c_auth c else given0 in
  let wantm := if (mw =? ModeUnset)%N then c_auth c else N.ldiff mw mO in
  if negb (is_joiner given) then mk s c n1 [] (SubErr 403) else
  let need_create := match prev with Some r => s_deleted r | None => true end in
  let '(ok2, n2) := if need_create then call f n1 else (true, n1) in
  if negb ok2 then mk s c n2 [] (SubErr 500) else
  let s2 := if need_create then ad_sub_create s u wantm given else s in
  let p := mkPud wantm given 0 0 0 0 in
  let c2 := c_set_users (aset u p) c in
  let changed := newsub_pkt || negb ((wantm =? 0)%N && (given =? 0)%N) in
  if negb (is_joiner wantm) then
    let '(c3, o3) := evict_user c2 u false 0%N in
    mk s2 c3 n2 o3 (SubOk (if changed then Some (wantm, given) else None))
  else mk s2 c2 n2 [] (SubOk (if changed then Some (wantm, given) else None)).

Lemma tus_unfold f s c n sid u want nb :
  this_user_sub f s c n sid u want nb =
  let '(mw, okw) := match want with [] => (ModeUnset, true) | _ => unmarshal_text ModeUnset want end in
  if negb okw then (mkH s c n [], SubErr 400) else
  match alookup u (c_users c) with
  | None => tus_new f s c n u mw nb
  | Some p0 => tus_existing f s c n u mw nb p0
  end.
Proof. reflexivity. Qed.

Ltac bool_hyps := repeat match goal with
  | H : negb _ = true |- _ => apply negb_true_iff in H
  | H : negb _ = false |- _ => apply negb_false_iff in H
  | H : _ && _ = true |- _ => apply andb_true_iff in H; destruct H
  | H : _ || _ = false |- _ => apply orb_false_iff in H; destruct H
  | H : (_ =? _)%N = true |- _ => apply N.eqb_eq in H
  | H : (_ =? _)%N = false |- _ => apply N.eqb_neq in H
  end.

Lemma is_owner_unset : is_owner ModeUnset = false.
Proof. reflexivity. Qed.

Lemma good_auth s c : good s c -> is_owner (c_auth c) = false.
Proof. intros [[_ [_ [A _]]] [_ [_ [E _]]]]. rewrite E. exact A. Qed.

Lemma tus_modes s c u mw p0 mw1 g1 oc :
  good s c -> alookup u (c_users c) = Some p0 -> tus_chk c u mw p0 = Some (mw1, g1, oc) ->
  (oc = false -> (is_owner (tus_w1 c u mw1 g1 p0) = true -> is_owner g1 = true /\ u = c_owner c) /\
                 (u = c_owner c -> is_owner (tus_w1 c u mw1 g1 p0) = true)) /\
  (oc = true -> is_owner (tus_w1 c u mw1 g1 p0) = true /\ is_owner g1 = true /\ u <> c_owner c /\
                (tus_w1 c u mw1 g1 p0 =? p_want p0)%N = false /\ is_owner (p_given p0) = true /\ is_owner (p_want p0) = false).
Proof.
  intros G L CHK.
  pose proof (good_auth _ _ G) as HA.
  pose proof (coh_pud _ _ _ _ (proj2 G) L) as HP.
  assert (u = c_owner c -> is_owner (p_want p0) = true /\ is_owner (p_given p0) = true) as HO.
  { intros E. destruct (coh_owner _ _ (proj2 G)) as [po [Lo [Wo Go]]]. rewrite <- E in Lo. rewrite L in Lo. inv Lo. tauto. }
  unfold tus_chk in CHK. unfold tus_w1.
  repeat break_match_hyp; inv CHK; bool_hyps; subst; try rewrite N.eqb_refl;
    repeat break_match; bool_hyps; subst;
    rewrite ?is_owner_lor, ?is_owner_ldiff_O, ?is_owner_ldiff_D, ?is_owner_unset, ?HA in *; cbn [orb andb] in *.
  all: split; [intros E0; try discriminate E0; split|intros E0; try discriminate E0].
  all: try solve [intros W; try discriminate W; try (destruct (HP W)); auto].
  all: try solve [intros E1; destruct (HO E1); congruence].
  all: intros; repeat split; try (apply N.eqb_neq; intros EQ; rewrite EQ in *).
  all: try match goal with H : ?a = ?a -> _ |- _ => destruct (H eq_refl) end.
  all: try (destruct (is_owner (p_want p0)) eqn:W0; [destruct (HP eq_refl)|]).
  all: try (destruct (N.eq_dec u (c_owner c)) as [EU|NU]; [destruct (HO EU)|]).
  all: cbn [orb andb negb] in *; try congruence; try tauto.
  all: try (rewrite ?orb_true_r; reflexivity).
  all: try solve [repeat match goal with H : is_owner _ = true |- _ => rewrite H end; cbn; rewrite ?orb_true_r; reflexivity].
  all: try match goal with H1 : is_owner ?m = true, E : is_owner ?m && _ = false |- _ => rewrite H1 in E; discriminate end.
  all: try match goal with H : (c_owner ?c =? ?u)%N && _ = false, E : ?u = c_owner ?c |- _ =>
             rewrite <- E, N.eqb_refl in H; cbn [andb] in H; bool_hyps; try assumption; try congruence end.
  all: bool_hyps; assumption.
Qed.

Lemma tus_finish_good u nb w1 g1 oldw oldg s3 c3 n3 :
  good3 s3 (c_set_users (aset u (p_set_modes w1 g1 (get_pud c3 u))) c3) ->
  good3 (h_st (fst (tus_finish u nb w1 g1 oldw oldg s3 c3 n3))) (h_ca (fst (tus_finish u nb w1 g1 oldw oldg s3 c3 n3))).
Proof.
  intros [G S]. unfold tus_finish. destruct (negb (is_joiner w1)).
  - destruct (evict_user _ u false 0) as [c5 o5] eqn:HE. cbn [fst h_st h_ca]. split.
    + eapply good_evict; [exact G|exact HE].
    + eapply sess_ok_evict; [exact S|exact HE].
  - destruct (negb (is_joiner g1)); cbn [fst h_st h_ca]; split; assumption.
Qed.

Lemma good_transfer s c u p0 w1 g1 :
  good s c -> u <> 0%N -> alookup u (c_users c) = Some p0 -> u <> c_owner c ->
  is_owner w1 = true -> is_owner g1 = true ->
  let prev := c_owner c in
  let pp := get_pud c prev in
  let pw := N.ldiff (p_want pp) mO in let pg := N.ldiff (p_given pp) mO in
  let upd := mkUpd (if (w1 =? p_want p0)%N then None else Some w1) (if (g1 =? p_given p0)%N then None else Some g1) None None None in
  good (st_owner u (ad_subs_update (ad_subs_update s u upd) prev (mkUpd (Some pw) (Some pg) None None None)))
       (c_set_users (aset u (p_set_modes w1 g1 p0)) (c_set_owner u (c_set_users (aset prev (p_set_modes pw pg pp)) c))).
Proof.
  intros G NZ L NO W1 G1 prev pp pw pg upd.
  destruct (coh_owner _ _ (proj2 G)) as [po [Lo [Wo Go]]].
  assert (pp = po) as EP by (unfold pp, get_pud, prev; rewrite Lo; reflexivity).
  destruct (oinv_old _ _ (proj2 G)) as [NZo _]. fold prev in NZo, Lo, NO.
  eapply good_build; [exact G| | | | |].
  - eapply sframe_trans; [|apply sframe_owner]. eapply sframe_trans; [|apply sframe_subs_update]. apply sframe_subs_update.
  - repeat split.
  - unfold shape. cbn [subs st_owner]. apply shape_subs_update, shape_subs_update. eapply good_shape; exact G.
  - cbn [c_owner c_users c_set_users c_set_owner subs st_owner]. intros v.
    rewrite !alookup_aset, !row_subs_update, (eqb0 _ NZ), (eqb0 _ NZo). cbn [orb].
    pose proof (vrel_old _ _ v (proj2 G)) as V. fold prev in V.
    destruct (N.eqb_spec v u) as [E|NE].
    + rewrite E in *. destruct (N.eqb_spec u prev); [contradiction|].
      pose proof (coh_at _ _ u (proj2 G)) as A. rewrite L in A. destruct A as [r [F [D [A1 [A2 [A3 [A4 A5]]]]]]].
      rewrite F. cbn [option_map vrel apply_upd s_deleted s_want s_given upd u_want u_given u_read u_recv u_delid]. rewrite D. split.
      * f_equal. unfold core, corerow; cbn. rewrite A1, A2, A3, A4, A5.
        destruct (N.eqb_spec w1 (p_want p0)) as [->|]; destruct (N.eqb_spec g1 (p_given p0)) as [->|]; reflexivity.
      * intros _. split; [reflexivity|]. split; [|reflexivity].
        destruct (N.eqb_spec g1 (p_given p0)) as [E1|]; [rewrite A2, <- E1; exact G1|exact G1].
    + destruct (N.eqb_spec v prev) as [E|NP].
      * rewrite E in *. rewrite EP. 
        pose proof (coh_at _ _ prev (proj2 G)) as A. rewrite Lo in A. destruct A as [r [F [D [A1 [A2 [A3 [A4 A5]]]]]]].
        rewrite F. cbn [option_map vrel apply_upd s_deleted s_want s_given u_want u_given u_read u_recv u_delid]. rewrite D. split.
        -- f_equal. unfold core, corerow; cbn. rewrite A3, A4, A5. unfold pw, pg. rewrite EP. reflexivity.
        -- unfold pw. rewrite is_owner_ldiff_O. discriminate.
      * unfold vrel in *. destruct (find_sub v (subs s)) as [r|]; [|exact V]. destruct V as [V1 V2]. split; [exact V1|].
        intros W. destruct (V2 W) as [_ [_ X]]. contradiction.
  - cbn [c_owner c_set_users c_set_owner]. split; [exact NZ|].
    cbn [subs st_owner]. rewrite !row_subs_update, (eqb0 _ NZ), (eqb0 _ NZo). cbn [orb]. rewrite N.eqb_refl.
    destruct (N.eqb_spec u prev); [contradiction|].
    pose proof (coh_at _ _ u (proj2 G)) as A. rewrite L in A. destruct A as [r [F [D [A1 _]]]].
    rewrite F. eexists. split; [reflexivity|]. cbn.
    destruct (N.eqb_spec w1 (p_want p0)) as [E1|]; [rewrite A1, <- E1; exact W1|exact W1].
Qed.

Lemma good_same s c u p p' :
  good s c -> alookup u (c_users c) = Some p -> core p' = core p -> good s (c_set_users (aset u p') c).
Proof.
  intros G L E.
  eapply good_build; [exact G|apply sframe_refl|apply cframe_users|eapply good_shape; exact G| |apply (oinv_old s c); apply G].
  cbn [c_owner c_users c_set_users]. intros v. rewrite alookup_aset.
  destruct (N.eqb_spec v u) as [->|NE]; [|apply vrel_old; apply G].
  pose proof (vrel_old _ _ u (proj2 G)) as V. rewrite L in V. unfold vrel in *. cbn [option_map] in *. rewrite E. exact V.
Qed.

Lemma tus_existing_good f s c n u mw nb p0 :
  good3 s c -> u <> 0%N -> alookup u (c_users c) = Some p0 ->
  ((forall k, fails f k = false) \/ ~ pending p0) ->
  good3 (h_st (fst (tus_existing f s c n u mw nb p0))) (h_ca (fst (tus_existing f s c n u mw nb p0))).
Proof.
  intros G3 NZ L NF. unfold tus_existing.
  destruct (tus_chk c u mw p0) as [[[mw1 g1] oc]|] eqn:CHK; [|exact G3].
  destruct (tus_modes _ _ _ _ _ _ _ _ (proj1 G3) L CHK) as [M0 M1].
  set (w1 := tus_w1 c u mw1 g1 p0) in *.
  assert (get_pud c u = p0) as GP by (unfold get_pud; rewrite L; reflexivity).
  destruct oc.
  - (* ownership transfer *)
    destruct (M1 eq_refl) as [W1 [G1 [NO [NE [PG PW]]]]]. clear M0 M1.
    destruct NF as [NF|NF]; [|exfalso; apply NF; split; assumption].
    rewrite NE. cbn [andb negb]. unfold call. rewrite !NF. cbn [negb].
    apply tus_finish_good.
    assert (get_pud (c_set_owner u (c_set_users (aset (c_owner c)
              (p_set_modes (N.ldiff (p_want (get_pud c (c_owner c))) mO) (N.ldiff (p_given (get_pud c (c_owner c))) mO) (get_pud c (c_owner c)))) c)) u = p0) as GP'.
    { unfold get_pud. cbn [c_users c_set_owner c_set_users]. rewrite alookup_aset.
      destruct (N.eqb_spec u (c_owner c)); [contradiction|]. rewrite L. reflexivity. }
    rewrite GP'. destruct G3 as [G S]. split.
    + pose proof (good_transfer s c u p0 w1 g1 G NZ L NO W1 G1) as GT. cbv zeta in GT. rewrite NE in GT. exact GT.
    + apply sess_ok_users_aset. apply (sess_ok_users_aset c (c_owner c)). exact S.
  - (* own modes only *)
    destruct (M0 eq_refl) as [U1 U2]. clear M0 M1.
    destruct (negb ((w1 =? p_want p0)%N && (g1 =? p_given p0)%N)) eqn:NU.
    + destruct (call f n) as [ok1 n1]. destruct (negb ok1); [exact G3|].
      apply tus_finish_good. rewrite GP. destruct G3 as [G S]. split; [|apply sess_ok_users_aset; exact S].
      eapply good_update; [exact G|exact NZ|exact L| |exact U1|exact U2].
      unfold core, core_after; cbn.
      destruct (N.eqb_spec w1 (p_want p0)) as [->|]; destruct (N.eqb_spec g1 (p_given p0)) as [->|]; reflexivity.
    + cbn [negb]. apply tus_finish_good. rewrite GP. destruct G3 as [G S]. split; [|apply sess_ok_users_aset; exact S].
      apply negb_false_iff, andb_true_iff in NU. destruct NU as [E1 E2]. apply N.eqb_eq in E1, E2.
      eapply good_same; [exact G|exact L|]. unfold core; cbn. rewrite E1, E2. reflexivity.
Qed.

Lemma tus_new_good f s c n u mw nb :
  good3 s c -> u <> 0%N -> alookup u (c_users c) = None ->
  good3 (h_st (fst (tus_new f s c n u mw nb))) (h_ca (fst (tus_new f s c n u mw nb))).
Proof.
  intros G3 NZ L. unfold tus_new.
  destruct (max_subs <=? Z.of_nat (length (c_users c))); [exact G3|].
  destruct (call f n) as [ok1 n1]. destruct (negb ok1); [exact G3|].
  set (given := if ((match ad_sub_get s u true with Some r => s_given r | None => ModeUnset end) =? ModeUnset)%N then c_auth c
                else match ad_sub_get s u true with Some r => s_given r | None => ModeUnset end).
  set (wantm := if (mw =? ModeUnset)%N then c_auth c else N.ldiff mw mO).
  destruct (negb (is_joiner given)); [exact G3|].
  assert (is_owner wantm = false) as WO.
  { unfold wantm. destruct (mw =? ModeUnset)%N; [apply (good_auth s c); apply G3|apply is_owner_ldiff_O]. }
  assert (match ad_sub_get s u true with Some r => s_deleted r | None => true end = true) as NC.
  { unfold ad_sub_get. pose proof (coh_at _ _ u (proj2 (proj1 G3))) as A. rewrite L in A.
    destruct (find_sub u (subs s)) as [r|]; [|reflexivity]. rewrite andb_false_r. exact A. }
  rewrite NC. destruct (call f n1) as [ok2 n2]. destruct (negb ok2); [exact G3|].
  destruct G3 as [G S].
  pose proof (good_create s c u wantm given G NZ L WO) as GC.
  destruct (negb (is_joiner wantm)).
  - destruct (evict_user _ u false 0) as [c3 o3] eqn:HE. cbn [fst h_st h_ca]. split.
    + eapply good_evict; [exact GC|exact HE].
    + eapply sess_ok_evict; [|exact HE]. apply sess_ok_users_aset. exact S.
  - cbn [fst h_st h_ca]. split; [exact GC|apply sess_ok_users_aset; exact S].
Qed.

Lemma this_user_sub_good f s c n sid u want nb :
  good3 s c -> u <> 0%N ->
  ((forall k, fails f k = false) \/ match alookup u (c_users c) with Some p0 => ~ pending p0 | None => True end) ->
  good3 (h_st (fst (this_user_sub f s c n sid u want nb))) (h_ca (fst (this_user_sub f s c n sid u want nb))).
Proof.
  intros G3 NZ NF. rewrite tus_unfold.
  destruct (match want with [] => (ModeUnset, true) | _ => unmarshal_text ModeUnset want end) as [mw okw].
  destruct (negb okw); [exact G3|].
  destruct (alookup u (c_users c)) as [p0|] eqn:L.
  - apply tus_existing_good; assumption.
  - apply tus_new_good; assumption.
Qed.
