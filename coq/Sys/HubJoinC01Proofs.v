(* C01: proofs about concurrent joins to a topic that is not loaded (model Sys/HubJoinC01.v). *)
From Coq Require Import ZArith NArith List Bool Lia.
From Tinode Require Import Base.Util Sys.HubJoinC01.
Import ListNotations.
Open Scope Z_scope.

Definition jinv (x : jstate) : Prop :=
  (forall n, In n (j_rows x) -> n <= j_seqid x) /\
  (forall p, In p (j_saves x) -> fst p <= j_seqid x /\ snd p = true) /\
  NoDup (map fst (j_saves x)) /\
  match j_insts x with
  | [] => j_reg x = None /\ j_att x = []
  | [t] => j_reg x = Some 0%nat /\ (forall s i, In (s, i) (j_att x) -> i = 0%nat) /\
           if i_live t then (forall n, In n (j_rows x) -> n <= i_lastid t) /\
                            (forall p, In p (j_saves x) -> fst p <= i_lastid t)
           else j_att x = []
  | _ => False
  end.

Lemma jlookup_in sid l i : jlookup sid l = Some i -> In (sid, i) l.
Proof.
  induction l as [|[k v] r IH]; cbn; [discriminate|].
  destruct (N.eqb sid k) eqn:E; intros H.
  - apply N.eqb_eq in E. inversion H. subst. now left.
  - right. now apply IH.
Qed.

Lemma jinit_inv seqid rows : (forall n, In n rows -> n <= seqid) -> jinv (jinit seqid rows).
Proof.
  intros H. unfold jinv, jinit. cbn. split; [exact H|]. split; [intros p []|]. split; [constructor|]. split; reflexivity.
Qed.

Ltac keep3_c01j := split; [assumption|split; [assumption|split; [assumption|]]].

Lemma jstep_inv x e : jinv x -> jinv (fst (jstep true x e)).
Proof.
  intros (A & B & C & D). destruct x as [seqid rows reg insts att saves]. cbn [j_seqid j_rows j_reg j_insts j_att j_saves] in *.
  destruct insts as [|t [|t2 r]]; [| |contradiction].
  - (* no instance yet *)
    destruct D as [D1 D2]. subst reg att.
    destruct e as [sid|i|sid]; cbn.
    + unfold jinv. cbn. keep3_c01j. split; [reflexivity|]. split; [intros s i []|reflexivity].
    + destruct i; cbn; unfold jinv; cbn; keep3_c01j; split; reflexivity.
    + unfold jinv. cbn. keep3_c01j. split; reflexivity.
  - destruct D as (D1 & D2 & D3). subst reg.
    destruct e as [sid|i|sid]; cbn [jstep j_seqid j_rows j_reg j_insts j_att j_saves nth_error].
    + (* join: the registered instance *)
      destruct (i_live t) eqn:L; cbn [fst]; unfold jinv; cbn [j_seqid j_rows j_reg j_insts j_att j_saves].
      * rewrite L. keep3_c01j. split; [reflexivity|]. split; [|exact D3].
        intros s i [H|H]; [inversion H; reflexivity|eauto].
      * rewrite L. keep3_c01j. split; [reflexivity|]. split; [exact D2|exact D3].
    + destruct i as [|i]; cbn [nth_error].
      * destruct (i_live t) eqn:L; cbn [fst].
        { unfold jinv; cbn [j_seqid j_rows j_reg j_insts j_att j_saves]. rewrite L. keep3_c01j. split; [reflexivity|]. split; [exact D2|exact D3]. }
        unfold jinv; cbn [j_seqid j_rows j_reg j_insts j_att j_saves jset i_live i_lastid].
        subst att. keep3_c01j. split; [reflexivity|]. split.
        -- intros s i [H|[]]. inversion H. reflexivity.
        -- split; [exact A|]. intros p Hp. apply B. exact Hp.
      * replace (nth_error (@nil inst_c01j) i) with (@None inst_c01j) by (destruct i; reflexivity).
        cbn [fst]. unfold jinv; cbn [j_seqid j_rows j_reg j_insts j_att j_saves]. keep3_c01j. split; [reflexivity|]. split; assumption.
    + destruct (jlookup sid att) as [i|] eqn:LK; cbn [fst].
      2:{ unfold jinv; cbn [j_seqid j_rows j_reg j_insts j_att j_saves]. keep3_c01j. split; [reflexivity|]. split; assumption. }
      pose proof (D2 _ _ (jlookup_in _ _ _ LK)) as Ei. subst i. cbn [nth_error].
      destruct (i_live t) eqn:L.
      2:{ subst att. discriminate. }
      destruct D3 as [R S].
      destruct (existsb (Z.eqb (i_lastid t + 1)) rows) eqn:EX.
      { exfalso. apply existsb_exists in EX. destruct EX as [n [Hn En]]. apply Z.eqb_eq in En. specialize (R _ Hn). lia. }
      cbn [fst]. unfold jinv; cbn [j_seqid j_rows j_reg j_insts j_att j_saves jset i_live i_lastid].
      split; [|split; [|split; [|split; [reflexivity|split; [exact D2|split]]]]].
      * intros n Hn. apply in_app_or in Hn. destruct Hn as [Hn|[Hn|[]]]; [specialize (R _ Hn); lia|lia].
      * intros p H. apply in_app_or in H. destruct H as [H|[H|[]]].
        -- split; [specialize (S _ H); lia|apply B; exact H].
        -- subst p; cbn; split; [lia|reflexivity].
      * rewrite map_app. cbn [map fst].
        assert (~ In (i_lastid t + 1) (map fst saves)) as NI.
        { intros Hin. apply in_map_iff in Hin. destruct Hin as [p [Hp1 Hp2]]. specialize (S _ Hp2). lia. }
        clear - C NI. induction (map fst saves) as [|y l IH]; cbn.
        -- constructor; [intros []|constructor].
        -- inversion C; subst. constructor.
           ++ intros Hin. apply in_app_or in Hin. destruct Hin as [Hin|[Hin|[]]]; [contradiction|]. apply NI. now left.
           ++ apply IH; [assumption|]. intros Hin. apply NI. now right.
      * intros n Hn. apply in_app_or in Hn. destruct Hn as [Hn|[Hn|[]]]; [specialize (R _ Hn); lia|lia].
      * intros p Hp. apply in_app_or in Hp. destruct Hp as [Hp|[Hp|[]]]; [specialize (S _ Hp); lia|subst p; cbn; lia].
Qed.

Lemma jrun_inv h : forall x, jinv x -> jinv (fst (jrun true x h)).
Proof.
  induction h as [|e r IH]; intros x I; [exact I|].
  cbn [jrun]. pose proof (jstep_inv x e I) as I1.
  destruct (jstep true x e) as [x1 o1]. cbn [fst] in I1.
  specialize (IH x1 I1). destruct (jrun true x1 r) as [x2 os]. exact IH.
Qed.

Lemma jinv_one_instance x : jinv x -> (length (j_insts x) <= 1)%nat.
Proof. intros (_ & _ & _ & D). destruct (j_insts x) as [|t [|t2 r]]; cbn; [lia|lia|contradiction]. Qed.

(* the witness for the late registration: both joins are taken by the hub before either load completes *)
Definition join_wit : list jev := [JJoin 1; JJoin 2; JInit 0; JInit 1; JPub 1; JPub 2].
Lemma join_wit_late :
  let r := jrun false (jinit 0 []) join_wit in
  length (j_insts (fst r)) = 2%nat /\ j_saves (fst r) = [(1, true); (1, false)] /\
  snd r = [[]; []; [JCtrl 1 200]; [JCtrl 2 200]; [JAck 1 1]; [JCtrl 2 500]].
Proof. vm_compute. repeat split; reflexivity. Qed.
Lemma join_wit_early :
  let r := jrun true (jinit 0 []) (join_wit ++ [JJoin 2; JPub 2]) in
  length (j_insts (fst r)) = 1%nat /\ j_saves (fst r) = [(1, true); (2, true)] /\
  snd r = [[]; [JCtrl 2 503]; [JCtrl 1 200]; []; [JAck 1 1]; [JCtrl 2 409]; [JCtrl 2 200]; [JAck 2 2]].
Proof. vm_compute. repeat split; reflexivity. Qed.
