(* C01, several requests in flight: lemmas about Sys/TopicBurstC01.v. *)
From Coq Require Import ZArith NArith List Bool Lia.
From Tinode Require Import Base.Util Pure.Acs Sys.Topic Sys.TopicTac Sys.TopicFrame Sys.TopicNum Sys.TopicOut
  Sys.TopicNumThm Sys.TopicBurstC01.
Import ListNotations.
Open Scope Z_scope.

(* ------------------------------------------------------------------ *)
(* the highest number the current registered state knows to be issued: lastID while loaded, the
   persisted mark otherwise *)
Definition hwm (x : state) : Z :=
  match ca x with Some c => c_lastid c | None => t_seqid (st x) end.

(* a number whose Save succeeded is never passed to Save again *)
Definition issue_ok (l : list (Z * bool)) : Prop :=
  forall l1 n b l2, l = l1 ++ (n, b) :: l2 -> ~ In (n, true) l1.

Lemma issue_ok_nil : issue_ok [].
Proof. intros l1 n b l2 H. destruct l1; discriminate. Qed.

Lemma issue_ok_snoc l n b : issue_ok l -> ~ In (n, true) l -> issue_ok (l ++ [(n, b)]).
Proof.
  intros OK NI l1 m b' l2 E.
  destruct l2 as [|e l2].
  - apply app_inj_tail in E. destruct E as [E1 E2]. inv E2. exact NI.
  - destruct (@exists_last _ (e :: l2)) as [l2' [a E2]]; [discriminate|]. rewrite E2 in E.
    assert (l = l1 ++ (m, b') :: l2') as E'.
    { change (l1 ++ (m, b') :: l2' ++ [a]) with (l1 ++ ((m, b') :: l2') ++ [a]) in E.
      rewrite app_assoc in E. apply app_inj_tail in E. destruct E as [E _]. exact E. }
    eapply OK. exact E'.
Qed.

Section RaceProofs.
Variable dr : Z -> list (Z * Z) -> option (list (Z * Z)).
Variable nr : list (Z * Z) -> list (Z * Z).
Variable sm : sessmap.

Definition rinv (r : rstate) : Prop :=
  inv_num (r_x r) /\
  Forall (fun z => z_deleted z = true /\ z_inflight z = None) (r_zomb r) /\
  (forall n, In (n, true) (r_issued r) -> n <= hwm (r_x r)) /\
  issue_ok (r_issued r).

(* a request that finds the topic unloaded leaves it unloaded, or loads it with lastID = the mark *)
Lemma step_from_unloaded f s n0 o :
  let r := step dr nr sm f (mkState s None n0) o in
  match ca (fst r) with
  | Some c' => c_lastid c' = t_seqid s
  | None => True
  end.
Proof.
  cbn zeta. destruct o; unfold step; cbn [st ca negb]; try exact I.
  - destruct (try_load f s 0) as [n1 [c|code]] eqn:TL; cbn [fst ca]; [|exact I].
    apply try_load_cases in TL. subst c.
    destruct (sub_reply_frame f s (load s) n1 sid (sess_uid sm sid) want bkg) as [_ [E _]]. exact E.
  - repeat match goal with |- context [if ?b then _ else _] => destruct b end; exact I.
Qed.

Lemma hwm_step f x o : inv_num x -> hwm x <= hwm (fst (step dr nr sm f x o)).
Proof.
  intros I. pose proof (step_inv_num dr nr sm f x o I) as I1.
  pose proof (step_shown dr nr sm f x o I) as [_ M].
  destruct x as [s [c|] n0]; unfold hwm at 1; cbn [ca st] in *.
  - assert (c_lastid c <= t_seqid s) as B by (destruct I as [_ [_ [_ [B _]]]]; cbn [st ca] in B; lia).
    destruct (match o with OPub sid _ _ => attached c sid | _ => false end) eqn:P.
    + destruct o; try discriminate. rewrite step_pub by exact P. cbn zeta. unfold hwm. cbn [fst ca].
      destruct (publish_cases f s c 0 sid (sess_uid sm sid) content noecho) as [[E _]|[E _]]; rewrite E; lia.
    + destruct (step_nonpub dr nr sm f (mkState s (Some c) n0) o c eq_refl) as [_ L].
      { intros sid content noecho ->. exact P. }
      unfold hwm. destruct (ca (fst (step dr nr sm f (mkState s (Some c) n0) o))) as [c'|] eqn:C'.
      * rewrite (L c' eq_refl). lia.
      * lia.
  - pose proof (step_from_unloaded f s n0 o) as L. cbn zeta in L. unfold hwm.
    destruct (ca (fst (step dr nr sm f (mkState s None n0) o))) as [c'|]; [rewrite L; lia|exact M].
Qed.

Lemma hwm_step_f x fo : inv_num x -> hwm x <= hwm (fst (step_f dr nr sm x fo)).
Proof.
  intros I. pose proof (hwm_step (fst fo) x (snd fo) I) as H.
  pose proof (step_inv_num dr nr sm (fst fo) x (snd fo) I) as I1.
  unfold step_f. destruct (step dr nr sm (fst fo) x (snd fo)) as [x1 o1]. cbn [fst] in *.
  destruct (fst fo); cbn [fst]; auto.
  destruct x1 as [s1 [c1|] n1]; unfold hwm in *; cbn [ca st] in *; [|exact H].
  destruct I1 as [_ [_ [_ [B _]]]]. cbn [st ca] in B. lia.
Qed.

(* the entries a request adds to the issue log: at most one, lastID+1, and if its Save
   succeeded lastID has advanced to it *)
Lemma req_issue_spec f x o : inv_num x ->
  req_issue sm x f o = [] \/
  exists b, req_issue sm x f o = [(hwm x + 1, b)] /\ ca x <> None /\
            (b = true -> hwm x + 1 <= hwm (fst (step dr nr sm f x o))).
Proof.
  intros I. unfold req_issue. destruct o; auto. destruct x as [s [c|] n0]; cbn [ca st]; auto.
  destruct (attached c sid) eqn:AT; auto. unfold pub_issue.
  destruct (is_writer (user_mode c (sess_uid sm sid))); auto.
  right. eexists. split; [reflexivity|]. split; [discriminate|].
  rewrite step_pub by exact AT. cbn zeta. unfold hwm. cbn [fst ca].
  intros Hb. apply negb_true_iff in Hb. apply Z.eqb_neq in Hb.
  destruct (publish_cases f s c 0 sid (sess_uid sm sid) content noecho) as [[E _]|[E _]]; rewrite E in *; lia.
Qed.

Lemma Forall_zdrop {P : zinst -> Prop} i zs : Forall P zs -> Forall P (zdrop i zs).
Proof.
  revert i. induction zs as [|y zs IH]; intros i F; destruct i; cbn [zdrop]; try constructor;
    inversion F; subst; auto.
Qed.

(* with the instance marked deleted by topicUnreg: a queued {pub} is refused, nothing changes *)
Lemma zpub_deleted r f i z sid content noecho :
  z_deleted z = true -> zpub sm r f i z sid content noecho = (r, [(sid, Ctrl 503 [])]).
Proof. intros D. unfold zpub. rewrite D. reflexivity. Qed.

Lemma zomb_get r i z : Forall (fun z => z_deleted z = true /\ z_inflight z = None) (r_zomb r) ->
  nth_error (r_zomb r) i = Some z -> z_deleted z = true /\ z_inflight z = None.
Proof. intros Z NE. rewrite Forall_forall in Z. apply Z. eapply nth_error_In. exact NE. Qed.

Lemma rstep_inv r a r' o : rinv r -> mid_free a = true -> rstep dr nr sm true r a = Some (r', o) -> rinv r'.
Proof.
  intros [I [Z [B K]]] MF H. destruct a; cbn [rstep] in H; try discriminate MF.
  - (* RReq *)
    destruct (zfind (op_sid o0) 0 (r_zomb r)) as [i|] eqn:ZF.
    + destruct (nth_error (r_zomb r) i) as [z|] eqn:NE; destruct o0; try discriminate;
        try (inv H; exact (conj I (conj Z (conj B K)))).
      destruct (zomb_get r i z Z NE) as [ZD ZI]. rewrite ZI in H.
      rewrite zpub_deleted in H by exact ZD.
      inv H. exact (conj I (conj Z (conj B K))).
    + pose proof (step_f_inv_num dr nr sm (r_x r) (f, o0) I) as I1.
      pose proof (hwm_step_f (r_x r) (f, o0) I) as M.
      destruct (step_f dr nr sm (r_x r) (f, o0)) as [x1 o1] eqn:SF. cbn [fst] in *.
      inv H. unfold rinv. cbn [r_x r_zomb r_issued].
      split; [exact I1|]. split; [destruct (is_crash f || is_restart o0); [constructor|exact Z]|].
      destruct (req_issue_spec f (r_x r) o0 I) as [E|[b [E [NN Hb]]]]; rewrite E.
      * rewrite app_nil_r. split; [|exact K]. intros n Hn. specialize (B n Hn). lia.
      * assert (b = true -> hwm (r_x r) + 1 <= hwm x1) as Hb'.
        { intros ->. specialize (Hb eq_refl).
          (* step_f differs from step only after a crash, which keeps the mark above lastID *)
          unfold step_f in SF. cbn [fst snd] in SF.
          destruct (step dr nr sm f (r_x r) o0) as [x2 o2] eqn:S2. cbn [fst] in Hb.
          pose proof (step_inv_num dr nr sm f (r_x r) o0 I) as I2. rewrite S2 in I2. cbn [fst] in I2.
          destruct f; inv SF; auto.
          destruct x2 as [s2 [c2|] n2]; unfold hwm in *; cbn [ca st] in *; [|exact Hb].
          destruct I2 as [_ [_ [_ [B2 _]]]]. cbn [st ca] in B2. lia. }
        split.
        -- intros n Hn. apply in_app_or in Hn. destruct Hn as [Hn|[Hn|[]]].
           ++ specialize (B n Hn). lia.
           ++ inv Hn. apply Hb'. reflexivity.
        -- apply issue_ok_snoc; [exact K|]. intros Hn. specialize (B _ Hn). lia.
  - (* RTimeout *)
    destruct (ca (r_x r)) as [c|]; [destruct (c_sess c)|]; inv H; exact (conj I (conj Z (conj B K))).
  - (* RHubUnreg *)
    destruct (r_pend r); [inv H; exact (conj I (conj Z (conj B K)))|].
    destruct (r_x r) as [s [c|] n0] eqn:X; cbn [ca st] in H; inv H; unfold rinv; cbn [r_x r_zomb r_issued].
    + split; [apply (inv_num_unload s c n0 0); exact I|].
      split; [apply Forall_app; split; [exact Z|constructor; [split; reflexivity|constructor]]|].
      split; [|exact K]. intros m Hm. specialize (B m Hm). unfold hwm in *. cbn [ca st] in *.
      destruct I as [_ [_ [_ [B2 _]]]]. cbn [st ca] in B2. lia.
    + split; [exact I|]. split; [exact Z|]. split; [exact B|exact K].
  - (* RZPub *)
    destruct (nth_error (r_zomb r) i) as [z|] eqn:NE; [|discriminate].
    destruct (zomb_get r i z Z NE) as [ZD ZI]. rewrite ZI in H.
    destruct (attached (z_ca z) sid); [|discriminate].
    rewrite zpub_deleted in H by exact ZD.
    inv H. exact (conj I (conj Z (conj B K))).
  - (* RZExit *)
    destruct (nth_error (r_zomb r) i) as [z|] eqn:NE; [|discriminate].
    destruct (zomb_get r i z Z NE) as [ZD ZI]. rewrite ZI in H.
    inv H. unfold rinv. cbn [r_x r_zomb r_issued].
    split; [exact I|]. split; [apply Forall_zdrop; exact Z|]. split; [exact B|exact K].
  - (* RZFinish: no instance was unregistered inside a handler *)
    destruct (nth_error (r_zomb r) i) as [z|] eqn:NE; [|discriminate].
    destruct (zomb_get r i z Z NE) as [ZD ZI]. rewrite ZI in H. discriminate.
Qed.

Lemma rrun_inv l : forall r r' os, rinv r -> forallb mid_free l = true ->
  rrun dr nr sm true r l = Some (r', os) -> rinv r'.
Proof.
  induction l as [|a l IH]; intros r r' os I MF H; cbn [rrun] in H.
  - inv H. exact I.
  - cbn [forallb] in MF. apply andb_true_iff in MF. destruct MF as [MF1 MF2].
    destruct (rstep dr nr sm true r a) as [[r1 o1]|] eqn:S; [|discriminate].
    destruct (rrun dr nr sm true r1 l) as [[r2 os2]|] eqn:R; [|discriminate].
    inv H. eapply IH; [|exact MF2|exact R]. eapply rstep_inv; eauto.
Qed.

Lemma rinv_init s : fresh s -> rinv (mkR (mkState s None 0) 0 [] []).
Proof.
  intros F. unfold rinv. cbn [r_x r_zomb r_issued].
  split; [apply fresh_inv; exact F|]. split; [constructor|]. split; [intros n []|apply issue_ok_nil].
Qed.

(* an unregistered instance refuses every queued publish: one 503 to the publisher, nothing else *)
Lemma zombie_refuses r i z sid content noecho :
  rinv r -> nth_error (r_zomb r) i = Some z -> attached (z_ca z) sid = true ->
  rstep dr nr sm true r (RZPub i sid content noecho) = Some (r, [(sid, Ctrl 503 [])]).
Proof.
  intros [_ [Z _]] NE AT. cbn [rstep]. rewrite NE. destruct (zomb_get r i z Z NE) as [ZD ZI].
  rewrite ZI, AT. rewrite zpub_deleted by exact ZD. reflexivity.
Qed.

(* ------------------------------------------------------------------ *)
(* write loops *)
Lemma for_sid_app sid a b : for_sid sid (a ++ b) = for_sid sid a ++ for_sid sid b.
Proof. unfold for_sid. rewrite filter_app, map_app. reflexivity. Qed.

Lemma take_first_spec sid q : forall fr q', take_first sid q = Some (fr, q') ->
  for_sid sid q = fr :: for_sid sid q' /\ forall s, s <> sid -> for_sid s q = for_sid s q'.
Proof.
  induction q as [|[s0 f0] q IH]; intros fr q' H; cbn [take_first] in H; [discriminate|].
  destruct (N.eqb s0 sid) eqn:E.
  - inv H. apply N.eqb_eq in E. subst s0. split.
    + unfold for_sid. cbn [filter fst]. rewrite N.eqb_refl. reflexivity.
    + intros s Hs. unfold for_sid. cbn [filter fst]. destruct (N.eqb sid s) eqn:E2; [|reflexivity].
      apply N.eqb_eq in E2. congruence.
  - destruct (take_first sid q) as [[fr' q'']|]; [|discriminate]. inv H.
    destruct (IH fr q'' eq_refl) as [A B]. split.
    + unfold for_sid in *. cbn [filter fst]. rewrite E. exact A.
    + intros s Hs. specialize (B s Hs). unfold for_sid in *. cbn [filter fst].
      destruct (N.eqb s0 s); cbn [map]; [f_equal|]; exact B.
Qed.

(* Whatever the times at which the write loops run, every session reads exactly the frames
   queued for it, in queueing order, and the topic-level run is the run of the requests alone. *)
Lemma wrun_wire mark l : forall w w', wrun dr nr sm mark w l = Some w' ->
  exists outs, rrun dr nr sm mark (w_r w) (wdos l) = Some (w_r w', outs) /\
    forall sid, for_sid sid (w_wire w' ++ w_queue w') = for_sid sid (w_wire w ++ w_queue w ++ concat outs).
Proof.
  induction l as [|a l IH]; intros w w' H; cbn [wrun] in H.
  - inv H. exists []. split; [reflexivity|]. intros sid. cbn [concat]. rewrite app_nil_r. reflexivity.
  - destruct (wstep dr nr sm mark w a) as [w1|] eqn:S; [|discriminate].
    destruct (IH w1 w' H) as [outs [R W]]. destruct a as [a|sid0]; cbn [wstep] in S; cbn [wdos].
    + destruct (rstep dr nr sm mark (w_r w) a) as [[r1 o]|] eqn:RS; [|discriminate]. inv S.
      cbn [w_r w_queue w_wire] in *. exists (o :: outs). cbn [rrun]. rewrite RS, R. split; [reflexivity|].
      intros sid. rewrite W. cbn [concat]. rewrite <- !app_assoc. reflexivity.
    + destruct (take_first sid0 (w_queue w)) as [[fr q]|] eqn:TF.
      * inv S. cbn [w_r w_queue w_wire] in *. exists outs. split; [exact R|].
        intros sid. rewrite W. destruct (take_first_spec sid0 (w_queue w) fr q TF) as [A B].
        rewrite !for_sid_app. rewrite <- app_assoc. f_equal.
        destruct (N.eq_dec sid sid0) as [->|NE].
        -- rewrite A. unfold for_sid at 1. cbn [filter fst map snd]. rewrite N.eqb_refl. reflexivity.
        -- rewrite (B sid NE). unfold for_sid at 1. cbn [filter fst].
           destruct (N.eqb sid0 sid) eqn:E; [apply N.eqb_eq in E; congruence|reflexivity].
      * inv S. exists outs. split; [exact R|exact W].
Qed.

(* ------------------------------------------------------------------ *)
(* bursts: k publishes handled back to back by one instance.  [burst_spec last ms ps outs last' ms']:
   the i-th ACCEPTED publish is acknowledged with last+i, every copy broadcast (and the push
   receipt) carries that number with the publisher and the content of that publish, and the row
   (last+i, publisher, content) is appended to the stored messages; a refused publish gets one
   error frame and changes nothing. *)
Fixpoint burst_spec (last : Z) (ms : list msgrow) (ps : list (N * N * bool)) (outs : list out)
                    (last' : Z) (ms' : list msgrow) : Prop :=
  match ps, outs with
  | [], [] => last' = last /\ ms' = ms
  | p :: ps', o :: outs' =>
    let sid := fst (fst p) in let content := snd (fst p) in let u := sess_uid sm sid in
    ((exists code, o = [(sid, Ctrl code [])] /\ 400 <= code) /\ burst_spec last ms ps' outs' last' ms')
    \/
    (exists rest, o = (sid, Ctrl 202 [(P_seq, last + 1)]) :: rest /\
       (forall e, In e rest -> snd e = Data (last + 1) u content \/ exists rc, snd e = Push (last + 1) u rc) /\
       burst_spec (last + 1) (ms ++ [mkMsg (last + 1) u content 0]) ps' outs' last' ms')
  | _, _ => False
  end.

Lemma burst_numbers ps : forall x c, ca x = Some c -> inv_num x ->
  exists c', ca (fst (run dr nr sm x (burst_ops ps))) = Some c' /\
    burst_spec (c_lastid c) (msgs (st x)) ps (snd (run dr nr sm x (burst_ops ps)))
               (c_lastid c') (msgs (st (fst (run dr nr sm x (burst_ops ps))))).
Proof.
  induction ps as [|[[sid content] noecho] ps IH]; intros x c Hc I.
  - cbn. exists c. auto.
  - cbn [burst_ops map fst snd run].
    change (map (fun p => (NoFault, OPub (fst (fst p)) (snd (fst p)) (snd p))) ps) with (burst_ops ps).
    pose proof (step_f_inv_num dr nr sm x (NoFault, OPub sid content noecho) I) as I1.
    unfold step_f in *. cbn [fst snd] in *.
    destruct x as [s cx n0]. cbn [ca] in Hc. subst cx.
    destruct (attached c sid) eqn:AT.
    + rewrite step_pub in * by exact AT. cbn zeta in *. cbn [fst] in I1.
      set (h := publish NoFault s c 0 sid (sess_uid sm sid) content noecho) in *.
      destruct (IH (mkState (h_st h) (Some (h_ca h)) (h_n h)) (h_ca h) eq_refl I1) as [c' [C' S']].
      destruct (run dr nr sm (mkState (h_st h) (Some (h_ca h)) (h_n h)) (burst_ops ps)) as [x2 os] eqn:R.
      cbn [fst snd st] in *. exists c'. split; [exact C'|].
      cbn [burst_spec fst snd].
      destruct (publish_cases NoFault s c 0 sid (sess_uid sm sid) content noecho) as
        [[E1 [_ [E3 [_ [_ E5]]]]]|[E1 [_ [E3 [_ E5]]]]]; fold h in E1, E3, E5.
      * left. split; [exact E5|]. rewrite E1, E3 in S'. exact S'.
      * right. eexists. split; [exact E5|]. split.
        -- intros e He. apply in_app_or in He. destruct He as [He|He].
           ++ left. eapply fanout_data_frames. exact He.
           ++ right. unfold push_out in He. destruct (push_rcpt (h_ca h)) as [|a l]; [destruct He|].
              destruct He as [<-|[]]. eexists. reflexivity.
        -- rewrite E1, E3 in S'. exact S'.
    + assert (step dr nr sm NoFault (mkState s (Some c) n0) (OPub sid content noecho) =
              (mkState s (Some c) 0, [(sid, Ctrl 409 [])])) as ST.
      { unfold step. cbn [st ca]. rewrite AT. reflexivity. }
      rewrite ST in *. cbn [fst] in I1.
      destruct (IH (mkState s (Some c) 0) c eq_refl I1) as [c' [C' S']].
      destruct (run dr nr sm (mkState s (Some c) 0) (burst_ops ps)) as [x2 os] eqn:R.
      cbn [fst snd st] in *. exists c'. split; [exact C'|].
      cbn [burst_spec fst snd]. left. split; [|exact S'].
      exists 409. split; [reflexivity|lia].
Qed.
End RaceProofs.

(* the topicUnreg that does not mark the instance (mark = false) lets a number be passed to Save
   again after its Save succeeded: witness *)
Definition race_witness_store : store :=
  ad_sub_create (mkStore true 0 0 0 47 0 [] [] [] [(1%N, 47%N)]) 1%N 255%N 255%N.
Definition race_witness : list rop :=
  [RReq NoFault (OSub 1 [] false); RReq NoFault (OLeave 1 false); RTimeout;
   RReq NoFault (OSub 1 [] false);                (* attaches to the instance whose timer has fired *)
   RHubUnreg;                                     (* the hub unregisters it *)
   RReq NoFault (OSub 2 [] false);                (* a second instance is loaded from the store *)
   RZPub 0 1 7 false;                             (* the old instance handles a {pub} queued before its exit message *)
   RReq NoFault (OPub 2 8 false)].                (* the new instance handles a {pub} *)

(* an unregistration that lands inside the publish handler of the registered instance: the
   second instance and the first one both pass lastID+1 to Save, in either order *)
Definition race_witness_mid (late_first : bool) : list rop :=
  [RReq NoFault (OSub 1 [] false); RReq NoFault (OLeave 1 false); RTimeout;
   RReq NoFault (OSub 1 [] false);
   RHubUnregMid 1 7 false;                        (* unregistered between its isInactive check and its Save *)
   RReq NoFault (OSub 2 [] false)]                (* a second instance is loaded: lastID 0 *)
  ++ (if late_first then [RZFinish 0; RReq NoFault (OPub 2 8 false)]
      else [RReq NoFault (OPub 2 8 false); RZFinish 0]).

Lemma race_witness_mid_issued late_first :
  option_map (fun r => r_issued (fst r))
    (rrun (fun _ _ => None) (fun x => x) [(1%N, 1%N); (2%N, 1%N)] true
          (mkR (mkState race_witness_store None 0) 0 [] []) (race_witness_mid late_first))
  = Some [(1, true); (1, false)].
Proof. destruct late_first; vm_compute; reflexivity. Qed.

Lemma race_witness_issued mark :
  option_map (fun r => r_issued (fst r))
    (rrun (fun _ _ => None) (fun x => x) [(1%N, 1%N); (2%N, 1%N)] mark
          (mkR (mkState race_witness_store None 0) 0 [] []) race_witness)
  = Some (if mark then [(1, true)] else [(1, true); (1, false)]).
Proof. destruct mark; vm_compute; reflexivity. Qed.
