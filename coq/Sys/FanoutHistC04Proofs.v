(* Proofs about Sys/FanoutHistC04.v: on topics with channel subscriptions the history / deletion-log answer of an
   attached session is gated by R in want & given of the ACTING user and by nothing else - not by the name the
   request is addressed to, not by the way the session is attached. *)
From Coq Require Import ZArith NArith List Bool Lia.
From Tinode Require Import Sys.Fanout Sys.FanoutQueryC01 Sys.FanoutQueryC01Proofs Sys.FanoutHistC04.
From Tinode Require Sys.Topic Sys.TopicTac Sys.TopicOut Sys.TopicImsC01.
Import ListNotations.
Open Scope N_scope.

Definition pairs_c04 (ms : list Topic.msgrow) : list (Z * N) := map (fun m => (Topic.m_seq m, Topic.m_content m)) ms.

Lemma shown_lift_data s (ft : Topic.msgrow -> tname) (ff : Topic.msgrow -> uid) ms tl :
  shown_c04 (lift_c04 (map (fun m => (s, QData (ft m) (ff m) (Topic.m_seq m) (Topic.m_content m))) ms ++ tl)) =
  pairs_c04 ms ++ shown_c04 (lift_c04 tl).
Proof.
  induction ms as [|m r IH]; cbn [map app lift_c04 shown_c04 pairs_c04 fst snd]; [reflexivity|].
  f_equal. exact IH.
Qed.

Lemma shown_no_data o : (forall e, In e o -> is_data_c04 (snd e) = false) <-> shown_c04 o = [].
Proof.
  induction o as [|[k f] r IH]; cbn [shown_c04]; [split; [reflexivity|intros _ e []]|].
  destruct f as [[t fr q c|fl rd q|c]|d rs]; cbn.
  - split; [intros H; specialize (H _ (or_introl eq_refl)); discriminate|discriminate].
  - rewrite <- IH. split; [intros H e He; apply H; now right|intros H e [<-|He]; [reflexivity|now apply H]].
  - rewrite <- IH. split; [intros H e He; apply H; now right|intros H e [<-|He]; [reflexivity|now apply H]].
  - rewrite <- IH. split; [intros H e He; apply H; now right|intros H e [<-|He]; [reflexivity|now apply H]].
Qed.

(* ------------------------------------------------------------------ *)
(* {get what=data}                                                      *)

(* the whole answer of replyGetData, by cases on the two tests it makes *)
Lemma q_get_data_cases x s u name a b l :
  q_get_data x s u name a b l =
  if negb (chan_ok (q_st x) (name_chan_c01q name)) then [(s, QCtrl 404%Z)] else
  if read_gate_c04 (q_st x) u then
    match Topic.ad_msg_get_all (store_of_c01q (q_msgs x)) u a b l with
    | [] => [(s, QCtrl 204%Z)]
    | ms => map (fun m => (s, QData (original (q_st x) u) (if name_chan_c01q name then 0 else Topic.m_from m)
                                    (Topic.m_seq m) (Topic.m_content m))) ms ++ [(s, QCtrl 208%Z)]
    end
  else [(s, QCtrl 204%Z)].
Proof. reflexivity. Qed.

(* no R in want & given of the acting user: one {ctrl} (404 or 204), no message - whatever the name, the range,
   the session, the kind of topic, the way the session is attached *)
Lemma q_get_data_needs_read x s u name a b l :
  read_gate_c04 (q_st x) u = false ->
  q_get_data x s u name a b l = [(s, QCtrl 404%Z)] \/ q_get_data x s u name a b l = [(s, QCtrl 204%Z)].
Proof.
  intros G. rewrite q_get_data_cases, G. destruct (negb (chan_ok (q_st x) (name_chan_c01q name))); auto.
Qed.

Lemma q_get_data_needs_read_shown x s u name a b l :
  read_gate_c04 (q_st x) u = false -> shown_c04 (lift_c04 (q_get_data x s u name a b l)) = [].
Proof. intros G. destruct (q_get_data_needs_read x s u name a b l G) as [-> | ->]; reflexivity. Qed.

(* R in want & given, name admissible: exactly the rows the store contract selects for THAT user, newest first *)
Lemma q_get_data_exact x s u name a b l :
  read_gate_c04 (q_st x) u = true -> chan_ok (q_st x) (name_chan_c01q name) = true ->
  shown_c04 (lift_c04 (q_get_data x s u name a b l)) =
  pairs_c04 (Topic.ad_msg_get_all (store_of_c01q (q_msgs x)) u a b l).
Proof.
  intros G C. rewrite q_get_data_cases, G, C. cbn [negb].
  destruct (Topic.ad_msg_get_all (store_of_c01q (q_msgs x)) u a b l) as [|m0 ms]; [reflexivity|].
  rewrite shown_lift_data. cbn [lift_c04 map shown_c04 fst snd]. apply app_nil_r.
Qed.

(* the name decides nothing about WHICH messages are shown (only whether the author is) *)
Lemma q_get_data_name_irrelevant x s u n1 n2 a b l :
  chan_ok (q_st x) (name_chan_c01q n1) = true -> chan_ok (q_st x) (name_chan_c01q n2) = true ->
  shown_c04 (lift_c04 (q_get_data x s u n1 a b l)) = shown_c04 (lift_c04 (q_get_data x s u n2 a b l)).
Proof.
  intros C1 C2. destruct (read_gate_c04 (q_st x) u) eqn:G.
  - rewrite !q_get_data_exact by assumption. reflexivity.
  - rewrite !q_get_data_needs_read_shown by assumption. reflexivity.
Qed.

(* author withheld exactly when the request was addressed through the channel name *)
Lemma q_get_data_author x s u name a b l k t f q c :
  In (k, QData t f q c) (q_get_data x s u name a b l) ->
  k = s /\ t = original (q_st x) u /\
  exists m, In m (q_msgs x) /\ Topic.m_seq m = q /\ Topic.m_content m = c /\
            f = (if name_chan_c01q name then 0 else Topic.m_from m).
Proof.
  rewrite q_get_data_cases.
  destruct (negb (chan_ok (q_st x) (name_chan_c01q name))); [intros [E|[]]; discriminate|].
  destruct (read_gate_c04 (q_st x) u); [|intros [E|[]]; discriminate].
  destruct (Topic.ad_msg_get_all (store_of_c01q (q_msgs x)) u a b l) as [|m0 ms] eqn:EG; [intros [E|[]]; discriminate|].
  intros H. apply in_app_or in H. destruct H as [H|[E|[]]]; [|discriminate].
  apply in_map_iff in H. destruct H as (m & E & Hin). inversion E; subst. split; [reflexivity|]. split; [reflexivity|].
  exists m. split; [|auto].
  assert (In m (Topic.ad_msg_get_all (store_of_c01q (q_msgs x)) u a b l)) as K by (rewrite EG; exact Hin).
  apply TopicOut.get_all_in in K. exact K.
Qed.

(* ------------------------------------------------------------------ *)
(* {get what=del}                                                       *)
Lemma q_get_del_needs_read x s u name a b l :
  read_gate_c04 (q_st x) u = false ->
  forall e, In e (q_get_del_c04 x s u name a b l) -> is_metadel_c04 (snd e) = false.
Proof.
  intros G e. unfold q_get_del_c04. rewrite G.
  destruct (negb (chan_ok (q_st x) (name_chan_c01q name))); intros [<-|[]]; reflexivity.
Qed.

(* scope of the fan-out slice: no deletion request, the log is empty, the answer is 404 / 204 *)
Lemma q_get_del_empty_log x s u name a b l :
  q_get_del_c04 x s u name a b l = [(s, HF (QCtrl 404%Z))] \/ q_get_del_c04 x s u name a b l = [(s, HF (QCtrl 204%Z))].
Proof.
  unfold q_get_del_c04. destruct (negb (chan_ok (q_st x) (name_chan_c01q name))); [now left|right].
  destruct (read_gate_c04 (q_st x) u); [|reflexivity].
  assert (Topic.ad_msg_get_deleted (store_of_c01q (q_msgs x)) u a b l = []) as ->; [|reflexivity].
  unfold Topic.ad_msg_get_deleted, store_of_c01q. cbn [Topic.dellog filter Topic.sort_del fold_left].
  apply firstn_nil.
Qed.

(* ------------------------------------------------------------------ *)
(* {sub get=data}                                                       *)
Lemma h_sub_get_data_is_query x s u name a b l x1 out :
  h_sub_get_data_c04 x s u name a b l = (Some x1, out) ->
  (x1 = x /\ out = [(s, HF (QCtrl 404%Z))]) \/
  (q_msgs x1 = q_msgs x /\ attach (q_st x) s u (name_chan_c01q name) = Some (q_st x1) /\
   out = lift_c04 (q_get_data x1 s u name a b l)).
Proof.
  unfold h_sub_get_data_c04. destruct (has_key s (st_sess (q_st x))); [discriminate|].
  destruct (negb (chan_ok (q_st x) (name_chan_c01q name))); [intros E; inversion E; now left|].
  destruct (attach (q_st x) s u (name_chan_c01q name)) as [st1|]; [|discriminate].
  destruct (has_key s (st_sess st1)); [|discriminate].
  intros E. inversion E; subst. right. cbn [q_msgs q_st]. auto.
Qed.

Lemma h_sub_get_data_needs_read x s u name a b l x1 out :
  h_sub_get_data_c04 x s u name a b l = (Some x1, out) ->
  read_gate_c04 (q_st x1) u = false -> shown_c04 out = [].
Proof.
  intros H G. destruct (h_sub_get_data_is_query _ _ _ _ _ _ _ _ _ H) as [[_ ->]|(_ & _ & ->)]; [reflexivity|].
  now apply q_get_data_needs_read_shown.
Qed.

(* ------------------------------------------------------------------ *)
(* every history                                                        *)

(* a history query of an attached session after ANY history (any state reached) *)
Lemma hrun_get_data_needs_read x0 ops s u name a b l :
  let x := fst (hrun_c04 x0 ops) in
  read_gate_c04 (q_st x) u = false ->
  forall e, In e (snd (hstep_c04 x (HQ (QGetData s u name a b l)))) -> is_data_c04 (snd e) = false.
Proof.
  intros x G. cbn [hstep_c04 qstep].
  destruct (has_key s (st_sess (q_st x))); cbn [snd lift_c04 map]; [|intros e []].
  apply shown_no_data. now apply q_get_data_needs_read_shown.
Qed.

Lemma hrun_get_data_exact x0 ops s u name a b l :
  let x := fst (hrun_c04 x0 ops) in
  has_key s (st_sess (q_st x)) = true ->
  read_gate_c04 (q_st x) u = true -> chan_ok (q_st x) (name_chan_c01q name) = true ->
  shown_c04 (snd (hstep_c04 x (HQ (QGetData s u name a b l)))) =
  pairs_c04 (Topic.ad_msg_get_all (store_of_c01q (q_msgs x)) u a b l).
Proof.
  intros x A G C. cbn [hstep_c04 qstep]. rewrite A. cbn [snd]. now apply q_get_data_exact.
Qed.

Lemma hrun_get_del_needs_read x0 ops s u name a b l :
  let x := fst (hrun_c04 x0 ops) in
  read_gate_c04 (q_st x) u = false ->
  forall e, In e (snd (hstep_c04 x (HGetDel s u name a b l))) -> is_metadel_c04 (snd e) = false.
Proof.
  intros x G. cbn [hstep_c04]. destruct (has_key s (st_sess (q_st x))); cbn [snd]; [|intros e []].
  now apply q_get_del_needs_read.
Qed.

(* queries change nothing; the wrapper is FanoutQueryC01's on its requests *)
Lemma hstep_conservative x o : hstep_c04 x (HQ o) = (fst (fst (qstep x o)), lift_c04 (snd (qstep x o))).
Proof. cbn [hstep_c04]. destruct (qstep x o) as [[ox r] out]. reflexivity. Qed.

Lemma hstep_get_del_pure x s u name a b l ox out :
  hstep_c04 x (HGetDel s u name a b l) = (ox, out) -> qnext x ox = x.
Proof. cbn [hstep_c04]. destruct (has_key s (st_sess (q_st x))); intros E; inversion E; reflexivity. Qed.

(* ------------------------------------------------------------------ *)
(* the gate short-circuited on asChan (seeded change C04-r4-3)          *)
Definition aschan_gate_statement_c04 : Prop :=
  forall x s u name a b l, read_gate_c04 (q_st x) u = false ->
    shown_c04 (lift_c04 (q_get_data_aschan_c04 x s u name a b l)) = [].

(* channel-enabled group; owner 1 (attached, publishes 101); member 2 with given JWPS = 45 (no R) attached under the
   group name asks for the history through the channel name *)
Definition wh_st_c04 : state :=
  mkState KChn 1 47 [(1, mkPud 255 255 false false 0 1%Z); (2, mkPud 47 45 false false 0 1%Z)]
          [(1, mkPsd 1 false); (2, mkPsd 2 false)] 0%Z [] [] [].
Definition wh_x_c04 : qstate :=
  fst (qrun (qinit wh_st_c04) [QBase (OPub (mkPx 1 1 1 TGrp false true 101 []))]).

Lemma wh_gate_c04 : read_gate_c04 (q_st wh_x_c04) 2 = false.
Proof. vm_compute. reflexivity. Qed.
Lemma wh_variant_c04 : shown_c04 (lift_c04 (q_get_data_aschan_c04 wh_x_c04 2 2 TChn 0%Z 0%Z 0%Z)) = [(1%Z, 101)].
Proof. vm_compute. reflexivity. Qed.
Lemma aschan_gate_refuted_c04 : ~ aschan_gate_statement_c04.
Proof.
  intros H. pose proof (H wh_x_c04 2 2 TChn 0%Z 0%Z 0%Z wh_gate_c04) as K. rewrite wh_variant_c04 in K. discriminate.
Qed.

(* ... while the handler as it is answers 204 to both spellings *)
Lemma wh_real_c04 :
  q_get_data wh_x_c04 2 2 TChn 0%Z 0%Z 0%Z = [(2, QCtrl 204%Z)] /\
  q_get_data wh_x_c04 2 2 TGrp 0%Z 0%Z 0%Z = [(2, QCtrl 204%Z)] /\
  shown_c04 (lift_c04 (q_get_data wh_x_c04 1 1 TChn 0%Z 0%Z 0%Z)) = [(1%Z, 101)].
Proof. vm_compute. repeat split. Qed.

(* the variant coincides with the handler on every request addressed by the group / p2p name and for every reader:
   tests that address a topic by the name the session attached under, or run with readers, cannot tell them apart *)
Lemma aschan_gate_partial_c04 x s u name a b l :
  name_chan_c01q name = false \/ read_gate_c04 (q_st x) u = true ->
  q_get_data_aschan_c04 x s u name a b l = q_get_data x s u name a b l.
Proof.
  intros H. unfold q_get_data_aschan_c04. rewrite q_get_data_cases. unfold read_gate_c04 in *.
  destruct H as [-> | ->]; [reflexivity|]. rewrite orb_true_r. reflexivity.
Qed.

(* non-vacuity of the {sub get=data} request: a channel reader's first connection reads the history, author withheld;
   a member whose R is not given attaches and gets 204 *)
Definition ws_st_c04 : state :=
  mkState KChn 1 47 [(1, mkPud 255 255 false false 0 1%Z); (2, mkPud 47 45 false false 0 0%Z)]
          [(1, mkPsd 1 false)] 0%Z [] [(3, 11)] [].
Definition ws_x_c04 : qstate :=
  fst (qrun (qinit ws_st_c04) [QBase (OPub (mkPx 1 1 1 TGrp false true 101 []))]).
Lemma ws_ok_c04 :
  snd (h_sub_get_data_c04 ws_x_c04 3 3 TChn 0%Z 0%Z 0%Z) = [(3, HF (QData TChn 0 1%Z 101)); (3, HF (QCtrl 208%Z))] /\
  snd (h_sub_get_data_c04 ws_x_c04 2 2 TGrp 0%Z 0%Z 0%Z) = [(2, HF (QCtrl 204%Z))] /\
  fst (h_sub_get_data_c04 ws_x_c04 2 2 TChn 0%Z 0%Z 0%Z) = None.
Proof. vm_compute. repeat split. Qed.
