(* C09: stored marks never decrease - publish, note, the step and the history level.
   (continues Sys/TopicCoh.v) *)
From Coq Require Import ZArith NArith List Bool Lia.
From Tinode Require Import Base.Util Pure.Acs Sys.Topic Sys.TopicTac Sys.TopicFrame Sys.TopicNum Sys.TopicMarks Sys.TopicMono Sys.TopicCohMarks.
Import ListNotations.
Open Scope Z_scope.

(* publish: needs the bounds (every mark is at most lastID < the new id) *)
Ltac pub_leaf HC BD NZ s c u :=
  let u0 := fresh "u0" in
  intros u0; sk_rw; try rewrite (sk_update_marks _ _ _ _ _ NZ); sk_rw; mkc_rw; gp_rw;
  destruct (N.eqb u0 u) eqn:?E;
  [ match goal with E : N.eqb u0 u = true |- _ => apply N.eqb_eq in E; subst u0 end;
    pose proof (HC u);
    unfold cohP, smP, set_marks in *;
    destruct (sk s u) as [[[[|] ?rd] ?rc]|] eqn:?SK; destruct (mk c u) as [[?rd' ?rc']|] eqn:?MK;
    try (match goal with MK : mk c u = Some _ |- _ => pose proof (BD u _ _ MK) end);
    cbn [option_map p_read p_recv p_set_marks]; try tauto; try lia;
    try (unfold mk in *; destruct (alookup u (c_users c)); discriminate)
  | pose proof (HC u0);
    unfold cohP, smP, set_marks in *;
    destruct (sk s u0) as [[[[|] ?rd] ?rc]|] eqn:?SK; destruct (mk c u0) as [[?rd' ?rc']|] eqn:?MK;
    cbn [option_map]; try tauto; try lia ].

Lemma publish_good f s c n sid u content noecho :
  u <> 0%N -> coh s c -> cmarks_ok (c_lastid c) c -> good s (publish f s c n sid u content noecho).
Proof.
  intros NZ HC MC. apply N.eqb_neq in NZ.
  assert (forall k rd rc, mk c k = Some (rd, rc) -> rd <= c_lastid c /\ rc <= c_lastid c) as BD.
  { intros k rd rc E. unfold mk in E. destruct (alookup k (c_users c)) eqn:L; [|discriminate]. inv E.
    destruct (MC k p L) as [[_ ?] [_ ?]]. split; assumption. }
  unfold publish. repeat break_match; unfold good; cbn [h_st h_ca]; try (split; [exact HC|apply smono_refl]);
    split; pub_leaf HC BD NZ s c u.
Qed.

Lemma note_good f s c n sid u what seq : u <> 0%N -> coh s c -> good s (note f s c n sid u what seq).
Proof.
  intros NZ HC. apply N.eqb_neq in NZ.
  destruct (note_cases f s c n sid u what seq) as [[E1 [E2 _]]|[_ [_ [_ [rd [rc [E1 [R1 [R2 [_ [_ [_ [E2 _]]]]]]]]]]]]];
    unfold good.
  - rewrite E1, E2. split; [exact HC|apply smono_refl].
  - rewrite E1. clear E1.
    assert (forall u0, u0 <> u -> cohP (sk s u0) (mk c u0)) as HO by (intros; apply HC).
    pose proof (HC u) as HU. unfold cohP in HU.
    destruct (marks_get_pud c u) as [MK|[MK [Z1 Z2]]]; rewrite MK in HU.
    + destruct E2 as [[_ [L [-> ->]]]|[_ [L ->]]]; split; intros u0;
        rewrite (sk_update_marks _ _ _ _ _ NZ); mkc_rw;
        (destruct (N.eqb u0 u) eqn:E; [apply N.eqb_eq in E; subst u0|apply HC || apply smP_refl]);
        unfold cohP, smP, set_marks; destruct (sk s u) as [[[[|] r0] c0]|]; cbn [option_map p_read p_recv p_set_marks]; try tauto; try lia.
    + destruct E2 as [[_ [L [-> ->]]]|[_ [L ->]]]; split; intros u0;
        rewrite (sk_update_marks _ _ _ _ _ NZ); mkc_rw;
        (destruct (N.eqb u0 u) eqn:E; [apply N.eqb_eq in E; subst u0|apply HC || apply smP_refl]);
        unfold cohP, smP, set_marks; destruct (sk s u) as [[[[|] r0] c0]|]; cbn [option_map p_read p_recv p_set_marks]; try tauto; try lia.
Qed.

(* the hub's store-only handlers do not touch marks or the deleted flag *)
Lemma offline_set_sub_sk f s sid u t m u0 : sk (o_st (offline_set_sub f s sid u t m)) u0 = sk s u0.
Proof. unfold offline_set_sub. repeat break_match; cbn [o_st]; sk_rw; reflexivity. Qed.
Lemma offline_set_sub_und f s sid u t m : und s -> und (o_st (offline_set_sub f s sid u t m)).
Proof. intros H. unfold offline_set_sub. repeat break_match; cbn [o_st]; auto using und_subs_update. Qed.

(* ---------- one row per user is kept by every handler ---------- *)
Lemma und_owner v s : und s -> und (st_owner v s). Proof. auto. Qed.
Lemma und_seqid v s : und s -> und (st_seqid v s). Proof. auto. Qed.
Lemma und_delid v s : und s -> und (st_delid v s). Proof. auto. Qed.
Lemma und_dellog f s : und s -> und (st_dellog f s). Proof. auto. Qed.
Lemma und_msgs f s : und s -> und (st_msgs f s). Proof. auto. Qed.
Lemma und_delete_list s d fu rs : und s -> und (ad_msg_delete_list s d fu rs).
Proof. unfold ad_msg_delete_list. break_match; auto. Qed.
Lemma und_msg_save s seq from content s2 : ad_msg_save s seq from content = Some s2 -> und s -> und s2.
Proof. unfold ad_msg_save. break_match; intros H; inv H. auto. Qed.
Ltac und_solve :=
  cbn [fst snd h_st o_st];
  repeat first [ assumption | apply und_subs_update | apply und_sub_create | apply und_owner | apply und_seqid
               | apply und_delid | apply und_dellog | apply und_msgs | apply und_delete_list
               | match goal with H : ad_subs_delete _ _ = Some ?s' |- und ?s' => eapply und_subs_delete; [exact H|] end
               | match goal with H : ad_msg_save _ _ _ _ = Some ?s' |- und ?s' => eapply und_msg_save; [exact H|] end ].

Lemma tus_und f s c n sid u want nb : und s -> und (h_st (fst (this_user_sub f s c n sid u want nb))).
Proof. intros H. unfold this_user_sub. repeat break_match; und_solve. Qed.
Lemma aus_und f s c n sid u t m : und s -> und (h_st (fst (another_user_sub f s c n sid u t m))).
Proof. intros H. unfold another_user_sub. repeat break_match; und_solve. Qed.
Lemma sub_reply_und f s c n sid u want bkg : und s -> und (h_st (sub_reply f s c n sid u want bkg)).
Proof.
  intros H. unfold sub_reply.
  pose proof (tus_und f s c n sid u want (match alookup u (c_users c) with Some _ => false | None => true end) H) as HU.
  destruct (this_user_sub f s c n sid u want _) as [h r]. cbn [fst] in *. repeat break_match; cbn [h_st]; exact HU.
Qed.
Lemma set_sub_und f s c n sid u t m : und s -> und (h_st (set_sub f s c n sid u t m)).
Proof.
  intros H. unfold set_sub. pose proof (tus_und f s c n sid u m false H) as U1. pose proof (aus_und f s c n sid u t m H) as U2.
  destruct ((t =? 0)%N || (t =? u)%N);
    [destruct (this_user_sub f s c n sid u m false) as [h r]
    |destruct (another_user_sub f s c n sid u t m) as [h r]]; cbn [fst] in *;
    repeat break_match; cbn [h_st]; assumption.
Qed.
Lemma del_sub_und f s c n sid u t : und s -> und (h_st (del_sub f s c n sid u t)).
Proof.
  intros H. unfold del_sub. repeat break_match; repeat break_match_hyp;
    repeat match goal with H : (_, _) = (?a, ?b) |- _ => injection H as ? ?; subst a b end; und_solve.
Qed.
Lemma leave_unsub_und f s c n sid u : und s -> und (h_st (leave_unsub f s c n sid u)).
Proof. intros H. unfold leave_unsub. repeat break_match; und_solve. Qed.
Lemma del_msg_und dr f s c n sid u req hard : und s -> und (h_st (del_msg dr f s c n sid u req hard)).
Proof. intros H. unfold del_msg. repeat break_match; und_solve. Qed.
Lemma publish_und f s c n sid u content noecho : und s -> und (h_st (publish f s c n sid u content noecho)).
Proof. intros H. unfold publish. repeat break_match; und_solve. Qed.
Lemma note_und f s c n sid u what seq : und s -> und (h_st (note f s c n sid u what seq)).
Proof. intros H. unfold note. repeat break_match; und_solve. Qed.

(* ---------- the invariant over steps and histories ---------- *)
Definition inv_coh (x : state) : Prop :=
  und (st x) /\ match ca x with Some c => coh (st x) c | None => True end.
(* sessions that publish or send notes are logged in (uid 0 is "nobody"; SubsUpdate with uid 0 means
   "every subscription" in the store contract) *)
Definition op_user_ok (sm : sessmap) (o : op) : Prop :=
  match o with
  | OPub sid _ _ | ONote sid _ _ => sess_uid sm sid <> 0%N
  | _ => True
  end.

Lemma coh_load s : und s -> coh s (load s).
Proof.
  intros U u. rewrite (mk_load s u U). unfold cohP. destruct (sk s u) as [[[[|] rd] rc]|]; auto. split; lia.
Qed.

Section StepCoh.
Variable dr : Z -> list (Z * Z) -> option (list (Z * Z)).
Variable nr : list (Z * Z) -> list (Z * Z).
Variable sm : sessmap.

Lemma step_coh f x o : op_user_ok sm o -> inv_marks x -> inv_coh x ->
  inv_coh (fst (step dr nr sm f x o)) /\ smono (st x) (st (fst (step dr nr sm f x o))).
Proof.
  intros OK IM [U HC]. destruct x as [s cx n0]. cbn [st ca] in *.
  assert (forall h, und (h_st h) -> good s h ->
            inv_coh (mkState (h_st h) (Some (h_ca h)) (h_n h)) /\ smono s (h_st h)) as FIN.
  { intros h U' [G1 G2]. split; [split; assumption|exact G2]. }
  assert (forall n, inv_coh (mkState s cx n) /\ smono s s) as KEEP.
  { intros n. split; [split; assumption|apply smono_refl]. }
  assert (forall n, inv_coh (mkState s None n) /\ smono s s) as DROP.
  { intros n. split; [split; [assumption|exact I]|apply smono_refl]. }
  destruct o; unfold step; cbn [st ca negb].
  - (* OSub *)
    destruct cx as [c|].
    + destruct (attached c sid); cbn [fst st ca]; [apply KEEP|].
      apply FIN; [apply sub_reply_und; exact U|apply sub_reply_good; exact HC].
    + destruct (try_load f s 0) as [n1 [c|code]] eqn:TL; cbn [fst st ca]; [|apply DROP].
      apply try_load_cases in TL. subst c.
      apply FIN; [apply sub_reply_und; exact U|apply sub_reply_good; apply coh_load; exact U].
  - (* OLeave *)
    destruct cx as [c|]; [destruct (attached c sid) eqn:AT|]; cbn [negb fst st ca]; try apply KEEP.
    destruct unsub; cbn [fst st ca].
    + apply FIN; [apply leave_unsub_und; exact U|apply leave_unsub_good; exact HC].
    + pose proof (leave_coh s c sid (match alookup sid (c_sess c) with Some (a, _) => a | None => sess_uid sm sid end) HC) as LC.
      destruct (leave c sid _) as [c1 o1]. cbn [fst st ca h_st h_ca h_n] in *.
      split; [split; [exact U|exact LC]|apply smono_refl].
  - (* OPub *)
    destruct cx as [c|]; [destruct (attached c sid)|]; cbn [negb fst st ca]; try apply KEEP.
    destruct IM as [_ [_ MC]]. cbn [ca] in MC.
    apply FIN; [apply publish_und; exact U|apply publish_good; [exact OK|exact HC|exact MC]].
  - (* ONote *)
    destruct cx as [c|]; [destruct (attached c sid)|]; cbn [negb fst st ca];
      repeat match goal with |- context [if ?b then _ else _] => destruct b end; cbn [fst st ca]; try apply KEEP;
      (apply FIN; [apply note_und; exact U|apply note_good; [exact OK|exact HC]]).
  - (* OGetData *)
    destruct cx as [c|]; [destruct (attached c sid)|]; cbn [negb fst st ca]; try apply KEEP.
    destruct (get_data_same f s c 0 sid (sess_uid sm sid) since before limit) as [-> ->]. apply KEEP.
  - (* OGetDesc *)
    destruct cx as [c|]; [destruct (attached c sid)|]; cbn [negb fst st ca]; try rewrite offline_get_desc_frame; try apply KEEP.
    destruct (get_desc_same s c 0 sid (sess_uid sm sid)) as [-> ->]. apply KEEP.
  - (* OGetSub *)
    destruct cx as [c|]; [destruct (attached c sid)|]; cbn [negb fst st ca]; try rewrite offline_get_sub_frame; try apply KEEP.
    destruct (get_sub_same f s c 0 sid (sess_uid sm sid)) as [-> ->]. apply KEEP.
  - (* OGetDel *)
    destruct cx as [c|]; [destruct (attached c sid)|]; cbn [negb fst st ca]; try apply KEEP.
    destruct (get_del_same nr f s c 0 sid (sess_uid sm sid) since before limit) as [-> ->]. apply KEEP.
  - (* ODelMsg *)
    destruct cx as [c|]; [destruct (attached c sid)|]; cbn [negb fst st ca]; try apply KEEP.
    apply FIN; [apply del_msg_und; exact U|apply del_msg_good; exact HC].
  - (* OSetSub *)
    assert (forall cx', match cx' with Some c => coh s c | None => True end ->
              inv_coh (mkState (o_st (offline_set_sub f s sid (sess_uid sm sid) target mode)) cx'
                               (o_n (offline_set_sub f s sid (sess_uid sm sid) target mode))) /\
              smono s (o_st (offline_set_sub f s sid (sess_uid sm sid) target mode))) as OFF.
    { intros cx' HC'. split; [split; [apply offline_set_sub_und; exact U|]|].
      - cbn [st ca]. destruct cx' as [c'|]; [|exact I]. intros u0. rewrite offline_set_sub_sk. apply HC'.
      - intros u0. rewrite offline_set_sub_sk. apply smP_refl. }
    destruct cx as [c|]; [destruct (attached c sid)|]; cbn [negb fst st ca].
    + apply FIN; [apply set_sub_und; exact U|apply set_sub_good; exact HC].
    + apply (OFF (Some c)). exact HC.
    + apply (OFF None). exact I.
  - (* ODelSub *)
    destruct cx as [c|]; [destruct (attached c sid)|]; cbn [negb fst st ca]; try apply KEEP.
    apply FIN; [apply del_sub_und; exact U|apply del_sub_good; exact HC].
  - (* OUnload *)
    destruct cx as [c|]; [destruct (c_sess c)|]; cbn [fst st ca]; first [apply DROP|apply KEEP].
  - (* ORestart *)
    cbn [fst st ca]. apply DROP.
Qed.

Lemma step_f_coh x fo : op_user_ok sm (snd fo) -> inv_marks x -> inv_coh x ->
  inv_coh (fst (step_f dr nr sm x fo)) /\ smono (st x) (st (fst (step_f dr nr sm x fo))).
Proof.
  intros OK IM IC. unfold step_f. pose proof (step_coh (fst fo) x (snd fo) OK IM IC) as [[U1 C1] M1].
  destruct (step dr nr sm (fst fo) x (snd fo)) as [x1 o1]. cbn [fst] in *.
  destruct (fst fo); cbn [fst st]; split; try exact M1; try (split; assumption).
  split; [exact U1|exact I].
Qed.

Lemma run_coh h : forall x, Forall (fun fo => op_user_ok sm (snd fo)) h -> inv_marks x -> inv_coh x ->
  inv_coh (fst (run dr nr sm x h)).
Proof.
  induction h as [|fo h IH]; intros x OK IM IC; cbn [run fst]; [exact IC|].
  inversion OK as [|? ? O1 O2]; subst.
  pose proof (step_f_inv_marks dr nr sm x fo IM) as IM1.
  pose proof (step_f_coh x fo O1 IM IC) as [IC1 _].
  destruct (step_f dr nr sm x fo) as [x1 o1]. cbn [fst] in *.
  specialize (IH x1 O2 IM1 IC1). destruct (run dr nr sm x1 h) as [x2 os]. exact IH.
Qed.
End StepCoh.
