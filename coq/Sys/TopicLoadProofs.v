(* Proofs about Sys/TopicLoad.v: what every load path leaves in lastID / delID, the numbering
   invariant of p2p and sys histories (any faults, crashes, unloads, restarts, the deletion
   and re-creation of a p2p topic), the characterisation of publish, and "everything ever
   shown is at most the persisted mark". *)
From Coq Require Import ZArith NArith List Bool Lia.
From Tinode Require Import Base.Util Pure.Acs Sys.Topic Sys.TopicTac Sys.TopicFrame Sys.TopicNum Sys.TopicOut Sys.TopicLoad.
Import ListNotations.
Open Scope Z_scope.

(* ------------------------------------------------------------------ *)
(* store primitives leave the topic row's counters and the messages alone *)
Lemma sc_exists s u w g : t_exists (ad_sub_create s u w g) = t_exists s.
Proof. destruct (sframe_sub_create s u w g) as [H _]. exact H. Qed.
Lemma sc_delid s u w g : t_delid (ad_sub_create s u w g) = t_delid s.
Proof. destruct (sframe_sub_create s u w g) as [_ [_ [H _]]]. exact H. Qed.
Lemma sc_msgs s u w g : msgs (ad_sub_create s u w g) = msgs s.
Proof. destruct (sframe_sub_create s u w g) as [_ [_ [_ [_ [_ [H _]]]]]]. exact H. Qed.
Lemma su_exists s u up : t_exists (ad_subs_update s u up) = t_exists s.
Proof. destruct (sframe_subs_update s u up) as [H _]. exact H. Qed.
Lemma su_delid s u up : t_delid (ad_subs_update s u up) = t_delid s.
Proof. destruct (sframe_subs_update s u up) as [_ [_ [H _]]]. exact H. Qed.
#[export] Hint Rewrite sc_exists sc_delid sc_msgs seqid_sub_create su_exists su_delid seqid_subs_update msgs_subs_update : lload.

(* ------------------------------------------------------------------ *)
(* what a successful load leaves in the cache, per kind and branch      *)

(* initTopicP2P, every branch: existing topic with both subscriptions, one subscription
   missing or soft-deleted (recreated), brand-new topic *)
Lemma init_p2p_ok f s n u1 u2 s' c n' ns :
  init_p2p f s n u1 u2 = LOk s' c n' ns ->
  l_lastid c = t_seqid s' /\ l_delid c = t_delid s' /\ l_sess c = [] /\ t_exists s' = true /\ msgs s' = msgs s /\
  (if t_exists s then t_seqid s' = t_seqid s /\ t_delid s' = t_delid s else t_seqid s' = 0 /\ t_delid s' = 0).
Proof.
  unfold init_p2p. intros H.
  repeat (break_match_hyp; try discriminate); inv H; cbn [l_lastid l_delid l_sess];
    autorewrite with lload; cbn [t_exists t_seqid t_delid msgs p2p_row];
    repeat match goal with E : t_exists _ = _ |- _ => rewrite E end; auto 10.
Qed.

Lemma init_sys_ok f s n s' c n' ns :
  init_sys f s n = LOk s' c n' ns ->
  s' = s /\ l_lastid c = t_seqid s /\ l_delid c = 0 /\ l_sess c = [] /\ t_exists s = true.
Proof.
  unfold init_sys. intros H. repeat (break_match_hyp; try discriminate); inv H. cbn.
  destruct (t_exists s'); [auto|discriminate].
Qed.

Lemma init_grp_ok f s n s' c n' ns :
  init_grp f s n = LOk s' c n' ns ->
  s' = s /\ l_lastid c = t_seqid s /\ l_delid c = t_delid s /\ l_sess c = [].
Proof.
  unfold init_grp. intros H. destruct (try_load f s n) as [n1 [c0|code]] eqn:TL; [|discriminate].
  apply try_load_cases in TL. subst c0. inv H. cbn. auto.
Qed.

Lemma init_me_fnd_ok f s n s' c n' ns :
  init_me_fnd f s n = LOk s' c n' ns -> s' = s /\ l_lastid c = 0 /\ l_delid c = 0.
Proof. unfold init_me_fnd. intros H. repeat (break_match_hyp; try discriminate); inv H. auto. Qed.

(* after ANY load of a topic that carries messages, lastID is the stored seqid *)
Lemma load_restores_lastid k f s n u1 u2 s' c n' ns :
  init_topic k f s n u1 u2 = LOk s' c n' ns -> carries_messages k = true ->
  l_lastid c = t_seqid s' /\ (t_exists s = true -> t_seqid s' = t_seqid s).
Proof.
  destruct k; cbn [init_topic carries_messages]; intros H C; try discriminate.
  - apply init_p2p_ok in H. destruct H as [H1 [_ [_ [_ [_ H2]]]]]. split; [exact H1|].
    intros E. rewrite E in H2. tauto.
  - apply init_grp_ok in H. destruct H as [-> [H1 _]]. auto.
  - apply init_sys_ok in H. destruct H as [-> [H1 _]]. auto.
Qed.

(* ... and delID the stored delid, except for 'sys', whose load never assigns delID *)
Lemma load_restores_delid k f s n u1 u2 s' c n' ns :
  init_topic k f s n u1 u2 = LOk s' c n' ns -> carries_messages k = true -> k <> KSys ->
  l_delid c = t_delid s' /\ (t_exists s = true -> t_delid s' = t_delid s).
Proof.
  destruct k; cbn [init_topic carries_messages]; intros H C NS; try discriminate; try congruence.
  - apply init_p2p_ok in H. destruct H as [_ [H1 [_ [_ [_ H2]]]]]. split; [exact H1|].
    intros E. rewrite E in H2. tauto.
  - apply init_grp_ok in H. destruct H as [-> [_ [H1 _]]]. auto.
Qed.

Lemma load_sys_delid_zero f s n s' c n' ns : init_sys f s n = LOk s' c n' ns -> l_delid c = 0.
Proof. intros H. apply init_sys_ok in H. tauto. Qed.

(* ------------------------------------------------------------------ *)
(* numbering invariant                                                  *)
Definition sinv (s : store) : Prop :=
  (forall n, In n (seqs s) -> 1 <= n <= t_seqid s) /\ NoDup (seqs s) /\ 0 <= t_seqid s /\
  (t_exists s = false -> msgs s = [] /\ t_seqid s = 0).
Definition cinv (s : store) (c : lcache) : Prop :=
  0 <= l_lastid c /\ l_lastid c <= t_seqid s <= l_lastid c + 1 /\ (forall n, In n (seqs s) -> n <= l_lastid c).
(* (a) every stored number lies in 1..seqid, (b) numbers are unique, (c) a topic row that does
   not exist has no messages, (d) while loaded lastID <= seqid <= lastID+1 and every stored
   number is at most lastID *)
Definition linv (x : lstate) : Prop :=
  sinv (x_st x) /\ match x_ca x with Some c => cinv (x_st x) c | None => True end.

(* the handlers other than publish leave the numbering slice of the store alone *)
Definition nsame (s s' : store) : Prop := t_exists s' = t_exists s /\ t_seqid s' = t_seqid s /\ msgs s' = msgs s.
Lemma nsame_refl s : nsame s s. Proof. repeat split. Qed.
Lemma nsame_trans a b c : nsame a b -> nsame b c -> nsame a c.
Proof. unfold nsame. intuition congruence. Qed.
Lemma sframe_nsame s s' : sframe s s' -> nsame s s'.
Proof. intros [H1 [H2 [_ [_ [_ [H3 _]]]]]]. repeat split; assumption. Qed.
Lemma nsame_sub_create s u w g : nsame s (ad_sub_create s u w g).
Proof. apply sframe_nsame, sframe_sub_create. Qed.
Lemma nsame_subs_update s u up : nsame s (ad_subs_update s u up).
Proof. apply sframe_nsame, sframe_subs_update. Qed.
Lemma nsame_seqs s s' : nsame s s' -> seqs s' = seqs s.
Proof. intros [_ [_ H]]. unfold seqs. now rewrite H. Qed.

Lemma sinv_nsame s s' : nsame s s' -> sinv s -> sinv s'.
Proof.
  intros N [A [B [C D]]]. pose proof (nsame_seqs _ _ N) as E. destruct N as [N1 [N2 N3]].
  unfold sinv. rewrite E, N1, N2, N3. auto.
Qed.
Lemma cinv_nsame s s' c c' : nsame s s' -> l_lastid c' = l_lastid c -> cinv s c -> cinv s' c'.
Proof.
  intros N L [A [B C]]. pose proof (nsame_seqs _ _ N) as E. destruct N as [_ [N2 _]].
  unfold cinv. rewrite E, N2, L. auto.
Qed.

Lemma l_evict_lastid c u : l_lastid (l_evict c u) = l_lastid c. Proof. reflexivity. Qed.

Lemma lsub_same k root f s c n sid u ns :
  nsame s (lh_st (lsub k root f s c n sid u ns)) /\ l_lastid (lh_ca (lsub k root f s c n sid u ns)) = l_lastid c.
Proof.
  unfold lsub.
  repeat break_match; cbn [lh_st lh_ca];
    repeat match goal with |- context [if ?b then _ else _] => destruct b end;
    cbn [l_lastid l_set_sess l_set_users l_evict]; split;
    first [reflexivity | apply nsame_refl | apply nsame_sub_create | apply nsame_subs_update].
Qed.

Lemma lleave_unsub_cases k f s c n sid u s1 co n1 o1 :
  lleave_unsub k f s c n sid u = (s1, co, n1, o1) ->
  (nsame s s1 /\ exists c1, co = Some c1 /\ l_lastid c1 = l_lastid c) \/
  (k = LP2P /\ co = None /\ t_exists s1 = false /\ msgs s1 = [] /\ t_seqid s1 = 0).
Proof.
  unfold lleave_unsub. intros H.
  repeat (break_match_hyp; try discriminate); inv H;
    try (left; split; [first [apply nsame_refl | apply sframe_nsame; eapply sframe_subs_delete; eassumption]
                      | eexists; split; [reflexivity|reflexivity]]).
  right. cbn. repeat split; auto.
Qed.

(* ------------------------------------------------------------------ *)
(* publish: either nothing is numbered, or the message got lastID+1     *)
Definition lacked (o : lout) (sid : N) (n : Z) : Prop := In (sid, LCtrl 202 (Some n)) o.
Definition lno_ack (o : lout) : Prop := forall sid n, ~ lacked o sid n.

Lemma lfanout_frames c skip fr x : In x (lfanout c skip fr) -> snd x = fr.
Proof.
  unfold lfanout. rewrite in_flat_map. intros [e [_ H]].
  repeat break_match_hyp; cbn in H; intuition; subst; reflexivity.
Qed.

Lemma lpublish_cases k f s c n sid u content noecho :
  let h := lpublish k f s c n sid u content noecho in
  (lh_ca h = c /\ msgs (lh_st h) = msgs s /\ t_exists (lh_st h) = t_exists s /\
   (t_seqid (lh_st h) = t_seqid s \/ (t_exists s = true /\ t_seqid (lh_st h) = l_lastid c + 1)) /\ lno_ack (lh_out h) /\
   exists code, lh_out h = [(sid, LCtrl code None)] /\ 400 <= code)
  \/
  (l_lastid (lh_ca h) = l_lastid c + 1 /\ t_seqid (lh_st h) = l_lastid c + 1 /\ t_exists (lh_st h) = true /\
   msgs (lh_st h) = msgs s ++ [mkMsg (l_lastid c + 1) u content 0] /\
   ~ In (l_lastid c + 1) (seqs s) /\
   lh_out h = (sid, LCtrl 202 (Some (l_lastid c + 1))) ::
              lfanout (lh_ca h) (if noecho then sid else 0%N) (LData (l_lastid c + 1) u content)).
Proof.
  cbn zeta. unfold lpublish.
  assert (forall s0 n0 code, 400 <= code -> msgs s0 = msgs s -> t_exists s0 = t_exists s ->
            (t_seqid s0 = t_seqid s \/ (t_exists s = true /\ t_seqid s0 = l_lastid c + 1)) ->
            lh_ca (mkLH s0 c n0 [(sid, LCtrl code None)]) = c /\ msgs (lh_st (mkLH s0 c n0 [(sid, LCtrl code None)])) = msgs s /\
            t_exists (lh_st (mkLH s0 c n0 [(sid, LCtrl code None)])) = t_exists s /\
            (t_seqid (lh_st (mkLH s0 c n0 [(sid, LCtrl code None)])) = t_seqid s \/
             (t_exists s = true /\ t_seqid (lh_st (mkLH s0 c n0 [(sid, LCtrl code None)])) = l_lastid c + 1)) /\
            lno_ack (lh_out (mkLH s0 c n0 [(sid, LCtrl code None)])) /\
            exists code0, lh_out (mkLH s0 c n0 [(sid, LCtrl code None)]) = [(sid, LCtrl code0 None)] /\ 400 <= code0) as FAIL.
  { intros s0 n0 code Hc H1 H2 H3. cbn. repeat split; auto.
    - intros a b [H|[]]. discriminate.
    - exists code. split; [reflexivity|exact Hc]. }
  assert (forall b : bool, msgs (if b then st_seqid (l_lastid c + 1) s else s) = msgs s) as M1 by (intros []; reflexivity).
  assert (forall b : bool, t_exists (if b then st_seqid (l_lastid c + 1) s else s) = t_exists s) as M2 by (intros []; reflexivity).
  assert (t_seqid (if t_exists s then st_seqid (l_lastid c + 1) s else s) = t_seqid s \/
          (t_exists s = true /\ t_seqid (if t_exists s then st_seqid (l_lastid c + 1) s else s) = l_lastid c + 1)) as M3.
  { destruct (t_exists s); [right; split; reflexivity|left; reflexivity]. }
  destruct (match k with LSys => false | LP2P => negb (is_writer (lp_mode (lget c u))) end).
  { left. apply FAIL; auto; lia. }
  destruct (call f n) as [ok1 n1]. destruct (negb ok1). { left. apply FAIL; auto; lia. }
  destruct (call f n1) as [ok2 n2]. destruct (negb ok2). { left. apply FAIL; auto; lia. }
  destruct (t_exists s) eqn:EX; cbn [negb]. 2:{ left. apply FAIL; auto; lia. }
  destruct (ad_msg_save (st_seqid (l_lastid c + 1) s) (l_lastid c + 1) u content) as [s2|] eqn:SV.
  2:{ left. apply FAIL; auto; lia. }
  right.
  unfold ad_msg_save in SV.
  destruct (existsb (fun m => m_seq m =? l_lastid c + 1) (msgs (st_seqid (l_lastid c + 1) s))) eqn:E; [discriminate|].
  inv SV.
  assert (~ In (l_lastid c + 1) (seqs s)) as NI.
  { intros Hin. unfold seqs in Hin. apply in_map_iff in Hin. destruct Hin as [m [Hm1 Hm2]].
    assert (existsb (fun m => m_seq m =? l_lastid c + 1) (msgs s) = true) as E2.
    { apply existsb_exists. exists m. split; [assumption|]. lia. }
    cbn in E. congruence. }
  destruct (is_reader (lp_mode (lget c u))); [destruct (call f n2) as [ok3 n3]|];
    cbn [lh_st lh_ca lh_out];
    repeat match goal with |- context [if ?b then _ else _] => destruct b end;
    cbn [l_lastid l_set_lastid]; autorewrite with lload; cbn [t_seqid t_exists msgs st_msgs st_seqid];
    repeat split; auto.
Qed.

Lemma lpublish_inv k f s c n sid u content noecho :
  sinv s -> cinv s c ->
  sinv (lh_st (lpublish k f s c n sid u content noecho)) /\
  cinv (lh_st (lpublish k f s c n sid u content noecho)) (lh_ca (lpublish k f s c n sid u content noecho)).
Proof.
  intros [A [B [C D]]] [C0 [C1 C2]].
  destruct (lpublish_cases k f s c n sid u content noecho) as [[E1 [E2 [E3 [E4 _]]]]|[E1 [E2 [E3 [E4 [E5 _]]]]]].
  - assert (seqs (lh_st (lpublish k f s c n sid u content noecho)) = seqs s) as ES by (unfold seqs; now rewrite E2).
    unfold sinv, cinv. rewrite ES, E1, E2, E3. split.
    + split; [|split; [exact B|split]].
      * intros m Hm. specialize (A m Hm). specialize (C2 m Hm). destruct E4 as [E4|[_ E4]]; rewrite E4; lia.
      * destruct E4 as [E4|[_ E4]]; rewrite E4; lia.
      * intros NE. destruct E4 as [E4|[E4 _]]; [rewrite E4; auto|congruence].
    + repeat split; auto; destruct E4 as [E4|[_ E4]]; rewrite E4; lia.
  - assert (seqs (lh_st (lpublish k f s c n sid u content noecho)) = seqs s ++ [l_lastid c + 1]) as ES.
    { unfold seqs. rewrite E4, map_app. reflexivity. }
    unfold sinv, cinv. rewrite ES, E1, E2, E3. split.
    + split; [|split; [|split]].
      * intros m Hm. apply in_app_or in Hm. destruct Hm as [Hm|[Hm|[]]].
        -- specialize (A m Hm). specialize (C2 m Hm). lia.
        -- lia.
      * apply NoDup_app_single; assumption.
      * lia.
      * discriminate.
    + repeat split; try lia. intros m Hm. apply in_app_or in Hm. destruct Hm as [Hm|[Hm|[]]].
      * specialize (C2 m Hm). lia.
      * lia.
Qed.

Lemma load_cinv s c : sinv s -> l_lastid c = t_seqid s -> cinv s c.
Proof.
  intros [A [B [C D]]] E. unfold cinv. rewrite E. split; [exact C|]. split; [lia|].
  intros m Hm. apply A in Hm. lia.
Qed.

Lemma lload_inv k f s n u other s' c n' ns :
  sinv s -> lload k f s n u other = LOk s' c n' ns -> sinv s' /\ cinv s' c.
Proof.
  intros I H. unfold lload in H. destruct k.
  - apply init_p2p_ok in H. destruct H as [H1 [_ [_ [H2 [H3 H4]]]]].
    assert (sinv s') as I'.
    { destruct I as [A [B [C D]]].
      assert (seqs s' = seqs s) as ES by (unfold seqs; now rewrite H3).
      destruct (t_exists s) eqn:EX.
      - destruct H4 as [H4 _]. unfold sinv. rewrite ES, H4, H2. split; [exact A|]. split; [exact B|]. split; [exact C|discriminate].
      - destruct H4 as [H4 _]. destruct (D eq_refl) as [D1 D2]. unfold sinv. rewrite ES, H4, H2. unfold seqs. rewrite D1. cbn.
        split; [intros m []|]. split; [constructor|]. split; [lia|discriminate]. }
    split; [exact I'|]. apply load_cinv; assumption.
  - apply init_sys_ok in H. destruct H as [-> [H1 _]]. split; [exact I|]. apply load_cinv; assumption.
Qed.

Lemma boot_inv k s : sinv s -> match boot k s with Some c => cinv s c | None => True end.
Proof.
  intros I. unfold boot. destruct k; [exact Logic.I|].
  destruct (init_sys NoFault s 0) as [code n1|s1 c n1 ns] eqn:E; [exact Logic.I|].
  pose proof (lload_inv LSys NoFault s 0 0%N 0%N s1 c n1 ns I E) as [_ H].
  apply init_sys_ok in E. destruct E as [-> _]. exact H.
Qed.

Lemma boot_lastid k s c : boot k s = Some c -> l_lastid c = t_seqid s.
Proof.
  unfold boot. destruct k; [discriminate|].
  destruct (init_sys NoFault s 0) as [code n1|s1 c1 n1 ns] eqn:E; [discriminate|].
  intros H. inv H. apply init_sys_ok in E. tauto.
Qed.

#[global] Arguments lsub : simpl never.
#[global] Arguments lpublish : simpl never.
#[global] Arguments lleave_unsub : simpl never.
#[global] Arguments lget_data : simpl never.
#[global] Arguments lget_desc : simpl never.
#[global] Arguments loffline_desc : simpl never.
#[global] Arguments init_p2p : simpl never.
#[global] Arguments init_sys : simpl never.
#[global] Arguments boot : simpl never.

Lemma lget_data_same f s c n sid u : lh_st (lget_data f s c n sid u) = s /\ lh_ca (lget_data f s c n sid u) = c.
Proof. unfold lget_data. repeat break_match; cbn; auto. Qed.

Section StepInv.
Variable k : lkind.
Variable sm : sessmap.
Variable roots : list N.
Variable ua ub : N.

Lemma lstep_inv f x o : linv x -> linv (fst (lstep k sm roots ua ub f x o)).
Proof.
  intros [S C]. destruct x as [s cx n0]. cbn [x_st x_ca] in *.
  assert (forall n1, linv (mkLS s cx n1)) as KEEP by (intros n1; split; assumption).
  assert (forall s1 c1 h, sinv s1 -> cinv s1 c1 -> nsame s1 (lh_st h) /\ l_lastid (lh_ca h) = l_lastid c1 ->
            linv (mkLS (lh_st h) (Some (lh_ca h)) (lh_n h))) as SUB.
  { intros s1 c1 h S1 C1 [N L]. split; cbn [x_st x_ca]; [eapply sinv_nsame; eassumption|eapply cinv_nsame; eassumption]. }
  destruct o; unfold lstep; cbn [x_st x_ca].
  - (* LSub *)
    destruct cx as [c|].
    + destruct (lattached c sid); cbn [fst]; [apply KEEP|].
      apply (SUB s c); [exact S|exact C|apply lsub_same].
    + destruct (lload k f s 0 (sess_uid sm sid) (if byname then 0%N else peer ua ub (sess_uid sm sid))) as [code n1|s1 c n1 ns] eqn:LD; cbn [fst].
      * apply KEEP.
      * destruct (lload_inv k f s 0 _ _ s1 c n1 ns S LD) as [S1 C1].
        apply (SUB s1 c); [exact S1|exact C1|apply lsub_same].
  - (* LLeave *)
    destruct cx as [c|]; [destruct (lattached c sid)|]; cbn [fst]; try apply KEEP.
    destruct unsub; cbn [fst].
    + destruct (lleave_unsub k f s c 0 sid (sess_uid sm sid)) as [[[s1 co] n1] o1] eqn:LU. cbn [fst].
      apply lleave_unsub_cases in LU. destruct LU as [[N [c1 [-> L]]]|[_ [-> [E1 [E2 E3]]]]].
      * split; cbn [x_st x_ca]; [eapply sinv_nsame; eassumption|eapply cinv_nsame; eassumption].
      * split; cbn [x_st x_ca]; [|exact Logic.I]. unfold sinv, seqs. rewrite E2, E3. cbn.
        repeat split; auto; try lia; try constructor; intros m [].
    + split; cbn [x_st x_ca lh_st lh_ca]; [exact S|]. eapply cinv_nsame; [apply nsame_refl| |exact C]. reflexivity.
  - (* LPub *)
    destruct cx as [c|].
    + destruct (lattached c sid || match k with LSys => true | LP2P => false end); cbn [fst]; [|apply KEEP].
      destruct (lpublish_inv k f s c 0 sid (sess_uid sm sid) content noecho S C) as [S1 C1]. split; assumption.
    + destruct k; cbn [fst]; apply KEEP.
  - (* LGetData *)
    destruct cx as [c|]; [destruct (lattached c sid)|]; cbn [fst]; try apply KEEP.
    destruct (lget_data_same f s c 0 sid (sess_uid sm sid)) as [E1 E2]. split; cbn [x_st x_ca]; rewrite E1; [exact S|rewrite E2; exact C].
  - (* LGetDesc *)
    destruct (loffline_desc k f s sid (peer ua ub (sess_uid sm sid))) as [n1 o1].
    destruct cx as [c|]; [destruct (lattached c sid)|]; cbn [fst]; apply KEEP.
  - (* LUnload *)
    destruct k; destruct cx as [c|]; try destruct (l_sess c); cbn [fst]; try apply KEEP.
    split; [exact S|exact Logic.I].
  - (* LRestart *)
    cbn [fst]. split; cbn [x_st x_ca]; [exact S|]. apply boot_inv. exact S.
Qed.

Lemma lstep_f_inv x fo : linv x -> linv (fst (lstep_f k sm roots ua ub x fo)).
Proof.
  intros I. unfold lstep_f. pose proof (lstep_inv (fst fo) x (snd fo) I) as I1.
  destruct (lstep k sm roots ua ub (fst fo) x (snd fo)) as [x1 o1]. cbn [fst] in *.
  destruct (fst fo); cbn [fst]; auto.
  destruct I1 as [S1 _]. split; cbn [x_st x_ca]; [exact S1|apply boot_inv; exact S1].
Qed.

Lemma lrun_inv h : forall x, linv x -> linv (fst (lrun k sm roots ua ub x h)).
Proof.
  induction h as [|fo h IH]; intros x I; cbn [lrun fst]; [exact I|].
  pose proof (lstep_f_inv x fo I) as I1.
  destruct (lstep_f k sm roots ua ub x fo) as [x1 o1]. cbn [fst] in I1.
  specialize (IH x1 I1). destruct (lrun k sm roots ua ub x1 h) as [x2 os]. exact IH.
Qed.
End StepInv.

(* ------------------------------------------------------------------ *)
(* message numbers a frame shows to a client                            *)
Definition lframe_seqs (fr : lframe) : list Z :=
  match fr with
  | LCtrl _ (Some n) => [n]
  | LData n _ _ => [n]
  | LDesc n => [n]
  | _ => []
  end.
Definition lout_seqs (o : lout) : list Z := flat_map (fun e => lframe_seqs (snd e)) o.
Definition lshown_le (bound : Z) (o : lout) : Prop := forall n, In n (lout_seqs o) -> n <= bound.
Definition lplain (fr : lframe) : bool := match fr with LCtrl _ None => true | _ => false end.
Definition all_lout (P : lframe -> bool) (o : lout) : Prop := forall e, In e o -> P (snd e) = true.

Lemma all_lout_nil P : all_lout P []. Proof. intros e []. Qed.
Lemma all_lout_one P sid fr : P fr = true -> all_lout P [(sid, fr)].
Proof. intros H e [<-|[]]. exact H. Qed.
Lemma lplain_shown b o : all_lout lplain o -> lshown_le b o.
Proof.
  intros H n Hn. unfold lout_seqs in Hn. apply in_flat_map in Hn. destruct Hn as [e [He Hn]].
  specialize (H e He). destruct (snd e) as [code [m|]| |]; cbn in *; try discriminate; destruct Hn.
Qed.
Lemma lshown_le_app b a c : lshown_le b a -> lshown_le b c -> lshown_le b (a ++ c).
Proof. intros H1 H2 n Hn. unfold lout_seqs in Hn. rewrite flat_map_app in Hn. apply in_app_or in Hn. destruct Hn; auto. Qed.
Lemma lshown_le_mono b b' o : b <= b' -> lshown_le b o -> lshown_le b' o.
Proof. intros H1 H2 n Hn. specialize (H2 n Hn). lia. Qed.

Lemma lsub_out k root f s c n sid u ns : all_lout lplain (lh_out (lsub k root f s c n sid u ns)).
Proof. unfold lsub. repeat break_match; cbn [lh_out]; apply all_lout_one; reflexivity. Qed.
Lemma lleave_unsub_out k f s c n sid u s1 co n1 o1 : lleave_unsub k f s c n sid u = (s1, co, n1, o1) -> all_lout lplain o1.
Proof.
  unfold lleave_unsub. intros H. repeat (break_match_hyp; try discriminate); inv H; apply all_lout_one; reflexivity.
Qed.
Lemma loffline_desc_out k f s sid other n1 o1 b : loffline_desc k f s sid other = (n1, o1) -> 0 <= b -> lshown_le b o1.
Proof.
  unfold loffline_desc. intros H Hb. repeat (break_match_hyp; try discriminate); inv H;
    try (apply lplain_shown; apply all_lout_one; reflexivity);
    intros m Hm; cbn in Hm; destruct Hm as [<-|[]]; exact Hb.
Qed.

Lemma lfanout_shown c skip seq u content b : seq <= b -> lshown_le b (lfanout c skip (LData seq u content)).
Proof.
  intros H n Hn. unfold lout_seqs in Hn. apply in_flat_map in Hn. destruct Hn as [e [He Hn]].
  apply lfanout_frames in He. rewrite He in Hn. cbn in Hn. destruct Hn as [<-|[]]. exact H.
Qed.

Lemma lget_data_shown f s c n sid u bound :
  (forall m, In m (seqs s) -> m <= bound) -> lshown_le bound (lh_out (lget_data f s c n sid u)).
Proof.
  intros H. unfold lget_data. repeat break_match; cbn [lh_out]; try (apply lplain_shown; apply all_lout_one; reflexivity).
  rewrite <- Heql. apply lshown_le_app; [|apply lplain_shown; apply all_lout_one; reflexivity].
  intros q Hq. unfold lout_seqs in Hq. apply in_flat_map in Hq. destruct Hq as [e [He Hq]].
  apply in_map_iff in He. destruct He as [m0 [<- Hm0]]. cbn in Hq. destruct Hq as [<-|[]].
  apply H. unfold seqs. apply in_map. eapply get_all_in. exact Hm0.
Qed.

Lemma lget_desc_shown s c n sid u b : 0 <= b -> l_lastid c <= b -> lshown_le b (lh_out (lget_desc s c n sid u)).
Proof.
  intros H0 H1 m Hm. unfold lget_desc in Hm. cbn in Hm. destruct Hm as [<-|[]]. destruct (is_reader (lmode c u)); assumption.
Qed.

Lemma lpublish_shown k f s c n sid u content noecho :
  sinv s -> cinv s c ->
  lshown_le (t_seqid (lh_st (lpublish k f s c n sid u content noecho))) (lh_out (lpublish k f s c n sid u content noecho)) /\
  t_seqid s <= t_seqid (lh_st (lpublish k f s c n sid u content noecho)) /\
  t_exists (lh_st (lpublish k f s c n sid u content noecho)) = t_exists s \/
  lshown_le (t_seqid (lh_st (lpublish k f s c n sid u content noecho))) (lh_out (lpublish k f s c n sid u content noecho)) /\
  t_seqid s <= t_seqid (lh_st (lpublish k f s c n sid u content noecho)) /\
  t_exists (lh_st (lpublish k f s c n sid u content noecho)) = true.
Proof.
  intros [A [B [C D]]] [C0 [C1 C2]].
  destruct (lpublish_cases k f s c n sid u content noecho) as [[E1 [E2 [E3 [E4 [_ [code [E5 E6]]]]]]]|[E1 [E2 [E3 [E4 [E5 E6]]]]]].
  - left. split; [|split; [|exact E3]].
    + rewrite E5. apply lplain_shown. apply all_lout_one. reflexivity.
    + destruct E4 as [E4|[_ E4]]; rewrite E4; lia.
  - right. rewrite E2. split; [|split; [lia|exact E3]]. rewrite E6.
    intros m Hm. unfold lout_seqs in Hm. cbn [flat_map snd lframe_seqs app] in Hm. destruct Hm as [<-|Hm]; [lia|].
    revert m Hm. apply lfanout_shown. lia.
Qed.

Section StepShown.
Variable k : lkind.
Variable sm : sessmap.
Variable roots : list N.
Variable ua ub : N.

(* every number a step shows is at most the persisted mark after it; the mark does not
   decrease unless the step deletes the topic row (last unsubscribe of a p2p topic) *)
Lemma lstep_shown f x o : linv x ->
  let r := lstep k sm roots ua ub f x o in
  lshown_le (t_seqid (x_st (fst r))) (snd r) /\
  ((t_exists (x_st x) = true -> t_exists (x_st (fst r)) = true) -> t_seqid (x_st x) <= t_seqid (x_st (fst r))).
Proof.
  intros [S C]. destruct x as [s cx n0]. cbn [x_st x_ca] in *. cbn zeta.
  assert (0 <= t_seqid s) as S0 by (destruct S as [_ [_ [H _]]]; exact H).
  assert (forall m, In m (seqs s) -> m <= t_seqid s) as SA by (destruct S as [H _]; intros m Hm; apply H in Hm; lia).
  assert (forall code sid, lshown_le (t_seqid s) [(sid, LCtrl code None)]) as PL
    by (intros; apply lplain_shown; apply all_lout_one; reflexivity).
  destruct o; unfold lstep; cbn [x_st x_ca].
  - (* LSub *)
    destruct cx as [c|].
    + destruct (lattached c sid); cbn [fst snd x_st lh_st lh_out]; [split; [apply PL|lia]|].
      destruct (lsub_same k (is_root roots (sess_uid sm sid)) f s c 0 sid (sess_uid sm sid)
                  match alookup (sess_uid sm sid) (l_users c) with Some p => lp_deleted p | None => true end) as [[_ [N _]] _].
      rewrite N. split; [apply lplain_shown; apply lsub_out|lia].
    + destruct (lload k f s 0 (sess_uid sm sid) (if byname then 0%N else peer ua ub (sess_uid sm sid))) as [code n1|s1 c n1 ns] eqn:LD;
        cbn [fst snd x_st lh_st lh_out]; [split; [apply PL|lia]|].
      assert (t_seqid s <= t_seqid s1) as M1.
      { unfold lload in LD. destruct k.
        - apply init_p2p_ok in LD. destruct LD as [_ [_ [_ [_ [_ H]]]]]. destruct (t_exists s) eqn:EX.
          + destruct H as [H _]. rewrite H. lia.
          + destruct S as [_ [_ [_ D]]]. destruct (D EX) as [_ D2]. destruct H as [H _]. rewrite H, D2. lia.
        - apply init_sys_ok in LD. destruct LD as [-> _]. lia. }
      destruct (lsub_same k (is_root roots (sess_uid sm sid)) f s1 c n1 sid (sess_uid sm sid)
                  (ns || match alookup (sess_uid sm sid) (l_users c) with Some p => lp_deleted p | None => true end)) as [[_ [N _]] _].
      rewrite N. split; [apply lplain_shown; apply lsub_out|intros _; exact M1].
  - (* LLeave *)
    destruct cx as [c|]; [destruct (lattached c sid)|]; cbn [fst snd x_st lh_st lh_out]; try (split; [apply PL|lia]).
    destruct unsub; cbn [fst snd x_st lh_st lh_out]; [|split; [apply PL|lia]].
    destruct (lleave_unsub k f s c 0 sid (sess_uid sm sid)) as [[[s1 co] n1] o1] eqn:LU. cbn [fst snd x_st lh_st lh_out].
    pose proof (lleave_unsub_out _ _ _ _ _ _ _ _ _ _ _ LU) as LO.
    split; [apply lplain_shown; exact LO|].
    apply lleave_unsub_cases in LU. destruct LU as [[[_ [N _]] _]|[_ [_ [E1 [E2 E3]]]]].
    + intros _. rewrite N. lia.
    + intros H. destruct (t_exists s) eqn:EX; [specialize (H eq_refl); congruence|].
      destruct S as [_ [_ [_ D]]]. destruct (D EX) as [_ D2]. rewrite D2, E3. lia.
  - (* LPub *)
    destruct cx as [c|].
    + destruct (lattached c sid || match k with LSys => true | LP2P => false end); cbn [fst snd x_st lh_st lh_out]; [|split; [apply PL|lia]].
      destruct (lpublish_shown k f s c 0 sid (sess_uid sm sid) content noecho S C) as [[H1 [H2 _]]|[H1 [H2 _]]]; (split; [exact H1|intros _; exact H2]).
    + destruct k; cbn [fst snd x_st lh_st lh_out]; (split; [apply PL|lia]).
  - (* LGetData *)
    destruct cx as [c|]; [destruct (lattached c sid)|]; cbn [fst snd x_st lh_st lh_out]; try (split; [apply PL|lia]).
    destruct (lget_data_same f s c 0 sid (sess_uid sm sid)) as [E1 _]. rewrite E1. split; [|lia].
    apply lget_data_shown. exact SA.
  - (* LGetDesc *)
    destruct (loffline_desc k f s sid (peer ua ub (sess_uid sm sid))) as [n1 o1] eqn:OD.
    destruct cx as [c|]; [destruct (lattached c sid)|]; cbn [fst snd x_st lh_st lh_out];
      try (split; [eapply loffline_desc_out; [exact OD|exact S0]|lia]).
    change (lh_st (lget_desc s c 0 sid (sess_uid sm sid))) with s.
    split; [|lia]. apply lget_desc_shown; [exact S0|]. destruct C as [_ [C1 _]]. lia.
  - (* LUnload *)
    destruct k; destruct cx as [c|]; try destruct (l_sess c); cbn [fst snd x_st lh_st lh_out];
      (split; [apply lplain_shown; apply all_lout_nil|lia]).
  - (* LRestart *)
    cbn [fst snd x_st lh_st lh_out]. split; [apply lplain_shown; apply all_lout_nil|lia].
Qed.
End StepShown.

Lemma lpublish_exists k f s c n sid u content noecho :
  t_exists (lh_st (lpublish k f s c n sid u content noecho)) = t_exists s.
Proof.
  destruct (lpublish_cases k f s c n sid u content noecho) as [[_ [_ [E _]]]|[_ [_ [E [_ [_ _]]]]]]; [exact E|].
  rewrite E. unfold lpublish in E.
  repeat (break_match_hyp; cbn [lh_st] in E; try congruence).
  all: destruct (t_exists s); cbn in *; congruence.
Qed.

Section RunShown.
Variable k : lkind.
Variable sm : sessmap.
Variable roots : list N.
Variable ua ub : N.

Lemma lstep_f_shown x fo : linv x ->
  let r := lstep_f k sm roots ua ub x fo in
  lshown_le (t_seqid (x_st (fst r))) (snd r) /\
  ((t_exists (x_st x) = true -> t_exists (x_st (fst r)) = true) -> t_seqid (x_st x) <= t_seqid (x_st (fst r))).
Proof.
  intros I. cbn zeta. unfold lstep_f. pose proof (lstep_shown k sm roots ua ub (fst fo) x (snd fo) I) as S. cbn zeta in S.
  destruct (lstep k sm roots ua ub (fst fo) x (snd fo)) as [x1 o1]. cbn [fst snd] in *.
  destruct (fst fo); cbn [fst snd x_st]; exact S.
Qed.

(* the history never deletes the topic row (for a p2p topic: the two parties never have
   both their subscriptions deleted) *)
Fixpoint keeps_row (x : lstate) (h : list (fault * lop)) : Prop :=
  match h with
  | [] => True
  | fo :: r => let x1 := fst (lstep_f k sm roots ua ub x fo) in
               (t_exists (x_st x) = true -> t_exists (x_st x1) = true) /\ keeps_row x1 r
  end.

(* every number shown anywhere in the history is at most the persisted mark at its end *)
Lemma lrun_shown h : forall x, linv x -> keeps_row x h ->
  Forall (lshown_le (t_seqid (x_st (fst (lrun k sm roots ua ub x h))))) (snd (lrun k sm roots ua ub x h)) /\
  t_seqid (x_st x) <= t_seqid (x_st (fst (lrun k sm roots ua ub x h))).
Proof.
  induction h as [|fo h IH]; intros x I K; cbn [lrun fst snd].
  - split; [constructor|lia].
  - destruct K as [K1 K2]. cbn zeta in K2.
    pose proof (lstep_f_inv k sm roots ua ub x fo I) as I1. pose proof (lstep_f_shown x fo I) as [S1 S2]. cbn zeta in *.
    destruct (lstep_f k sm roots ua ub x fo) as [x1 o1]. cbn [fst snd] in *.
    destruct (IH x1 I1 K2) as [R1 R2]. destruct (lrun k sm roots ua ub x1 h) as [x2 os]. cbn [fst snd] in *.
    specialize (S2 K1). split; [|lia]. constructor; [|exact R1]. eapply lshown_le_mono; [exact R2|exact S1].
Qed.

(* a transition from "not loaded" to "loaded" restores lastID from the stored mark *)
Lemma lstep_load_lastid f x o c' :
  x_ca x = None -> x_ca (fst (lstep k sm roots ua ub f x o)) = Some c' ->
  l_lastid c' = t_seqid (x_st (fst (lstep k sm roots ua ub f x o))).
Proof.
  destruct x as [s cx n0]. cbn [x_ca]. intros -> H. revert H.
  destruct o; unfold lstep; cbn [x_st x_ca].
  - destruct (lload k f s 0 (sess_uid sm sid) (if byname then 0%N else peer ua ub (sess_uid sm sid))) as [code n1|s1 c n1 ns] eqn:LD; cbn [fst x_ca x_st]; [discriminate|].
    intros H. inv H.
    match goal with |- l_lastid (lh_ca (lsub ?a ?b ?c0 ?d ?e ?g ?h ?i ?j)) = _ => destruct (lsub_same a b c0 d e g h i j) as [[_ [N _]] L] end.
    rewrite L, N.
    unfold lload in LD. destruct k.
    + apply init_p2p_ok in LD. tauto.
    + apply init_sys_ok in LD. destruct LD as [-> [L2 _]]. exact L2.
  - cbn [fst x_ca]. discriminate.
  - destruct k; cbn [fst x_ca]; discriminate.
  - cbn [fst x_ca]. discriminate.
  - destruct (loffline_desc k f s sid (peer ua ub (sess_uid sm sid))) as [n1 o1]. cbn [fst x_ca]. discriminate.
  - destruct k; cbn [fst x_ca]; discriminate.
  - cbn [fst x_ca x_st]. apply boot_lastid.
Qed.

(* only a publish handled by the topic acknowledges a number or moves lastID *)
Definition lnonack (fr : lframe) : bool := match fr with LCtrl 202 (Some _) => false | _ => true end.
Lemma lplain_nonack o : all_lout lplain o -> all_lout lnonack o.
Proof.
  intros H e He. specialize (H e He). destruct (snd e) as [code sq| |]; cbn in H; try discriminate.
  destruct sq; [discriminate|]. unfold lnonack. destruct code as [|p|p]; try reflexivity.
  do 8 (destruct p; try reflexivity).
Qed.

Lemma lstep_nonpub f x o c :
  x_ca x = Some c -> o <> LRestart ->
  (forall sid content noecho, o = LPub sid content noecho -> lattached c sid = false /\ k = LP2P) ->
  all_lout lnonack (snd (lstep k sm roots ua ub f x o)) /\
  (forall c', x_ca (fst (lstep k sm roots ua ub f x o)) = Some c' -> l_lastid c' = l_lastid c).
Proof.
  destruct x as [s cx n0]. cbn [x_ca]. intros -> NR NP.
  assert (forall code sid, all_lout lnonack [(sid, LCtrl code None)]) as PL
    by (intros; apply lplain_nonack; apply all_lout_one; reflexivity).
  destruct o; unfold lstep; cbn [x_st x_ca].
  - destruct (lattached c sid); cbn [fst snd x_ca]; [split; [apply PL|intros c' H; now inv H]|].
    split; [apply lplain_nonack; apply lsub_out|]. intros c' H. inv H. apply lsub_same.
  - destruct (lattached c sid); cbn [fst snd x_ca]; [|split; [apply PL|intros c' H; now inv H]].
    destruct unsub; cbn [fst snd x_ca lh_ca lh_out]; [|split; [apply PL|intros c' H; now inv H]].
    destruct (lleave_unsub k f s c 0 sid (sess_uid sm sid)) as [[[s1 co] n1] o1] eqn:LU. cbn [fst snd x_ca].
    split; [apply lplain_nonack; eapply lleave_unsub_out; exact LU|].
    apply lleave_unsub_cases in LU. destruct LU as [[_ [c1 [-> L]]]|[_ [-> _]]]; intros c' H; inv H. exact L.
  - destruct (NP sid content noecho eq_refl) as [AT ->]. rewrite AT. cbn [orb fst snd x_ca].
    split; [apply PL|intros c' H; now inv H].
  - destruct (lattached c sid); cbn [fst snd x_ca]; [|split; [apply PL|intros c' H; now inv H]].
    destruct (lget_data_same f s c 0 sid (sess_uid sm sid)) as [_ E2]. split; [|intros c' H; inv H; exact (f_equal l_lastid E2)].
    unfold lget_data. repeat break_match; cbn [lh_out]; try apply PL.
    intros e He. apply in_app_or in He. destruct He as [He|[<-|[]]]; [|reflexivity].
    apply in_map_iff in He. destruct He as [m0 [<- _]]. reflexivity.
  - destruct (loffline_desc k f s sid (peer ua ub (sess_uid sm sid))) as [n1 o1] eqn:OD.
    destruct (lattached c sid); cbn [fst snd x_ca].
    + split; [intros e [<-|[]]; reflexivity|intros c' H; now inv H].
    + split; [|intros c' H; now inv H]. unfold loffline_desc in OD.
      repeat (break_match_hyp; try discriminate); inv OD; first [apply PL | (intros e [<-|[]]; reflexivity)].
  - destruct k; try destruct (l_sess c); cbn [fst snd x_ca]; (split; [apply all_lout_nil|intros c' H; try discriminate; now inv H]).
  - congruence.
Qed.

(* a publish handled by the topic: the characterisation of [lpublish] applies *)
Lemma lstep_pub f s c n0 sid content noecho :
  lattached c sid = true \/ k = LSys ->
  lstep k sm roots ua ub f (mkLS s (Some c) n0) (LPub sid content noecho) =
  (let h := lpublish k f s c 0 sid (sess_uid sm sid) content noecho in
   (mkLS (lh_st h) (Some (lh_ca h)) (lh_n h), lh_out h)).
Proof.
  intros H. unfold lstep. cbn [x_st x_ca].
  destruct H as [->| ->]; [reflexivity|]. rewrite Bool.orb_true_r. reflexivity.
Qed.
End RunShown.

(* the 'sys' topic row is never deleted: every sys history keeps its row *)
Lemma sys_step_exists sm roots ua ub f x o :
  t_exists (x_st (fst (lstep LSys sm roots ua ub f x o))) = t_exists (x_st x).
Proof.
  destruct x as [s cx n0]. destruct o; unfold lstep; cbn [x_st x_ca].
  - destruct cx as [c|].
    + destruct (lattached c sid); cbn [fst x_st]; [reflexivity|].
      apply lsub_same.
    + destruct (lload LSys f s 0 (sess_uid sm sid) (if byname then 0%N else peer ua ub (sess_uid sm sid))) as [code n1|s1 c n1 ns] eqn:LD; cbn [fst x_st]; [reflexivity|].
      unfold lload in LD. apply init_sys_ok in LD. destruct LD as [-> _].
      apply lsub_same.
  - destruct cx as [c|]; [destruct (lattached c sid)|]; cbn [fst x_st]; try reflexivity.
    destruct unsub; cbn [fst x_st lh_st]; [|reflexivity].
    destruct (lleave_unsub LSys f s c 0 sid (sess_uid sm sid)) as [[[s1 co] n1] o1] eqn:LU. cbn [fst x_st].
    apply lleave_unsub_cases in LU. destruct LU as [[[N _] _]|[E _]]; [exact N|discriminate].
  - destruct cx as [c|]; cbn [fst x_st]; [|reflexivity].
    rewrite Bool.orb_true_r. cbn [fst x_st]. apply lpublish_exists.
  - destruct cx as [c|]; [destruct (lattached c sid)|]; cbn [fst x_st]; try reflexivity.
    destruct (lget_data_same f s c 0 sid (sess_uid sm sid)) as [E _]. now rewrite E.
  - destruct (loffline_desc LSys f s sid (peer ua ub (sess_uid sm sid))) as [n1 o1].
    destruct cx as [c|]; [destruct (lattached c sid)|]; cbn [fst x_st]; reflexivity.
  - destruct cx as [c|]; cbn [fst x_st]; reflexivity.
  - reflexivity.
Qed.

Lemma sys_keeps_row sm roots ua ub h : forall x, keeps_row LSys sm roots ua ub x h.
Proof.
  induction h as [|fo h IH]; intros x; cbn [keeps_row]; [exact I|]. split; [|apply IH].
  unfold lstep_f. pose proof (sys_step_exists sm roots ua ub (fst fo) x (snd fo)) as E.
  destruct (lstep LSys sm roots ua ub (fst fo) x (snd fo)) as [x1 o1]. cbn [fst] in *.
  destruct (fst fo); cbn [fst x_st]; congruence.
Qed.

(* the initial state of a history: the stored topic is absent (p2p) or has no messages yet *)
Definition lfresh (s : store) : Prop := msgs s = [] /\ t_seqid s = 0.
Lemma lfresh_sinv s : lfresh s -> sinv s.
Proof. intros [E1 E2]. unfold sinv, seqs. rewrite E1, E2. cbn. repeat split; auto; try lia; try constructor; intros m []. Qed.
