(* C14 lemmas about the interleaving model Sys/Lifecycle.v *)
From Coq Require Import List Arith Bool Lia.
Import ListNotations.
Require Import Tinode.Sys.Lifecycle.

(* ---------- library ---------- *)

Lemma take_first_spec : forall (A : Type) i (l : list (inst * A)) a l',
  take_first i l = Some (a, l') ->
  exists l1 l2, l = l1 ++ (i, a) :: l2 /\ l' = l1 ++ l2 /\ has_tag i l1 = false.
Proof.
  induction l as [|[j b] r IH]; intros a l' H; simpl in H; [discriminate|].
  destruct (Nat.eqb_spec i j) as [->|Hne].
  - inversion H; subst. exists [], l'. auto.
  - destruct (take_first i r) as [[b' r']|] eqn:E; [|discriminate]. inversion H; subst.
    destruct (IH _ _ eq_refl) as (l1 & l2 & -> & -> & Ht).
    exists ((j, b) :: l1), l2. repeat split; auto. simpl.
    destruct (Nat.eqb_spec i j); [contradiction|]. exact Ht.
Qed.

Lemma take_first_none : forall (A : Type) i (l : list (inst * A)),
  take_first i l = None -> has_tag i l = false.
Proof.
  induction l as [|[j b] r IH]; intros H; simpl in *; auto.
  destruct (Nat.eqb_spec i j); [discriminate|].
  destruct (take_first i r) as [[? ?]|]; [discriminate|]. simpl. auto.
Qed.

Lemma has_tag_take_first : forall (A : Type) i (l : list (inst * A)),
  has_tag i l = true -> exists a l', take_first i l = Some (a, l').
Proof.
  intros A i l H. destruct (take_first i l) as [[a l']|] eqn:E; eauto.
  apply take_first_none in E. congruence.
Qed.

Lemma has_tag_app : forall (A : Type) i (l1 l2 : list (inst * A)),
  has_tag i (l1 ++ l2) = has_tag i l1 || has_tag i l2.
Proof. intros. unfold has_tag. apply existsb_app. Qed.

Lemma has_tag_false_in : forall (A : Type) i (l : list (inst * A)) x,
  has_tag i l = false -> In x l -> fst x <> i.
Proof.
  intros A i l x H Hin E. unfold has_tag in H.
  assert (existsb (fun x => Nat.eqb i (fst x)) l = true).
  { apply existsb_exists. exists x. split; auto. subst. apply Nat.eqb_refl. }
  congruence.
Qed.

Lemma has_tag_true_in : forall (A : Type) i (l : list (inst * A)),
  has_tag i l = true -> exists a, In (i, a) l.
Proof.
  intros A i l H. unfold has_tag in H. apply existsb_exists in H. destruct H as ([j a] & Hin & E).
  simpl in E. apply Nat.eqb_eq in E. subst. eauto.
Qed.

(* ---------- counting a session's client-initiated requests ---------- *)

Definition mine (s : sid) (r : req) : bool := r_init r && Nat.eqb (r_sid r) s.
Definition cntr (s : sid) (l : list req) : nat := length (filter (mine s) l).
Definition cntp (s : sid) (l : list (inst * req)) : nat := cntr s (map snd l).

Lemma cntr_app : forall s l1 l2, cntr s (l1 ++ l2) = cntr s l1 + cntr s l2.
Proof. intros. unfold cntr. rewrite filter_app, app_length. reflexivity. Qed.
Lemma cntp_app : forall s l1 l2, cntp s (l1 ++ l2) = cntp s l1 + cntp s l2.
Proof. intros. unfold cntp. rewrite map_app. apply cntr_app. Qed.
Lemma cntr_cons : forall s r l, cntr s (r :: l) = (if mine s r then 1 else 0) + cntr s l.
Proof. intros. unfold cntr. simpl. destruct (mine s r); reflexivity. Qed.
Lemma cntp_cons : forall s i r l, cntp s ((i, r) :: l) = (if mine s r then 1 else 0) + cntp s l.
Proof. intros. unfold cntp. simpl. apply cntr_cons. Qed.
Lemma cntr_nil : forall s, cntr s [] = 0. Proof. reflexivity. Qed.
Lemma cntp_nil : forall s, cntp s [] = 0. Proof. reflexivity. Qed.

Lemma cntp_take_first : forall s i l r l',
  take_first i l = Some (r, l') -> cntp s l = (if mine s r then 1 else 0) + cntp s l'.
Proof.
  intros s i l r l' H. apply take_first_spec in H. destruct H as (l1 & l2 & -> & -> & _).
  rewrite !cntp_app, cntp_cons. lia.
Qed.

Lemma cntp_requeue : forall s i l,
  cntp s (fst (requeue_reg i l)) + cntr s (snd (requeue_reg i l)) = cntp s l.
Proof.
  intros s i l. unfold requeue_reg. simpl. induction l as [|[j r] rest IH]; simpl; auto.
  destruct (Nat.eqb i j); simpl.
  - rewrite cntr_cons, cntp_cons. lia.
  - rewrite !cntp_cons. lia.
Qed.

Lemma cntp_all_internal : forall s (f : tid * inst -> inst * req) l,
  (forall x, r_init (snd (f x)) = false) -> cntp s (map f l) = 0.
Proof.
  intros s f l H. induction l as [|x r IH]; simpl; auto.
  destruct (f x) as [j q] eqn:E. rewrite cntp_cons, IH. unfold mine.
  specialize (H x). rewrite E in H. simpl in H. rewrite H. reflexivity.
Qed.

(* drain of the unreg queue: Done for every client-initiated item; counted exactly *)
Lemma drain_unreg_bal : forall i l f l' f',
  drain_unreg i l f = (l', f') ->
  forall s, cntp s l <= s_inflight (f s) ->
       s_inflight (f' s) + cntp s l = s_inflight (f s) + cntp s l'.
Proof.
  induction l as [|[j r] rest IH]; intros f l' f' H s Hle; simpl in H.
  - inversion H; subst. reflexivity.
  - destruct (Nat.eqb i j).
    + rewrite cntp_cons in *.
      specialize (IH _ _ _ H s).
      unfold upd in IH. unfold mine in *.
      destruct (Nat.eqb_spec s (r_sid r)) as [Heq|Hne].
      * subst s. rewrite Nat.eqb_refl in *. rewrite andb_true_r in *.
        destruct (r_init r); simpl in *.
        -- assert (Hx : s_inflight (s_reply (s_donereq (f (r_sid r))) (rep r CLocked)) = pred (s_inflight (f (r_sid r)))).
           { unfold s_reply. simpl. destruct (s_term (f (r_sid r))); reflexivity. }
           rewrite Hx in IH. lia.
        -- lia.
      * assert (Nat.eqb (r_sid r) s = false) by (apply Nat.eqb_neq; auto).
        rewrite H0 in *. rewrite andb_false_r in *. simpl in *. apply IH. lia.
    + destruct (drain_unreg i rest f) as [l2 f2] eqn:E. inversion H; subst.
      rewrite !cntp_cons in *. specialize (IH _ _ _ E s). lia.
Qed.

(* ---------- simplification of the updaters ---------- *)

Lemma upd_same : forall (A : Type) (f : nat -> A) k v, upd f k v k = v.
Proof. intros. unfold upd. rewrite Nat.eqb_refl. reflexivity. Qed.
Lemma upd_other : forall (A : Type) (f : nat -> A) k v x, x <> k -> upd f k v x = f x.
Proof. intros. unfold upd. destruct (Nat.eqb_spec x k); congruence. Qed.

Lemma s_reply_inflight : forall x p, s_inflight (s_reply x p) = s_inflight x.
Proof. intros. unfold s_reply. destruct (s_term x); reflexivity. Qed.
Lemma s_reply_subs : forall x p, s_subs (s_reply x p) = s_subs x.
Proof. intros. unfold s_reply. destruct (s_term x); reflexivity. Qed.
Lemma s_reply_term : forall x p, s_term (s_reply x p) = s_term x.
Proof. intros. unfold s_reply. destruct (s_term x) eqn:E; simpl; auto. Qed.
Lemma s_reply_done : forall x p, s_done (s_reply x p) = s_done x.
Proof. intros. unfold s_reply. destruct (s_term x); reflexivity. Qed.
Lemma s_reply_detachq : forall x p, s_detachq (s_reply x p) = s_detachq x.
Proof. intros. unfold s_reply. destruct (s_term x); reflexivity. Qed.
Lemma s_detach_inflight : forall x t, s_inflight (s_detach x t) = s_inflight x.
Proof. intros. unfold s_detach. destruct (s_term x); reflexivity. Qed.
Lemma s_detach_subs : forall x t, s_subs (s_detach x t) = s_subs x.
Proof. intros. unfold s_detach. destruct (s_term x); reflexivity. Qed.
Lemma s_detach_term : forall x t, s_term (s_detach x t) = s_term x.
Proof. intros. unfold s_detach. destruct (s_term x) eqn:E; simpl; auto. Qed.
Lemma s_detach_done : forall x t, s_done (s_detach x t) = s_done x.
Proof. intros. unfold s_detach. destruct (s_term x); reflexivity. Qed.

Global Hint Rewrite s_reply_inflight s_reply_subs s_reply_term s_reply_done s_reply_detachq
  s_detach_inflight s_detach_subs s_detach_term s_detach_done : lc.

(* ---------- the TopicUnreg step = an optional 404 queued to the requester, then unreg_step ---------- *)

Definition pre404 (c : config) (r : req) (err : bool) : config :=
  if err then on_sess c (r_sid r) (fun x => s_reply x (rep r CNotFound)) else c.

Lemma exec_unreg_inv : forall c i c', exec (TopicUnreg i) c = Some c' ->
  exists r rest aC eR, take_first i (c_tunreg c) = Some (r, rest) /\
    (eR = true -> r_init r = true /\ r_aschan r = true /\ c_ischan c (i_name (c_inst c i)) = false) /\
    unreg_step (pre404 c r eR) i aC eR = Some c'.
Proof.
  intros c i c' H. simpl in H.
  destruct (take_first i (c_tunreg c)) as [[r rest]|] eqn:E; [|discriminate].
  exists r, rest. unfold verify_chan in H.
  destruct (r_init r); [destruct (r_aschan r); [destruct (c_ischan c (i_name (c_inst c i))) eqn:Ec|]|].
  - exists true, false. split; [reflexivity|split; [discriminate|exact H]].
  - exists false, true. split; [reflexivity|split; [auto|exact H]].
  - exists false, false. split; [reflexivity|split; [discriminate|exact H]].
  - exists false, false. split; [reflexivity|split; [discriminate|exact H]].
Qed.

Lemma unreg_exec : forall c i r rest, take_first i (c_tunreg c) = Some (r, rest) ->
  exists aC eR, exec (TopicUnreg i) c = unreg_step (pre404 c r eR) i aC eR.
Proof.
  intros c i r rest E. simpl. rewrite E.
  destruct (if r_init r then verify_chan c (i_name (c_inst c i)) r else (false, false)) as [aC eR].
  exists aC, eR. reflexivity.
Qed.

Lemma pre404_frame : forall c r e,
  c_inst (pre404 c r e) = c_inst c /\ c_next (pre404 c r e) = c_next c /\ c_table (pre404 c r e) = c_table c /\
  c_hjoin (pre404 c r e) = c_hjoin c /\ c_hunreg (pre404 c r e) = c_hunreg c /\ c_inits (pre404 c r e) = c_inits c /\
  c_treg (pre404 c r e) = c_treg c /\ c_tunreg (pre404 c r e) = c_tunreg c /\ c_texit (pre404 c r e) = c_texit c /\
  c_store (pre404 c r e) = c_store c /\ c_owner (pre404 c r e) = c_owner c /\ c_user (pre404 c r e) = c_user c /\
  c_nextrid (pre404 c r e) = c_nextrid c /\ c_ischan (pre404 c r e) = c_ischan c.
Proof. intros. unfold pre404. destruct e; simpl; repeat split. Qed.

Lemma pre404_sess : forall c r e s,
  s_subs (c_sess (pre404 c r e) s) = s_subs (c_sess c s) /\ s_inflight (c_sess (pre404 c r e) s) = s_inflight (c_sess c s) /\
  s_term (c_sess (pre404 c r e) s) = s_term (c_sess c s) /\ s_done (c_sess (pre404 c r e) s) = s_done (c_sess c s) /\
  s_detachq (c_sess (pre404 c r e) s) = s_detachq (c_sess c s).
Proof.
  intros. unfold pre404. destruct e; simpl.
  - unfold upd. destruct (Nat.eqb_spec s (r_sid r)) as [->|].
    + autorewrite with lc. repeat split; reflexivity.
    + repeat split; reflexivity.
  - repeat split; reflexivity.
Qed.

(* ---------- invariant 1: in-flight balance ---------- *)

(* every message in hub.join, in a topicInit and in topic.reg is a client request (msg.init) *)
Definition init_true (c : config) : Prop :=
  (forall r, In r (c_hjoin c) -> r_init r = true) /\
  (forall x, In x (c_inits c) -> r_init (snd x) = true) /\
  (forall x, In x (c_treg c) -> r_init (snd x) = true).

Definition pending (s : sid) (c : config) : nat :=
  cntr s (c_hjoin c) + cntp s (c_inits c) + cntp s (c_treg c) + cntp s (c_tunreg c).

Definition balanced (c : config) : Prop := forall s, s_inflight (c_sess c s) = pending s c.

Definition inv_bal (c : config) : Prop := init_true c /\ balanced c.

Ltac inv_some :=
  match goal with
  | H : Some _ = Some _ |- _ => inversion H; subst; clear H
  | H : None = Some _ |- _ => discriminate H
  end.

Lemma in_take_first : forall (A : Type) i (l : list (inst * A)) a l',
  take_first i l = Some (a, l') -> In (i, a) l /\ (forall x, In x l' -> In x l).
Proof.
  intros A i l a l' H. apply take_first_spec in H. destruct H as (l1 & l2 & -> & -> & _). split.
  - apply in_or_app. right. left. reflexivity.
  - intros x Hx. apply in_app_or in Hx. apply in_or_app. destruct Hx; [left|right; right]; auto.
Qed.

Lemma requeue_in : forall i l,
  (forall x, In x (fst (requeue_reg i l)) -> In x l) /\
  (forall r, In r (snd (requeue_reg i l)) -> exists j, In (j, r) l).
Proof.
  intros i l. unfold requeue_reg. simpl. split.
  - intros x Hx. apply filter_In in Hx. tauto.
  - intros r Hr. apply in_map_iff in Hr. destruct Hr as ([j r'] & <- & Hin). apply filter_In in Hin.
    exists j. tauto.
Qed.

Lemma init_true_unreg_step : forall c i a e c', init_true c -> unreg_step c i a e = Some c' -> init_true c'.
Proof.
  intros c i a e c' (H1 & H2 & H3) Hs. unfold unreg_step in Hs.
  destruct (negb (is_run (i_phase (c_inst c i)))); [discriminate|].
  destruct (take_first i (c_tunreg c)) as [[r unreg']|] eqn:E; [|discriminate].
  simpl in Hs. inv_some.
  destruct (r_init r); simpl.
  + destruct (inactive (c_inst c i)); [repeat split; simpl; auto|].
    destruct (r_kind r) as [|[|]|]; simpl.
    * destruct (mem _ _); repeat split; simpl; auto.
    * destruct (_ =? _); [|destruct e]; repeat split; simpl; auto.
    * destruct (mem _ _); repeat split; simpl; auto.
    * destruct (mem _ _); repeat split; simpl; auto.
  + destruct (inactive (c_inst c i)); [repeat split; simpl; auto|].
    destruct (mem _ _); repeat split; simpl; auto.
Qed.

Lemma init_true_pre404 : forall c r e, init_true c -> init_true (pre404 c r e).
Proof.
  intros c r e H. destruct (pre404_frame c r e) as (_ & _ & _ & E1 & _ & E2 & E3 & _).
  unfold init_true. rewrite E1, E2, E3. exact H.
Qed.

Lemma init_true_step : forall c l c', init_true c -> step c l c' -> init_true c'.
Proof.
  intros c l c' (H1 & H2 & H3) Hs. unfold step in Hs.
  destruct l; try (simpl in Hs).
  - (* ClientSub *)
    destruct (s_term (c_sess c s) || negb (s_inflight (c_sess c s) =? 0)); [discriminate|].
    destruct (lookup t (s_subs (c_sess c s))); inv_some; repeat split; simpl; auto.
    intros r Hr. apply in_app_or in Hr. destruct Hr as [Hr|[<-|[]]]; auto.
  - destruct (s_term (c_sess c s) || negb (s_inflight (c_sess c s) =? 0)); [discriminate|].
    destruct (lookup t (s_subs (c_sess c s))); inv_some; repeat split; simpl; auto.
  - destruct (s_term (c_sess c s) || negb (c_user c s =? c_owner c t)); [discriminate|].
    inv_some; repeat split; simpl; auto.
  - (* HubJoin *)
    destruct (c_hjoin c) as [|r rest] eqn:E; [discriminate|]. simpl in Hs.
    assert (Hr : r_init r = true) by (apply H1; left; reflexivity).
    assert (Hrest : forall r', In r' rest -> r_init r' = true) by (intros; apply H1; right; auto).
    destruct (c_table c (r_topic r)) as [i|].
    + destruct (inactive (c_inst c i)); inv_some; repeat split; simpl; auto.
      intros x Hx. apply in_app_or in Hx. destruct Hx as [Hx|[<-|[]]]; auto.
    + inv_some; repeat split; simpl; auto.
      intros x Hx. apply in_app_or in Hx. destruct Hx as [Hx|[<-|[]]]; auto.
  - (* InitDone *)
    destruct (negb (is_init (i_phase (c_inst c i)))); [discriminate|].
    destruct (take_first i (c_inits c)) as [[r inits']|] eqn:E; [|discriminate].
    destruct (in_take_first _ _ _ _ _ E) as [Hin Hsub].
    assert (Hr : r_init r = true) by (apply (H2 (i, r)); auto).
    simpl in Hs. destruct ok.
    + destruct (negb (c_store c (i_name (c_inst c i)))); [discriminate|].
      destruct (i_deleted (c_inst c i)); inv_some; repeat split; simpl; auto.
      intros x Hx. apply in_app_or in Hx. destruct Hx as [Hx|[<-|[]]]; auto.
    + unfold requeue_reg in Hs. simpl in Hs.
      destruct (drain_unreg i (c_tunreg c) _) as [unreg' f'] eqn:Ed. simpl in Hs.
      destruct (requeue_in i (c_treg c)) as [Q1 Q2]. unfold requeue_reg in Q1, Q2. simpl in Q1, Q2.
      destruct (take_first i (c_texit c)) as [[b exit']|]; inv_some; repeat split; simpl; auto.
      * intros r' Hr'. apply in_app_or in Hr'. destruct Hr' as [Hr'|Hr']; auto.
        destruct (Q2 _ Hr') as [j Hj]. apply (H3 (j, r')). auto.
      * intros r' Hr'. apply in_app_or in Hr'. destruct Hr' as [Hr'|Hr']; auto.
        destruct (Q2 _ Hr') as [j Hj]. apply (H3 (j, r')). auto.
  - (* TopicReg *)
    destruct (negb (is_run (i_phase (c_inst c i)))); [discriminate|].
    destruct (take_first i (c_treg c)) as [[r reg']|] eqn:E; [|discriminate].
    destruct (in_take_first _ _ _ _ _ E) as [Hin Hsub].
    simpl in Hs. inv_some.
    destruct (inactive (c_inst c i)); [repeat split; simpl; auto|].
    destruct (lookup _ _); [repeat split; simpl; auto|].
    destruct (verify_chan _ _ _) as [aC [|]]; [repeat split; simpl; auto|].
    destruct ok; repeat split; simpl; auto.
  - (* TopicUnreg *)
    destruct (exec_unreg_inv _ _ _ Hs) as (r0 & rest0 & aC & eR & _ & _ & Hu).
    eapply init_true_unreg_step; [|exact Hu]. apply init_true_pre404. repeat split; auto.
  - (* Evict *)
    destruct (negb (is_run (i_phase (c_inst c i))) || negb (mem s (i_sessions (c_inst c i)))); [discriminate|].
    destruct (inactive (c_inst c i)); inv_some; repeat split; simpl; auto.
  - destruct (negb (is_run (i_phase (c_inst c i)))); [discriminate|].
    destruct (i_sessions (c_inst c i)); inv_some; repeat split; simpl; auto.
  - (* HubUnreg *)
    destruct (c_hunreg c) as [|[t|r] rest]; [discriminate| |]; simpl in Hs.
    + destruct (c_table c t); inv_some; repeat split; simpl; auto.
    + destruct (c_table c (r_topic r)) as [i|].
      * destruct (is_init (i_phase (c_inst c i)) && negb ownerVisible); inv_some; repeat split; simpl; auto.
      * destruct (c_store c (r_topic r)); inv_some; repeat split; simpl; auto.
  - destruct (negb (is_run (i_phase (c_inst c i)))); [discriminate|].
    destruct (take_first i (c_texit c)) as [[b exit']|]; inv_some; repeat split; simpl; auto.
  - destruct (s_detachq (c_sess c s)); inv_some; repeat split; simpl; auto.
  - destruct (s_term (c_sess c s)); inv_some; repeat split; simpl; auto.
  - destruct (negb (s_term (c_sess c s)) || s_done (c_sess c s) || negb (s_inflight (c_sess c s) =? 0)); inv_some;
      repeat split; simpl; auto.
  - (* HubUnregFail *)
    destruct (c_hunreg c) as [|[t|r] rest]; try discriminate; simpl in Hs.
    destruct (c_table c (r_topic r)) as [i|].
    + destruct (is_init (i_phase (c_inst c i))); [discriminate|]. inv_some; repeat split; simpl; auto.
    + destruct (c_store c (r_topic r)); [|discriminate]. inv_some; repeat split; simpl; auto.
Qed.

Ltac splitifs :=
  repeat match goal with
         | |- context [if ?b then _ else _] => destruct b eqn:?; simpl in *
         end.

Ltac fin Hb :=
  let s0 := fresh "s0" in
  intros s0; specialize (Hb s0); unfold pending in *; simpl in *;
  unfold on_sess, on_inst, upd in *; simpl in *;
  repeat match goal with
         | |- context [Nat.eqb ?a ?b] => destruct (Nat.eqb_spec a b); subst; simpl in *
         end;
  autorewrite with lc in *; simpl in *;
  repeat rewrite ?cntr_app, ?cntp_app, ?cntr_cons, ?cntp_cons, ?cntr_nil, ?cntp_nil in *;
  unfold mine in *; simpl in *;
  repeat match goal with
         | H : ?x = true |- context [?x] => rewrite H in *
         | H : ?x = true, H' : context [?x] |- _ => rewrite H in H'
         | H : ?x = false |- context [?x] => rewrite H in *
         | H : ?x = false, H' : context [?x] |- _ => rewrite H in H'
         end; simpl in *;
  repeat match goal with
         | |- context [Nat.eqb ?a ?b] => destruct (Nat.eqb_spec a b); subst; simpl in *
         | H : context [Nat.eqb ?a ?b] |- _ => destruct (Nat.eqb_spec a b); subst; simpl in *
         end;
  autorewrite with lc in *; simpl in *;
  try lia.

Lemma balanced_unreg_step : forall c i a e c', inv_bal c -> unreg_step c i a e = Some c' -> balanced c'.
Proof.
  intros c i a e c' [(H1 & H2 & H3) Hb] Hs. unfold unreg_step in Hs. unfold balanced in *.
  destruct (negb (is_run (i_phase (c_inst c i)))); [discriminate|].
  destruct (take_first i (c_tunreg c)) as [[r unreg']|] eqn:E; [|discriminate].
  simpl in Hs. inv_some.
  intros s0; generalize (cntp_take_first s0 _ _ _ _ E); intros Hc; revert s0 Hc.
  destruct (r_init r) eqn:Ei; simpl.
  + destruct (inactive (c_inst c i)); [fin Hb|].
    destruct (r_kind r) as [|[|]|]; simpl.
    * destruct (mem _ _); fin Hb.
    * destruct (_ =? _); [fin Hb|]. destruct e; [fin Hb|].
      intros s0 Hc. specialize (Hb s0). unfold pending in *. simpl in *.
      unfold on_sess, upd in *. simpl in *. unfold mine in *. rewrite Ei in *. simpl in *.
      destruct (Nat.eqb_spec s0 (r_sid r)) as [->|Hne].
      -- rewrite Nat.eqb_refl in *. simpl in *.
         destruct (mem (r_sid r) (i_sessions (c_inst c i)) && _); rewrite ?Nat.eqb_refl; autorewrite with lc; simpl; autorewrite with lc; lia.
      -- assert (En : Nat.eqb (r_sid r) s0 = false) by (apply Nat.eqb_neq; auto). rewrite En in *. simpl in *.
         destruct (mem s0 (i_sessions (c_inst c i)) && _);
           repeat (match goal with |- context [Nat.eqb ?a ?b] => destruct (Nat.eqb_spec a b); subst; simpl in * end);
           autorewrite with lc; simpl; autorewrite with lc; try lia; try congruence.
    * destruct (mem _ _); fin Hb.
    * destruct (mem _ _); fin Hb.
  + destruct (inactive (c_inst c i)); [fin Hb|].
    destruct (mem _ _); fin Hb.
Qed.

Lemma inv_bal_pre404 : forall c r e, inv_bal c -> inv_bal (pre404 c r e).
Proof.
  intros c r e [H Hb]. split; [apply init_true_pre404; exact H|].
  intros s. destruct (pre404_sess c r e s) as (_ & -> & _).
  destruct (pre404_frame c r e) as (_ & _ & _ & E1 & _ & E2 & E3 & E4 & _).
  unfold pending. rewrite E1, E2, E3, E4. apply Hb.
Qed.

Lemma balanced_step : forall c l c',
  inv_bal c -> nil_done_block c l = false -> step c l c' -> balanced c'.
Proof.
  intros c l c' [(H1 & H2 & H3) Hb] Hnb Hs. unfold step in Hs. unfold balanced in *.
  destruct l; try (simpl in Hs).
  - (* ClientSub *)
    destruct (s_term (c_sess c s)) eqn:Et; [discriminate|].
    destruct (Nat.eqb_spec (s_inflight (c_sess c s)) 0) as [E0|]; [|discriminate]. simpl in Hs.
    destruct (lookup t (s_subs (c_sess c s))); inv_some; fin Hb.
  - destruct (s_term (c_sess c s)) eqn:Et; [discriminate|].
    destruct (Nat.eqb_spec (s_inflight (c_sess c s)) 0) as [E0|]; [|discriminate]. simpl in Hs.
    destruct (lookup t (s_subs (c_sess c s))); inv_some; fin Hb.
  - destruct (s_term (c_sess c s) || negb (c_user c s =? c_owner c t)); [discriminate|].
    inv_some; fin Hb.
  - (* HubJoin *)
    destruct (c_hjoin c) as [|r rest] eqn:E; [discriminate|]. simpl in Hs.
    assert (Hr : r_init r = true) by (apply H1; left; reflexivity).
    unfold pending in Hb. setoid_rewrite E in Hb.
    destruct (c_table c (r_topic r)) as [i|].
    + destruct (inactive (c_inst c i)); inv_some; fin Hb.
    + inv_some; fin Hb.
  - (* InitDone *)
    destruct (negb (is_init (i_phase (c_inst c i)))); [discriminate|].
    destruct (take_first i (c_inits c)) as [[r inits']|] eqn:E; [|discriminate].
    destruct (in_take_first _ _ _ _ _ E) as [Hin Hsub].
    assert (Hr : r_init r = true) by (apply (H2 (i, r)); auto).
    simpl in Hs. destruct ok.
    + destruct (negb (c_store c (i_name (c_inst c i)))); [discriminate|].
      destruct (i_deleted (c_inst c i)); inv_some; intros s0; generalize (cntp_take_first s0 _ _ _ _ E); intros Hc;
        revert s0 Hc; fin Hb.
    + simpl in Hnb.
      unfold requeue_reg in Hs. simpl in Hs.
      destruct (drain_unreg i (c_tunreg c) _) as [unreg' f'] eqn:Ed. simpl in Hs.
      destruct (take_first i (c_texit c)) as [[b exit']|] eqn:Ex.
      { apply in_take_first in Ex. destruct Ex as [Ex _].
        assert (has_tag i (c_texit c) = true).
        { unfold has_tag. apply existsb_exists. exists (i, b). split; auto. simpl. apply Nat.eqb_refl. }
        congruence. }
      inv_some. intros s0. specialize (Hb s0). unfold pending in *. simpl.
      pose proof (cntp_take_first s0 _ _ _ _ E) as Hc.
      pose proof (cntp_requeue s0 i (c_treg c)) as Hq. unfold requeue_reg in Hq. simpl in Hq.
      pose proof (drain_unreg_bal _ _ _ _ _ Ed s0) as Hd.
      rewrite cntr_app.
      unfold on_sess, upd in *. simpl in *.
      unfold mine in *. rewrite Hr in *. simpl in *.
      destruct (Nat.eqb_spec s0 (r_sid r)) as [->|Hne].
      * rewrite Nat.eqb_refl in *. autorewrite with lc in *. simpl in *.
        assert (Hle : cntp (r_sid r) (c_tunreg c) <= s_inflight (c_sess c (r_sid r))) by lia.
        specialize (Hd Hle). lia.
      * assert (En : Nat.eqb (r_sid r) s0 = false) by (apply Nat.eqb_neq; auto). rewrite En in *.
        simpl in *.
        assert (Hle : cntp s0 (c_tunreg c) <= s_inflight (c_sess c s0)) by lia.
        specialize (Hd Hle). lia.
  - (* TopicReg *)
    destruct (negb (is_run (i_phase (c_inst c i)))); [discriminate|].
    destruct (take_first i (c_treg c)) as [[r reg']|] eqn:E; [|discriminate].
    destruct (in_take_first _ _ _ _ _ E) as [Hin Hsub].
    assert (Hr : r_init r = true) by (apply (H3 (i, r)); auto).
    simpl in Hs. inv_some.
    intros s0; generalize (cntp_take_first s0 _ _ _ _ E); intros Hc; revert s0 Hc.
    destruct (inactive (c_inst c i)); [fin Hb|].
    destruct (lookup _ _); [fin Hb|].
    destruct (verify_chan _ _ _) as [aC [|]]; [fin Hb|].
    destruct ok; fin Hb.
  - (* TopicUnreg *)
    destruct (exec_unreg_inv _ _ _ Hs) as (r0 & rest0 & aC & eR & _ & _ & Hu).
    eapply balanced_unreg_step; [|exact Hu]. apply inv_bal_pre404. split; [repeat split; auto|exact Hb].
  - (* Evict *)
    destruct (negb (is_run (i_phase (c_inst c i))) || negb (mem s (i_sessions (c_inst c i)))); [discriminate|].
    destruct (inactive (c_inst c i)); inv_some; fin Hb.
  - destruct (negb (is_run (i_phase (c_inst c i)))); [discriminate|].
    destruct (i_sessions (c_inst c i)); inv_some; fin Hb.
  - (* HubUnreg *)
    destruct (c_hunreg c) as [|[t|r] rest]; [discriminate| |]; simpl in Hs.
    + destruct (c_table c t); inv_some; fin Hb.
    + destruct (c_table c (r_topic r)) as [i|].
      * destruct (is_init (i_phase (c_inst c i)) && negb ownerVisible); inv_some; fin Hb.
      * destruct (c_store c (r_topic r)); inv_some; fin Hb.
  - (* TopicExit *)
    destruct (negb (is_run (i_phase (c_inst c i)))); [discriminate|].
    destruct (take_first i (c_texit c)) as [[b exit']|]; inv_some.
    intros s0. specialize (Hb s0). unfold pending in *. simpl.
    destruct (mem s0 (i_sessions (c_inst c i))); autorewrite with lc; auto.
  - destruct (s_detachq (c_sess c s)); inv_some; fin Hb.
  - destruct (s_term (c_sess c s)); inv_some; fin Hb.
  - (* DiscEnd *)
    destruct (negb (s_term (c_sess c s)) || s_done (c_sess c s) || negb (s_inflight (c_sess c s) =? 0)); inv_some.
    intros s0. specialize (Hb s0). unfold pending in *. simpl.
    rewrite cntp_app. rewrite cntp_all_internal by reflexivity.
    unfold on_sess, upd. simpl. destruct (Nat.eqb_spec s0 s); subst; simpl; lia.
  - (* HubUnregFail *)
    destruct (c_hunreg c) as [|[t|r] rest]; try discriminate; simpl in Hs.
    destruct (c_table c (r_topic r)) as [i|].
    + destruct (is_init (i_phase (c_inst c i))); [discriminate|]. inv_some; fin Hb.
    + destruct (c_store c (r_topic r)); [|discriminate]. inv_some; fin Hb.
Qed.

Lemma inv_bal_init : forall st ow us ch, inv_bal (init_config st ow us ch).
Proof.
  intros. split.
  - repeat split; simpl; intros; contradiction.
  - intros s. reflexivity.
Qed.

Lemma reach_safe_reach : forall st ow us c, reach_safe st ow us c -> reach st ow us c.
Proof. induction 1; [constructor|econstructor; eauto]. Qed.

Lemma init_true_reach : forall st ow us c, reach st ow us c -> init_true c.
Proof.
  induction 1.
  - repeat split; simpl; intros; contradiction.
  - eapply init_true_step; eauto.
Qed.

Lemma inv_bal_safe : forall st ow us c, reach_safe st ow us c -> inv_bal c.
Proof.
  induction 1.
  - apply inv_bal_init.
  - split.
    + eapply init_true_step; eauto. apply IHreach_safe.
    + eapply balanced_step; eauto.
Qed.

(* The realistic schedule that breaks the balance (observed on the real server as a parked
   topicInit goroutine, init_topic.go:97, and a session blocked in inflightReqs.Add):
   session 1 attaches and leaves topic 1 (instance 0 idle); the owner (session 2) sends
   {del topic}; the idle timer of instance 0 fires (its unload message is queued BEHIND the
   delete); the hub deletes instance 0; session 1 subscribes again: instance 1 starts loading;
   the hub now handles the stale unload message, which names the topic, not the instance:
   instance 1 is marked deleted and gets an exit message; the load of instance 1 fails (the
   topic row is gone) and the failure path sends on the nil `done` channel of that exit. *)
Definition stale_unload_trace : list label :=
  [ClientSub 1 1 false; HubJoin; InitDone 0 true; TopicReg 0 true; ClientLeave 1 1 false false; TopicUnreg 0;
   ClientDel 2 1; IdleTimeout 0; HubUnreg true; ClientSub 1 1 false; HubJoin; HubUnreg true; InitDone 1 false].

Definition ex_owner (t : tid) : uid := 2.
Definition ex_user (s : sid) : uid := s.
Definition ex_stored (t : tid) : bool := Nat.eqb t 1.
Definition ex_chan (t : tid) : bool := false.

Lemma stale_unload_unbalanced :
  exists c, run stale_unload_trace (init_config ex_stored ex_owner ex_user ex_chan) = Some c /\
            s_inflight (c_sess c 1) = 1 /\ pending 1 c = 0.
Proof. eexists. split; [vm_compute; reflexivity|]. split; reflexivity. Qed.

Lemma run_reach : forall st ow us ls c c', reach st ow us c -> run ls c = Some c' -> reach st ow us c'.
Proof.
  induction ls as [|l r IH]; intros c c' Hr H; simpl in H.
  - inversion H; subst; auto.
  - destruct (exec l c) as [c1|] eqn:E; [|discriminate]. eapply IH; [|exact H]. econstructor; eauto.
Qed.

(* ---------- progress: the consumer of every queued request is enabled ---------- *)

Lemma hubjoin_enabled : forall c, c_hjoin c <> [] -> exists c', step c HubJoin c'.
Proof.
  intros c H. unfold step. simpl. destruct (c_hjoin c) as [|r rest]; [congruence|]. simpl.
  destruct (c_table _ _) as [i|]; [destruct (inactive _)|]; eauto.
Qed.

Lemma hubunreg_enabled : forall c, c_hunreg c <> [] -> exists c', step c (HubUnreg true) c'.
Proof.
  intros c H. unfold step. simpl. destruct (c_hunreg c) as [|[t|r] rest]; [congruence| |]; simpl.
  - destruct (c_table _ _); eauto.
  - destruct (c_table _ _) as [i|]; [destruct (_ && _)|destruct (c_store _ _)]; eauto.
Qed.

Lemma topicreg_enabled : forall c i, i_phase (c_inst c i) = PRun -> has_tag i (c_treg c) = true ->
  exists c', step c (TopicReg i true) c'.
Proof.
  intros c i Hp Ht. unfold step. simpl. rewrite Hp. simpl.
  destruct (has_tag_take_first _ _ _ Ht) as (r & l' & ->). eauto.
Qed.

Lemma topicunreg_enabled : forall c i, i_phase (c_inst c i) = PRun -> has_tag i (c_tunreg c) = true ->
  exists c', step c (TopicUnreg i) c'.
Proof.
  intros c i Hp Ht. unfold step.
  destruct (has_tag_take_first _ _ _ Ht) as (r & l' & E).
  destruct (unreg_exec c i r l' E) as (aC & eR & ->).
  destruct (pre404_frame c r eR) as (Ei & _ & _ & _ & _ & _ & _ & Eu & _).
  unfold unreg_step. rewrite Ei, Eu, Hp, E. simpl. eauto.
Qed.

Lemma topicexit_enabled : forall c i, i_phase (c_inst c i) = PRun -> has_tag i (c_texit c) = true ->
  exists c', step c (TopicExit i) c'.
Proof.
  intros c i Hp Ht. unfold step. simpl. rewrite Hp. simpl.
  destruct (has_tag_take_first _ _ _ Ht) as (r & l' & ->). eauto.
Qed.

Lemma sessdetach_enabled : forall c s, s_detachq (c_sess c s) <> [] -> exists c', step c (SessDetach s) c'.
Proof.
  intros c s H. unfold step. simpl. destruct (s_detachq (c_sess c s)); [congruence|]. eauto.
Qed.

Lemma initdone_enabled : forall c i, i_phase (c_inst c i) = PInit -> has_tag i (c_inits c) = true ->
  exists c', step c (InitDone i false) c'.
Proof.
  intros c i Hp Ht. unfold step. simpl. rewrite Hp. simpl.
  destruct (has_tag_take_first _ _ _ Ht) as (r & l' & ->). simpl.
  unfold requeue_reg. simpl.
  destruct (drain_unreg _ _ _) as [u f]. simpl.
  destruct (take_first i (c_texit c)) as [[b e]|]; eauto.
Qed.

(* ---------- no deadlock in the model (modulo items left in queues nobody reads) ---------- *)

Definition quiescent (c : config) : Prop :=
  c_hjoin c = [] /\ c_hunreg c = [] /\ c_inits c = [] /\ c_treg c = [] /\ c_tunreg c = [] /\ c_texit c = [] /\
  forall s, s_detachq (c_sess c s) = [].

(* an item whose reader does not exist (any more): the run loop of the instance has returned
   (topic.go:586-588 returns right after handleTopicTermination; nothing drains reg/unreg/exit) *)
Definition no_dead_items (c : config) : Prop :=
  (forall x, In x (c_inits c) -> i_phase (c_inst c (fst x)) = PInit) /\
  (forall x, In x (c_treg c) -> i_phase (c_inst c (fst x)) <> PDead) /\
  (forall x, In x (c_tunreg c) -> i_phase (c_inst c (fst x)) <> PDead) /\
  (forall x, In x (c_texit c) -> i_phase (c_inst c (fst x)) <> PDead).

(* every instance being initialised has its topicInit goroutine *)
Definition init_has_goroutine (c : config) : Prop :=
  forall i, i_phase (c_inst c i) = PInit -> has_tag i (c_inits c) = true.

Lemma has_tag_take_other : forall (A : Type) i j (l : list (inst * A)) a l',
  take_first j l = Some (a, l') -> i <> j -> has_tag i l' = has_tag i l.
Proof.
  intros A i j l a l' H Hne. apply take_first_spec in H. destruct H as (l1 & l2 & -> & -> & _).
  rewrite !has_tag_app. simpl. destruct (Nat.eqb_spec i j); [contradiction|]. reflexivity.
Qed.

Lemma init_has_goroutine_unreg_step : forall c i a e c',
  init_has_goroutine c -> unreg_step c i a e = Some c' -> init_has_goroutine c'.
Proof.
  intros c i a e c' H Hs. unfold unreg_step in Hs. unfold init_has_goroutine in *.
  destruct (negb (is_run (i_phase (c_inst c i)))) eqn:Ep; [discriminate|].
  destruct (take_first i (c_tunreg c)) as [[r unreg']|] eqn:E; [|discriminate].
  simpl in Hs. inv_some.
  destruct (r_init r); simpl.
  + destruct (inactive (c_inst c i)); [simpl; auto|].
    destruct (r_kind r) as [|[|]|]; simpl.
    * destruct (mem _ _); simpl; auto. intros j. unfold upd. destruct (Nat.eqb_spec j i); subst; simpl; auto.
    * destruct (_ =? _); simpl; auto. destruct e; simpl; auto.
      intros j. unfold upd. destruct (Nat.eqb_spec j i); subst; simpl; auto.
    * destruct (mem _ _); simpl; auto. intros j. unfold upd. destruct (Nat.eqb_spec j i); subst; simpl; auto.
    * destruct (mem _ _); simpl; auto. intros j. unfold upd. destruct (Nat.eqb_spec j i); subst; simpl; auto.
  + destruct (inactive (c_inst c i)); [simpl; auto|].
    destruct (mem _ _); simpl; auto. intros j. unfold upd. destruct (Nat.eqb_spec j i); subst; simpl; auto.
Qed.

Lemma init_has_goroutine_step : forall c l c', init_has_goroutine c -> step c l c' -> init_has_goroutine c'.
Proof.
  intros c l c' H Hs. unfold step in Hs. unfold init_has_goroutine in *.
  destruct l; try (simpl in Hs).
  - destruct (s_term (c_sess c s) || negb (s_inflight (c_sess c s) =? 0)); [discriminate|].
    destruct (lookup t (s_subs (c_sess c s))); inv_some; simpl; auto.
  - destruct (s_term (c_sess c s) || negb (s_inflight (c_sess c s) =? 0)); [discriminate|].
    destruct (lookup t (s_subs (c_sess c s))); inv_some; simpl; auto.
  - destruct (s_term (c_sess c s) || negb (c_user c s =? c_owner c t)); [discriminate|].
    inv_some; simpl; auto.
  - destruct (c_hjoin c) as [|r rest] eqn:E; [discriminate|]. simpl in Hs.
    destruct (c_table c (r_topic r)) as [i|].
    + destruct (inactive (c_inst c i)); inv_some; simpl; auto.
    + inv_some; simpl. intros i. unfold upd. rewrite has_tag_app. simpl.
      destruct (Nat.eqb_spec i (c_next c)); simpl.
      * intros _. apply orb_true_r.
      * intros Hp. rewrite (H _ Hp). reflexivity.
  - destruct (is_init (i_phase (c_inst c i))) eqn:Ep; [|discriminate]. simpl in Hs.
    destruct (take_first i (c_inits c)) as [[r inits']|] eqn:E; [|discriminate].
    simpl in Hs. destruct ok.
    + destruct (negb (c_store c (i_name (c_inst c i)))); [discriminate|].
      destruct (i_deleted (c_inst c i)); inv_some; simpl; intros j; unfold upd;
        destruct (Nat.eqb_spec j i); simpl; try discriminate; intros Hp;
        rewrite (has_tag_take_other _ j i _ _ _ E); auto.
    + unfold requeue_reg in Hs. simpl in Hs.
      destruct (drain_unreg i (c_tunreg c) _) as [unreg' f'] eqn:Ed. simpl in Hs.
      destruct (take_first i (c_texit c)) as [[b exit']|]; inv_some; simpl; intros j; unfold upd;
        destruct (Nat.eqb_spec j i); simpl; try discriminate; intros Hp;
        rewrite (has_tag_take_other _ j i _ _ _ E); auto.
  - destruct (negb (is_run (i_phase (c_inst c i)))) eqn:Ep; [discriminate|].
    destruct (take_first i (c_treg c)) as [[r reg']|] eqn:E; [|discriminate].
    simpl in Hs. inv_some.
    destruct (inactive (c_inst c i)); [simpl; auto|].
    destruct (lookup _ _); [simpl; auto|].
    destruct (verify_chan _ _ _) as [aC [|]]; [simpl; auto|].
    destruct ok; simpl; auto.
    intros j. unfold upd. destruct (Nat.eqb_spec j i); subst; simpl; auto.
  - destruct (exec_unreg_inv _ _ _ Hs) as (r0 & rest0 & aC & eR & _ & _ & Hu).
    eapply (init_has_goroutine_unreg_step _ _ _ _ _ _ Hu). Unshelve.
    intros j. destruct (pre404_frame c r0 eR) as (-> & _ & _ & _ & _ & -> & _). apply H.
  - destruct (negb (is_run (i_phase (c_inst c i))) || negb (mem s (i_sessions (c_inst c i)))); [discriminate|].
    destruct (inactive (c_inst c i)); inv_some; simpl; auto.
    intros j. unfold upd. destruct (Nat.eqb_spec j i); subst; simpl; auto.
  - destruct (negb (is_run (i_phase (c_inst c i)))); [discriminate|].
    destruct (i_sessions (c_inst c i)); inv_some; simpl; auto.
  - destruct (c_hunreg c) as [|[t|r] rest]; [discriminate| |]; simpl in Hs.
    + destruct (c_table c t) as [i|]; inv_some; simpl; auto.
      intros j. unfold upd. destruct (Nat.eqb_spec j i); subst; simpl; auto.
    + destruct (c_table c (r_topic r)) as [i|].
      * destruct (is_init (i_phase (c_inst c i)) && negb ownerVisible); inv_some; simpl; auto.
        intros j. unfold upd. destruct (Nat.eqb_spec j i); subst; simpl; auto.
      * destruct (c_store c (r_topic r)); inv_some; simpl; auto.
  - destruct (negb (is_run (i_phase (c_inst c i)))); [discriminate|].
    destruct (take_first i (c_texit c)) as [[b exit']|]; inv_some; simpl.
    intros j. unfold upd. destruct (Nat.eqb_spec j i); subst; simpl; auto. discriminate.
  - destruct (s_detachq (c_sess c s)); inv_some; simpl; auto.
  - destruct (s_term (c_sess c s)); inv_some; simpl; auto.
  - destruct (negb (s_term (c_sess c s)) || s_done (c_sess c s) || negb (s_inflight (c_sess c s) =? 0)); inv_some; simpl; auto.
  - (* HubUnregFail *)
    destruct (c_hunreg c) as [|[t|r] rest]; try discriminate; simpl in Hs.
    destruct (c_table c (r_topic r)) as [i|].
    + destruct (is_init (i_phase (c_inst c i))); [discriminate|]. inv_some; simpl; auto.
    + destruct (c_store c (r_topic r)); [|discriminate]. inv_some; simpl; auto.
Qed.

Lemma init_has_goroutine_reach : forall st ow us c, reach st ow us c -> init_has_goroutine c.
Proof.
  induction 1.
  - intros i. simpl. discriminate.
  - eapply init_has_goroutine_step; eauto.
Qed.

Lemma in_has_tag : forall (A : Type) (l : list (inst * A)) x, In x l -> has_tag (fst x) l = true.
Proof.
  intros. unfold has_tag. apply existsb_exists. exists x. split; auto. apply Nat.eqb_refl.
Qed.

Lemma tagged_item_progress : forall c, init_has_goroutine c ->
  forall (A : Type) (l : list (inst * A)) x,
  In x l -> i_phase (c_inst c (fst x)) <> PDead ->
  (i_phase (c_inst c (fst x)) = PRun -> has_tag (fst x) l = true -> exists lb c', step c lb c') ->
  exists lb c', step c lb c'.
Proof.
  intros c Hg A l x Hin Hnd Hrun.
  destruct (i_phase (c_inst c (fst x))) eqn:Ep; try congruence.
  - destruct (initdone_enabled c (fst x) Ep (Hg _ Ep)) as [c' Hc]. eauto.
  - apply Hrun; auto. apply in_has_tag. auto.
Qed.

Lemma nil_or_in : forall (A : Type) (l : list A), l = [] \/ exists x, In x l.
Proof. intros A [|x l]; [left; auto|right; exists x; left; auto]. Qed.

Lemma no_stuck_partial : forall st ow us c,
  reach st ow us c -> no_dead_items c -> (forall l c', ~ step c l c') -> quiescent c.
Proof.
  intros st ow us c Hr (D1 & D2 & D3 & D4) Hstuck.
  pose proof (init_has_goroutine_reach _ _ _ _ Hr) as Hg.
  assert (Hno : forall P : Prop, (exists lb c', step c lb c') -> P).
  { intros P (lb & c' & Hs). exfalso. eapply Hstuck; eauto. }
  unfold quiescent. repeat split.
  - destruct (c_hjoin c) eqn:E; auto. apply Hno.
    destruct (hubjoin_enabled c) as [c' Hc]; [congruence|eauto].
  - destruct (c_hunreg c) eqn:E; auto. apply Hno.
    destruct (hubunreg_enabled c) as [c' Hc]; [congruence|eauto].
  - destruct (nil_or_in _ (c_inits c)) as [E|[x Hin]]; auto. apply Hno.
    destruct (initdone_enabled c (fst x) (D1 _ Hin) (in_has_tag _ _ _ Hin)) as [c' Hc]. eauto.
  - destruct (nil_or_in _ (c_treg c)) as [E|[x Hin]]; auto. apply Hno.
    eapply (tagged_item_progress c Hg _ _ x Hin (D2 _ Hin)).
    intros Hp Ht. destruct (topicreg_enabled c _ Hp Ht) as [c' Hc]. eauto.
  - destruct (nil_or_in _ (c_tunreg c)) as [E|[x Hin]]; auto. apply Hno.
    eapply (tagged_item_progress c Hg _ _ x Hin (D3 _ Hin)).
    intros Hp Ht. destruct (topicunreg_enabled c _ Hp Ht) as [c' Hc]. eauto.
  - destruct (nil_or_in _ (c_texit c)) as [E|[x Hin]]; auto. apply Hno.
    eapply (tagged_item_progress c Hg _ _ x Hin (D4 _ Hin)).
    intros Hp Ht. destruct (topicexit_enabled c _ Hp Ht) as [c' Hc]. eauto.
  - intros s. destruct (s_detachq (c_sess c s)) eqn:E; auto. apply Hno.
    destruct (sessdetach_enabled c s) as [c' Hc]; [congruence|eauto].
Qed.

(* The lost leave: the topic exits while the session still holds its subscription (the detach
   notice is waiting in Session.detach); the session's {leave} goes to the unreg channel of the
   instance whose run loop has returned.  Nothing is enabled any more, yet the request is still
   queued and the session's in-flight semaphore stays taken. *)
Definition lost_leave_trace : list label :=
  [ClientSub 1 1 false; HubJoin; InitDone 0 true; TopicReg 0 true;
   ClientDel 2 1; HubUnreg true; TopicExit 0; ClientLeave 1 1 false false; SessDetach 1].

Lemma lost_leave_stuck :
  exists c, run lost_leave_trace (init_config ex_stored ex_owner ex_user ex_chan) = Some c /\
            c_tunreg c <> [] /\ s_inflight (c_sess c 1) = 1 /\
            c_hjoin c = [] /\ c_hunreg c = [] /\ c_inits c = [] /\ c_treg c = [] /\ c_texit c = [] /\
            i_phase (c_inst c 0) = PDead /\ (forall x, In x (c_tunreg c) -> fst x = 0).
Proof.
  eexists. split; [vm_compute; reflexivity|]. simpl.
  repeat split; try discriminate; auto.
  intros x [<-|[]]. reflexivity.
Qed.
