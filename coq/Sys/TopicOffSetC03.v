(* C03, strengthening s03c.  Definitions only.

   (1) server/hub.go replyOfflineTopicSetSub COMPLETE: the {set} of a session that is NOT attached to
       the topic, carrying desc.private and/or sub.mode in ONE request, as a function from
       (stored subscription row, its stored Private, request, category of RcptTo) to (reply, update map):

         if (Desc == nil || Desc.Private == nil) && (Sub == nil || Sub.Mode == "")  -> 304
         if Sub != nil && Sub.User != "" && Sub.User != msg.AsUser                   -> 403
         sub, err := store.Subs.Get(topic, asUid, false)       err -> 500, nil -> 404
         update := {}                                                    [off_private_c03]
         if Desc.Private != nil: not a map -> update = {Private: value}
                                 a map     -> merged, changed := mergeInterfaces(sub.Private, map);
                                              if changed: update = {Private: merged}
         if Sub.Mode != "":                                              [off_decide_c03]
             UnmarshalText error -> decodeStoreError = 500
             modeWant.IsOwner() != sub.ModeWant.IsOwner() -> 403          (the O-bit rule)
             GetTopicCat(RcptTo) == P2P: modeWant = modeWant & ModeCP2P | ModeApprove
             if modeWant != sub.ModeWant: update["ModeWant"] = modeWant
         if len(update) > 0: store.Subs.Update: err -> 500; else 200, with params.acs iff
                             update["ModeWant"] != nil
         else 304

       The values of Private are modelled as far as utils.go mergeInterfaces/mergeMaps distinguishes
       them for a request whose map has leaf values: nil, a leaf (anything that is not a
       map[string]any: stored as is), a flat map key -> leaf token; an entry of the request's map is
       a leaf (set), the string "␡" (delete the key) or a JSON null (ignored).

   (2) server/topic.go evictUser / remSession: the loop over the attached sessions, each one tested
       on the user it is ATTACHED AS (perSessionData.uid); and the requests of ROOT sessions on behalf
       of another user (Sys/TopicOboC04.v: Session.dispatch's extra.obo) around the lifecycle model
       Sys/TopicLife.v, so that the C03 histories contain them.

   The wrapper state adds the stored Private of every subscription row to TopicLife.xstate. *)
From Coq Require Import ZArith NArith List Bool.
From Tinode Require Import Base.Util Pure.Acs Sys.Topic Sys.TopicInst Sys.TopicLife Sys.TopicHist Sys.TopicOboC04.
Import ListNotations.
Open Scope Z_scope.

(* ------------------------------------------------------------------ *)
(* Private values *)
Inductive pval_c03 := PvNil | PvLeaf (t : N) | PvMap (m : list (N * N)).
Inductive pent_c03 := PeVal (t : N) | PeDel | PeNull.
Inductive preq_c03 := PrNil | PrLeaf (t : N) | PrMap (m : list (N * pent_c03)).

(* utils.go mergeMaps on a flat map (keys of the request distinct: a JSON object) *)
Fixpoint merge_map_c03 (dst : list (N * N)) (src : list (N * pent_c03)) : list (N * N) * bool :=
  match src with
  | [] => (dst, false)
  | (k, e) :: r =>
    let '(d1, ch1) := match e with
                      | PeVal t => (aset k t dst, true)
                      | PeDel => (aremove k dst, true)
                      | PeNull => (dst, false)
                      end in
    let '(d2, ch2) := merge_map_c03 d1 r in (d2, ch1 || ch2)
  end.

(* the Private part of the update map: None = no "Private" key *)
Definition off_private_c03 (stored : pval_c03) (p : preq_c03) : option pval_c03 :=
  match p with
  | PrNil => None
  | PrLeaf t => Some (PvLeaf t)
  | PrMap m =>
    let '(d, ch) := merge_map_c03 (match stored with PvMap d0 => d0 | _ => [] end) m in
    if ch then Some (PvMap d) else None
  end.

(* the request: sub.user (0 = absent), sub.mode ([] = absent or ""), desc.private *)
Record offreq_c03 := mkOffReq { or_target : N; or_mode : list N; or_priv : preq_c03 }.

(* the update map *)
Record offupd_c03 := mkOffUpd { ou_priv : option pval_c03; ou_want : option N }.
Definition offupd_empty_c03 (up : offupd_c03) : bool :=
  match ou_priv up, ou_want up with None, None => true | _, _ => false end.

Definition ModeCP2P_c03 : N := 31%N.      (* JRWPA *)

(* what the mode part asks to store: types.AccessMode.UnmarshalText into a zero value, the O-bit
   rule against the stored want, the p2p mask.  inl = error code *)
Definition off_want_c03 (p2p : bool) (stored_want : N) (mode : list N) : Z + N :=
  let '(mw, okw) := unmarshal_text 0%N mode in
  if negb okw then inl 500 else
  if negb (Bool.eqb (is_owner mw) (is_owner stored_want)) then inl 403 else
  inr (if p2p then N.lor (N.land mw ModeCP2P_c03) mA else mw).

(* (stored row, stored Private, request) -> error code | update map *)
Definition off_decide_c03 (p2p : bool) (r : subrow) (pv : pval_c03) (q : offreq_c03) : Z + offupd_c03 :=
  let up0 := off_private_c03 pv (or_priv q) in
  match or_mode q with
  | [] => inr (mkOffUpd up0 None)
  | mode =>
    match off_want_c03 p2p (s_want r) mode with
    | inl code => inl code
    | inr mw => inr (mkOffUpd up0 (if (mw =? s_want r)%N then None else Some mw))
    end
  end.

Record offres_c03 := mkOffRes { of_st : store; of_priv : pval_c03; of_n : nat; of_out : out }.

(* replyOfflineTopicSetSub *)
Definition offline_set_c03 (f : fault) (p2p : bool) (s : store) (pv : pval_c03) (sid u : N) (q : offreq_c03) : offres_c03 :=
  let reply n code := mkOffRes s pv n [(sid, Ctrl code [])] in
  if (match or_priv q with PrNil => true | _ => false end) && (match or_mode q with [] => true | _ => false end)
  then reply O 304 else
  if negb (or_target q =? 0)%N && negb (N.eqb (or_target q) u) then reply O 403 else
  let '(ok1, n1) := call f 0 in                        (* Subs.Get(topic, uid, false) *)
  if negb ok1 then reply n1 500 else
  match ad_sub_get s u false with
  | None => reply n1 404
  | Some r =>
    match off_decide_c03 p2p r pv q with
    | inl code => reply n1 code
    | inr up =>
      if offupd_empty_c03 up then reply n1 304 else
      let '(ok2, n2) := call f n1 in                   (* Subs.Update(topic, uid, update) *)
      if negb ok2 then reply n2 500 else
      mkOffRes (match ou_want up with
                | Some mw => ad_subs_update s u (mkUpd (Some mw) None None None None)
                | None => s
                end)
               (match ou_priv up with Some v => v | None => pv end)
               n2
               [(sid, match ou_want up with
                      | Some mw => CtrlAcs 200 0%N mw (s_given r)
                      | None => Ctrl 200 []
                      end)]
    end
  end.

(* the reply is not an error: {ctrl 200} (with or without params.acs) or {ctrl 304} *)
Definition off_acked_c03 (r : offres_c03) : bool :=
  match of_out r with
  | [(_, Ctrl code _)] => code <? 400
  | [(_, CtrlAcs code _ _ _)] => code <? 400
  | _ => false
  end.

(* ------------------------------------------------------------------ *)
(* evictUser's loop over t.sessions with remSession (ordinary sessions: no muids) *)
Definition sesslist_c03 := list (N * (N * bool)).

(* remSession(sess, asUid): (pssd, removed) and the sessions afterwards *)
Definition rem_session_c03 (l : sesslist_c03) (sid asu : N) : option ((N * bool) * bool) * sesslist_c03 :=
  match alookup sid l with
  | None => (None, l)
  | Some pssd =>
    if N.eqb (fst pssd) asu || (asu =? 0)%N then (Some (pssd, true), aremove sid l)
    else (None, l)
  end.

(* for s := range t.sessions { if pssd, removed := t.remSession(s, uid); pssd != nil { detach; if s.sid != skip { queueOut(evicted) } } } *)
Fixpoint evict_loop_c03 (keys : list N) (l : sesslist_c03) (u skip : N) (unsub : bool) : sesslist_c03 * out :=
  match keys with
  | [] => (l, [])
  | sid :: r =>
    match rem_session_c03 l sid u with
    | (Some _, l1) =>
      let '(l2, o2) := evict_loop_c03 r l1 u skip unsub in
      (l2, (if N.eqb sid skip then [] else [(sid, Evicted unsub)]) ++ o2)
    | (None, l1) => evict_loop_c03 r l1 u skip unsub
    end
  end.
Definition evict_sessions_c03 (l : sesslist_c03) (u skip : N) (unsub : bool) : sesslist_c03 * out :=
  evict_loop_c03 (map fst l) l u skip unsub.

(* no session attached as [u] *)
Definition none_attached_as_c03 (c : cache) (u : N) : bool :=
  forallb (fun e => negb (N.eqb (fst (snd e)) u)) (c_sess c).

(* ------------------------------------------------------------------ *)
(* the wrapper state: TopicLife.xstate + the stored Private of the rows of the group topic and of
   every peer-to-peer topic *)
Record ozstate_c03 := mkOZ {
  oz_x : xstate;
  oz_gpriv : list (N * pval_c03);                (* group topic: user -> Private *)
  oz_ppriv : list (list (N * pval_c03)) }.       (* k-th p2p topic: user -> Private *)

Definition get_priv_c03 (l : list (N * pval_c03)) (u : N) : pval_c03 :=
  match alookup u l with Some v => v | None => PvNil end.

Inductive ozev_c03 :=
| ZX (e : xev)                                          (* an event of Sys/TopicLife.v *)
| ZObo (ob : obo_c04) (f : fault) (o : op)              (* a request to the group topic through Session.dispatch with extra.obo / from a root session *)
| ZSet (f : fault) (sid : N) (q : offreq_c03)           (* {set desc.private sub} to the group topic *)
| ZSetP2P (k : nat) (f : fault) (sid : N) (q : offreq_c03).   (* the same to the k-th peer-to-peer topic *)

Section OZ.
Variable dr : Z -> list (Z * Z) -> option (list (Z * Z)).
Variable nr : list (Z * Z) -> list (Z * Z).
Variable sm : sessmap.
Variable roots : list N.

Definition oz_set_x (x : xstate) (z : ozstate_c03) : ozstate_c03 := mkOZ x (oz_gpriv z) (oz_ppriv z).

(* a request on behalf: the requests of a root session that the group model covers (Sys/TopicOboC04.v), plus
   {leave} on behalf of a user other than the one the session is attached as:
     unsub=false: remSession(sess, asUid) finds no such user -> nothing happens, no reply;
     unsub=true:  replyLeaveUnsub(sess, msg, asUid) works on asUid throughout *)
Definition root_leave_other_c03 (x : xstate) (sid u : N) (o : op) : bool :=
  match o, ca (xb x) with
  | OLeave _ _, Some c => match alookup sid (c_sess c) with Some (a, _) => negb (N.eqb a u) | None => false end
  | _, _ => false
  end.

Definition obo_step_c03 (x : xstate) (ob : obo_c04) (f : fault) (o : op) : option (xstate * out) :=
  let sid := TopicLife.op_sid o in
  let in_window_pub := match x_del x, o with Some _, OPub _ _ _ => true | _, _ => false end in
  match dispatch_as_c04 sm roots sid ob with
  | inr code =>
    (* Session.dispatch answers; the request goes nowhere (a request other than {pub} first lets a held
       delete finish: the hub is free again before the driver sends anything) *)
    if in_window_pub then Some (set_b (mkState (st (xb x)) (ca (xb x)) 0) x, [(sid, Ctrl code [])])
    else let '(x1, o1) := del_finish x in
         Some (set_b (mkState (st (xb x1)) (ca (xb x1)) 0) x1, o1 ++ [(sid, Ctrl code [])])
  | inl u =>
    if is_root_c04 roots sid && negb in_window_pub && root_leave_other_c03 (fst (del_finish x)) sid u o then
      let '(x1, o1) := del_finish x in
      match o, ca (xb x1) with
      | OLeave _ true, Some c =>
        let h := leave_unsub f (st (xb x1)) c 0 sid u in
        let b1 := mkState (h_st h) (match f with CrashAt _ => None | _ => Some (h_ca h) end) (h_n h) in
        Some (after_crash f (set_b b1 x1), o1 ++ h_out h)
      | _, _ => Some (set_b (mkState (st (xb x1)) (ca (xb x1)) 0) x1, o1)
      end
    else if is_root_c04 roots sid && negb (root_req_ok_c04 (xb (fst (del_finish x))) sid u ob o) then None
    else Some (xstep dr nr (sm_as_c04 sm sid u) x (EBase f o))
  end.

Definition set_nth_priv_c03 (k : nat) (v : list (N * pval_c03)) (l : list (list (N * pval_c03))) : list (list (N * pval_c03)) :=
  upd_nth k v l.

Definition ozstep_c03 (z : ozstate_c03) (e : ozev_c03) : option (ozstate_c03 * out) :=
  let x := oz_x z in
  match e with
  | ZX e' => let '(x1, o1) := xstep dr nr sm x e' in Some (oz_set_x x1 z, o1)
  | ZObo ob f o =>
    match obo_step_c03 x ob f o with
    | Some (x1, o1) => Some (oz_set_x x1 z, o1)
    | None => None
    end
  | ZSet f sid q =>
    let '(x1, o1) := del_finish x in
    let u := sess_uid sm sid in
    if x_attached x1 sid then
      (* the topic's own handler: modelled (Sys/Topic.v set_sub) for a request without desc *)
      match or_priv q with
      | PrNil => let '(x2, o2) := xstep dr nr sm x1 (EBase f (OSetSub sid (or_target q) (or_mode q))) in
                 Some (oz_set_x x2 z, o1 ++ o2)
      | _ => None
      end
    else
      let r := offline_set_c03 f false (st (xb x1)) (get_priv_c03 (oz_gpriv z) u) sid u q in
      let x2 := after_crash f (set_b (mkState (of_st r) (ca (xb x1)) (of_n r)) x1) in
      Some (mkOZ x2 (aset u (of_priv r) (oz_gpriv z)) (oz_ppriv z), o1 ++ of_out r)
  | ZSetP2P k f sid q =>
    let '(x1, o1) := del_finish x in
    let u := sess_uid sm sid in
    match nth_error (x_p2p x1) k with
    | None => Some (oz_set_x x1 z, o1)
    | Some p =>
      if (u =? 0)%N || negb (p2p_party p u) then Some (oz_set_x x1 z, o1) else
      if pt_attached p sid then None else
      let pl := nth k (oz_ppriv z) [] in
      let r := offline_set_c03 f true (st (pt_b p)) (get_priv_c03 pl u) sid u q in
      let p1 := mkPT (mkState (of_st r) (ca (pt_b p)) (of_n r)) (pt_ro p) in
      let x2 := after_crash f (set_p2p (upd_nth k p1 (x_p2p x1)) x1) in
      Some (mkOZ x2 (oz_gpriv z) (set_nth_priv_c03 k (aset u (of_priv r) pl) (oz_ppriv z)), o1 ++ of_out r)
    end
  end.

Fixpoint ozrun_c03 (z : ozstate_c03) (h : list ozev_c03) : option (ozstate_c03 * list out) :=
  match h with
  | [] => Some (z, [])
  | e :: r =>
    match ozstep_c03 z e with
    | None => None
    | Some (z1, o1) =>
      match ozrun_c03 z1 r with
      | None => None
      | Some (z2, os) => Some (z2, o1 :: os)
      end
    end
  end.
End OZ.

Definition ozinit_c03 (x : xstate) : ozstate_c03 := mkOZ x [] (map (fun _ => []) (x_p2p x)).

Definition ozstep_i_c03 := ozstep_c03 del_ranges_i norm_ranges_i.
