(* C08 (strengthening s08c): an acknowledged access mode is the stored access mode.
   Every {ctrl 200 params.acs=want/given} a {sub} / {set sub} request produces names exactly the
   want and given of the stored, live subscription row of the user it is about - on every
   branch of thisUserSub / anotherUserSub / replyOfflineTopicSetSub, under every fault plan
   that the coherence theorem admits.  In particular the self-raise branches (an approver or
   owner asking beyond his own grant) write the raised grant. *)
From Coq Require Import ZArith NArith List Bool Lia.
From Tinode Require Import Base.Util Pure.Acs Sys.Topic Sys.TopicTac Sys.TopicFrame Sys.TopicNum Sys.TopicNumThm
  Sys.TopicCohC08 Sys.TopicCohC08Proofs Sys.TopicCohC08Step Sys.TopicCohC08Run Sys.PermBranchC08c.
Import ListNotations.
Open Scope Z_scope.

(* the user a {ctrl 200 params.acs} reply to request [o] is about: the named user, or the requester *)
Definition acs_subject_c08c (sm : sessmap) (o : op) (named : N) : N :=
  if (named =? 0)%N then sess_uid sm (op_sid o) else named.

Definition cached_acs_c08c (c : cache) (v w g : N) : Prop :=
  exists p, alookup v (c_users c) = Some p /\ p_want p = w /\ p_given p = g.
Definition stored_acs_c08c (s : store) (v w g : N) : Prop :=
  exists r, find_sub v (subs s) = Some r /\ s_deleted r = false /\ s_want r = w /\ s_given r = g.

Lemma coh_cached_stored_c08c s c v w g : coh s c -> cached_acs_c08c c v w g -> stored_acs_c08c s v w g.
Proof.
  intros C [p [L [W G]]]. pose proof (coh_at _ _ v C) as A. rewrite L in A.
  destruct A as [r [F [D [A1 [A2 _]]]]]. exists r. repeat split; congruence.
Qed.

Lemma cached_aset_c08c c u p : cached_acs_c08c (c_set_users (aset u p) c) u (p_want p) (p_given p).
Proof. exists p. cbn [c_users c_set_users]. rewrite alookup_aset, N.eqb_refl. auto. Qed.

Lemma evict_cached_c08c c u k c' o v w g :
  evict_user c u false k = (c', o) -> cached_acs_c08c c v w g -> cached_acs_c08c c' v w g.
Proof.
  intros HE [p [L [W G]]]. destruct (evict_core _ _ _ _ _ _ HE) as [_ [_ [_ [_ [_ E]]]]]. specialize (E v).
  cbn [andb] in E. rewrite L in E. destruct (alookup v (c_users c')) as [p'|] eqn:L'; [|discriminate].
  cbn [option_map] in E. unfold core in E. inversion E. exists p'. repeat split; congruence.
Qed.

(* evictUser sends only {ctrl 205 evicted} frames *)
Lemma evict_out_c08c c u unsub k c' o e : evict_user c u unsub k = (c', o) -> In e o -> exists b, snd e = Evicted b.
Proof.
  unfold evict_user. intros H. inv H. intros I. apply in_flat_map in I. destruct I as [x [_ I]].
  destruct (N.eqb (fst x) k); [destruct I|]. destruct I as [<-|[]]. eexists. reflexivity.
Qed.

Definition only_evicted_c08c (o : out) : Prop := forall e, In e o -> exists b, snd e = Evicted b.
Lemma only_evicted_nil_c08c : only_evicted_c08c []. Proof. intros e []. Qed.

(* ------------------------------------------------------------------ *)
(* thisUserSub *)
Lemma tus_finish_ack_c08c u nb w1 g1 ow og s3 c3 n3 :
  only_evicted_c08c (h_out (fst (tus_finish u nb w1 g1 ow og s3 c3 n3))) /\
  forall w g, snd (tus_finish u nb w1 g1 ow og s3 c3 n3) = SubOk (Some (w, g)) ->
    cached_acs_c08c (h_ca (fst (tus_finish u nb w1 g1 ow og s3 c3 n3))) u w g.
Proof.
  unfold tus_finish.
  pose proof (cached_aset_c08c c3 u (p_set_modes w1 g1 (get_pud c3 u))) as CA. cbn [p_want p_given p_set_modes] in CA.
  destruct (negb (is_joiner w1)).
  - destruct (evict_user _ u false 0) as [c5 o5] eqn:HE. cbn [fst snd h_ca h_out]. split.
    + intros e I. eapply evict_out_c08c; eassumption.
    + intros w g H. destruct (nb || _); inv H. eapply evict_cached_c08c; eassumption.
  - destruct (negb (is_joiner g1)); cbn [fst snd h_ca h_out]; (split; [apply only_evicted_nil_c08c|]).
    + discriminate.
    + intros w g H. destruct (nb || _); inv H. exact CA.
Qed.

Lemma tus_ack_c08c f s c n sid u want nb :
  only_evicted_c08c (h_out (fst (this_user_sub f s c n sid u want nb))) /\
  forall w g, snd (this_user_sub f s c n sid u want nb) = SubOk (Some (w, g)) ->
    cached_acs_c08c (h_ca (fst (this_user_sub f s c n sid u want nb))) u w g.
Proof.
  rewrite tus_unfold.
  destruct (match want with [] => (ModeUnset, true) | _ => unmarshal_text ModeUnset want end) as [mw okw].
  destruct (negb okw); [split; [apply only_evicted_nil_c08c|discriminate]|].
  destruct (alookup u (c_users c)) as [p0|] eqn:L.
  - unfold tus_existing. destruct (tus_chk c u mw p0) as [[[mw1 g1] oc]|]; [|split; [apply only_evicted_nil_c08c|discriminate]].
    match goal with |- context [if ?b then call f n else (true, n)] => destruct (if b then call f n else (true, n)) as [ok1 n1] end.
    destruct (negb ok1); [split; [apply only_evicted_nil_c08c|discriminate]|].
    destruct oc; [|apply tus_finish_ack_c08c].
    destruct (call f n1) as [ok2 n2]. destruct (negb ok2); [split; [apply only_evicted_nil_c08c|discriminate]|].
    destruct (call f n2) as [ok3 n3]. destruct (negb ok3); [split; [apply only_evicted_nil_c08c|discriminate]|].
    apply tus_finish_ack_c08c.
  - unfold tus_new. destruct (max_subs <=? Z.of_nat (length (c_users c))); [split; [apply only_evicted_nil_c08c|discriminate]|].
    destruct (call f n) as [ok1 n1]. destruct (negb ok1); [split; [apply only_evicted_nil_c08c|discriminate]|].
    match goal with |- context [if negb (is_joiner ?g) then _ else _] => destruct (negb (is_joiner g)); [split; [apply only_evicted_nil_c08c|discriminate]|] end.
    match goal with |- context [if ?b then call f n1 else (true, n1)] => destruct (if b then call f n1 else (true, n1)) as [ok2 n2] end.
    destruct (negb ok2); [split; [apply only_evicted_nil_c08c|discriminate]|].
    match goal with |- context [aset u (mkPud ?w ?g 0 0 0 0)] =>
      pose proof (cached_aset_c08c c u (mkPud w g 0 0 0 0)) as CA; cbn [p_want p_given] in CA end.
    match goal with |- context [if negb (is_joiner ?g) then _ else _] => destruct (negb (is_joiner g)) end.
    + destruct (evict_user _ u false 0) as [c3 o3] eqn:HE. cbn [fst snd h_ca h_out]. split.
      * intros e I. eapply evict_out_c08c; eassumption.
      * intros w g H. destruct (nb || _); inv H. eapply evict_cached_c08c; eassumption.
    + cbn [fst snd h_ca h_out]. split; [apply only_evicted_nil_c08c|].
      intros w g H. destruct (nb || _); inv H. exact CA.
Qed.

(* ------------------------------------------------------------------ *)
(* anotherUserSub *)
Lemma aus_ack_c08c f s c n sid u target mode :
  only_evicted_c08c (h_out (fst (another_user_sub f s c n sid u target mode))) /\
  forall w g, snd (another_user_sub f s c n sid u target mode) = SubOk (Some (w, g)) ->
    cached_acs_c08c (h_ca (fst (another_user_sub f s c n sid u target mode))) target w g.
Proof.
  unfold another_user_sub.
  repeat break_match; cbn [fst snd h_ca h_out]; (split; [try apply only_evicted_nil_c08c|try discriminate]).
  all: repeat match goal with H : (_, _) = (_, _) |- _ => inv H end.
  all: try (intros e I; eapply evict_out_c08c; eassumption).
  all: intros w g H; inv H.
  all: try (eapply evict_cached_c08c; [eassumption|]).
  all: match goal with |- cached_acs_c08c (c_set_users (aset ?t ?p) ?c0) ?t _ _ =>
         pose proof (cached_aset_c08c c0 t p) as CA; cbn [p_want p_given p_set_modes] in CA; exact CA end.
Qed.

(* ------------------------------------------------------------------ *)
(* the replies of {sub} and {set sub} handled by a loaded topic *)
Lemma in_app_single_c08c (o : out) e x : In e (o ++ [x]) -> In e o \/ e = x.
Proof. intros I. apply in_app_or in I. destruct I as [I|[I|[]]]; auto. Qed.

Lemma sub_reply_ack_c08c f s c n sid u want bkg sid' named w g :
  In (sid', CtrlAcs 200 named w g) (h_out (sub_reply f s c n sid u want bkg)) ->
  named = 0%N /\ sid' = sid /\ cached_acs_c08c (h_ca (sub_reply f s c n sid u want bkg)) u w g.
Proof.
  unfold sub_reply.
  destruct (tus_ack_c08c f s c n sid u want (match alookup u (c_users c) with Some _ => false | None => true end)) as [OE AK].
  destruct (this_user_sub f s c n sid u want _) as [h r]. cbn [fst snd] in *.
  destruct r as [code|ch]; cbn [h_out h_ca]; intros I; apply in_app_or in I.
  - destruct I as [I|I]; [destruct (OE _ I) as [b E]; discriminate E|].
    destruct (code =? 0); [destruct I|]. destruct I as [I|[]]. discriminate I.
  - destruct I as [I|I]; [destruct (OE _ I) as [b E]; discriminate E|].
    destruct I as [I|[]]. destruct ch as [[w0 g0]|]; [|discriminate I]. injection I as E1 E2 E3 E4. subst sid' named w0 g0.
    split; [reflexivity|]. split; [reflexivity|].
    specialize (AK _ _ eq_refl). destruct AK as [p [L [W G]]].
    destruct (is_joiner (N.land g w)); [|exists p; auto].
    destruct bkg.
    + exists p. cbn [c_users c_set_sess]. auto.
    + assert (get_pud (c_set_sess (aset sid (u, false)) (h_ca h)) u = p) as GP by (unfold get_pud; cbn [c_users c_set_sess]; rewrite L; reflexivity).
      rewrite GP. eexists. cbn [c_users c_set_users c_set_sess]. rewrite alookup_aset, N.eqb_refl. split; [reflexivity|].
      cbn [p_want p_given p_set_online]. auto.
Qed.

Lemma set_sub_ack_c08c f s c n sid u target mode sid' named w g :
  In (sid', CtrlAcs 200 named w g) (h_out (set_sub f s c n sid u target mode)) ->
  sid' = sid /\
  cached_acs_c08c (h_ca (set_sub f s c n sid u target mode)) (if (named =? 0)%N then u else named) w g.
Proof.
  unfold set_sub.
  destruct ((target =? 0)%N || (target =? u)%N) eqn:SELF.
  - destruct (tus_ack_c08c f s c n sid u mode false) as [OE AK].
    destruct (this_user_sub f s c n sid u mode false) as [h r]. cbn [fst snd] in *.
    destruct r as [code|ch]; cbn [h_out h_ca]; intros I; apply in_app_or in I.
    + destruct I as [I|I]; [destruct (OE _ I) as [b E]; discriminate E|].
      destruct (code =? 0); [destruct I|]. destruct I as [I|[]]. discriminate I.
    + destruct I as [I|I]; [destruct (OE _ I) as [b E]; discriminate E|].
      destruct I as [I|[]]. destruct ch as [[w0 g0]|]; [|discriminate I]. injection I as E1 E2 E3 E4. subst sid' named w0 g0.
      split; [reflexivity|]. cbn. apply AK. reflexivity.
  - apply orb_false_iff in SELF. destruct SELF as [T0 _].
    destruct (aus_ack_c08c f s c n sid u target mode) as [OE AK].
    destruct (another_user_sub f s c n sid u target mode) as [h r]. cbn [fst snd] in *.
    destruct r as [code|ch]; cbn [h_out h_ca]; intros I; apply in_app_or in I.
    + destruct I as [I|I]; [destruct (OE _ I) as [b E]; discriminate E|].
      destruct (code =? 0); [destruct I|]. destruct I as [I|[]]. discriminate I.
    + destruct I as [I|I]; [destruct (OE _ I) as [b E]; discriminate E|].
      destruct I as [I|[]]. destruct ch as [[w0 g0]|]; [|discriminate I]. injection I as E1 E2 E3 E4. subst sid' named w0 g0.
      split; [reflexivity|]. rewrite T0. apply AK. reflexivity.
Qed.

(* replyOfflineTopicSetSub: the acknowledged want is written, the acknowledged given is the stored one *)
Lemma offline_set_sub_ack_c08c f s sid u target mode sid' named w g :
  u <> 0%N ->
  In (sid', CtrlAcs 200 named w g) (o_out (offline_set_sub f s sid u target mode)) ->
  named = 0%N /\ sid' = sid /\ stored_acs_c08c (o_st (offline_set_sub f s sid u target mode)) u w g.
Proof.
  intros NZ. unfold offline_set_sub. destruct mode as [|m0 ml]; [intros [I|[]]; discriminate I|].
  destruct (negb (target =? 0)%N && negb (target =? u)%N); [intros [I|[]]; discriminate I|].
  destruct (call f 0) as [ok1 n1]. destruct (negb ok1); [intros [I|[]]; discriminate I|].
  destruct (ad_sub_get s u false) as [r0|] eqn:SG; [|intros [I|[]]; discriminate I].
  destruct (unmarshal_text 0%N (m0 :: ml)) as [mw okw]. destruct (negb okw); [intros [I|[]]; discriminate I|].
  destruct (negb (Bool.eqb (is_owner mw) (is_owner (s_want r0)))); [intros [I|[]]; discriminate I|].
  destruct (mw =? s_want r0)%N; [intros [I|[]]; discriminate I|].
  destruct (call f n1) as [ok2 n2]. destruct (negb ok2); [intros [I|[]]; discriminate I|].
  cbn [o_out o_st]. intros [I|[]]. inv I. split; [reflexivity|]. split; [reflexivity|].
  unfold ad_sub_get in SG. destruct (find_sub u (subs s)) as [r|] eqn:F; [|discriminate].
  destruct (s_deleted r && negb false) eqn:D; [discriminate|]. inv SG.
  rewrite andb_true_r in D.
  unfold stored_acs_c08c. rewrite row_subs_update, (eqb0 _ NZ), N.eqb_refl, F. cbn [orb option_map].
  eexists. split; [reflexivity|]. cbn. auto.
Qed.

(* ------------------------------------------------------------------ *)
(* ONE STEP: every {ctrl 200 acs} of a {sub} / {set sub} request names the stored modes *)
Section StepAck.
Variable dr : Z -> list (Z * Z) -> option (list (Z * Z)).
Variable nr : list (Z * Z) -> list (Z * Z).
Variable sm : sessmap.

Definition is_perm_req_c08c (o : op) : bool :=
  match o with OSub _ _ _ | OSetSub _ _ _ => true | _ => false end.

Theorem step_acs_ack_stored_c08c f x o sid named w g :
  inv x -> known sm o -> fault_ok sm f x o -> is_perm_req_c08c o = true ->
  In (sid, CtrlAcs 200 named w g) (snd (step dr nr sm f x o)) ->
  sid = op_sid o /\
  stored_acs_c08c (st (fst (step dr nr sm f x o))) (acs_subject_c08c sm o named) w g.
Proof.
  intros IV KN FO PR.
  destruct o as [sd want bkg|sd unsub|sd content noecho|sd what seq|sd a b l|sd|sd|sd a b l|sd req hard|sd target mode|sd target| |];
    try discriminate PR; clear PR; cbn [known op_sid] in KN; cbn [fault_ok] in FO; unfold acs_subject_c08c; cbn [op_sid].
  - (* OSub *)
    unfold step.
    assert (forall c n, good3 (st x) c -> cur_cache x = c ->
              In (sid, CtrlAcs 200 named w g) (h_out (sub_reply f (st x) c n sd (sess_uid sm sd) want bkg)) ->
              sid = sd /\ stored_acs_c08c (h_st (sub_reply f (st x) c n sd (sess_uid sm sd) want bkg))
                                         (if (named =? 0)%N then sess_uid sm sd else named) w g) as SR.
    { intros c n G3 CC I. destruct (sub_reply_ack_c08c _ _ _ _ _ _ _ _ _ _ _ _ I) as [-> [-> CA]].
      split; [reflexivity|]. cbn [N.eqb].
      eapply coh_cached_stored_c08c; [|exact CA].
      apply (sub_reply_good f (st x) c n sd (sess_uid sm sd) want bkg G3 KN).
      rewrite CC in FO. destruct FO as [FO|FO]; [left; apply nofault_all; exact FO|right; exact FO]. }
    destruct (ca x) as [c|] eqn:CA.
    + destruct (attached c sd); cbn [snd fst st]; [intros [I|[]]; discriminate I|].
      apply SR; [apply inv_good; assumption|unfold cur_cache; rewrite CA; reflexivity].
    + destruct (try_load f (st x) 0) as [n1 [c|code]] eqn:TL; cbn [snd fst st]; [|intros [I|[]]; discriminate I].
      assert (c = load (st x)) as -> by (unfold try_load in TL; repeat break_match_hyp; inv TL; reflexivity).
      apply SR; [apply good_load, inv_wf, IV|unfold cur_cache; rewrite CA; reflexivity].
  - (* OSetSub *)
    unfold step.
    assert (forall I0 : In (sid, CtrlAcs 200 named w g) (o_out (offline_set_sub f (st x) sd (sess_uid sm sd) target mode)),
              sid = sd /\ stored_acs_c08c (o_st (offline_set_sub f (st x) sd (sess_uid sm sd) target mode))
                                         (if (named =? 0)%N then sess_uid sm sd else named) w g) as OFF.
    { intros I0. destruct (offline_set_sub_ack_c08c _ _ _ _ _ _ _ _ _ _ KN I0) as [-> [-> ST]]. split; [reflexivity|exact ST]. }
    destruct (ca x) as [c|] eqn:CA; cbn -[set_sub offline_set_sub]; [|exact OFF].
    destruct (attached c sd) eqn:AT; cbn -[set_sub offline_set_sub]; [|exact OFF].
    intros I. destruct (set_sub_ack_c08c _ _ _ _ _ _ _ _ _ _ _ _ I) as [-> CAk]. split; [reflexivity|].
    eapply coh_cached_stored_c08c; [|exact CAk].
    apply (set_sub_good f (st x) c 0 sd (sess_uid sm sd) target mode (inv_good _ _ IV CA) KN).
    unfold cur_cache in FO. rewrite CA in FO.
    destruct FO as [FO|FO]; [left; apply nofault_all; exact FO|right; exact FO].
Qed.
End StepAck.

(* ------------------------------------------------------------------ *)
(* the self-raise branches: an approver / owner who asks beyond his own grant is acknowledged
   with a grant that differs from the old one - and (step_acs_ack_stored_c08c) that grant is stored *)
Definition small_c08c (m : N) : Prop := N.land m 255 = m.

Lemma unmarshal_small_c08c cur b m : unmarshal_text cur b = (m, true) -> m = cur \/ small_c08c m.
Proof.
  unfold unmarshal_text. destruct (parse_acs b) as [m0|]; [|discriminate].
  destruct (m0 =? ModeUnset)%N; intros H; inv H; [left; reflexivity|right].
  unfold small_c08c, ModeBitmask. rewrite <- N.land_assoc. reflexivity.
Qed.

Lemma small_ldiff_c08c m d : small_c08c m -> small_c08c (N.ldiff m d).
Proof.
  unfold small_c08c. intros H. apply N.bits_inj. intros i.
  rewrite N.land_spec, !N.ldiff_spec. rewrite <- H at 2. rewrite N.land_spec.
  destruct (N.testbit m i), (N.testbit 255 i), (N.testbit d i); reflexivity.
Qed.

Lemma lor_same_better_c08c a m : small_c08c m -> N.lor a m = a -> better_equal a m = true.
Proof.
  unfold small_c08c, better_equal, ModeBitmask. intros S H. apply N.eqb_eq. apply N.bits_inj. intros i.
  assert (N.testbit (N.lor a m) i = N.testbit a i) as B by (rewrite H; reflexivity).
  assert (N.testbit (N.land m 255) i = N.testbit m i) as C by (rewrite S; reflexivity).
  rewrite N.lor_spec in B. rewrite N.land_spec in C. rewrite !N.land_spec.
  destruct (N.testbit a i), (N.testbit m i), (N.testbit 255 i); cbn in *; congruence.
Qed.

Lemma has_lor_c08c a m bit : has (N.lor a m) bit = has a bit || has m bit.
Proof.
  unfold has. rewrite N.land_lor_distr_l.
  destruct (N.eqb_spec (N.land a bit) 0) as [E1|E1]; destruct (N.eqb_spec (N.land m bit) 0) as [E2|E2]; cbn.
  - rewrite E1, E2. reflexivity.
  - apply negb_true_iff, N.eqb_neq. intros H. apply N.lor_eq_0_iff in H. tauto.
  - apply negb_true_iff, N.eqb_neq. intros H. apply N.lor_eq_0_iff in H. tauto.
  - apply negb_true_iff, N.eqb_neq. intros H. apply N.lor_eq_0_iff in H. tauto.
Qed.

Lemma is_joiner_ldiff_D_c08c m : is_joiner (N.ldiff m mD) = is_joiner m.
Proof.
  unfold is_joiner, has. f_equal. f_equal. apply N.bits_inj. intros i.
  rewrite !N.land_spec, N.ldiff_spec. unfold mJ, mD.
  destruct (N.eq_dec i 0) as [->|NE]; [cbn; rewrite andb_true_r; reflexivity|].
  assert (N.testbit 1 i = false) as T.
  { change 1%N with (N.ones 1). apply N.ones_spec_high. lia. }
  rewrite T, !andb_false_r. reflexivity.
Qed.

(* the conditions under which thisUserSub raises the requester's own grant *)
Lemma tus_raise_chk_c08c s c u mode p0 :
  alookup u (c_users c) = Some p0 ->
  is_raise_c08c (tus_branch_c08c s c u mode) = true ->
  exists mw g1 oc,
    (match mode with [] => (ModeUnset, true) | _ => unmarshal_text ModeUnset mode end) = (mw, true) /\
    (mw =? ModeUnset)%N = false /\
    tus_chk c u mw p0 = Some (mw, g1, oc) /\ (g1 =? p_given p0)%N = false /\
    (is_joiner mw = true -> is_joiner g1 = true).
Proof.
  intros L. unfold tus_branch_c08c, parse_mode_c08c. rewrite L.
  destruct (match mode with [] => (ModeUnset, true) | _ => unmarshal_text ModeUnset mode end) as [mw okw] eqn:PM.
  destruct okw; cbn [negb]; [|discriminate].
  assert (mw = ModeUnset \/ small_c08c mw) as SM.
  { destruct mode; [inv PM; left; reflexivity|]. eapply unmarshal_small_c08c. exact PM. }
  destruct (mw =? ModeUnset)%N eqn:MU.
  { repeat break_match; discriminate. }
  destruct SM as [SM|SM]; [rewrite SM in MU; discriminate|].
  destruct (N.eqb (c_owner c) u && (negb (is_owner mw) || negb (is_joiner mw))) eqn:OK; [discriminate|].
  destruct (is_owner (p_given p0)) eqn:OG.
  - destruct (is_owner mw && negb (better_equal (p_given p0) mw)) eqn:RS.
    + intros _. exists mw, (N.lor (p_given p0) mw), (is_owner mw && negb (is_owner (p_want p0))).
      split; [reflexivity|]. split; [exact MU|]. split; [unfold tus_chk; rewrite MU, OK, OG, RS; reflexivity|]. split.
      * apply andb_true_iff in RS. destruct RS as [_ RS]. apply negb_true_iff in RS.
        apply N.eqb_neq. intros E. rewrite (lor_same_better_c08c _ _ SM E) in RS. discriminate.
      * intros J. unfold is_joiner. rewrite has_lor_c08c. unfold is_joiner in J. rewrite J. apply orb_true_r.
    + destruct (is_owner mw && negb (is_owner (p_want p0))); [discriminate|].
      repeat break_match; discriminate.
  - destruct (is_owner mw) eqn:OM; [discriminate|].
    destruct (is_admin (p_given p0) && is_admin mw && negb (better_equal (p_given p0) (N.ldiff mw mD))) eqn:RS.
    + intros _. apply andb_true_iff in RS. destruct RS as [RA RS].
      exists mw, (N.lor (p_given p0) (N.ldiff mw mD)), false.
      split; [reflexivity|]. split; [exact MU|]. split; [unfold tus_chk; rewrite MU, OM, OK, OG, RA, RS; reflexivity|]. split.
      * apply negb_true_iff in RS. apply N.eqb_neq. intros E.
        rewrite (lor_same_better_c08c _ _ (small_ldiff_c08c _ mD SM) E) in RS. discriminate.
      * intros J. unfold is_joiner. rewrite has_lor_c08c. fold (is_joiner (N.ldiff mw mD)).
        rewrite is_joiner_ldiff_D_c08c, J. apply orb_true_r.
    + repeat break_match; discriminate.
Qed.

Lemma tus_raise_ok_c08c s c n u mode p0 sid nb :
  alookup u (c_users c) = Some p0 ->
  is_raise_c08c (tus_branch_c08c s c u mode) = true ->
  exists w g, snd (this_user_sub NoFault s c n sid u mode nb) = SubOk (Some (w, g)) /\ (g =? p_given p0)%N = false.
Proof.
  intros L R. destruct (tus_raise_chk_c08c s c u mode p0 L R) as [mw [g1 [oc [PM [MU [CHK [NG JG]]]]]]].
  rewrite tus_unfold, PM. cbn [negb]. rewrite L. unfold tus_existing. rewrite CHK.
  unfold tus_w1. rewrite MU. rewrite NG, andb_false_r. cbn [negb]. unfold call. cbn [fails negb].
  assert (forall s3 c3 n3, exists w g,
            snd (tus_finish u nb mw g1 (p_want p0) (p_given p0) s3 c3 n3) = SubOk (Some (w, g)) /\ (g =? p_given p0)%N = false) as FIN.
  { intros s3 c3 n3. unfold tus_finish. rewrite NG, andb_false_r, orb_true_r.
    destruct (is_joiner mw) eqn:J; cbn [negb].
    - rewrite (JG eq_refl). cbn [negb snd]. eauto.
    - destruct (evict_user _ u false 0). cbn [snd]. eauto. }
  destruct oc; apply FIN.
Qed.

Section RaiseStep.
Variable dr : Z -> list (Z * Z) -> option (list (Z * Z)).
Variable nr : list (Z * Z) -> list (Z * Z).
Variable sm : sessmap.

(* {set sub} of an attached approver / owner for himself, on a self-raise branch, without store faults:
   acknowledged with a grant different from the old one, and that grant is in the store *)
Theorem raise_setsub_stored_c08c x sd target mode c p0 :
  inv x -> sess_uid sm sd <> 0%N -> ca x = Some c -> attached c sd = true ->
  alookup (sess_uid sm sd) (c_users c) = Some p0 ->
  is_raise_c08c (perm_branch_c08c sm x (OSetSub sd target mode)) = true ->
  exists w g,
    In (sd, CtrlAcs 200 0%N w g) (snd (step dr nr sm NoFault x (OSetSub sd target mode))) /\
    g <> p_given p0 /\
    stored_acs_c08c (st (fst (step dr nr sm NoFault x (OSetSub sd target mode)))) (sess_uid sm sd) w g.
Proof.
  intros IV KN CA AT L R.
  assert (exists w g, In (sd, CtrlAcs 200 0%N w g) (snd (step dr nr sm NoFault x (OSetSub sd target mode))) /\ g <> p_given p0) as [w [g [I NE]]].
  { unfold perm_branch_c08c in R. rewrite CA, AT in R. unfold step. rewrite CA. cbn -[set_sub]. rewrite AT. cbn -[set_sub].
    unfold set_sub. destruct ((target =? 0)%N || (target =? sess_uid sm sd)%N).
    - destruct (tus_raise_ok_c08c (st x) c 0 (sess_uid sm sd) mode p0 sd false L R) as [w [g [E NG]]].
      destruct (this_user_sub NoFault (st x) c 0 sd (sess_uid sm sd) mode false) as [h r]. cbn [snd] in E. subst r.
      exists w, g. cbn [h_out]. split; [apply in_or_app; right; left; reflexivity|apply N.eqb_neq; exact NG].
    - exfalso. unfold aus_branch_c08c in R. repeat break_match_hyp; discriminate. }
  exists w, g. split; [exact I|]. split; [exact NE|].
  pose proof (step_acs_ack_stored_c08c dr nr sm NoFault x (OSetSub sd target mode) sd 0%N w g IV KN (or_introl eq_refl) eq_refl I) as [_ ST].
  exact ST.
Qed.

(* the same for {sub set.sub.mode} of a subscriber whose session is not yet attached *)
Theorem raise_sub_stored_c08c x sd want bkg c p0 :
  inv x -> sess_uid sm sd <> 0%N -> ca x = Some c -> attached c sd = false ->
  alookup (sess_uid sm sd) (c_users c) = Some p0 ->
  is_raise_c08c (perm_branch_c08c sm x (OSub sd want bkg)) = true ->
  exists w g,
    In (sd, CtrlAcs 200 0%N w g) (snd (step dr nr sm NoFault x (OSub sd want bkg))) /\
    g <> p_given p0 /\
    stored_acs_c08c (st (fst (step dr nr sm NoFault x (OSub sd want bkg)))) (sess_uid sm sd) w g.
Proof.
  intros IV KN CA AT L R.
  assert (exists w g, In (sd, CtrlAcs 200 0%N w g) (snd (step dr nr sm NoFault x (OSub sd want bkg))) /\ g <> p_given p0) as [w [g [I NE]]].
  { unfold perm_branch_c08c in R. rewrite CA, AT in R. unfold step. rewrite CA, AT. cbn [snd].
    unfold sub_reply. rewrite L.
    destruct (tus_raise_ok_c08c (st x) c 0 (sess_uid sm sd) want p0 sd false L R) as [w [g [E NG]]].
    destruct (this_user_sub NoFault (st x) c 0 sd (sess_uid sm sd) want false) as [h r]. cbn [snd] in E. subst r.
    exists w, g. cbn [h_out]. split; [apply in_or_app; right; left; reflexivity|apply N.eqb_neq; exact NG]. }
  exists w, g. split; [exact I|]. split; [exact NE|].
  pose proof (step_acs_ack_stored_c08c dr nr sm NoFault x (OSub sd want bkg) sd 0%N w g IV KN (or_introl eq_refl) eq_refl I) as [_ ST].
  exact ST.
Qed.
End RaiseStep.
