(* C16  Out-of-band files.  Definitions only (lemmas: Sys/FilesGateProofs.v, Sys/FilesStoreProofs.v).

   The model follows /repo AFTER the fix commits c986697 (largeFileReceive: a failed
   FinishUpload is answered 500 and the bytes are removed) and 560b667 (fs Download: only
   records in status 'completed' are served).  The code as it was before them is kept as
   [upload_body_unrepaired] / [upload_gate_unrepaired] / [download_unrepaired] and refuted in
   Props/PropC16.v.

   (a) the request gate of largeFileServe / largeFileReceive (server/hdl_files.go)
       in the code's order, above getAPIKey / getHttpAuth / authHttpRequest
       (server/http.go:302-400);
   (b) the disposition rule of largeFileServe (hdl_files.go:142-157);
   (c) the store slice for upload records, links and garbage collection with the
       semantics of db/mysql/adapter.go:3171-3396 (= harness memverif) and of the
       fs media handler (media/fs/filesys.go:68-141).

   Bytes are N, strings list N, HTTP statuses and times Z, ids N. *)
From Coq Require Import NArith ZArith List Bool.
From Tinode Require Import Pure.Url.
Import ListNotations.

(* ------------------------------------------------------------------ *)
(* (a) request gate                                                     *)

Inductive meth := MGet | MHead | MPost | MPut | MOptions | MDelete | MPatch | MOther.

(* what checkAPIKey does with the text found at one placement *)
Inductive key_kind :=
| KValid        (* signed with the server's salt *)
| KInvalid.     (* wrong length / not base64 / wrong version / wrong signature *)

(* what authHttpRequest + the authenticator do with the credential found at one placement *)
Inductive cred_kind :=
| CGood (uid : N)     (* authenticator returns this uid (0 = a token for the zero uid) *)
| CErr (status : Z)   (* base64 error / authenticator error, status by decodeStoreError *)
| CChallenge          (* authenticator answers with a challenge *)
| CUnknownScheme.     (* no such authenticator: logged, request continues unauthenticated *)

Inductive auth_outcome := AuthErr (status : Z) | AuthChallenge | AuthUid (uid : N).

Fixpoint first_some {A : Type} (l : list (option A)) : option A :=
  match l with
  | Some a :: _ => Some a
  | None :: r => first_some r
  | [] => None
  end.

(* getAPIKey: first non-empty of header, query, form, cookie; then checkAPIKey *)
Definition key_check (keys : list (option key_kind)) : bool :=
  match first_some keys with
  | Some KValid => true
  | Some KInvalid => false
  | None => false
  end.

(* getHttpAuth: X-Tinode-Auth, Authorization, query, form, cookie; a session id is
   consulted only when no placement names a method.  sid = the uid the session store yields
   for the sid parameter (None: no sid parameter; Some 0: no such session, or a session that
   has not logged in) *)
Definition auth_of (creds : list (option cred_kind)) (sid : option N) : auth_outcome :=
  match first_some creds with
  | Some (CGood u) => AuthUid u
  | Some (CErr c) => AuthErr c
  | Some CChallenge => AuthChallenge
  | Some CUnknownScheme => AuthUid 0
  | None => match sid with Some u => AuthUid u | None => AuthUid 0 end
  end.

(* media handler's Headers(): error (status by decodeStoreError) or a status, 0 = go on *)
Inductive hdr_outcome := HdrErr (status : Z) | HdrStatus (status : Z).

Inductive effect :=
| ENone       (* no store call, no file written, no bytes served *)
| EStored     (* record created and completed, bytes written *)
| EResidue    (* record left in status 'started' WITH its bytes (unrepaired handler only) *)
| EResidueNoBytes  (* record left in status 'started', its bytes removed: a failed upload *)
| EServed.    (* the bytes of an upload record sent *)

Inductive outcome :=
| Reply (status : Z) (e : effect)
| Crash (e : effect).     (* the handler panics: net/http drops the connection, no reply *)

Definition effect_of (o : outcome) : effect :=
  match o with Reply _ e => e | Crash e => e end.

Definition preflight (handler : bool) (hdr : hdr_outcome) : outcome :=
  if negb handler then Crash ENone
  else match hdr with
       | HdrErr c => Reply c ENone
       | HdrStatus c => Reply (if (c <=? 0)%Z then 204%Z else c) ENone
       end.

(* ---- download ---- *)
Record sreq := {
  s_meth : meth;
  s_keys : list (option key_kind);        (* header, query, (form = query for GET), cookie *)
  s_creds : list (option cred_kind);      (* X-Tinode-Auth, Authorization, query, form, cookie *)
  s_sid : option N;
  s_handler : bool;                       (* a media handler is configured *)
  s_hdr : hdr_outcome;
  s_found : bool                          (* Download(url) finds a record and its bytes *)
}.

Definition serve_gate (r : sreq) : outcome :=
  match s_meth r with
  | MOptions => preflight (s_handler r) (s_hdr r)
  | MGet | MHead =>
    if negb (key_check (s_keys r)) then Reply 403 ENone
    else
      match auth_of (s_creds r) (s_sid r) with
      | AuthErr c => Reply c ENone
      | AuthChallenge => Reply 300 ENone
      | AuthUid u =>
        if (u =? 0)%N then Reply 401 ENone
        else if negb (s_handler r) then Crash ENone
        else match s_hdr r with
             | HdrErr c => Reply c ENone
             | HdrStatus c =>
               if negb (c =? 0)%Z then Reply c ENone
               else match s_meth r with
                    | MHead => Reply 200 ENone
                    | _ => if s_found r then Reply 200 EServed else Reply 404 ENone
                    end
             end
      end
  | _ => Reply 405 ENone
  end.

(* ---- upload ---- *)
Inductive body :=
| BNone                                            (* no body / not multipart *)
| BForm (total : Z) (has_file : bool) (file_len : Z).   (* well-formed multipart form *)

Inductive fault :=
| FNone
| FCreate      (* os.Create fails *)
| FStart       (* store.Files.StartUpload fails *)
| FFinish.     (* store.Files.FinishUpload(ok) fails *)

Record ureq := {
  u_meth : meth;
  u_key_hdr : option key_kind; u_key_query : option key_kind;
  u_key_form : option key_kind; u_key_cookie : option key_kind;
  u_cred_xauth : option cred_kind; u_cred_authz : option cred_kind; u_cred_query : option cred_kind;
  u_cred_form : option cred_kind; u_cred_cookie : option cred_kind;
  u_sid_query : option N; u_sid_form : option N;
  u_topic_query : option bool; u_topic_form : option bool;   (* Some true: topic=newacc *)
  u_handler : bool;
  u_hdr : hdr_outcome;
  u_limit : Z;                                   (* globals.maxFileUploadSize; <= 0: none *)
  u_body : body;
  u_fault : fault
}.

Definition over_limit (limit : Z) (b : body) : bool :=
  match b with
  | BForm total _ _ => (0 <? limit)%Z && (limit <? total)%Z
  | BNone => false
  end.

(* the form fields can be read: POST/PUT with a multipart body within the limit *)
Definition form_visible (r : ureq) : bool :=
  match u_meth r, u_body r with
  | (MPost | MPut), BForm _ _ _ => negb (over_limit (u_limit r) (u_body r))
  | _, _ => false
  end.

Definition vis {A : Type} (r : ureq) (x : option A) : option A :=
  if form_visible r then x else None.

Definition u_keys (r : ureq) : list (option key_kind) :=
  [u_key_hdr r; u_key_query r; vis r (u_key_form r); u_key_cookie r].

Definition u_creds (r : ureq) : list (option cred_kind) :=
  [u_cred_xauth r; u_cred_authz r; u_cred_query r; vis r (u_cred_form r); u_cred_cookie r].

(* FormValue: query parameters take precedence over the fields of a multipart body
   (net/http: urlencoded body, then query, then multipart body; an upload is multipart) *)
Definition u_sid (r : ureq) : option N :=
  match u_sid_query r with Some u => Some u | None => vis r (u_sid_form r) end.

Definition u_newacc (r : ureq) : bool :=
  match u_topic_query r with
  | Some b => b
  | None => match vis r (u_topic_form r) with Some b => b | None => false end
  end.

(* [finish_failed]: what the handler does when store.Files.FinishUpload(ok) fails *)
Definition upload_body_with (finish_failed : outcome) (r : ureq) : outcome :=
  match u_body r with
  | BNone => Reply 400 ENone
  | BForm total has_file file_len =>
    if over_limit (u_limit r) (u_body r) then Reply 413 ENone
    else if negb has_file then Reply 400 ENone
    else if (file_len <=? 0)%Z then Reply 500 ENone      (* file.Read on an empty part: EOF *)
    else match u_fault r with
         | FNone => Reply 200 EStored
         | FCreate => Reply 500 ENone
         | FStart => Reply 500 ENone
         | FFinish => finish_failed
         end
  end.

(* hdl_files.go:326-334 (c986697): mh.Delete([fdef.Location]), reply decodeStoreError = 500;
   the record stays in status 'started' (the store is failing) *)
Definition upload_body : ureq -> outcome := upload_body_with (Reply 500 EResidueNoBytes).

(* before c986697: fdef was overwritten with the nil result, fdef.Location panicked *)
Definition upload_body_unrepaired : ureq -> outcome := upload_body_with (Crash EResidue).

Definition upload_gate_with (body : ureq -> outcome) (r : ureq) : outcome :=
  match u_meth r with
  | MOptions => preflight (u_handler r) (u_hdr r)
  | MPost | MPut | MHead =>
    if negb (key_check (u_keys r)) then Reply 403 ENone
    else
      match auth_of (u_creds r) (u_sid r) with
      | AuthErr c => Reply c ENone
      | AuthChallenge => Reply 300 ENone
      | AuthUid u =>
        if (u =? 0)%N && negb (u_newacc r) then Reply 401 ENone
        else if negb (u_handler r) then Crash ENone
        else match u_hdr r with
             | HdrErr c => Reply c ENone
             | HdrStatus c =>
               if negb (c =? 0)%Z then Reply c ENone
               else match u_meth r with
                    | MHead => Reply 200 ENone
                    | _ => body r
                    end
             end
      end
  | _ => Reply 405 ENone
  end.

Definition upload_gate : ureq -> outcome := upload_gate_with upload_body.
Definition upload_gate_unrepaired : ureq -> outcome := upload_gate_with upload_body_unrepaired.

(* ------------------------------------------------------------------ *)
(* (b) disposition                                                      *)

Fixpoint has_prefix (p s : list N) : bool :=
  match p, s with
  | [], _ => true
  | a :: p', b :: s' => (a =? b)%N && has_prefix p' s'
  | _ :: _, [] => false
  end.

Fixpoint contains (needle hay : list N) : bool :=
  has_prefix needle hay ||
  match hay with
  | [] => false
  | _ :: r => contains needle r
  end.

Definition s_html : list N := [104; 116; 109; 108]%N.
Definition s_xml : list N := [120; 109; 108]%N.
Definition s_application : list N := [97; 112; 112; 108; 105; 99; 97; 116; 105; 111; 110; 47]%N.
Definition s_message : list N := [109; 101; 115; 115; 97; 103; 101; 47]%N.
Definition s_model : list N := [109; 111; 100; 101; 108; 47]%N.
Definition s_multipart : list N := [109; 117; 108; 116; 105; 112; 97; 114; 116; 47]%N.
Definition s_text : list N := [116; 101; 120; 116; 47]%N.

(* asatt = strconv.ParseBool of the query parameter, false on error *)
Definition force_attachment (asatt : bool) (mime : list N) : bool :=
  asatt || contains s_html mime || contains s_xml mime ||
  has_prefix s_application mime || has_prefix s_message mime || has_prefix s_model mime ||
  has_prefix s_multipart mime || has_prefix s_text mime.

(* the classes the property names: HTML, XML, text and application types *)
Definition active (mime : list N) : bool :=
  contains s_html mime || contains s_xml mime || has_prefix s_text mime || has_prefix s_application mime.

(* ------------------------------------------------------------------ *)
(* (c) store slice: upload records, links, garbage collection           *)

Record file := { f_id : N; f_done : bool; f_upd : Z; f_mime : list N }.

Inductive target := TMsg (m : N) | TTopic (t : N) | TUser (u : N).

Definition target_eqb (a b : target) : bool :=
  match a, b with
  | TMsg x, TMsg y => (x =? y)%N
  | TTopic x, TTopic y => (x =? y)%N
  | TUser x, TUser y => (x =? y)%N
  | _, _ => false
  end.

Definition memN (x : N) (l : list N) : bool := existsb (N.eqb x) l.

Record state := {
  files : list file;              (* fileuploads; the location is a function of the id *)
  links : list (N * target);      (* filemsglinks *)
  msgs : list (N * N);            (* (message id, topic) of messages not hard-deleted *)
  next_mid : N;                   (* AUTO_INCREMENT of messages.id *)
  topics : list N;
  users : list N;
  disk : list N;                  (* ids whose bytes are in the upload directory *)
  att : list (N * target)         (* ghost: links accepted for uploads that were completed *)
}.

Definition init : state :=
  {| files := []; links := []; msgs := []; next_mid := 1; topics := []; users := [];
     disk := []; att := [] |}.

Inductive op :=
| OStart (fid : N) (now : Z) (mime : list N)   (* fs Upload: os.Create + StartUpload (+ copy) *)
| OFinish (fid : N) (ok : bool) (now : Z)      (* FinishUpload; on failure the bytes are removed first *)
| OAddTopic (t : N)
| OAddUser (u : N)
| OPublish (topic : N) (fids : list N)         (* Messages.Save with the resolved attachment ids *)
| OTopicAvatar (t : N) (fids : list N)         (* Files.LinkAttachments(topic, 0, ...) *)
| OUserAvatar (u : N) (fids : list N)          (* Files.LinkAttachments("usrX", 0, ...) *)
| ODelMsgs (mids : list N)                     (* hard deletion of messages *)
| ODelTopic (t : N)
| ODelUser (u : N)
| OGC (older : option Z) (limit : Z)           (* Files.DeleteUnused(olderThan, limit) *)
| ODropBytes (fid : N).                        (* mh.Delete([location]) after a failed FinishUpload(ok):
                                                  the bytes go, the record stays 'started' *)

Definition file_ids (s : state) : list N := map f_id (files s).

Definition find_file (fid : N) (fs : list file) : option file :=
  find (fun f => (f_id f =? fid)%N) fs.

Definition is_done (fid : N) (fs : list file) : bool :=
  match find_file fid fs with Some f => f_done f | None => false end.

Definition linked (fid : N) (ls : list (N * target)) : bool :=
  existsb (fun l => (fst l =? fid)%N) ls.

Definition msg_topic (mid : N) (ms : list (N * N)) : option N :=
  match find (fun m => (fst m =? mid)%N) ms with Some m => Some (snd m) | None => None end.

(* the parent object of a link exists *)
Definition target_live (s : state) (t : target) : bool :=
  match t with
  | TMsg m => memN m (map fst (msgs s))
  | TTopic x => memN x (topics s)
  | TUser u => memN u (users s)
  end.

Definition set_files (s : state) (fs : list file) : state :=
  {| files := fs; links := links s; msgs := msgs s; next_mid := next_mid s; topics := topics s;
     users := users s; disk := disk s; att := att s |}.

(* media URLs -> file ids: URLs that do not resolve are skipped silently *)
Definition resolve (serve : list N) (urls : list (list N)) : list N :=
  filter (fun i => negb (i =? 0)%N) (map (get_id_from_url serve) urls).

(* FileLinkAttachments for a topic or user: only the first id is used, earlier links of the
   parent are removed, a missing file or parent rolls everything back *)
Definition link_single (s : state) (tg : target) (fids : list N) : state :=
  match fids with
  | [] => s
  | f :: _ =>
    if memN f (file_ids s) && target_live s tg then
      let keep := fun l : N * target => negb (target_eqb (snd l) tg) in
      {| files := files s; links := filter keep (links s) ++ [(f, tg)];
         msgs := msgs s; next_mid := next_mid s; topics := topics s; users := users s;
         disk := disk s;
         att := filter keep (att s) ++ (if is_done f (files s) then [(f, tg)] else []) |}
    else s
  end.

(* candidates of FileDeleteUnused: no link row and (if a bound is given) updatedat < bound *)
Definition gc_candidate (s : state) (older : option Z) (f : file) : bool :=
  negb (linked (f_id f) (links s)) &&
  match older with Some b => (f_upd f <? b)%Z | None => true end.

Definition gc_removed (s : state) (older : option Z) (limit : Z) : list file :=
  let cand := filter (gc_candidate s older) (files s) in
  if (0 <? limit)%Z then firstn (Z.to_nat limit) cand else cand.

Definition drop_target (p : target -> bool) (ls : list (N * target)) : list (N * target) :=
  filter (fun l => negb (p (snd l))) ls.

Definition step (s : state) (o : op) : state :=
  match o with
  | OStart fid now mime =>
    if memN fid (file_ids s) || (fid =? 0)%N then s     (* ids come from the uid generator: fresh *)
    else {| files := files s ++ [{| f_id := fid; f_done := false; f_upd := now; f_mime := mime |}];
            links := links s; msgs := msgs s; next_mid := next_mid s; topics := topics s;
            users := users s; disk := fid :: disk s; att := att s |}
  | OFinish fid ok now =>
    match find_file fid (files s) with
    | Some f =>
      if f_done f then s                                   (* one FinishUpload per StartUpload *)
      else if ok then
        if memN fid (disk s) then                          (* called only right after the bytes were written *)
          set_files s (map (fun g => if (f_id g =? fid)%N
                                     then {| f_id := fid; f_done := true; f_upd := now; f_mime := f_mime g |}
                                     else g) (files s))
        else s
      else
        {| files := filter (fun g => negb (f_id g =? fid)%N) (files s);
           links := filter (fun l => negb (fst l =? fid)%N) (links s);   (* ON DELETE CASCADE *)
           msgs := msgs s; next_mid := next_mid s; topics := topics s; users := users s;
           disk := filter (fun d => negb (d =? fid)%N) (disk s);
           att := att s |}
    | None => s
    end
  | OAddTopic t =>
    if memN t (topics s) then s
    else {| files := files s; links := links s; msgs := msgs s; next_mid := next_mid s;
            topics := t :: topics s; users := users s; disk := disk s; att := att s |}
  | OAddUser u =>
    if memN u (users s) then s
    else {| files := files s; links := links s; msgs := msgs s; next_mid := next_mid s;
            topics := topics s; users := u :: users s; disk := disk s; att := att s |}
  | OPublish topic fids =>
    if memN topic (topics s) then
      let mid := next_mid s in
      let ok := match fids with [] => false | _ => forallb (fun f => memN f (file_ids s)) fids end in
      {| files := files s;
         links := links s ++ (if ok then map (fun f => (f, TMsg mid)) fids else []);
         msgs := (mid, topic) :: msgs s; next_mid := N.succ mid;
         topics := topics s; users := users s; disk := disk s;
         att := att s ++ (if ok then map (fun f => (f, TMsg mid))
                                         (filter (fun f => is_done f (files s)) fids) else []) |}
    else s
  | OTopicAvatar t fids => link_single s (TTopic t) fids
  | OUserAvatar u fids => link_single s (TUser u) fids
  | ODelMsgs mids =>
    let gone := fun tg => match tg with TMsg m => memN m mids | _ => false end in
    {| files := files s; links := drop_target gone (links s);
       msgs := filter (fun m => negb (memN (fst m) mids)) (msgs s); next_mid := next_mid s;
       topics := topics s; users := users s; disk := disk s; att := drop_target gone (att s) |}
  | ODelTopic t =>
    let gone := fun tg =>
      match tg with
      | TMsg m => match msg_topic m (msgs s) with Some x => (x =? t)%N | None => false end
      | TTopic x => (x =? t)%N
      | TUser _ => false
      end in
    {| files := files s; links := drop_target gone (links s);
       msgs := filter (fun m => negb (snd m =? t)%N) (msgs s); next_mid := next_mid s;
       topics := filter (fun x => negb (x =? t)%N) (topics s); users := users s; disk := disk s;
       att := drop_target gone (att s) |}
  | ODelUser u =>
    let gone := fun tg => match tg with TUser x => (x =? u)%N | _ => false end in
    {| files := files s; links := drop_target gone (links s); msgs := msgs s; next_mid := next_mid s;
       topics := topics s; users := filter (fun x => negb (x =? u)%N) (users s); disk := disk s;
       att := drop_target gone (att s) |}
  | OGC older limit =>
    let rem := map f_id (gc_removed s older limit) in
    {| files := filter (fun f => negb (memN (f_id f) rem)) (files s);
       links := links s; msgs := msgs s; next_mid := next_mid s; topics := topics s;
       users := users s;
       disk := filter (fun d => negb (memN d rem)) (disk s);   (* media handler Delete(locations) *)
       att := att s |}
  | ODropBytes fid =>
    if is_done fid (files s) then s       (* the handler removes only the upload it could not complete *)
    else {| files := files s; links := links s; msgs := msgs s; next_mid := next_mid s; topics := topics s;
            users := users s; disk := filter (fun d => negb (d =? fid)%N) (disk s); att := att s |}
  end.

Definition run (h : list op) : state := fold_left step h init.

(* what the media handler's Delete is called with by a GC run *)
Definition gc_deleted_locations (s : state) (older : option Z) (limit : Z) : list N :=
  map f_id (gc_removed s older limit).

(* fs Download(url): id from the URL, record by id, status test (filesys.go:119, 560b667),
   bytes by the record's location *)
Definition download_with (check_status : bool) (s : state) (serve url : list N) : option file :=
  let id := get_id_from_url serve url in
  if (id =? 0)%N then None
  else match find_file id (files s) with
       | Some f => if (negb check_status || f_done f) && memN id (disk s) then Some f else None
       | None => None
       end.

Definition download : state -> list N -> list N -> option file := download_with true.

(* before 560b667: no status test *)
Definition download_unrepaired : state -> list N -> list N -> option file := download_with false.

(* the whole download request against the store slice: [s_found] of the gate is what Download
   finds for the URL; the second component is the record whose bytes are sent *)
Definition serve_request (s : state) (r : sreq) (serve url : list N) : outcome * option file :=
  let d := download s serve url in
  let o := serve_gate {| s_meth := s_meth r; s_keys := s_keys r; s_creds := s_creds r; s_sid := s_sid r;
                         s_handler := s_handler r; s_hdr := s_hdr r;
                         s_found := match d with Some _ => true | None => false end |} in
  (o, match effect_of o with EServed => d | _ => None end).

(* the effect of an upload request on the store slice *)
Definition apply_effect (s : state) (e : effect) (fid : N) (now : Z) (mime : list N) : state :=
  match e with
  | EStored => step (step s (OStart fid now mime)) (OFinish fid true now)
  | EResidue => step s (OStart fid now mime)
  | EResidueNoBytes => step (step s (OStart fid now mime)) (ODropBytes fid)
  | _ => s
  end.

(* the whole upload request against the store slice *)
Definition apply_upload (s : state) (r : ureq) (fid : N) (now : Z) (mime : list N) : state * outcome :=
  let o := upload_gate r in (apply_effect s (effect_of o) fid now mime, o).

Definition apply_upload_unrepaired (s : state) (r : ureq) (fid : N) (now : Z) (mime : list N) : state * outcome :=
  let o := upload_gate_unrepaired r in (apply_effect s (effect_of o) fid now mime, o).

(* ------------------------------------------------------------------ *)
(* vocabulary of the history theorems (Props/PropC16.v)                 *)

Definition run_from (s : state) (h : list op) : state := fold_left step h s.

(* the operation neither deletes the parent of an avatar link nor replaces the avatar *)
Definition avatar_kept (tg : target) (o : op) : bool :=
  match o, tg with
  | OTopicAvatar t _, TTopic x => negb (t =? x)%N
  | ODelTopic t, TTopic x => negb (t =? x)%N
  | OUserAvatar u _, TUser x => negb (u =? x)%N
  | ODelUser u, TUser x => negb (u =? x)%N
  | _, _ => true
  end.

Definition gc_older_ok (older : option Z) (f : file) : bool :=
  match older with Some b => (f_upd f <? b)%Z | None => true end.
