(* The wrapper model of Sys/TopicLife.v over the group-topic model instantiated with the range
   algebra of Pure/Ranges.v (see Sys/TopicInst.v): what the runner executes. *)
From Coq Require Import ZArith NArith List Bool.
From Tinode Require Import Base.Util Pure.Acs Sys.Topic Sys.TopicInst Sys.TopicLife.

Definition xstep_i := TopicLife.xstep del_ranges_i norm_ranges_i.
Definition xrun_i := TopicLife.xrun del_ranges_i norm_ranges_i.
