(* C09 on the presence slice (Sys/Pres.v): the {info} frames of relayed notes WITH their Info.From
   field, for p2p and group topics with unsubscribed (deleted) parties and for sessions that are
   attached to 'me' but not to the topic.

   Pres.Frame carries (session, user, topic as seen, src, what).  The Go frame also carries
   Info.From.  Where it comes from:
     - handleNoteBroadcast (topic.go:1220-1233) builds the {info} handed to the sessions attached to the
       topic with `From: msg.AsUser` - the user the note was sent as;
     - infoSubsOffline (pres.go:479-501) builds the copy routed to every 'me' topic with `From: user`
       (= from.UserId(), the same user); hub.routeSrv and handleServerMsg hand THAT message object to
       broadcastToSessions of the destination, which copies it per session and rewrites Topic only
       (prepareBroadcastableMessage): the From a session reads on 'me' is Pres.m_from of the routed message.
   Definitions only; lemmas in Sys/PresNoteC09Proofs.v. *)
From Coq Require Import List NArith ZArith Bool.
From Tinode Require Import Sys.Pres.
Import ListNotations.
Open Scope N_scope.

(* Info.From of every {info} frame that step [o] hands to sessions in state [s] *)
Definition info_from (s : state) (o : op) : option N :=
  match o with
  | Note _ u _ _ _ => Some u
  | Deliver i => match take_nth i [] (s_net s) with Some (g, _) => m_from g | None => None end
  | _ => None
  end.

(* a step with every output labelled by the From its {info} frames carry *)
Definition step_from (s : state) (o : op) : state * list (out * option N) :=
  let '(s1, o1) := step s o in (s1, map (fun f => (f, info_from s o)) o1).

Fixpoint run_from (s : state) (h : list op) : state * list (out * option N) :=
  match h with
  | [] => (s, [])
  | o :: r => let '(s1, o1) := step_from s o in let '(s2, o2) := run_from s1 r in (s2, o1 ++ o2)
  end.

(* quiescence in global FIFO order, as Pres.drain, labelled *)
Fixpoint drain_from (fuel : nat) (s : state) : state * list (out * option N) :=
  match fuel with
  | O => (s, [])
  | S f =>
    match s_net s with
    | [] => (s, [])
    | _ => let '(s1, o1) := step_from s (Deliver 0) in let '(s2, o2) := drain_from f s1 in (s2, o1 ++ o2)
    end
  end.

(* the marks of user u in topic x as the check prints them: cached read / recv, stored read / recv *)
Definition marks_of (x : topic) (u : N) : Z * Z * Z * Z :=
  let p := get_pud x u in (p_read p, p_recv p, p_dread p, p_drecv p).
