(* C16  Lemmas about Topic.replySetDesc above the store slice (Sys/FilesDescC16c.v). *)
From Coq Require Import NArith ZArith List Bool.
From Tinode Require Import Pure.Url Sys.Files Sys.FilesStoreProofs Sys.FilesDescC16c.
Import ListNotations.

(* ---- closed forms of the three steps ---- *)
Definition core_calls_c16c (fault : bool) (cat : cat_c16c) (core : option N) : list (dcall_c16c * bool) :=
  match core with
  | Some _ => match cat with
              | CatMeC16c => [(DUserUpdateC16c, fault)]
              | CatFndC16c => []
              | _ => [(DTopicUpdateC16c, fault)]
              end
  | None => []
  end.

(* the core update returned an error *)
Definition core_err_c16c (fault : bool) (cat : cat_c16c) (core : option N) : bool :=
  match core with
  | Some _ => match cat with CatFndC16c => false | _ => fault end
  | None => false
  end.

Definition subs_calls_c16c (fault : bool) (sub : option N) : list (dcall_c16c * bool) :=
  match sub with Some _ => [(DSubsUpdateC16c, fault)] | None => [] end.

Definition subs_fail_c16c (fault : bool) (sub : option N) : bool :=
  match sub with Some _ => fault | None => false end.

(* the link call is reached (given that the updates succeeded) and made *)
Definition link_due_c16c (handler : bool) (serve : list N) (core : option N) (urls : list (list N)) : bool :=
  match core with
  | Some _ => negb (length urls =? 0)%nat && handler && negb (length (resolve serve urls) =? 0)%nat
  | None => false
  end.

Definition link_calls_c16c (fault : bool) (handler : bool) (serve : list N) (core : option N)
    (urls : list (list N)) : list (dcall_c16c * bool) :=
  if link_due_c16c handler serve core urls then [(DFileLinkC16c, fault)] else [].

Lemma core_step_char : forall fault s cat tname as_uid core,
  let r := core_step_c16c fault s cat tname as_uid core in
  dd_fs (fst r) = dd_fs s /\
  dd_calls (fst r) = core_calls_c16c fault cat core ++ dd_calls s /\
  snd r = core_err_c16c fault cat core.
Proof.
  intros fault s cat tname as_uid core.
  unfold core_step_c16c, core_calls_c16c, core_err_c16c, core_update_c16c, dlog_c16c.
  destruct core as [v|]; [|repeat split; reflexivity].
  destruct cat, fault; repeat split; reflexivity.
Qed.

Lemma subs_step_char : forall fault r1 tname as_uid sub,
  let r := subs_step_c16c fault r1 tname as_uid sub in
  dd_fs (fst r) = dd_fs (fst r1) /\
  dd_calls (fst r) = (if snd r1 then [] else subs_calls_c16c fault sub) ++ dd_calls (fst r1) /\
  snd r = snd r1 || subs_fail_c16c fault sub.
Proof.
  intros fault [s1 e1] tname as_uid sub.
  unfold subs_step_c16c, subs_calls_c16c, subs_fail_c16c, subs_update_c16c, dlog_c16c. cbn [fst snd].
  destruct e1; [repeat split; reflexivity|]. cbn [negb orb].
  destruct sub as [v|]; [|repeat split; reflexivity].
  destruct fault; repeat split; reflexivity.
Qed.

Lemma link_step_char : forall fault handler serve s cat tname as_uid core urls,
  let r := link_step_c16c fault handler serve s cat tname as_uid core urls in
  dd_fs r = (if link_due_c16c handler serve core urls && negb fault
             then link_single (dd_fs s) (owner_target_c16c cat tname as_uid) (resolve serve urls)
             else dd_fs s) /\
  dd_calls r = link_calls_c16c fault handler serve core urls ++ dd_calls s /\
  dd_public r = dd_public s /\ dd_private r = dd_private s.
Proof.
  intros fault handler serve s cat tname as_uid core urls.
  unfold link_step_c16c, link_calls_c16c, link_due_c16c, link_attachments_c16c, file_link_owner_c16c, dlog_c16c.
  destruct core as [v|]; [|repeat split; reflexivity].
  destruct (length urls =? 0)%nat; cbn [negb andb]; [repeat split; reflexivity|].
  destruct handler; cbn [negb andb]; [|repeat split; reflexivity].
  destruct (length (resolve serve urls) =? 0)%nat; cbn [negb andb]; [repeat split; reflexivity|].
  destruct fault; repeat split; reflexivity.
Qed.

(* ---- the request as a whole ---- *)
Definition upd_err_c16c (ft : desc_faults_c16c) (cat : cat_c16c) (rq : sreq_c16c) : bool :=
  core_err_c16c (df_core ft) cat (sq_core rq) || subs_fail_c16c (df_subs ft) (sq_sub rq).

Definition expected_outcome_c16c (ft : desc_faults_c16c) (cat : cat_c16c) (rq : sreq_c16c) : set_outcome_c16c :=
  match sq_pre rq with
  | PreDeniedC16c => SetDeniedC16c
  | PreMalformedC16c => SetMalformedC16c
  | PreOkC16c =>
    if negb (is_modified_c16c rq) then SetNotModifiedC16c
    else if upd_err_c16c ft cat rq then SetFailedC16c
    else SetOkC16c
  end.

(* the adapter calls of the request, newest first *)
Definition expected_calls_rev_c16c (ft : desc_faults_c16c) (handler : bool) (serve : list N) (cat : cat_c16c)
    (rq : sreq_c16c) : list (dcall_c16c * bool) :=
  match sq_pre rq with
  | PreOkC16c =>
    if negb (is_modified_c16c rq) then []
    else
      (if upd_err_c16c ft cat rq then [] else link_calls_c16c (df_link ft) handler serve (sq_core rq) (sq_urls rq)) ++
      (if core_err_c16c (df_core ft) cat (sq_core rq) then [] else subs_calls_c16c (df_subs ft) (sq_sub rq)) ++
      core_calls_c16c (df_core ft) cat (sq_core rq)
  | _ => []
  end.

(* ... and in the order they are made *)
Definition expected_calls_c16c (ft : desc_faults_c16c) (handler : bool) (serve : list N) (cat : cat_c16c)
    (rq : sreq_c16c) : list (dcall_c16c * bool) :=
  match sq_pre rq with
  | PreOkC16c =>
    if negb (is_modified_c16c rq) then []
    else
      core_calls_c16c (df_core ft) cat (sq_core rq) ++
      (if core_err_c16c (df_core ft) cat (sq_core rq) then [] else subs_calls_c16c (df_subs ft) (sq_sub rq)) ++
      (if upd_err_c16c ft cat rq then [] else link_calls_c16c (df_link ft) handler serve (sq_core rq) (sq_urls rq))
  | _ => []
  end.

Definition expected_fs_c16c (ft : desc_faults_c16c) (handler : bool) (serve : list N) (fs : state)
    (cat : cat_c16c) (tname as_uid : N) (rq : sreq_c16c) : state :=
  match expected_outcome_c16c ft cat rq with
  | SetOkC16c =>
    if link_due_c16c handler serve (sq_core rq) (sq_urls rq) && negb (df_link ft)
    then link_single fs (owner_target_c16c cat tname as_uid) (resolve serve (sq_urls rq))
    else fs
  | _ => fs
  end.

Lemma set_desc_char : forall ft handler serve s cat tname as_uid rq,
  let r := set_desc_c16c ft handler serve s cat tname as_uid rq in
  snd r = expected_outcome_c16c ft cat rq /\
  dd_calls (fst r) = expected_calls_rev_c16c ft handler serve cat rq ++ dd_calls s /\
  dd_fs (fst r) = expected_fs_c16c ft handler serve (dd_fs s) cat tname as_uid rq.
Proof.
  intros ft handler serve s cat tname as_uid rq.
  unfold set_desc_c16c, expected_outcome_c16c, expected_calls_rev_c16c, expected_fs_c16c, expected_outcome_c16c, upd_err_c16c.
  destruct (sq_pre rq); cbv zeta; [|repeat split; reflexivity|repeat split; reflexivity].
  destruct (negb (is_modified_c16c rq)); [repeat split; reflexivity|].
  destruct (core_step_char (df_core ft) s cat tname as_uid (sq_core rq)) as [F1 [C1 E1]].
  destruct (subs_step_char (df_subs ft) (core_step_c16c (df_core ft) s cat tname as_uid (sq_core rq))
              tname as_uid (sq_sub rq)) as [F2 [C2 E2]].
  cbv zeta in F1, C1, E1, F2, C2, E2.
  rewrite E2, E1.
  destruct (core_err_c16c (df_core ft) cat (sq_core rq) || subs_fail_c16c (df_subs ft) (sq_sub rq)) eqn:Herr;
    cbn [fst snd].
  - rewrite C2, E1, C1, F2, F1. cbn [app]. rewrite <- ?app_assoc. repeat split; reflexivity.
  - destruct (link_step_char (df_link ft) handler serve
                (fst (subs_step_c16c (df_subs ft) (core_step_c16c (df_core ft) s cat tname as_uid (sq_core rq)) tname as_uid (sq_sub rq)))
                cat tname as_uid (sq_core rq) (sq_urls rq)) as [F3 [C3 _]].
    cbv zeta in F3, C3. rewrite F3, C3, C2, E1, C1, F2, F1. rewrite <- ?app_assoc. repeat split; reflexivity.
Qed.

Lemma rev_le1 : forall (A : Type) (l : list A), (length l <= 1)%nat -> rev l = l.
Proof.
  intros A [|a [|b l]] H; [reflexivity|reflexivity|]. cbn [length] in H.
  exfalso. apply (Nat.nle_succ_0 (length l)). apply le_S_n. exact H.
Qed.

Lemma core_calls_le1 : forall f cat core, (length (core_calls_c16c f cat core) <= 1)%nat.
Proof. intros f cat [v|]; [destruct cat|]; cbn; auto. Qed.
Lemma subs_calls_le1 : forall f sub, (length (subs_calls_c16c f sub) <= 1)%nat.
Proof. intros f [v|]; cbn; auto. Qed.
Lemma link_calls_le1 : forall f h sv core urls, (length (link_calls_c16c f h sv core urls) <= 1)%nat.
Proof. intros f h sv core urls. unfold link_calls_c16c. destruct (link_due_c16c h sv core urls); cbn; auto. Qed.

Lemma expected_calls_rev : forall ft handler serve cat rq,
  rev (expected_calls_rev_c16c ft handler serve cat rq) = expected_calls_c16c ft handler serve cat rq.
Proof.
  intros ft handler serve cat rq. unfold expected_calls_rev_c16c, expected_calls_c16c.
  destruct (sq_pre rq); try reflexivity.
  destruct (negb (is_modified_c16c rq)); [reflexivity|].
  rewrite !rev_app_distr, <- app_assoc.
  rewrite (rev_le1 _ (core_calls_c16c (df_core ft) cat (sq_core rq)) (core_calls_le1 _ _ _)).
  f_equal. f_equal.
  - destruct (core_err_c16c (df_core ft) cat (sq_core rq)); [reflexivity|].
    apply rev_le1, subs_calls_le1.
  - destruct (upd_err_c16c ft cat rq); [reflexivity|]. apply rev_le1, link_calls_le1.
Qed.

(* the adapter calls in the order they were made *)
Lemma set_desc_calls : forall ft handler serve s cat tname as_uid rq,
  rev (dd_calls (fst (set_desc_c16c ft handler serve s cat tname as_uid rq))) =
  rev (dd_calls s) ++ expected_calls_c16c ft handler serve cat rq.
Proof.
  intros ft handler serve s cat tname as_uid rq.
  destruct (set_desc_char ft handler serve s cat tname as_uid rq) as [_ [C _]]. cbv zeta in C.
  rewrite C, rev_app_distr, expected_calls_rev. reflexivity.
Qed.

(* ---- refused: no effect on the file slice ---- *)
Lemma set_desc_refused_fs : forall ft handler serve s cat tname as_uid rq,
  snd (set_desc_c16c ft handler serve s cat tname as_uid rq) <> SetOkC16c ->
  dd_fs (fst (set_desc_c16c ft handler serve s cat tname as_uid rq)) = dd_fs s /\
  forall b, ~ In (DFileLinkC16c, b) (expected_calls_c16c ft handler serve cat rq).
Proof.
  intros ft handler serve s cat tname as_uid rq H.
  destruct (set_desc_char ft handler serve s cat tname as_uid rq) as [O [_ F]]. cbv zeta in O, F.
  rewrite O in H. rewrite F. unfold expected_fs_c16c.
  split; [destruct (expected_outcome_c16c ft cat rq); try reflexivity; congruence|].
  intros b. unfold expected_calls_c16c, expected_outcome_c16c in *.
  destruct (sq_pre rq); [|intros []|intros []].
  destruct (negb (is_modified_c16c rq)); [intros []|].
  destruct (upd_err_c16c ft cat rq); [|congruence].
  rewrite app_nil_r. intros Hin. apply in_app_iff in Hin. destruct Hin as [Hin|Hin].
  - unfold core_calls_c16c in Hin. destruct (sq_core rq); [destruct cat|]; cbn [In] in Hin;
      repeat (destruct Hin as [Hin|Hin]; [discriminate Hin|]); exact Hin.
  - destruct (core_err_c16c (df_core ft) cat (sq_core rq)); [destruct Hin|].
    unfold subs_calls_c16c in Hin. destruct (sq_sub rq); cbn [In] in Hin;
      repeat (destruct Hin as [Hin|Hin]; [discriminate Hin|]); exact Hin.
Qed.

(* refused with 500 exactly when the core or the subscription update failed *)
Lemma set_desc_failed_iff : forall ft handler serve s cat tname as_uid rq,
  snd (set_desc_c16c ft handler serve s cat tname as_uid rq) = SetFailedC16c <->
  sq_pre rq = PreOkC16c /\ is_modified_c16c rq = true /\ upd_err_c16c ft cat rq = true.
Proof.
  intros ft handler serve s cat tname as_uid rq.
  destruct (set_desc_char ft handler serve s cat tname as_uid rq) as [O _]. cbv zeta in O. rewrite O.
  unfold expected_outcome_c16c.
  destruct (sq_pre rq); [|split; [discriminate|intros [H _]; discriminate]..].
  destruct (is_modified_c16c rq); cbn [negb]; [|split; [discriminate|intros [_ [H _]]; discriminate]].
  destruct (upd_err_c16c ft cat rq); split; try discriminate; try (intros [_ [_ H]]; discriminate);
    repeat split; reflexivity.
Qed.

(* ---- acknowledged: the file slice is that of the avatar operation of the history model ---- *)
Definition avatar_op_c16c (cat : cat_c16c) (tname as_uid : N) (fids : list N) : op :=
  match cat with
  | CatMeC16c => OUserAvatar as_uid fids
  | _ => OTopicAvatar tname fids
  end.

Lemma avatar_op_step : forall fs cat tname as_uid fids,
  step fs (avatar_op_c16c cat tname as_uid fids) = link_single fs (owner_target_c16c cat tname as_uid) fids.
Proof. intros fs cat tname as_uid fids. destruct cat; reflexivity. Qed.

Lemma set_desc_ok_fs : forall ft handler serve s cat tname as_uid rq,
  snd (set_desc_c16c ft handler serve s cat tname as_uid rq) = SetOkC16c ->
  dd_fs (fst (set_desc_c16c ft handler serve s cat tname as_uid rq)) =
    (if link_due_c16c handler serve (sq_core rq) (sq_urls rq) && negb (df_link ft)
     then step (dd_fs s) (avatar_op_c16c cat tname as_uid (resolve serve (sq_urls rq)))
     else dd_fs s).
Proof.
  intros ft handler serve s cat tname as_uid rq H.
  destruct (set_desc_char ft handler serve s cat tname as_uid rq) as [O [_ F]]. cbv zeta in O, F.
  rewrite O in H. rewrite F. unfold expected_fs_c16c. rewrite H. rewrite avatar_op_step. reflexivity.
Qed.

Lemma link_single_rows : forall fs tg f rest,
  memN f (file_ids fs) = true -> target_live fs tg = true ->
  links (link_single fs tg (f :: rest)) =
    filter (fun l => negb (target_eqb (snd l) tg)) (links fs) ++ [(f, tg)].
Proof. intros fs tg f rest H1 H2. unfold link_single. rewrite H1, H2. reflexivity. Qed.

Lemma target_eqb_refl : forall t, target_eqb t t = true.
Proof. intros [x|x|x]; cbn [target_eqb]; apply N.eqb_refl. Qed.

Lemma target_eqb_eq : forall a b, target_eqb a b = true -> a = b.
Proof.
  intros [x|x|x] [y|y|y] H; cbn [target_eqb] in H; try discriminate; apply N.eqb_eq in H; subst; reflexivity.
Qed.

Lemma link_due_of_resolve : forall handler serve core urls f rest,
  core <> None -> handler = true -> resolve serve urls = f :: rest ->
  link_due_c16c handler serve core urls = true.
Proof.
  intros handler serve core urls f rest Hc Hh Hr. unfold link_due_c16c.
  destruct core; [|congruence]. rewrite Hr, Hh.
  destruct urls as [|u us]; [discriminate Hr|]. reflexivity.
Qed.

(* the link rows after an acknowledged update whose first listed id names an upload record of an
   existing owner object, the link call not failing: the old rows of the owner object are gone, the
   new one is there, every other row is as before *)
Lemma set_desc_ok_links : forall ft handler serve s cat tname as_uid rq f rest,
  snd (set_desc_c16c ft handler serve s cat tname as_uid rq) = SetOkC16c ->
  sq_core rq <> None -> handler = true -> df_link ft = false ->
  resolve serve (sq_urls rq) = f :: rest ->
  let tg := owner_target_c16c cat tname as_uid in
  memN f (file_ids (dd_fs s)) = true -> target_live (dd_fs s) tg = true ->
  let ls := links (dd_fs (fst (set_desc_c16c ft handler serve s cat tname as_uid rq))) in
  In (f, tg) ls /\
  (forall a, In (a, tg) ls -> a = f) /\
  (forall a t, t <> tg -> (In (a, t) ls <-> In (a, t) (links (dd_fs s)))).
Proof.
  intros ft handler serve s cat tname as_uid rq f rest Hok Hc Hh Hl Hr tg Hf Ht ls.
  pose proof (link_due_of_resolve handler serve (sq_core rq) (sq_urls rq) f rest Hc Hh Hr) as Hdue.
  assert (E : ls = filter (fun l => negb (target_eqb (snd l) tg)) (links (dd_fs s)) ++ [(f, tg)]).
  { unfold ls. rewrite (set_desc_ok_fs _ _ _ _ _ _ _ _ Hok), Hdue, Hl. cbn [negb andb].
    rewrite avatar_op_step, Hr. apply link_single_rows; assumption. }
  rewrite E. split; [|split].
  - apply in_app_iff. right. left. reflexivity.
  - intros a Hin. apply in_app_iff in Hin. destruct Hin as [Hin|[Hin|[]]].
    + apply filter_In in Hin. destruct Hin as [_ Hin]. cbn [snd] in Hin. rewrite target_eqb_refl in Hin. discriminate.
    + inversion Hin. reflexivity.
  - intros a t Hne. split.
    + intros Hin. apply in_app_iff in Hin. destruct Hin as [Hin|[Hin|[]]].
      * apply filter_In in Hin. exact (proj1 Hin).
      * inversion Hin. congruence.
    + intros Hin. apply in_app_iff. left. apply filter_In. split; [exact Hin|]. cbn [snd].
      destruct (target_eqb t tg) eqn:Heq; [|reflexivity]. apply target_eqb_eq in Heq. congruence.
Qed.

(* ---- over all histories: a refused {set desc} does not cost the old avatar its link ---- *)
Lemma forallb_app_c16c : forall (A : Type) (p : A -> bool) (l1 l2 : list A),
  forallb p l1 = true -> forallb p l2 = true -> forallb p (l1 ++ l2) = true.
Proof. intros A p l1 l2 H1 H2. rewrite forallb_app, H1, H2. reflexivity. Qed.

Lemma run_from_app : forall h1 h2 s, run_from s (h1 ++ h2) = run_from (run_from s h1) h2.
Proof. intros h1 h2 s. unfold run_from. apply fold_left_app. Qed.

Lemma refused_set_desc_keeps_avatar : forall h1 tg a rest h2 ft handler serve pb pv cl cat tname as_uid rq h3,
  match tg with TMsg _ => False | _ => True end ->
  let s1 := run h1 in
  memN a (file_ids s1) = true -> target_live s1 tg = true -> is_done a (files s1) = true ->
  forallb (avatar_kept tg) h2 = true ->
  let s2 := run_from (link_single s1 tg (a :: rest)) h2 in
  let r := set_desc_c16c ft handler serve {| dd_fs := s2; dd_public := pb; dd_private := pv; dd_calls := cl |}
             cat tname as_uid rq in
  snd r <> SetOkC16c ->
  forallb (avatar_kept tg) h3 = true ->
  let s3 := run_from (dd_fs (fst r)) h3 in
  dd_fs (fst r) = s2 /\
  In (a, tg) (links s3) /\ In a (file_ids s3) /\ In a (disk s3) /\ is_done a (files s3) = true.
Proof.
  intros h1 tg a rest h2 ft handler serve pb pv cl cat tname as_uid rq h3 Htg s1 H1 H2 H3 Hk2 s2 r Hr Hk3 s3.
  destruct (set_desc_refused_fs ft handler serve {| dd_fs := s2; dd_public := pb; dd_private := pv; dd_calls := cl |}
              cat tname as_uid rq Hr) as [E _].
  cbn [dd_fs] in E. fold r in E. split; [exact E|].
  unfold s3. rewrite E. unfold s2. rewrite <- run_from_app.
  apply (linked_avatar h1 tg a rest (h2 ++ h3) Htg H1 H2 H3).
  apply forallb_app_c16c; assumption.
Qed.

(* an acknowledged update IS the avatar operation of the history model (or nothing), so that the
   history theorems apply to what follows it *)
Lemma ok_set_desc_links_avatar : forall h1 ft handler serve pb pv cl cat tname as_uid rq f rest h2,
  let s1 := run h1 in
  let tg := owner_target_c16c cat tname as_uid in
  let r := set_desc_c16c ft handler serve {| dd_fs := s1; dd_public := pb; dd_private := pv; dd_calls := cl |}
             cat tname as_uid rq in
  snd r = SetOkC16c ->
  sq_core rq <> None -> handler = true -> df_link ft = false ->
  resolve serve (sq_urls rq) = f :: rest ->
  memN f (file_ids s1) = true -> target_live s1 tg = true -> is_done f (files s1) = true ->
  forallb (avatar_kept tg) h2 = true ->
  let s2 := run_from (dd_fs (fst r)) h2 in
  In (f, tg) (links s2) /\ In f (file_ids s2) /\ In f (disk s2) /\ is_done f (files s2) = true.
Proof.
  intros h1 ft handler serve pb pv cl cat tname as_uid rq f rest h2 s1 tg r Hok Hc Hh Hl Hr Hf Ht Hd Hk s2.
  pose proof (link_due_of_resolve handler serve (sq_core rq) (sq_urls rq) f rest Hc Hh Hr) as Hdue.
  unfold s2, r. rewrite (set_desc_ok_fs _ _ _ _ _ _ _ _ Hok), Hdue, Hl. cbn [negb andb dd_fs].
  rewrite avatar_op_step, Hr.
  apply (linked_avatar h1 tg f rest h2); try assumption.
  unfold tg. destruct cat; exact I.
Qed.

(* ---- the order matters: with the link made first a refused request has an effect ---- *)
Definition lf_name_a_c16c : list N := [86;102;51;107;81;57;95;45;97;90;48]%N.
Definition lf_name_b_c16c : list N := [87;102;51;107;81;57;95;45;97;90;48]%N.
Definition lf_serve_c16c : list N := [47;118;48;47;102;105;108;101;47;115;47]%N.
Definition lf_state_c16c : dstate_c16c :=
  {| dd_fs := run [OAddTopic 1; OStart (parse_uid lf_name_a_c16c) 0 []; OFinish (parse_uid lf_name_a_c16c) true 0;
                   OStart (parse_uid lf_name_b_c16c) 0 []; OFinish (parse_uid lf_name_b_c16c) true 0;
                   OTopicAvatar 1 [parse_uid lf_name_a_c16c]];
     dd_public := [(TTopic 1, 7%N)]; dd_private := []; dd_calls := [] |}.
Definition lf_request_c16c : sreq_c16c :=
  {| sq_pre := PreOkC16c; sq_core := Some 8%N; sq_sub := None; sq_urls := [lf_serve_c16c ++ lf_name_b_c16c] |}.
Definition lf_faults_c16c : desc_faults_c16c := {| df_core := true; df_subs := false; df_link := false |}.

Lemma link_first_witness :
  let r := set_desc_link_first_c16c lf_faults_c16c true lf_serve_c16c lf_state_c16c CatGrpC16c 1 5 lf_request_c16c in
  snd r = SetFailedC16c /\
  linked (parse_uid lf_name_a_c16c) (links (dd_fs lf_state_c16c)) = true /\
  linked (parse_uid lf_name_a_c16c) (links (dd_fs (fst r))) = false /\
  dd_public (fst r) = dd_public lf_state_c16c /\
  (* ... and the next run of the garbage collector removes the avatar the record still refers to *)
  memN (parse_uid lf_name_a_c16c) (file_ids (step (dd_fs (fst r)) (OGC None 0))) = false.
Proof. vm_compute. repeat split; reflexivity. Qed.

Lemma link_last_witness :
  let r := set_desc_c16c lf_faults_c16c true lf_serve_c16c lf_state_c16c CatGrpC16c 1 5 lf_request_c16c in
  snd r = SetFailedC16c /\
  linked (parse_uid lf_name_a_c16c) (links (dd_fs (fst r))) = true /\
  memN (parse_uid lf_name_a_c16c) (file_ids (step (dd_fs (fst r)) (OGC None 0))) = true.
Proof. vm_compute. repeat split; reflexivity. Qed.

(* ---- the link call's own failure is ignored: acknowledged, the new avatar is NOT linked ---- *)
Definition li_faults_c16c : desc_faults_c16c := {| df_core := false; df_subs := false; df_link := true |}.

Lemma link_ignored_witness :
  let r := set_desc_c16c li_faults_c16c true lf_serve_c16c lf_state_c16c CatGrpC16c 1 5 lf_request_c16c in
  snd r = SetOkC16c /\
  dd_public (fst r) = [(TTopic 1, 8%N)] /\
  linked (parse_uid lf_name_b_c16c) (links (dd_fs (fst r))) = false /\
  linked (parse_uid lf_name_a_c16c) (links (dd_fs (fst r))) = true.
Proof. vm_compute. repeat split; reflexivity. Qed.
