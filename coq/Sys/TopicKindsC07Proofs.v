(* C07 proofs for the kinds model Sys/TopicKindsC07.v: routing, and the world invariant
   "every stored subscription, cached entry and attached session of a topic belongs to a
   legitimate participant (me/fnd: the owner; sys: a root user; p2p: one of the two named
   users), p2p modes are within JRWPA and contain A", for every history whose requests avoid
   the three reproduced defect patterns (findings/C07.md). *)
From Coq Require Import ZArith NArith List Bool Lia.
From Tinode Require Import Base.Util Pure.Acs Sys.Topic Sys.TopicTac Sys.TopicMarks Sys.TopicAclC07Proofs Sys.TopicKindsC07.
Import ListNotations.
Open Scope N_scope.

(* ---------- routing (expandTopicName) ---------- *)
Lemma expand_me uid o u : expand uid o = inl (KMe u) -> o = OMe /\ u = uid.
Proof.
  destruct o; cbn; intros H; try discriminate; try (inv H; auto; fail).
  repeat break_match_hyp; discriminate.
Qed.
Lemma expand_fnd uid o u : expand uid o = inl (KFnd u) -> (o = OFnd /\ u = uid) \/ o = ORawFnd u.
Proof.
  destruct o; cbn; intros H; try discriminate; try (inv H; auto; fail).
  repeat break_match_hyp; discriminate.
Qed.
Lemma expand_sys uid o : expand uid o = inl KSys -> o = OSys.
Proof. destruct o; cbn; intros H; try discriminate; auto. repeat break_match_hyp; discriminate. Qed.
Lemma expand_p2p uid o a b : expand uid o = inl (KP2P a b) ->
  o = ORawP2P a b \/ (exists v, o = OUsr v /\ v <> 0 /\ v <> uid /\ ((a = uid /\ b = v) \/ (a = v /\ b = uid))).
Proof.
  destruct o as [| | |v|v|a0 b0]; cbn; intros H; try discriminate.
  - destruct (v =? 0) eqn:E0; [discriminate|]. destruct (v =? uid) eqn:E1; [discriminate|].
    apply N.eqb_neq in E0, E1. right. exists v. destruct (uid <? v); inv H; repeat split; auto.
  - inv H. left. reflexivity.
Qed.

(* ---------- topics table ---------- *)
Lemma tkey_eqb_eq x y : tkey_eqb x y = true <-> x = y.
Proof.
  destruct x, y; cbn; split; intros H; try discriminate; try reflexivity;
    try (apply N.eqb_eq in H; subst; reflexivity); try (inv H; apply N.eqb_refl).
  - apply andb_prop in H. destruct H as [A B]. apply N.eqb_eq in A, B. subst. reflexivity.
  - inv H. rewrite !N.eqb_refl. reflexivity.
Qed.
Lemma tget_tset k' k t l : tget k' (tset k t l) = if tkey_eqb k' k then t else tget k' l.
Proof.
  induction l as [|[k0 t0] l IH]; cbn.
  - destruct (tkey_eqb k' k); reflexivity.
  - destruct (tkey_eqb k k0) eqn:E; cbn.
    + apply tkey_eqb_eq in E. subst. destruct (tkey_eqb k' k0); reflexivity.
    + destruct (tkey_eqb k' k0) eqn:E2; [|exact IH].
      apply tkey_eqb_eq in E2. subst. destruct (tkey_eqb k0 k) eqn:E3; [|reflexivity].
      apply tkey_eqb_eq in E3. subst. rewrite (proj2 (tkey_eqb_eq k k) eq_refl) in E. discriminate.
Qed.

(* ---------- p2p modes ---------- *)
Definition okmode (m : N) : Prop := N.land m 31 = m /\ N.testbit m 4 = true.
Definition okmodeb (m : N) : bool := (N.land m 31 =? m) && N.testbit m 4.
Lemma okmode_b m : okmode m <-> okmodeb m = true.
Proof.
  unfold okmode, okmodeb. split.
  - intros [A B]. rewrite A, N.eqb_refl, B. reflexivity.
  - intros H. apply andb_prop in H. destruct H as [A B]. apply N.eqb_eq in A. auto.
Qed.
Lemma land31_lt m : N.land m 31 < 32.
Proof. change 31 with (N.ones 5). rewrite N.land_ones. apply N.mod_lt. discriminate. Qed.
Lemma okmode_lt m : okmode m -> m < 32.
Proof. intros [A _]. rewrite <- A. apply land31_lt. Qed.

Lemma okmode_mask x : okmode (p2p_mask x).
Proof.
  unfold p2p_mask, ModeCP2P, mA. apply okmode_b.
  assert (forallb (fun y => okmodeb (N.lor y 16)) (nrange 32) = true) as S by (vm_compute; reflexivity).
  exact (sweep1 _ _ S _ (land31_lt x)).
Qed.
Lemma okmode_31 : okmode 31. Proof. split; reflexivity. Qed.
Lemma okmode_lorJ m : okmode m -> okmode (N.lor m mJ).
Proof.
  intros H. pose proof (okmode_lt _ H) as L. apply okmode_b in H. apply okmode_b. revert H.
  assert (forallb (fun y => implb (okmodeb y) (okmodeb (N.lor y 1))) (nrange 32) = true) as S by (vm_compute; reflexivity).
  pose proof (sweep1 _ _ S _ L) as T. cbv beta in T. intros H. rewrite H in T. exact T.
Qed.
Lemma okmode_land a g : okmode a -> okmode g -> okmode (N.land a g).
Proof.
  intros HA HG. pose proof (okmode_lt _ HA) as LA. pose proof (okmode_lt _ HG) as LG.
  apply okmode_b in HA, HG. apply okmode_b.
  assert (forallb (fun x => forallb (fun y => implb (okmodeb x && okmodeb y) (okmodeb (N.land x y))) (nrange 32)) (nrange 32) = true) as S
    by (vm_compute; reflexivity).
  pose proof (sweep2 _ _ _ S _ _ LA LG) as T. cbv beta in T. rewrite HA, HG in T. exact T.
Qed.
Lemma okmode_unban g df : okmode g -> df = 0 \/ df = 31 -> okmode (N.ldiff (N.lor g df) mO).
Proof.
  intros HG D. pose proof (okmode_lt _ HG) as LG. apply okmode_b in HG. apply okmode_b.
  assert (forallb (fun x => implb (okmodeb x) (okmodeb (N.ldiff (N.lor x 0) 128) && okmodeb (N.ldiff (N.lor x 31) 128))) (nrange 32) = true) as S
    by (vm_compute; reflexivity).
  pose proof (sweep1 _ _ S _ LG) as T. cbv beta in T. rewrite HG in T. cbn [implb] in T.
  apply andb_prop in T. destruct D as [-> | ->]; apply T.
Qed.
(* the system topic's grant has none of the sharer bits *)
Lemma sys_not_sharer w : is_sharer (N.land ModeCSys w) = false.
Proof.
  unfold is_sharer, is_admin, has, ModeCSys, mO, mA, mS.
  assert (forall bit, N.land 79 bit = 0 -> negb (N.land (N.land 79 w) bit =? 0) = false) as Z.
  { intros bit H. apply negb_false_iff. apply N.eqb_eq.
    rewrite <- N.land_assoc, (N.land_comm w), N.land_assoc, H. apply N.land_0_l. }
  rewrite !Z by reflexivity. reflexivity.
Qed.

(* ---------- the invariant ---------- *)
Section KInv.
Variable isroot : N -> bool.
Variable strictf : tkey -> bool.   (* the p2p topics whose mode shape is claimed *)
Variable scope : tkey -> bool.     (* the topics whose participants are claimed *)

Definition okuser (k : tkey) (v : N) : Prop :=
  scope k = true ->
  match k with KMe u | KFnd u => v = u | KSys => isroot v = true | KP2P a b => v = a \/ v = b end.
Definition okrow (k : tkey) (r : krow) : Prop :=
  match k with
  | KP2P _ _ => strictf k = true -> okmode (kr_want r) /\ okmode (kr_given r)
  | KSys => kr_given r = ModeCSys
  | _ => True
  end.
Definition okent (k : tkey) (e : N * krow) : Prop := okuser k (fst e) /\ okrow k (snd e).
Definition oksess (k : tkey) (e : N * N) : Prop := okuser k (snd e).
Definition auth_ok (k : tkey) (c : kcache) : Prop :=
  match k with KFnd _ | KP2P _ _ => kc_auth c = 0 | _ => True end.
Definition has_entry (c : kcache) (e : N * N) : Prop := exists r, alookup (snd e) (kc_users c) = Some r.
Definition cache_ok (k : tkey) (c : kcache) : Prop :=
  Forall (okent k) (kc_users c) /\ Forall (oksess k) (kc_sess c) /\ auth_ok k c /\ Forall (has_entry c) (kc_sess c).
Definition tinv (k : tkey) (t : ktopic) : Prop :=
  Forall (okent k) (kt_rows t) /\ match kt_cache t with Some c => cache_ok k c | None => True end.
Definition acc_ok (acc : list (N * N)) : Prop := (exists k0, strictf k0 = true) -> Forall (fun e => okmode (snd e)) acc.
Definition winv (w : world) : Prop := (forall k, tinv k (tget k (w_topics w))) /\ acc_ok (w_acc w).

(* association lists under Forall *)
Lemma Forall_aset {A} (P : N * A -> Prop) k v l : P (k, v) -> Forall P l -> Forall P (aset k v l).
Proof.
  intros HP H. induction l as [|[k0 v0] l IH]; cbn; [constructor; auto|].
  inversion H; subst. destruct (N.eqb k k0); constructor; auto.
Qed.
Lemma Forall_aremove {A} (P : N * A -> Prop) k l : Forall P l -> Forall P (aremove k l).
Proof.
  intros H. induction l as [|[k0 v0] l IH]; cbn; [constructor|].
  inversion H; subst. destruct (N.eqb k k0); [auto|constructor; auto].
Qed.
Lemma Forall_filter {A} (P : A -> Prop) f l : Forall P l -> Forall P (filter f l).
Proof. intros H. apply Forall_forall. intros x HI. apply filter_In in HI. rewrite Forall_forall in H. apply H. apply HI. Qed.
Lemma alookup_Forall {A} (P : N * A -> Prop) k l v : alookup k l = Some v -> Forall P l -> P (k, v).
Proof. intros E H. apply alookup_in in E. rewrite Forall_forall in H. auto. Qed.

Lemma okent_modes k u r r' : okent k (u, r) -> kr_want r' = kr_want r -> kr_given r' = kr_given r -> okent k (u, r').
Proof. intros [A B] W G. split; [exact A|]. destruct k; cbn in *; auto; rewrite ?W, ?G; auto. Qed.

(* users after an update of one entry: every session still has an entry *)
Lemma has_entry_aset c u r : forall e, has_entry c e -> has_entry (mkKc (aset u r (kc_users c)) (kc_sess c) (kc_auth c)) e.
Proof.
  intros e [r0 E]. unfold has_entry. cbn [kc_users]. rewrite alookup_aset.
  destruct (N.eqb (snd e) u); eauto.
Qed.

Lemma cache_ok_aset k c u r : okent k (u, r) -> cache_ok k c -> cache_ok k (mkKc (aset u r (kc_users c)) (kc_sess c) (kc_auth c)).
Proof.
  intros HE [CU [CS [CA CH]]]. split; [apply Forall_aset; assumption|]. split; [exact CS|]. split; [destruct k; exact CA|].
  cbn [kc_sess]. eapply Forall_impl; [|exact CH]. apply has_entry_aset.
Qed.

Lemma evict_ok k c u unsub skip c' o :
  k_evict (key_cat k) c u unsub skip = (c', o) -> (unsub = true -> exists r, alookup u (kc_users c) = Some r) ->
  cache_ok k c -> cache_ok k c'.
Proof.
  unfold k_evict. intros H HEN [CU [CS [CA CH]]]. inv H.
  set (sess' := filter (fun e => negb (snd e =? u)) (kc_sess c)).
  assert (Forall (oksess k) sess') as CS' by (apply Forall_filter; exact CS).
  assert (forall users', (forall v, v <> u -> alookup v users' = alookup v (kc_users c)) ->
            Forall (has_entry (mkKc users' sess' (kc_auth c))) sess') as HH.
  { intros users' HU. apply Forall_forall. intros e HI. apply filter_In in HI. destruct HI as [HI NE].
    apply negb_true_iff in NE. apply N.eqb_neq in NE. rewrite Forall_forall in CH. destruct (CH e HI) as [r E].
    exists r. cbn [kc_users]. rewrite (HU _ NE). exact E. }
  destruct unsub.
  - destruct (key_cat k) eqn:EC.
    1,2,4: (split; [apply Forall_aremove; exact CU|]; split; [exact CS'|]; split; [destruct k; exact CA|];
            apply HH; intros v NE; rewrite alookup_aremove_eq; apply N.eqb_neq in NE; rewrite NE; reflexivity).
    destruct (alookup u (kc_users c)) as [r|] eqn:E.
    + split; [apply Forall_aset; [|exact CU]; eapply okent_modes; [eapply alookup_Forall; eauto| |]; reflexivity|].
      split; [exact CS'|]. split; [destruct k; exact CA|].
      apply HH. intros v NE. rewrite alookup_aset. apply N.eqb_neq in NE. rewrite NE. reflexivity.
    + destruct (HEN eq_refl) as [r E']. congruence.
  - split; [exact CU|]. split; [exact CS'|]. split; [destruct k; exact CA|]. apply HH. reflexivity.
Qed.

(* what a {sub} must satisfy to create a subscription of u on topic k: guaranteed by routing
   ('me') and by the level of the session ('sys') *)
Definition sub_pre (k : tkey) (u : N) (root : bool) : Prop :=
  match k with KMe x => u = x | KSys => scope KSys = true -> isroot u = root | _ => True end.

Lemma mk_ok k u w g d : okuser k u ->
  match k with KP2P _ _ => strictf k = true -> okmode w /\ okmode g | KSys => g = ModeCSys | _ => True end ->
  okent k (u, mkKrow w g d).
Proof. intros A B. split; [exact A|]. destruct k; exact B. Qed.

Lemma rows_modes_ok k rows u w :
  Forall (okent k) rows -> (forall r, alookup u rows = Some r -> okent k (u, mkKrow w (kr_given r) (kr_del r))) ->
  Forall (okent k) (row_modes rows u (Some w) None).
Proof.
  intros H HW. unfold row_modes. destruct (alookup u rows) as [r|] eqn:E; [|exact H].
  apply Forall_aset; [apply HW; reflexivity|exact H].
Qed.

Lemma tus_ok k rows c u root mode newsub :
  Forall (okent k) rows -> cache_ok k c -> sub_pre k u root ->
  let '(rows', c1, ev, res) := k_this_user_sub (key_cat k) rows c u root mode newsub in
  Forall (okent k) rows' /\ cache_ok k c1 /\
  (forall ch, res = KOk ch -> okuser k u /\ exists r, alookup u (kc_users c1) = Some r).
Proof.
  intros RO CO PRE. pose proof CO as [CU [CS [CA CH]]]. unfold k_this_user_sub.
  destruct (match mode with [] => (ModeUnset, true) | _ :: _ => unmarshal_text ModeUnset mode end) as [mw okw].
  destruct (negb okw); [repeat split; auto; discriminate|].
  assert (forall c1 c2 o2, k_evict (key_cat k) c1 u false 0 = (c2, o2) -> cache_ok k c1 -> cache_ok k c2) as EV.
  { intros c1 c2 o2 E H. eapply evict_ok; [exact E|discriminate|exact H]. }
  assert (forall c1 c2 o2 r, k_evict (key_cat k) c1 u false 0 = (c2, o2) ->
            alookup u (kc_users c1) = Some r -> alookup u (kc_users c2) = Some r) as EVL.
  { intros c1 c2 o2 r E H. unfold k_evict in E. inv E. exact H. }
  destruct (alookup u (kc_users c)) as [r0|] eqn:Ecur.
  - pose proof (alookup_Forall _ _ _ _ Ecur CU) as [OU OR]. cbn [fst snd] in OU, OR.
    destruct (kr_del r0) eqn:ED.
    + (* a p2p participant coming back (or, for the other kinds, never) *)
      set (branch := match key_cat k with
                     | CP2P => _ | CSys => _ | _ => _ end).
      assert (forall want given, branch = inl (Some (want, given)) ->
                match k with KP2P _ _ => strictf k = true -> okmode want /\ okmode given | KSys => given = ModeCSys | _ => True end) as BR.
      { intros want given HB. subst branch. destruct k; cbn [key_cat] in HB; auto.
        - destruct (negb root); [discriminate|]. inv HB. reflexivity.
        - inv HB. intros S. split; [apply okmode_mask|]. apply (OR S). }
      destruct branch as [[[want given]|]|code]; [|repeat split; auto; discriminate|repeat split; auto; discriminate].
      specialize (BR _ _ eq_refl).
      destruct (negb (is_joiner given)); [repeat split; auto; discriminate|].
      set (c1 := mkKc (aset u (mkKrow want given false) (kc_users c)) (kc_sess c) (kc_auth c)).
      assert (okent k (u, mkKrow want given false)) as NE by (apply mk_ok; auto).
      assert (cache_ok k c1) as C1 by (apply cache_ok_aset; auto).
      assert (alookup u (kc_users c1) = Some (mkKrow want given false)) as L1
        by (subst c1; cbn [kc_users]; rewrite alookup_aset, N.eqb_refl; reflexivity).
      match goal with |- context [if ?b then rows else row_upsert rows u want given] =>
        assert (Forall (okent k) (if b then rows else row_upsert rows u want given)) as R1
          by (destruct b; [exact RO|apply Forall_aset; auto]) end.
      destruct (negb (is_joiner want)).
      * destruct (k_evict (key_cat k) c1 u false 0) as [c2 o2] eqn:E2.
        split; [exact R1|]. split; [eapply EV; eauto|]. intros ch _. split; [exact OU|]. eexists. eapply EVL; eauto.
      * split; [exact R1|]. split; [exact C1|]. intros ch _. split; [exact OU|]. eauto.
    + (* existing subscription *)
      set (chk := if (mw =? ModeUnset) then _ else _).
      destruct chk as [[mw1|]|b] eqn:ECHK; [|repeat split; auto; discriminate|repeat split; auto; discriminate].
      assert (mw1 = ModeUnset \/ match k with KP2P _ _ => okmode mw1 | _ => True end) as HM.
      { subst chk. destruct (mw =? ModeUnset) eqn:EU; [inv ECHK; left; apply N.eqb_eq; exact EU|].
        destruct (is_owner (kr_given r0)); [discriminate|]. destruct (is_owner mw); [discriminate|].
        inv ECHK. right. destruct k; cbn [key_cat]; auto. apply okmode_mask. }
      set (w1o := if (mw1 =? ModeUnset) then _ else Some mw1).
      destruct w1o as [w1|] eqn:EW; [|repeat split; auto; discriminate].
      assert (match k with KP2P _ _ => strictf k = true -> okmode w1 | _ => True end) as HW.
      { destruct k; auto. intros S. specialize (OR S). destruct OR as [OW OG]. subst w1o.
        destruct (mw1 =? ModeUnset) eqn:EU.
        - destruct (negb (is_joiner (kr_want r0))); [|inv EW; exact OW].
          cbn [key_cat access_for] in EW. inv EW. apply okmode_unban; [exact OG|].
          destruct root; [right; reflexivity|left; exact CA].
        - inv EW. destruct HM as [E|H]; [rewrite E in EU; discriminate|exact H]. }
      assert (forall g d, (match k with KSys => g = ModeCSys | KP2P _ _ => strictf k = true -> okmode g | _ => True end) ->
                okent k (u, mkKrow w1 g d)) as MK.
      { intros g d HG. apply mk_ok; [exact OU|]. destruct k; auto. }
      assert (okent k (u, mkKrow w1 (kr_given r0) false)) as NE.
      { apply MK. destruct k; auto. intros S. apply (OR S). }
      set (c1 := mkKc (aset u (mkKrow w1 (kr_given r0) false) (kc_users c)) (kc_sess c) (kc_auth c)).
      assert (cache_ok k c1) as C1 by (apply cache_ok_aset; auto).
      assert (alookup u (kc_users c1) = Some (mkKrow w1 (kr_given r0) false)) as L1
        by (subst c1; cbn [kc_users]; rewrite alookup_aset, N.eqb_refl; reflexivity).
      assert (Forall (okent k) (if (w1 =? kr_want r0) then rows else row_modes rows u (Some w1) None)) as R1.
      { destruct (w1 =? kr_want r0); [exact RO|]. apply rows_modes_ok; [exact RO|].
        intros r E. pose proof (alookup_Forall _ _ _ _ E RO) as [_ OR']. cbn [snd] in OR'. apply MK.
        destruct k; auto. intros S. apply (OR' S). }
      destruct (negb (is_joiner w1)).
      * destruct (k_evict (key_cat k) c1 u false 0) as [c2 o2] eqn:E2.
        split; [exact R1|]. split; [eapply EV; eauto|]. intros ch _. split; [exact OU|]. eexists. eapply EVL; eauto.
      * destruct (negb (is_joiner (kr_given r0))); (split; [exact R1|]; split; [exact C1|]); [discriminate|].
        intros ch _. split; [exact OU|]. eauto.
  - (* no entry: a new subscription *)
    set (branch := match key_cat k with
                   | CP2P => _ | CSys => _ | _ => _ end).
    assert (forall want given, branch = inl (Some (want, given)) -> is_joiner given = true ->
              okuser k u /\
              match k with KP2P _ _ => strictf k = true -> okmode want /\ okmode given | KSys => given = ModeCSys | _ => True end) as BR.
    { intros want given HB HJ. subst branch. destruct k; cbn [key_cat] in HB.
      - split; [intros _; exact PRE|exact I].
      - (* fnd: the owner, or somebody whose row is stored (hence the owner); the default grant is N *)
        cbn [access_for] in HB.
        destruct (alookup u rows) as [r|] eqn:ER.
        + pose proof (alookup_Forall _ _ _ _ ER RO) as [OU _]. split; [exact OU|exact I].
        + cbn in CA. rewrite CA in HB. inv HB. destruct root; discriminate.
      - destruct root; cbn [negb] in HB; [|discriminate]. injection HB as _ <-.
        split; [exact PRE|reflexivity].
      - inv HB. discriminate. }
    destruct branch as [[[want given]|]|code] eqn:EB; [|repeat split; auto; discriminate|repeat split; auto; discriminate].
    destruct (negb (is_joiner given)) eqn:EJ; [repeat split; auto; discriminate|]. apply negb_false_iff in EJ.
    destruct (BR _ _ eq_refl EJ) as [OU OR].
    set (c1 := mkKc (aset u (mkKrow want given false) (kc_users c)) (kc_sess c) (kc_auth c)).
    assert (okent k (u, mkKrow want given false)) as NE by (apply mk_ok; auto).
    assert (cache_ok k c1) as C1 by (apply cache_ok_aset; auto).
    assert (alookup u (kc_users c1) = Some (mkKrow want given false)) as L1
      by (subst c1; cbn [kc_users]; rewrite alookup_aset, N.eqb_refl; reflexivity).
    match goal with |- context [if ?b then rows else row_upsert rows u want given] =>
      assert (Forall (okent k) (if b then rows else row_upsert rows u want given)) as R1
        by (destruct b; [exact RO|apply Forall_aset; auto]) end.
    destruct (negb (is_joiner want)).
    + destruct (k_evict (key_cat k) c1 u false 0) as [c2 o2] eqn:E2.
      split; [exact R1|]. split; [eapply EV; eauto|]. intros ch _. split; [exact OU|]. eexists. eapply EVL; eauto.
    + split; [exact R1|]. split; [exact C1|]. intros ch _. split; [exact OU|]. eauto.
Qed.

Lemma rows_given_ok k rows u g :
  Forall (okent k) rows -> (forall r, alookup u rows = Some r -> okent k (u, mkKrow (kr_want r) g (kr_del r))) ->
  Forall (okent k) (row_modes rows u None (Some g)).
Proof.
  intros H HW. unfold row_modes. destruct (alookup u rows) as [r|] eqn:E; [|exact H].
  apply Forall_aset; [apply HW; reflexivity|exact H].
Qed.

Definition is_fresh (c : kcache) (v : N) : Prop :=
  match alookup v (kc_users c) with Some r => kr_del r = true | None => True end.

Lemma aus_ok k acc rows c u target mode :
  Forall (okent k) rows -> cache_ok k c -> acc_ok acc ->
  (k <> KSys -> is_fresh c target -> okuser k target /\ (strictf k = true -> key_cat k = CP2P -> mode <> [])) ->
  let '(rows', c1, ev, res) := k_another_user_sub (key_cat k) acc rows c u target mode in
  Forall (okent k) rows' /\ cache_ok k c1.
Proof.
  intros RO CO AO PRE. pose proof CO as [CU [CS [CA CH]]]. unfold k_another_user_sub.
  destruct (alookup u (kc_users c)) as [h|] eqn:Eh; [|auto].
  destruct (negb (is_sharer (N.land (kr_given h) (kr_want h)))) eqn:ESH; [auto|]. apply negb_false_iff in ESH.
  (* the system topic has no sharers *)
  assert (k <> KSys) as NSYS.
  { intros ->. pose proof (alookup_Forall _ _ _ _ Eh CU) as [_ OR]. cbn in OR. rewrite OR, sys_not_sharer in ESH. discriminate. }
  destruct (match mode with [] => (ModeUnset, true) | _ :: _ => unmarshal_text ModeUnset mode end) as [mg0 okg] eqn:EP.
  destruct (negb okg); [auto|].
  set (mg := match mode, key_cat k with [], _ => mg0 | _, CP2P => p2p_mask mg0 | _, _ => mg0 end).
  destruct (negb (mg =? ModeUnset) && negb (is_admin _)); [auto|].
  destruct (is_owner mg); [auto|].
  assert (forall c1 c2 o2, k_evict (key_cat k) c1 target false 0 = (c2, o2) -> cache_ok k c1 -> cache_ok k c2) as EV.
  { intros c1 c2 o2 E H. eapply evict_ok; [exact E|discriminate|exact H]. }
  assert (mode <> [] -> match k with KP2P _ _ => okmode mg | _ => True end) as MGOK.
  { intros NE. destruct k; auto. subst mg. destruct mode; [contradiction|]. cbn [key_cat]. apply okmode_mask. }
  destruct (alookup target (kc_users c)) as [r0|] eqn:Et.
  - destruct (kr_del r0) eqn:ED.
    + (* re-invitation of a p2p participant who left *)
      assert (is_fresh c target) as FR by (unfold is_fresh; rewrite Et; exact ED).
      destruct (PRE NSYS FR) as [OU H3].
      destruct (if (mg =? ModeUnset) then _ else Some mg) as [given|] eqn:EG; [|auto].
      assert (match k with KP2P _ _ => strictf k = true -> okmode given | _ => True end) as GOK.
      { destruct k; auto. intros S. specialize (H3 S eq_refl). specialize (MGOK H3).
        destruct (mg =? ModeUnset) eqn:EU; [|inv EG; exact MGOK].
        apply N.eqb_eq in EU. rewrite EU in MGOK. destruct MGOK as [_ B]. discriminate B. }
      set (wres := match alookup target rows with Some r => inl (kr_want r) | None => _ end).
      assert (forall want, wres = inl want -> match k with KP2P _ _ => strictf k = true -> okmode want | _ => True end) as WOK.
      { intros want HW. destruct k; auto. intros S. subst wres. destruct (alookup target rows) as [r|] eqn:ER.
        - inv HW. pose proof (alookup_Forall _ _ _ _ ER RO) as [_ OR]. apply (OR S).
        - destruct (alookup target acc) as [ac|] eqn:EA; [|discriminate]. inv HW.
          apply okmode_land; [|apply GOK; exact S].
          pose proof (alookup_Forall _ _ _ _ EA (AO (ex_intro _ _ S))) as H. exact H. }
      destruct wres as [want|code] eqn:EWR; [|auto]. specialize (WOK _ eq_refl).
      destruct (negb (is_joiner want)); [auto|].
      assert (okent k (target, mkKrow want given false)) as NE.
      { apply mk_ok; [exact OU|]. destruct k as [x|x| |x y]; [exact I|exact I|exfalso; apply NSYS; reflexivity|]. intros S. split; [apply WOK|apply GOK]; exact S. }
      set (c1 := mkKc (aset target (mkKrow want given false) (kc_users c)) (kc_sess c) (kc_auth c)).
      assert (cache_ok k c1) as C1 by (apply cache_ok_aset; auto).
      assert (Forall (okent k) (row_upsert rows target want given)) as R1 by (apply Forall_aset; auto).
      destruct (negb (is_joiner given)); [|auto].
      destruct (k_evict (key_cat k) c1 target false 0) as [c2 o2] eqn:E2. split; [exact R1|eapply EV; eauto].
    + (* existing subscription *)
      pose proof (alookup_Forall _ _ _ _ Et CU) as [OU OR]. cbn [fst snd] in OU, OR.
      destruct ((mg =? ModeUnset) || (mg =? kr_given r0)) eqn:ESame.
      * destruct (negb (is_joiner (kr_given r0))); [|auto].
        destruct (k_evict (key_cat k) c target false 0) as [c2 o2] eqn:E2. split; [exact RO|eapply EV; eauto].
      * apply orb_false_iff in ESame. destruct ESame as [EU _].
        assert (mode <> []) as NE0.
        { intros ->. subst mg. cbn in EP. inv EP. discriminate EU. }
        specialize (MGOK NE0).
        assert (forall w d, (match k with KP2P _ _ => strictf k = true -> okmode w | _ => True end) -> okent k (target, mkKrow w mg d)) as MK.
        { intros w d HW. apply mk_ok; [exact OU|]. destruct k as [x|x| |x y]; [exact I|exact I|exfalso; apply NSYS; reflexivity|]. intros S. split; [apply HW; exact S|exact MGOK]. }
        set (c1 := mkKc (aset target (mkKrow (kr_want r0) mg false) (kc_users c)) (kc_sess c) (kc_auth c)).
        assert (cache_ok k c1) as C1.
        { apply cache_ok_aset; [|exact CO]. apply MK. destruct k; auto. intros S. apply (OR S). }
        assert (Forall (okent k) (row_modes rows target None (Some mg))) as R1.
        { apply rows_given_ok; [exact RO|]. intros r E. pose proof (alookup_Forall _ _ _ _ E RO) as [_ OR']. cbn [snd] in OR'.
          apply MK. destruct k; auto. intros S. apply (OR' S). }
        destruct (negb (is_joiner mg)); [|auto].
        destruct (k_evict (key_cat k) c1 target false 0) as [c2 o2] eqn:E2. split; [exact R1|eapply EV; eauto].
  - (* invitation of a user without an entry *)
    assert (is_fresh c target) as FR by (unfold is_fresh; rewrite Et; exact I).
    destruct (PRE NSYS FR) as [OU H3].
    destruct (if (mg =? ModeUnset) then _ else Some mg) as [given|] eqn:EG; [|auto].
    assert (match k with KP2P _ _ => strictf k = true -> okmode given | _ => True end) as GOK.
    { destruct k; auto. intros S. specialize (H3 S eq_refl). specialize (MGOK H3).
      destruct (mg =? ModeUnset) eqn:EU; [|inv EG; exact MGOK].
      apply N.eqb_eq in EU. rewrite EU in MGOK. destruct MGOK as [_ B]. discriminate B. }
    set (wres := match alookup target rows with Some r => inl (kr_want r) | None => _ end).
    assert (forall want, wres = inl want -> match k with KP2P _ _ => strictf k = true -> okmode want | _ => True end) as WOK.
    { intros want HW. destruct k; auto. intros S. subst wres. destruct (alookup target rows) as [r|] eqn:ER.
      - inv HW. pose proof (alookup_Forall _ _ _ _ ER RO) as [_ OR]. apply (OR S).
      - destruct (alookup target acc) as [ac|] eqn:EA; [|discriminate]. inv HW.
        apply okmode_land; [|apply GOK; exact S].
        pose proof (alookup_Forall _ _ _ _ EA (AO (ex_intro _ _ S))) as H. exact H. }
    destruct wres as [want|code] eqn:EWR; [|auto]. specialize (WOK _ eq_refl).
    destruct (negb (is_joiner want)); [auto|].
    assert (okent k (target, mkKrow want given false)) as NE.
    { apply mk_ok; [exact OU|]. destruct k as [x|x| |x y]; [exact I|exact I|exfalso; apply NSYS; reflexivity|]. intros S. split; [apply WOK|apply GOK]; exact S. }
    set (c1 := mkKc (aset target (mkKrow want given false) (kc_users c)) (kc_sess c) (kc_auth c)).
    assert (cache_ok k c1) as C1 by (apply cache_ok_aset; auto).
    assert (Forall (okent k) (row_upsert rows target want given)) as R1 by (apply Forall_aset; auto).
    destruct (negb (is_joiner given)); [|auto].
    destruct (k_evict (key_cat k) c1 target false 0) as [c2 o2] eqn:E2. split; [exact R1|eapply EV; eauto].
Qed.

(* ---------- initialisers ---------- *)
Lemma undel_ok k l : Forall (okent k) l -> Forall (okent k) (map undel (live l)).
Proof.
  intros H. apply Forall_forall. intros e HI. apply in_map_iff in HI. destruct HI as [[u r] [E HI]]. subst e.
  unfold live in HI. apply filter_In in HI. destruct HI as [HI _]. rewrite Forall_forall in H.
  unfold undel. cbn [fst snd]. eapply okent_modes; [apply (H _ HI)| |]; reflexivity.
Qed.

Lemma loaded_ok k rows auth : Forall (okent k) rows -> (match k with KFnd _ | KP2P _ _ => auth = 0 | _ => True end) ->
  cache_ok k (mkKc (map undel (live rows)) [] auth).
Proof. intros H HA. split; [apply undel_ok; exact H|]. split; [constructor|]. split; [destruct k; exact HA|constructor]. Qed.

Lemma init_p2p_ok acc a b t u root orig mode defacs t1 ns :
  expand u orig = inl (KP2P a b) -> tinv (KP2P a b) t -> acc_ok acc ->
  init_p2p acc t u root orig mode defacs = inl (t1, ns) ->
  tinv (KP2P a b) t1 /\ kt_cache t1 <> None.
Proof.
  intros EX [RO _] AO. unfold init_p2p.
  destruct (kt_exists t && Nat.eqb (length (live (kt_rows t))) 0); [discriminate|].
  destruct (kt_exists t && Nat.eqb (length (live (kt_rows t))) 2).
  { intros H. inv H. split; [|discriminate]. split; [exact RO|]. cbn [kt_cache]. apply loaded_ok; [exact RO|reflexivity]. }
  set (v := match orig with OUsr v => v | _ => 0 end).
  destruct (alookup u acc) as [au|] eqn:EAU; [|discriminate].
  destruct (if v =? 0 then None else alookup v acc) as [av|] eqn:EAV; [|discriminate].
  assert (v <> 0) as VZ by (intros E; rewrite E in EAV; discriminate).
  assert (alookup v acc = Some av) as EAV' by (destruct (v =? 0); [discriminate|exact EAV]).
  (* the topic is the pair of the requester and the addressed user *)
  assert (okuser (KP2P a b) u /\ okuser (KP2P a b) v) as [OUu OUv].
  { apply expand_p2p in EX. destruct EX as [->|[v' [-> [_ [_ HAB]]]]]; [exfalso; apply VZ; reflexivity|].
    subst v. unfold okuser. destruct HAB as [[-> ->]|[-> ->]]; auto. }
  assert (strictf (KP2P a b) = true -> okmode au /\ okmode av) as ACC.
  { intros S. split; [exact (alookup_Forall _ _ _ _ EAU (AO (ex_intro _ _ S)))|exact (alookup_Forall _ _ _ _ EAV' (AO (ex_intro _ _ S)))]. }
  set (one := match live (kt_rows t) with [e] => Some e | _ => None end).
  assert (forall e, one = Some e -> okent (KP2P a b) e) as ONE.
  { intros e H. subst one. destruct (live (kt_rows t)) as [|e0 [|e1 l]] eqn:EL; inv H.
    assert (In e (live (kt_rows t))) as HI by (rewrite EL; now left).
    unfold live in HI. apply filter_In in HI. rewrite Forall_forall in RO. apply RO. apply HI. }
  set (sub1 := match one with Some e => if fst e =? u then Some (snd e) else None | None => None end).
  set (sub2 := match one with Some e => if fst e =? u then None else Some (snd e) | None => None end).
  assert (forall r, sub1 = Some r \/ sub2 = Some r -> strictf (KP2P a b) = true -> okmode (kr_want r) /\ okmode (kr_given r)) as SUBOK.
  { intros r H S. subst sub1 sub2. destruct one as [[x rx]|] eqn:EO; [|destruct H; discriminate].
    destruct (ONE _ eq_refl) as [_ OR]. cbn [fst snd] in *. destruct (x =? u); destruct H as [H|H]; inv H; apply (OR S). }
  set (from_v := if root then ModeCP2P else av).
  assert (strictf (KP2P a b) = true -> okmode from_v) as FV.
  { intros S. subst from_v. destruct root; [apply okmode_31|apply (ACC S)]. }
  set (s2 := match sub2 with Some r => r | None => _ end).
  assert (strictf (KP2P a b) = true -> okmode (kr_want s2) /\ okmode (kr_given s2)) as S2OK.
  { intros S. subst s2. destruct sub2 as [r|] eqn:E2; [apply (SUBOK r); auto|]. cbn [kr_want kr_given]. split; apply okmode_mask. }
  set (s1 := match sub1 with Some r => r | None => _ end).
  assert (strictf (KP2P a b) = true -> okmode (kr_want s1) /\ okmode (kr_given s1)) as S1OK.
  { intros S. subst s1. destruct sub1 as [r|] eqn:E1; [apply (SUBOK r); auto|]. cbn [kr_want kr_given]. split; [|apply FV; exact S].
    destruct mode; [apply (S2OK S)|]. apply okmode_lorJ. apply okmode_mask. }
  assert (okent (KP2P a b) (u, mkKrow (kr_want s1) (kr_given s1) false)) as E1 by (apply mk_ok; auto).
  assert (okent (KP2P a b) (v, mkKrow (kr_want s2) (kr_given s2) false)) as E2 by (apply mk_ok; auto).
  intros H. injection H as Ht Hn. subst t1. split; [|discriminate]. split.
  - cbn [kt_rows]. unfold row_upsert. repeat break_match; repeat apply Forall_aset; auto.
  - cbn [kt_cache]. split; [cbn [kc_users aset]; destruct (v =? u); [constructor; [exact E2|constructor]|constructor; [exact E1|constructor; [exact E2|constructor]]]|].
    split; [constructor|]. split; [reflexivity|constructor].
Qed.

Lemma init_ok acc k t u root orig mode defacs t1 ns :
  expand u orig = inl k -> tinv k t -> acc_ok acc ->
  init_topic acc k t u root orig mode defacs = inl (t1, ns) ->
  tinv k t1 /\ kt_cache t1 <> None.
Proof.
  intros EX TI AO. pose proof TI as [RO _]. unfold init_topic. destruct orig as [| | |v|v|a0 b0].
  - cbn in EX. inv EX. destruct (alookup u acc); [|discriminate].
    intros H. inv H. split; [|discriminate]. split; [exact RO|]. apply loaded_ok; [exact RO|exact I].
  - cbn in EX. inv EX. intros H. inv H. split; [|discriminate]. split; [exact RO|]. apply loaded_ok; [exact RO|reflexivity].
  - cbn in EX. inv EX. destruct (kt_exists t); [|discriminate]. intros H. inv H.
    split; [|discriminate]. split; [exact RO|]. apply loaded_ok; [exact RO|exact I].
  - destruct k as [x|x| |a b]; try (cbn in EX; repeat break_match_hyp; discriminate).
    apply init_p2p_ok; assumption.
  - discriminate.
  - cbn in EX. inv EX. apply init_p2p_ok; [reflexivity|assumption|assumption].
Qed.

(* ---------- one request ---------- *)
Definition op_ok (w : world) (o : kop) : Prop :=
  match o with
  | KSub sid uid root orig mode defacs => scope KSys = true -> isroot uid = root
  | KSetSub sid uid root orig target mode =>
    (scope KSys = true -> isroot uid = root) /\
    forall k c, expand uid orig = inl k -> kt_cache (tget k (w_topics w)) = Some c -> target <> 0 -> target <> uid ->
      k <> KSys -> is_fresh c target -> okuser k target /\ (strictf k = true -> key_cat k = CP2P -> mode <> [])
  | KLeave sid uid orig unsub =>
    forall k c, expand uid orig = inl k -> kt_cache (tget k (w_topics w)) = Some c ->
      forall v, alookup sid (kc_sess c) = Some v -> v = uid
  | KUnload _ => True
  end.

Lemma winv_put w k t : winv w -> tinv k t -> winv (mkWorld (w_acc w) (tset k t (w_topics w))).
Proof.
  intros [WT WA] TI. split; [|exact WA]. intros k'. cbn [w_topics]. rewrite tget_tset.
  destruct (tkey_eqb k' k) eqn:E; [apply tkey_eqb_eq in E; subst; exact TI|apply WT].
Qed.

Lemma sub_pre_of_expand uid o k root : expand uid o = inl k -> (scope KSys = true -> isroot uid = root) -> sub_pre k uid root.
Proof.
  intros EX IR. destruct k; cbn; auto. apply expand_me in EX. symmetry. apply EX.
Qed.

Lemma kstep_winv w o : winv w -> op_ok w o -> winv (fst (kstep w o)).
Proof.
  intros WI OK. pose proof WI as [WT WA]. unfold kstep. destruct o as [sid uid root orig mode defacs|sid uid root orig target mode|sid uid orig unsub|k].
  - (* sub *)
    destruct (expand uid orig) as [k|code] eqn:EX; [|exact WI].
    set (t0 := tget k (w_topics w)). destruct (k_attached t0 sid); [exact WI|].
    pose proof (WT k) as TI0. fold t0 in TI0.
    set (loaded := match kt_cache t0 with Some _ => inl (t0, false) | None => _ end).
    assert (forall t1 ns, loaded = inl (t1, ns) -> tinv k t1) as LD.
    { intros t1 ns H. subst loaded. destruct (kt_cache t0) eqn:EC; [inv H; exact TI0|].
      eapply init_ok; eauto. }
    destruct loaded as [[t1 ns]|code]; [|exact WI]. specialize (LD _ _ eq_refl).
    destruct LD as [RO CO]. destruct (kt_cache t1) as [c|] eqn:EC1; [|exact WI].
    match goal with |- context [k_this_user_sub (key_cat k) (kt_rows t1) c uid root mode ?nb] =>
      pose proof (tus_ok k (kt_rows t1) c uid root mode nb RO CO (sub_pre_of_expand _ _ _ _ EX OK)) as T;
      destruct (k_this_user_sub (key_cat k) (kt_rows t1) c uid root mode nb) as [[[rows' c1] ev] res] end.
    destruct T as [R1 [C1 J]].
    destruct res as [code|ch| |]; cbn [fst]; try (apply winv_put; [exact WI|split; assumption]).
    destruct (J ch eq_refl) as [OU [r EL]].
    apply winv_put; [exact WI|]. split; [exact R1|]. cbn [kt_cache].
    destruct (match ch with Some (wt, g) => is_joiner (N.land g wt) | None => true end); [|exact C1].
    destruct C1 as [CU [CS [CA CH]]]. split; [exact CU|]. split; [apply Forall_aset; [exact OU|exact CS]|].
    split; [destruct k; exact CA|]. apply Forall_aset; [exists r; exact EL|exact CH].
  - (* set sub *)
    destruct OK as [IR TP].
    destruct (expand uid orig) as [k|code] eqn:EX; [|exact WI].
    set (t := tget k (w_topics w)). pose proof (WT k) as [RO CO]. fold t in RO, CO.
    destruct (k_attached t sid) eqn:EA.
    + destruct (kt_cache t) as [c|] eqn:EC; [|exact WI].
      destruct ((target =? 0) || (target =? uid)) eqn:ES.
      * pose proof (tus_ok k (kt_rows t) c uid root mode false RO CO (sub_pre_of_expand _ _ _ _ EX IR)) as T.
        destruct (k_this_user_sub (key_cat k) (kt_rows t) c uid root mode false) as [[[rows' c1] ev] res].
        destruct T as [R1 [C1 _]].
        destruct res as [code|[[wt g]|]| |]; cbn [fst]; apply winv_put; try exact WI; split; assumption.
      * apply orb_false_iff in ES. destruct ES as [E1 E2]. apply N.eqb_neq in E1, E2.
        pose proof (aus_ok k (w_acc w) (kt_rows t) c uid target mode RO CO WA
                      (fun NS FR => TP k c eq_refl EC E1 E2 NS FR)) as T.
        destruct (k_another_user_sub (key_cat k) (w_acc w) (kt_rows t) c uid target mode) as [[[rows' c1] ev] res].
        destruct T as [R1 C1].
        destruct res as [code|[[wt g]|]| |]; cbn [fst]; apply winv_put; try exact WI; split; assumption.
    + destruct mode as [|m0 mode']; [exact WI|].
      destruct (negb (target =? 0) && negb (target =? uid)); [exact WI|].
      destruct (alookup uid (kt_rows t)) as [r|] eqn:ER; [|exact WI].
      destruct (kr_del r); [exact WI|].
      destruct (unmarshal_text 0 (m0 :: mode')) as [mw okw]. destruct (negb okw); [exact WI|].
      destruct (negb (Bool.eqb _ _)); [exact WI|].
      match goal with |- context [if ?b then _ else _] => destruct b end; [exact WI|].
      cbn [fst]. apply winv_put; [exact WI|]. split; [|exact CO]. cbn [kt_rows].
      apply rows_modes_ok; [exact RO|]. intros r' E'. pose proof (alookup_Forall _ _ _ _ E' RO) as [OU OR]. cbn [fst snd] in OU, OR.
      apply mk_ok; [exact OU|]. destruct k; auto. intros S. cbn [key_cat]. split; [apply okmode_mask|apply (OR S)].
  - (* leave *)
    destruct (expand uid orig) as [k|code] eqn:EX; [|exact WI].
    set (t := tget k (w_topics w)). pose proof (WT k) as [RO CO]. fold t in RO, CO.
    destruct (negb (k_attached t sid)) eqn:EA; [exact WI|]. apply negb_false_iff in EA.
    destruct (kt_cache t) as [c|] eqn:EC; [|exact WI].
    destruct unsub.
    + assert (forall r, alookup uid (kt_rows t) = Some r ->
                winv (fst (if kr_del r then (w, [(sid, KCtrl 304)]) else
                           let rows' := aset uid (mkKrow (kr_want r) (kr_given r) true) (kt_rows t) in
                           let '(c1, ev) := k_evict (key_cat k) c uid true sid in
                           (mkWorld (w_acc w) (tset k (p2p_gc (key_cat k) (mkKt (kt_exists t) rows' (Some c1))) (w_topics w)),
                            (sid, KCtrl 200) :: ev)))) as UNS.
      { intros r ER. destruct (kr_del r); [exact WI|]. cbv zeta.
        destruct (k_evict (key_cat k) c uid true sid) as [c1 ev] eqn:EV. cbn [fst]. apply winv_put; [exact WI|].
        assert (tinv k (mkKt (kt_exists t) (aset uid (mkKrow (kr_want r) (kr_given r) true) (kt_rows t)) (Some c1))) as TI.
        { split.
          - cbn [kt_rows]. apply Forall_aset; [|exact RO]. eapply okent_modes; [eapply alookup_Forall; eauto| |]; reflexivity.
          - cbn [kt_cache]. eapply evict_ok; [exact EV| |exact CO]. intros _.
            unfold k_attached in EA. rewrite EC in EA. destruct (alookup sid (kc_sess c)) as [v|] eqn:ES; [|discriminate].
            pose proof (OK k c EX EC v ES) as EVU. subst v.
            destruct CO as [_ [_ [_ CH]]]. apply alookup_in in ES. rewrite Forall_forall in CH. exact (CH _ ES). }
        unfold p2p_gc. destruct (key_cat k); try exact TI. cbn [kt_cache].
        destruct (Nat.eqb _ 0); [|exact TI]. split; [apply Forall_nil|exact I]. }
      destruct orig; try exact WI; (destruct (alookup uid (kt_rows t)) as [r|] eqn:ER; [apply UNS; reflexivity|exact WI]).
    + cbn [fst]. apply winv_put; [exact WI|]. split; [exact RO|]. cbn [kt_cache].
      destruct CO as [CU [CS [CA CH]]]. split; [exact CU|]. split; [apply Forall_aremove; exact CS|].
      split; [destruct k; exact CA|]. apply Forall_aremove. exact CH.
  - (* unload *)
    destruct (kt_cache (tget k (w_topics w))) as [c|] eqn:EC; [|exact WI].
    destruct (kc_sess c); [|exact WI]. cbn [fst]. apply winv_put; [exact WI|]. split; [apply (WT k)|exact I].
Qed.

Fixpoint hist_okk (w : world) (h : list kop) : Prop :=
  match h with
  | [] => True
  | o :: r => op_ok w o /\ hist_okk (fst (kstep w o)) r
  end.

Lemma krun_winv h : forall w, winv w -> hist_okk w h -> winv (fst (krun w h)).
Proof.
  induction h as [|o h IH]; intros w WI HK; cbn; [exact WI|]. destruct HK as [OK HK].
  pose proof (kstep_winv w o WI OK) as S. destruct (kstep w o) as [w1 o1]. cbn [fst] in *.
  specialize (IH w1 S HK). destruct (krun w1 h) as [w2 os]. exact IH.
Qed.

(* the world the driver starts from *)
Lemma init_winv acc : acc_ok acc -> winv (init_world acc).
Proof.
  intros AO. split; [|exact AO]. intros k. unfold init_world. cbn [w_topics tget].
  destruct (tkey_eqb k KSys); [split; [constructor|exact I]|].
  induction acc as [|[u a] acc IH]; cbn [flat_map app tget fst]; [split; [constructor|exact I]|].
  assert (acc_ok acc) as AO' by (intros S; specialize (AO S); inversion AO; assumption).
  destruct (tkey_eqb k (KMe u)) eqn:E1.
  { apply tkey_eqb_eq in E1. subst k. split; [|exact I]. constructor; [|constructor]. split; [intros _; reflexivity|exact I]. }
  destruct (tkey_eqb k (KFnd u)) eqn:E2.
  { apply tkey_eqb_eq in E2. subst k. split; [|exact I]. constructor; [|constructor]. split; [intros _; reflexivity|exact I]. }
  apply IH. exact AO'.
Qed.
End KInv.

(* ---------- attached sessions: who is recorded ---------- *)
Lemma in_aset_k {A} k (v : A) l e : In e (aset k v l) -> e = (k, v) \/ In e l.
Proof.
  induction l as [|[k0 v0] l IH]; cbn.
  - intros [H|[]]; auto.
  - destruct (N.eqb k k0); cbn; intros [H|H]; auto. destruct (IH H); auto.
Qed.
Lemma evict_sess_incl cat c u unsub skip c' o : k_evict cat c u unsub skip = (c', o) -> incl (kc_sess c') (kc_sess c).
Proof. unfold k_evict. intros H. inv H. cbn [kc_sess]. apply incl_filter. Qed.

Lemma tus_sess cat rows c u root mode nb :
  let '(rows', c1, ev, res) := k_this_user_sub cat rows c u root mode nb in incl (kc_sess c1) (kc_sess c).
Proof.
  destruct (k_this_user_sub cat rows c u root mode nb) as [[[rows' c1] ev] res] eqn:E. revert E.
  unfold k_this_user_sub. repeat break_match; intros E; inv E; cbn [kc_sess]; try apply incl_refl;
    match goal with H : k_evict _ _ _ _ _ = (?c2, _) |- incl (kc_sess ?c2) _ =>
      apply evict_sess_incl in H; cbn [kc_sess] in H; exact H end.
Qed.
Lemma aus_sess cat acc rows c u target mode :
  let '(rows', c1, ev, res) := k_another_user_sub cat acc rows c u target mode in incl (kc_sess c1) (kc_sess c).
Proof.
  destruct (k_another_user_sub cat acc rows c u target mode) as [[[rows' c1] ev] res] eqn:E. revert E.
  unfold k_another_user_sub. repeat break_match; intros E; inv E; cbn [kc_sess]; try apply incl_refl;
    match goal with H : k_evict _ _ _ _ _ = (?c2, _) |- incl (kc_sess ?c2) _ =>
      apply evict_sess_incl in H; cbn [kc_sess] in H; exact H end.
Qed.

Lemma init_no_sess acc k t u root orig mode defacs t1 ns c :
  init_topic acc k t u root orig mode defacs = inl (t1, ns) -> kt_cache t1 = Some c -> kt_cache t = None -> kc_sess c = [].
Proof.
  unfold init_topic, init_p2p. intros H EC EN.
  repeat break_match_hyp; try discriminate; inv H; cbn [kt_cache] in EC; inv EC; reflexivity.
Qed.

(* every attached session was recorded by a {sub} of that session's user routed to this topic *)
Definition sess_inv (suser : N -> N) (w : world) : Prop :=
  forall k c sid v, kt_cache (tget k (w_topics w)) = Some c -> In (sid, v) (kc_sess c) ->
    v = suser sid /\ (forall x, k = KMe x -> v = x).
Definition op_user (suser : N -> N) (o : kop) : Prop :=
  match o with
  | KSub sid uid _ _ _ _ | KSetSub sid uid _ _ _ _ | KLeave sid uid _ _ => uid = suser sid
  | KUnload _ => True
  end.

Lemma sess_put suser w k t :
  sess_inv suser w ->
  (forall c sid v, kt_cache t = Some c -> In (sid, v) (kc_sess c) -> v = suser sid /\ (forall x, k = KMe x -> v = x)) ->
  sess_inv suser (mkWorld (w_acc w) (tset k t (w_topics w))).
Proof.
  intros SI H k' c sid v. cbn [w_topics]. rewrite tget_tset. destruct (tkey_eqb k' k) eqn:E.
  - apply tkey_eqb_eq in E. subst k'. apply H.
  - apply SI.
Qed.

Lemma kstep_sess_inv suser w o : sess_inv suser w -> op_user suser o -> sess_inv suser (fst (kstep w o)).
Proof.
  intros SI OU. unfold kstep. destruct o as [sid uid root orig mode defacs|sid uid root orig target mode|sid uid orig unsub|k].
  - destruct (expand uid orig) as [k|code] eqn:EX; [|exact SI].
    set (t0 := tget k (w_topics w)). destruct (k_attached t0 sid); [exact SI|].
    set (loaded := match kt_cache t0 with Some _ => inl (t0, false) | None => _ end).
    assert (forall t1 ns c, loaded = inl (t1, ns) -> kt_cache t1 = Some c ->
              forall s v, In (s, v) (kc_sess c) -> v = suser s /\ (forall x, k = KMe x -> v = x)) as LD.
    { intros t1 ns c H EC s v HI. subst loaded. destruct (kt_cache t0) eqn:EC0.
      - inv H. eapply SI; eauto.
      - rewrite (init_no_sess _ _ _ _ _ _ _ _ _ _ _ H EC EC0) in HI. destruct HI. }
    destruct loaded as [[t1 ns]|code]; [|exact SI].
    destruct (kt_cache t1) as [c|] eqn:EC1; [|exact SI]. specialize (LD _ _ _ eq_refl EC1).
    match goal with |- context [k_this_user_sub (key_cat k) (kt_rows t1) c uid root mode ?nb] =>
      pose proof (tus_sess (key_cat k) (kt_rows t1) c uid root mode nb) as T;
      destruct (k_this_user_sub (key_cat k) (kt_rows t1) c uid root mode nb) as [[[rows' c1] ev] res] end.
    assert (forall c0 s v, Some c1 = Some c0 -> In (s, v) (kc_sess c0) -> v = suser s /\ (forall x, k = KMe x -> v = x)) as OLD.
    { intros c0 s v E HI. inv E. apply LD. apply T. exact HI. }
    destruct res as [code|ch| |]; cbn [fst]; try (apply sess_put; [exact SI|cbn [kt_cache]; exact OLD]).
    apply sess_put; [exact SI|]. cbn [kt_cache]. intros c0 s v E HI. inv E.
    destruct (match ch with Some (wt, g) => is_joiner (N.land g wt) | None => true end); [|apply (OLD _ _ _ eq_refl HI)].
    cbn [kc_sess] in HI. apply in_aset_k in HI. destruct HI as [HI|HI]; [|apply (OLD _ _ _ eq_refl HI)].
    inv HI. split; [exact OU|]. intros x ->. apply expand_me in EX. symmetry. apply EX.
  - destruct (expand uid orig) as [k|code] eqn:EX; [|exact SI].
    set (t := tget k (w_topics w)).
    destruct (k_attached t sid).
    + destruct (kt_cache t) as [c|] eqn:EC; [|exact SI].
      assert (forall rows' c1 (ev : kout) (res : kres), incl (kc_sess c1) (kc_sess c) ->
                sess_inv suser (fst (match res with
                  | KDie => (mkWorld (w_acc w) (tset k (mkKt (kt_exists t) rows' (Some c1)) (w_topics w)), ev ++ [(sid, KPanic)])
                  | KUnmod => (mkWorld (w_acc w) (tset k (mkKt (kt_exists t) rows' (Some c1)) (w_topics w)), ev ++ [(sid, KUnmodelled)])
                  | KErr code => (mkWorld (w_acc w) (tset k (mkKt (kt_exists t) rows' (Some c1)) (w_topics w)),
                                  ev ++ (if (code =? 0)%Z then [] else [(sid, KCtrl code)]))
                  | KOk (Some (wt, g)) => (mkWorld (w_acc w) (tset k (mkKt (kt_exists t) rows' (Some c1)) (w_topics w)),
                                           ev ++ [(sid, KAcs 200 (if (target =? 0) || (target =? uid) then 0 else target) wt g)])
                  | KOk None => (mkWorld (w_acc w) (tset k (mkKt (kt_exists t) rows' (Some c1)) (w_topics w)), ev ++ [(sid, KCtrl 304)])
                  end))) as FIN.
      { intros rows' c1 ev res I.
        assert (sess_inv suser (mkWorld (w_acc w) (tset k (mkKt (kt_exists t) rows' (Some c1)) (w_topics w)))) as G.
        { apply sess_put; [exact SI|]. cbn [kt_cache]. intros c0 s v E HI. inv E. eapply SI; [exact EC|apply I; exact HI]. }
        destruct res as [code|[[wt g]|]| |]; exact G. }
      destruct ((target =? 0) || (target =? uid)).
      * pose proof (tus_sess (key_cat k) (kt_rows t) c uid root mode false) as T.
        destruct (k_this_user_sub (key_cat k) (kt_rows t) c uid root mode false) as [[[rows' c1] ev] res]. apply FIN. exact T.
      * pose proof (aus_sess (key_cat k) (w_acc w) (kt_rows t) c uid target mode) as T.
        destruct (k_another_user_sub (key_cat k) (w_acc w) (kt_rows t) c uid target mode) as [[[rows' c1] ev] res]. apply FIN. exact T.
    + destruct mode as [|m0 mode']; [exact SI|].
      destruct (negb (target =? 0) && negb (target =? uid)); [exact SI|].
      destruct (alookup uid (kt_rows t)) as [r|] eqn:ER; [|exact SI].
      destruct (kr_del r); [exact SI|].
      destruct (unmarshal_text 0 (m0 :: mode')) as [mw okw]. destruct (negb okw); [exact SI|].
      destruct (negb (Bool.eqb _ _)); [exact SI|].
      match goal with |- context [if ?b then _ else _] => destruct b end; [exact SI|].
      cbn [fst]. apply sess_put; [exact SI|]. cbn [kt_cache]. intros c0 s v E HI. eapply SI; [exact E|exact HI].
  - destruct (expand uid orig) as [k|code] eqn:EX; [|exact SI].
    set (t := tget k (w_topics w)).
    destruct (negb (k_attached t sid)); [exact SI|].
    destruct (kt_cache t) as [c|] eqn:EC; [|exact SI].
    destruct unsub.
    + assert (forall r, alookup uid (kt_rows t) = Some r ->
                sess_inv suser (fst (if kr_del r then (w, [(sid, KCtrl 304)]) else
                           let rows' := aset uid (mkKrow (kr_want r) (kr_given r) true) (kt_rows t) in
                           let '(c1, ev) := k_evict (key_cat k) c uid true sid in
                           (mkWorld (w_acc w) (tset k (p2p_gc (key_cat k) (mkKt (kt_exists t) rows' (Some c1))) (w_topics w)),
                            (sid, KCtrl 200) :: ev)))) as UNS.
      { intros r ER. destruct (kr_del r); [exact SI|]. cbv zeta.
        destruct (k_evict (key_cat k) c uid true sid) as [c1 ev] eqn:EV. cbn [fst]. apply sess_put; [exact SI|].
        intros c0 s v E HI. unfold p2p_gc in E. apply evict_sess_incl in EV.
        destruct (key_cat k); cbn [kt_cache] in E; try (inv E; eapply SI; [exact EC|apply EV; exact HI]).
        destruct (Nat.eqb _ 0); [discriminate|]. inv E. eapply SI; [exact EC|apply EV; exact HI]. }
      destruct orig; try exact SI; (destruct (alookup uid (kt_rows t)) as [r|] eqn:ER; [apply UNS; reflexivity|exact SI]).
    + cbn [fst]. apply sess_put; [exact SI|]. cbn [kt_cache]. intros c0 s v E HI. inv E. cbn [kc_sess] in HI.
      eapply SI; [exact EC|]. eapply aremove_incl. exact HI.
  - destruct (kt_cache (tget k (w_topics w))) as [c|] eqn:EC; [|exact SI].
    destruct (kc_sess c); [|exact SI]. cbn [fst]. apply sess_put; [exact SI|]. cbn [kt_cache]. discriminate.
Qed.

Lemma init_sess_inv suser acc : sess_inv suser (init_world acc).
Proof.
  intros k c sid v E. exfalso. revert E. unfold init_world. cbn [w_topics tget].
  destruct (tkey_eqb k KSys); [discriminate|].
  induction acc as [|[u a] acc IH]; cbn [flat_map app tget fst]; [discriminate|].
  destruct (tkey_eqb k (KMe u)); [discriminate|]. destruct (tkey_eqb k (KFnd u)); [discriminate|]. exact IH.
Qed.

(* ---------- statements over histories with static hypotheses ---------- *)
Section Final.
Variable isroot : N -> bool.
Variable suser : N -> N.
Variable strictf scope : tkey -> bool.

(* every request: the session is logged in as one user whose level is fixed *)
Definition op_static (o : kop) : Prop :=
  op_user suser o /\
  match o with
  | KSub _ uid root _ _ _ | KSetSub _ uid root _ _ _ => scope KSys = true -> isroot uid = root
  | _ => True
  end.
(* {set sub user=X}: X is a legitimate participant of the addressed topic (in scope), and in a
   strict p2p topic the mode is explicit *)
Definition op_clean (o : kop) : Prop :=
  match o with
  | KSetSub sid uid root orig target mode =>
    forall k, expand uid orig = inl k -> target <> 0 -> target <> uid -> k <> KSys ->
      okuser isroot scope k target /\ (strictf k = true -> key_cat k = CP2P -> mode <> [])
  | _ => True
  end.

Lemma static_ok w o : sess_inv suser w -> op_static o -> op_clean o -> op_ok isroot strictf scope w o.
Proof.
  intros SI [OU OL] OC. destruct o as [sid uid root orig mode defacs|sid uid root orig target mode|sid uid orig unsub|k]; cbn.
  - exact OL.
  - split; [exact OL|]. intros k c EX EC T0 TU NS _. apply (OC k EX T0 TU NS).
  - intros k c EX EC v HL. apply alookup_in in HL. destruct (SI _ _ _ _ EC HL) as [E _]. cbn in OU. congruence.
  - exact I.
Qed.

Theorem kinds_invariant acc h :
  acc_ok strictf acc -> Forall op_static h -> Forall op_clean h ->
  winv isroot strictf scope (fst (krun (init_world acc) h)) /\ sess_inv suser (fst (krun (init_world acc) h)).
Proof.
  intros AO. generalize (init_winv isroot strictf scope acc AO) (init_sess_inv suser acc).
  generalize (init_world acc). induction h as [|o h IH]; intros w WI SI HS HC; cbn; [auto|].
  inversion HS as [|? ? S1 S2]; inversion HC as [|? ? C1 C2]; subst.
  pose proof (kstep_winv isroot strictf scope w o WI (static_ok w o SI S1 C1)) as W1.
  pose proof (kstep_sess_inv suser w o SI (proj1 S1)) as S1'.
  destruct (kstep w o) as [w1 o1]. cbn [fst] in *.
  specialize (IH w1 W1 S1' S2 C2). destruct (krun w1 h) as [w2 os]. exact IH.
Qed.

(* 'me' sessions: no hypothesis besides "a session is one user" *)
Theorem me_sessions_private acc h : Forall (op_user suser) h ->
  forall u c sid v, kt_cache (tget (KMe u) (w_topics (fst (krun (init_world acc) h)))) = Some c ->
    In (sid, v) (kc_sess c) -> v = u.
Proof.
  intros HU. assert (sess_inv suser (fst (krun (init_world acc) h))) as SI.
  { generalize (init_sess_inv suser acc). generalize (init_world acc).
    induction h as [|o h IH]; intros w SI; cbn; [exact SI|]. inversion HU as [|? ? U1 U2]; subst.
    pose proof (kstep_sess_inv suser w o SI U1) as S1. destruct (kstep w o) as [w1 o1]. cbn [fst] in *.
    specialize (IH U2 w1 S1). destruct (krun w1 h) as [w2 os]. exact IH. }
  intros u c sid v EC HI. destruct (SI _ _ _ _ EC HI) as [_ H]. apply (H u eq_refl).
Qed.
End Final.

(* ---------- one stored row and one cached entry per user ---------- *)
Lemma aset_keys_nodup {A} k (v : A) l : NoDup (map fst l) -> NoDup (map fst (aset k v l)).
Proof.
  induction l as [|[k0 v0] l IH]; cbn; intros H; [constructor; [intros []|constructor]|].
  inversion H as [|? ? NI ND]; subst. destruct (N.eqb k k0) eqn:E; cbn.
  - apply N.eqb_eq in E. subst. constructor; assumption.
  - constructor; [|apply IH; exact ND]. intros HI. apply NI.
    clear -HI E. induction l as [|[k1 v1] l IH]; cbn in *.
    + destruct HI as [HI|[]]. subst. rewrite N.eqb_refl in E. discriminate.
    + destruct (N.eqb k k1) eqn:E1; cbn in HI.
      * destruct HI as [HI|HI]; [left; apply N.eqb_eq in E1; congruence|right; exact HI].
      * destruct HI as [HI|HI]; [left; exact HI|right; apply IH; exact HI].
Qed.
Lemma row_modes_nodup rows u w g : NoDup (map fst rows) -> NoDup (map fst (row_modes rows u w g)).
Proof. intros H. unfold row_modes. destruct (alookup u rows); [apply aset_keys_nodup; exact H|exact H]. Qed.

Definition nd (rows : list (N * krow)) : Prop := NoDup (map fst rows).
Lemma tus_nd cat rows c u root mode nb :
  nd rows -> let '(rows', c1, ev, res) := k_this_user_sub cat rows c u root mode nb in nd rows'.
Proof.
  intros H. destruct (k_this_user_sub cat rows c u root mode nb) as [[[rows' c1] ev] res] eqn:E. revert E.
  unfold k_this_user_sub, row_upsert, nd in *. repeat break_match; intros E; inv E; auto;
    first [apply aset_keys_nodup; exact H | apply row_modes_nodup; exact H].
Qed.
Lemma aus_nd cat acc rows c u target mode :
  nd rows -> let '(rows', c1, ev, res) := k_another_user_sub cat acc rows c u target mode in nd rows'.
Proof.
  intros H. destruct (k_another_user_sub cat acc rows c u target mode) as [[[rows' c1] ev] res] eqn:E. revert E.
  unfold k_another_user_sub, row_upsert, nd in *. repeat break_match; intros E; inv E; auto;
    first [apply aset_keys_nodup; exact H | apply row_modes_nodup; exact H].
Qed.
Lemma init_nd acc k t u root orig mode defacs t1 ns :
  nd (kt_rows t) -> init_topic acc k t u root orig mode defacs = inl (t1, ns) -> nd (kt_rows t1).
Proof.
  unfold init_topic, init_p2p, row_upsert, nd. intros H E.
  repeat break_match_hyp; try discriminate; inv E; cbn [kt_rows]; auto; repeat apply aset_keys_nodup; exact H.
Qed.

Definition nd_inv (w : world) : Prop := forall k, nd (kt_rows (tget k (w_topics w))).
Lemma nd_put w k t : nd_inv w -> nd (kt_rows t) -> nd_inv (mkWorld (w_acc w) (tset k t (w_topics w))).
Proof.
  intros NI H k'. cbn [w_topics]. rewrite tget_tset. destruct (tkey_eqb k' k); [exact H|apply NI].
Qed.

Lemma kstep_nd w o : nd_inv w -> nd_inv (fst (kstep w o)).
Proof.
  intros NI. unfold kstep. destruct o as [sid uid root orig mode defacs|sid uid root orig target mode|sid uid orig unsub|k].
  - destruct (expand uid orig) as [k|code]; [|exact NI].
    set (t0 := tget k (w_topics w)). destruct (k_attached t0 sid); [exact NI|].
    set (loaded := match kt_cache t0 with Some _ => inl (t0, false) | None => _ end).
    assert (forall t1 ns, loaded = inl (t1, ns) -> nd (kt_rows t1)) as LD.
    { intros t1 ns H. subst loaded. destruct (kt_cache t0); [inv H; apply NI|]. eapply init_nd; [apply NI|exact H]. }
    destruct loaded as [[t1 ns]|code]; [|exact NI]. specialize (LD _ _ eq_refl).
    destruct (kt_cache t1) as [c|]; [|exact NI].
    match goal with |- context [k_this_user_sub (key_cat k) (kt_rows t1) c uid root mode ?nb] =>
      pose proof (tus_nd (key_cat k) (kt_rows t1) c uid root mode nb LD) as T;
      destruct (k_this_user_sub (key_cat k) (kt_rows t1) c uid root mode nb) as [[[rows' c1] ev] res] end.
    destruct res as [code|ch| |]; cbn [fst]; apply nd_put; auto.
  - destruct (expand uid orig) as [k|code]; [|exact NI].
    set (t := tget k (w_topics w)). pose proof (NI k) as H. fold t in H.
    destruct (k_attached t sid).
    + destruct (kt_cache t) as [c|]; [|exact NI].
      destruct ((target =? 0) || (target =? uid)).
      * pose proof (tus_nd (key_cat k) (kt_rows t) c uid root mode false H) as T.
        destruct (k_this_user_sub (key_cat k) (kt_rows t) c uid root mode false) as [[[rows' c1] ev] res].
        destruct res as [code|[[wt g]|]| |]; cbn [fst]; apply nd_put; auto.
      * pose proof (aus_nd (key_cat k) (w_acc w) (kt_rows t) c uid target mode H) as T.
        destruct (k_another_user_sub (key_cat k) (w_acc w) (kt_rows t) c uid target mode) as [[[rows' c1] ev] res].
        destruct res as [code|[[wt g]|]| |]; cbn [fst]; apply nd_put; auto.
    + destruct mode as [|m0 mode']; [exact NI|].
      destruct (negb (target =? 0) && negb (target =? uid)); [exact NI|].
      destruct (alookup uid (kt_rows t)) as [r|]; [|exact NI]. destruct (kr_del r); [exact NI|].
      destruct (unmarshal_text 0 (m0 :: mode')) as [mw okw]. destruct (negb okw); [exact NI|].
      destruct (negb (Bool.eqb _ _)); [exact NI|].
      match goal with |- context [if ?b then _ else _] => destruct b end; [exact NI|].
      cbn [fst]. apply nd_put; [exact NI|]. cbn [kt_rows]. apply row_modes_nodup. exact H.
  - destruct (expand uid orig) as [k|code]; [|exact NI].
    set (t := tget k (w_topics w)). pose proof (NI k) as H. fold t in H.
    destruct (negb (k_attached t sid)); [exact NI|]. destruct (kt_cache t) as [c|]; [|exact NI].
    destruct unsub.
    + assert (forall r, nd_inv (fst (if kr_del r then (w, [(sid, KCtrl 304)]) else
                           let rows' := aset uid (mkKrow (kr_want r) (kr_given r) true) (kt_rows t) in
                           let '(c1, ev) := k_evict (key_cat k) c uid true sid in
                           (mkWorld (w_acc w) (tset k (p2p_gc (key_cat k) (mkKt (kt_exists t) rows' (Some c1))) (w_topics w)),
                            (sid, KCtrl 200) :: ev)))) as UNS.
      { intros r. destruct (kr_del r); [exact NI|]. cbv zeta. destruct (k_evict (key_cat k) c uid true sid) as [c1 ev].
        cbn [fst]. apply nd_put; [exact NI|]. unfold p2p_gc.
        destruct (key_cat k); cbn [kt_cache kt_rows]; try (apply aset_keys_nodup; exact H).
        destruct (Nat.eqb _ 0); cbn [kt_rows empty_topic]; [constructor|apply aset_keys_nodup; exact H]. }
      destruct orig; try exact NI; (destruct (alookup uid (kt_rows t)) as [r|]; [apply UNS|exact NI]).
    + cbn [fst]. apply nd_put; [exact NI|exact H].
  - destruct (kt_cache (tget k (w_topics w))) as [c|]; [|exact NI].
    destruct (kc_sess c); [|exact NI]. cbn [fst]. apply nd_put; [exact NI|apply NI].
Qed.

Lemma init_nd_inv acc : NoDup (map fst acc) -> nd_inv (init_world acc).
Proof.
  intros _ k. unfold init_world. cbn [w_topics tget]. destruct (tkey_eqb k KSys); [constructor|].
  induction acc as [|[u a] acc IH]; cbn [flat_map app tget fst]; [constructor|].
  destruct (tkey_eqb k (KMe u)); [cbn; constructor; [intros []|constructor]|].
  destruct (tkey_eqb k (KFnd u)); [cbn; constructor; [intros []|constructor]|]. exact IH.
Qed.

Lemma krun_nd h : forall w, nd_inv w -> nd_inv (fst (krun w h)).
Proof.
  induction h as [|o h IH]; intros w H; cbn; [exact H|]. pose proof (kstep_nd w o H) as S.
  destruct (kstep w o) as [w1 o1]. cbn [fst] in *. specialize (IH w1 S). destruct (krun w1 h) as [w2 os]. exact IH.
Qed.

(* at most two rows when every key is one of two *)
Lemma two_keys (l : list (N * krow)) a b : NoDup (map fst l) -> (forall e, In e l -> fst e = a \/ fst e = b) -> (length l <= 2)%nat.
Proof.
  intros ND H. rewrite <- (map_length fst). 
  assert (incl (map fst l) [a; b]) as I.
  { intros x HI. apply in_map_iff in HI. destruct HI as [e [<- HI]]. destruct (H e HI) as [-> | ->]; cbn; auto. }
  pose proof (NoDup_incl_length ND I) as L. cbn in L. exact L.
Qed.

(* ---------- the scopes of the three statements ---------- *)
Definition sc_none (k : tkey) : bool := false.
Definition sc_sys (k : tkey) : bool := match k with KSys => true | _ => false end.
Definition sc_mefnd (k : tkey) : bool := match k with KMe _ | KFnd _ => true | _ => false end.
Definition sc_p2p (k : tkey) : bool := match k with KP2P _ _ => true | _ => false end.

(* the system topic: no hypothesis on {set sub} at all *)
Lemma clean_sys isroot o : op_clean isroot sc_none sc_sys o.
Proof.
  destruct o; cbn; auto. intros k EX T0 TU NS. split; [|discriminate].
  unfold okuser. destruct k; cbn; try discriminate. contradiction.
Qed.

(* ---------- witnesses: the three reproduced p2p defects and the me/fnd one ---------- *)
Definition wk_acc : list (N * N) := [(1, 31); (2, 31); (3, 31)].
Definition wk_default_acc : list (N * N) := [(1, 63); (2, 63)].
Definition m_J : list N := [74].
(* user 1 opens the p2p topic with user 2 and names user 3 in {set sub} *)
Definition wk_third : list kop := [KSub 1 1 false (OUsr 2) [] []; KSetSub 1 1 false (OUsr 2) 3 []].
Lemma wk_third_row : exists r, alookup 3 (kt_rows (tget (KP2P 1 2) (w_topics (fst (krun (init_world wk_acc) wk_third))))) = Some r.
Proof. vm_compute. eexists. reflexivity. Qed.
(* default accounts (JRWPAS): the initiator's grant is not masked *)
Definition wk_unmasked : list kop := [KSub 1 1 false (OUsr 2) [] []].
Lemma wk_unmasked_row :
  option_map kr_given (alookup 1 (kt_rows (tget (KP2P 1 2) (w_topics (fst (krun (init_world wk_default_acc) wk_unmasked)))))) = Some 63.
Proof. vm_compute. reflexivity. Qed.
(* the peer leaves, the remaining user re-invites without a mode: grant J *)
Definition wk_reinvite : list kop :=
  [KSub 1 1 false (OUsr 2) [] []; KSub 2 2 false (OUsr 1) [] []; KLeave 2 2 (OUsr 1) true; KSetSub 1 1 false (OUsr 2) 2 []].
Lemma wk_reinvite_row :
  option_map kr_given (alookup 2 (kt_rows (tget (KP2P 1 2) (w_topics (fst (krun (init_world wk_acc) wk_reinvite)))))) = Some 1.
Proof. vm_compute. reflexivity. Qed.
(* user 1 names user 2 in {set sub} on the own 'me' and 'fnd' topics; user 2 then attaches to fnd of 1 *)
Definition wk_me : list kop := [KSub 1 1 false OMe [] []; KSetSub 1 1 false OMe 2 []].
Lemma wk_me_row : exists r, alookup 2 (kt_rows (tget (KMe 1) (w_topics (fst (krun (init_world wk_acc) wk_me))))) = Some r.
Proof. vm_compute. eexists. reflexivity. Qed.
Definition wk_fnd : list kop := [KSub 1 1 false OFnd [] []; KSetSub 1 1 false OFnd 2 []; KSub 2 2 false (ORawFnd 1) [] []].
Lemma wk_fnd_sess : exists c, kt_cache (tget (KFnd 1) (w_topics (fst (krun (init_world wk_acc) wk_fnd)))) = Some c /\ In (2, 2) (kc_sess c).
Proof. vm_compute. eexists. split; [reflexivity|]. right. left. reflexivity. Qed.

(* ---------- the statements of C07 part B ---------- *)
Section Statements.
Variable isroot : N -> bool.
Variable suser : N -> N.

Lemma forall_in {A} (P : A -> Prop) l x : Forall P l -> In x l -> P x.
Proof. intros H HI. rewrite Forall_forall in H. auto. Qed.

(* me / fnd: every stored subscription, cached entry and attached session belongs to the owner *)
Theorem mefnd_private acc h :
  Forall (op_static isroot suser sc_mefnd) h -> Forall (op_clean isroot sc_none sc_mefnd) h ->
  forall k u, k = KMe u \/ k = KFnd u ->
  let t := tget k (w_topics (fst (krun (init_world acc) h))) in
  (forall v r, In (v, r) (kt_rows t) -> v = u) /\
  (forall c, kt_cache t = Some c ->
     (forall v r, In (v, r) (kc_users c) -> v = u) /\ (forall sid v, In (sid, v) (kc_sess c) -> v = u)).
Proof.
  intros HS HC k u HK t.
  destruct (kinds_invariant isroot suser sc_none sc_mefnd acc h) as [[WT _] _]; auto.
  { intros [k0 E]. discriminate E. }
  pose proof (WT k) as [RO CO]. fold t in RO, CO.
  assert (forall v, okuser isroot sc_mefnd k v -> v = u) as OU.
  { intros v H. destruct HK as [-> | ->]; apply H; reflexivity. }
  split.
  - intros v r HI. apply OU. apply (forall_in _ _ _ RO HI).
  - intros c EC. rewrite EC in CO. destruct CO as [CU [CS _]]. split.
    + intros v r HI. apply OU. apply (forall_in _ _ _ CU HI).
    + intros sid v HI. apply OU. apply (forall_in _ _ _ CS HI).
Qed.

(* sys: every stored subscription, cached entry and attached session belongs to a root user *)
Theorem sys_root_only acc h :
  Forall (op_static isroot suser sc_sys) h ->
  let t := tget KSys (w_topics (fst (krun (init_world acc) h))) in
  (forall v r, In (v, r) (kt_rows t) -> isroot v = true) /\
  (forall c, kt_cache t = Some c ->
     (forall v r, In (v, r) (kc_users c) -> isroot v = true) /\ (forall sid v, In (sid, v) (kc_sess c) -> isroot v = true)).
Proof.
  intros HS t.
  destruct (kinds_invariant isroot suser sc_none sc_sys acc h) as [[WT _] _]; auto.
  { intros [k0 E]. discriminate E. }
  { apply Forall_forall. intros o _. apply clean_sys. }
  pose proof (WT KSys) as [RO CO]. fold t in RO, CO. split.
  - intros v r HI. apply (forall_in _ _ _ RO HI). reflexivity.
  - intros c EC. rewrite EC in CO. destruct CO as [CU [CS _]]. split.
    + intros v r HI. apply (forall_in _ _ _ CU HI). reflexivity.
    + intros sid v HI. apply (forall_in _ _ _ CS HI). reflexivity.
Qed.

(* p2p: at most two subscriptions, of the two users in the name, modes within JRWPA with A *)
Theorem p2p_shape acc h :
  NoDup (map fst acc) -> Forall (fun e => okmode (snd e)) acc ->
  Forall (op_static isroot suser sc_p2p) h -> Forall (op_clean isroot sc_p2p sc_p2p) h ->
  forall a b, let t := tget (KP2P a b) (w_topics (fst (krun (init_world acc) h))) in
  (length (kt_rows t) <= 2)%nat /\
  (forall v r, In (v, r) (kt_rows t) -> (v = a \/ v = b) /\ okmode (kr_want r) /\ okmode (kr_given r)) /\
  (forall c, kt_cache t = Some c ->
     (forall v r, In (v, r) (kc_users c) -> (v = a \/ v = b) /\ okmode (kr_want r) /\ okmode (kr_given r)) /\
     (forall sid v, In (sid, v) (kc_sess c) -> v = a \/ v = b)).
Proof.
  intros ND AO HS HC a b t.
  destruct (kinds_invariant isroot suser sc_p2p sc_p2p acc h) as [[WT _] _]; auto.
  { intros _. exact AO. }
  pose proof (WT (KP2P a b)) as [RO CO]. fold t in RO, CO.
  pose proof (krun_nd h _ (init_nd_inv acc ND) (KP2P a b)) as NDR. fold t in NDR.
  assert (forall v r, okent isroot sc_p2p sc_p2p (KP2P a b) (v, r) -> (v = a \/ v = b) /\ okmode (kr_want r) /\ okmode (kr_given r)) as OE.
  { intros v r [OU OR]. split; [apply OU; reflexivity|apply OR; reflexivity]. }
  split; [|split].
  - apply (two_keys _ a b NDR). intros [v r] HI. cbn. apply (OE v r). apply (forall_in _ _ _ RO HI).
  - intros v r HI. apply OE. apply (forall_in _ _ _ RO HI).
  - intros c EC. rewrite EC in CO. destruct CO as [CU [CS _]]. split.
    + intros v r HI. apply OE. apply (forall_in _ _ _ CU HI).
    + intros sid v HI. apply (forall_in _ _ _ CS HI). reflexivity.
Qed.
End Statements.
