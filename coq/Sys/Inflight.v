(* C13  The bounded request slot of a session (Session.inflightReqs) as a PANIC SITE, with the
   slow-consumer eviction path.

   boundedWaitGroup.Done() (server/sessionstore.go:45-55) calls logs.Err.Panicln when it is reached without a
   preceding Add(): the panic is raised in a hub / topic / topicInit goroutine, nothing recovers it, the server
   process dies.  This file models every place that calls Add or Done, statement by statement, as an
   INTERLEAVING of handler bodies (one label = one handler body at the granularity of one channel receive):

     Session.subscribe / Session.leave      session.go:617-682     Add(1); Done() on the early returns
     Hub.run, case join                      hub.go:151-222         Done() when the topic is not ready / reg is full
     topicInit                               init_topic.go:21-132   deferred Done() on failure; the failure branch
                                                                    drains t.reg / t.unreg (Done() WITHOUT a test of msg.init)
     Topic.registerSession                   topic.go:329-363       Done()
     Topic.unregisterSession                 topic.go:300-327       Done() only  if msg.init && inflightReqs != nil
     Topic.broadcastToSessions               topic.go:1255-1338     a session whose send queue is full is dropped:
                                                                    unregisterSession(&ClientComMessage{sess, init:false})
     Session.cleanUp / unsubAll              session.go:224-236, 412-428   Wait(); inflightReqs = nil; {sess, init:false} to every topic
     Topic.evictUser / write loop detach     topic.go:3311-3359, hdl_websock.go

   [init_test] selects the code: true = as it is (`if msg.init && msg.sess.inflightReqs != nil`), false = the
   variant that drops the test of msg.init.

   Abstractions (said in the manifest): queues are unbounded FIFOs except where the code has a `default:` branch
   (hub.join, t.reg: the "full" outcome is a label parameter); a topic that is running stays registered (unload,
   deletion and re-creation of topics belong to C14's model coq/Sys/Lifecycle.v); who a broadcast selects (the
   permission / presence filters of broadcastToSessions) is a label parameter [rcpts], any list; whether
   handleSubscription succeeds is a label parameter.  Definitions only. *)
From Coq Require Import List NArith Arith Bool.
Import ListNotations.

Definition sid := N.
Definition tid := N.

Definition site_done_before_add : N := 9.   (* boundedWaitGroup.Done: "Done() called before Add()" *)

Inductive rkind := RSub | RLeave (unsub : bool).

(* a ClientComMessage travelling through hub.join / t.reg / t.unreg; q_init = msg.init *)
Record req := mkReq { q_sess : sid; q_topic : tid; q_kind : rkind; q_init : bool }.

Record sess := mkSess {
  s_inflight : option nat;   (* None: inflightReqs == nil (after cleanUp); Some n: len(inflightReqs.sem) *)
  s_term : bool;             (* terminating *)
  s_full : bool;             (* the send queue has no free slot: queueOut takes the default branch *)
  s_subs : list tid;         (* Session.subs *)
  s_detachq : list tid }.    (* Session.detach *)

Inductive phase := PAbsent | PInit | PRun.   (* not in Hub.topics | registered, paused, topicInit running | run loop *)

Record topic := mkTopic { t_phase : phase; t_sessions : list sid }.

Record config := mkCfg {
  c_sess : sid -> sess;
  c_topic : tid -> topic;
  c_join : list req;     (* Hub.join *)
  c_inits : list req;    (* the join message of every running topicInit goroutine *)
  c_reg : list req;      (* Topic.reg of every topic (a topic receives the first item addressed to it) *)
  c_unreg : list req }.  (* Topic.unreg of every topic *)

Inductive outcome := Ok (c : config) | Panic (site : N) | Skip.   (* Skip: the label is not enabled in this state *)

Inductive label :=
| LSub (s : sid) (t : tid) (jfull : bool)            (* Session.subscribe; jfull: hub.join is full *)
| LLeave (s : sid) (t : tid) (unsub mefnd : bool)    (* Session.leave; mefnd: the topic is 'me' or 'fnd' *)
| LHubJoin (rfull : bool)                            (* Hub.run takes one message from hub.join; rfull: t.reg is full *)
| LInitDone (t : tid) (ok : bool)                    (* topicInit of t ends *)
| LReg (t : tid) (ok : bool)                         (* Topic.run takes one message from t.reg; ok: handleSubscription succeeds *)
| LUnreg (t : tid) (evict : list sid)                (* ... from t.unreg; evict: sessions of the user, for {leave unsub} *)
| LBroadcast (t : tid) (rcpts : list sid)            (* broadcastToSessions of any {data}/{pres}/{info}; rcpts pass the filters *)
| LClog (s : sid) (full : bool)                      (* environment: the client stops / resumes reading *)
| LDiscBegin (s : sid)                               (* cleanUp: terminating = 1 *)
| LDiscEnd (s : sid)                                 (* cleanUp: Wait() returned; inflightReqs = nil; unsubAll *)
| LEvictUser (t : tid) (ss : list sid)               (* Topic.evictUser on the sessions of one user *)
| LSessDetach (s : sid).                             (* the write loop takes one name from Session.detach *)

(* ---------- small library ---------- *)
Fixpoint mem (x : N) (l : list N) : bool :=
  match l with [] => false | y :: r => N.eqb x y || mem x r end.

Fixpoint remove_n (x : N) (l : list N) : list N :=
  match l with [] => [] | y :: r => if N.eqb x y then remove_n x r else y :: remove_n x r end.

Definition upd {A : Type} (f : N -> A) (k : N) (v : A) : N -> A := fun x => if N.eqb x k then v else f x.

(* first request addressed to topic t, and the queue without it *)
Fixpoint take_first (t : tid) (l : list req) : option (req * list req) :=
  match l with
  | [] => None
  | q :: r =>
      if N.eqb (q_topic q) t then Some (q, r)
      else match take_first t r with
           | Some (q', r') => Some (q', q :: r')
           | None => None
           end
  end.

Definition for_topic (t : tid) (q : req) : bool := N.eqb (q_topic q) t.
Definition not_for_topic (t : tid) (q : req) : bool := negb (N.eqb (q_topic q) t).

(* ---------- updaters ---------- *)
Definition set_inflight (x : sess) (v : option nat) : sess := mkSess v (s_term x) (s_full x) (s_subs x) (s_detachq x).
Definition set_term (x : sess) : sess := mkSess (s_inflight x) true (s_full x) (s_subs x) (s_detachq x).
Definition set_full (x : sess) (b : bool) : sess := mkSess (s_inflight x) (s_term x) b (s_subs x) (s_detachq x).
Definition set_subs (x : sess) (l : list tid) : sess := mkSess (s_inflight x) (s_term x) (s_full x) l (s_detachq x).
Definition set_detachq (x : sess) (l : list tid) : sess := mkSess (s_inflight x) (s_term x) (s_full x) (s_subs x) l.

Definition put_sess (c : config) (s : sid) (x : sess) : config :=
  mkCfg (upd (c_sess c) s x) (c_topic c) (c_join c) (c_inits c) (c_reg c) (c_unreg c).
Definition with_sessions (c : config) (f : sid -> sess) : config :=
  mkCfg f (c_topic c) (c_join c) (c_inits c) (c_reg c) (c_unreg c).
Definition put_topic (c : config) (t : tid) (x : topic) : config :=
  mkCfg (c_sess c) (upd (c_topic c) t x) (c_join c) (c_inits c) (c_reg c) (c_unreg c).
Definition set_join (c : config) (l : list req) : config := mkCfg (c_sess c) (c_topic c) l (c_inits c) (c_reg c) (c_unreg c).
Definition set_inits (c : config) (l : list req) : config := mkCfg (c_sess c) (c_topic c) (c_join c) l (c_reg c) (c_unreg c).
Definition set_reg (c : config) (l : list req) : config := mkCfg (c_sess c) (c_topic c) (c_join c) (c_inits c) l (c_unreg c).
Definition set_unreg (c : config) (l : list req) : config := mkCfg (c_sess c) (c_topic c) (c_join c) (c_inits c) (c_reg c) l.

(* ---------- boundedWaitGroup (sessionstore.go:24-59), capacity 1 (sessionstore.go:118) ---------- *)
Definition capacity : nat := 1.

(* Done(): panics when the semaphore is empty.  (Never called on a nil wait group: see the callers.) *)
Definition bwg_done (x : sess) : option sess :=
  match s_inflight x with
  | Some (S n) => Some (set_inflight x (Some n))
  | Some O => None
  | None => None
  end.

(* `if sess.inflightReqs != nil { sess.inflightReqs.Done() }` *)
Definition done_if_live (x : sess) : option sess :=
  match s_inflight x with
  | None => Some x
  | Some _ => bwg_done x
  end.

Definition sess_done (c : config) (s : sid) : outcome :=
  match bwg_done (c_sess c s) with
  | Some x => Ok (put_sess c s x)
  | None => Panic site_done_before_add
  end.

Definition sess_done_if_live (c : config) (s : sid) : outcome :=
  match done_if_live (c_sess c s) with
  | Some x => Ok (put_sess c s x)
  | None => Panic site_done_before_add
  end.

(* ---------- Session.subscribe (session.go:617-648) ---------- *)
Definition do_subscribe (c : config) (s : sid) (t : tid) (jfull : bool) : outcome :=
  let x := c_sess c s in
  if s_term x then Skip                                   (* the read loop has ended *)
  else match s_inflight x with
       | None => Skip
       | Some n =>
           if capacity <=? n then Skip                    (* Add(1) blocks: the slot is taken *)
           else
             let c1 := put_sess c s (set_inflight x (Some (S n))) in      (* s.inflightReqs.Add(1) *)
             if mem t (s_subs x) then sess_done c1 s      (* already subscribed: InfoAlreadySubscribed; Done() *)
             else if jfull then sess_done c1 s            (* hub.join full: 503; Done() *)
             else Ok (set_join c1 (c_join c1 ++ [mkReq s t RSub true]))
       end.

(* ---------- Session.leave (session.go:650-682) ---------- *)
Definition do_leave (c : config) (s : sid) (t : tid) (unsub mefnd : bool) : outcome :=
  let x := c_sess c s in
  if s_term x then Skip
  else match s_inflight x with
       | None => Skip
       | Some n =>
           if capacity <=? n then Skip
           else
             let c1 := put_sess c s (set_inflight x (Some (S n))) in      (* Add(1) *)
             if mem t (s_subs x) then
               if mefnd && unsub then sess_done c1 s      (* cannot unsubscribe from me/fnd: 403; Done() *)
               else Ok (set_unreg c1 (c_unreg c1 ++ [mkReq s t (RLeave unsub) true]))      (* sub.done <- msg *)
             else sess_done c1 s                          (* not attached: Done(); 304 / 409 *)
       end.

(* ---------- Hub.run, case join := <-h.join (hub.go:153-222) ---------- *)
Definition do_hub_join (c : config) (rfull : bool) : outcome :=
  match c_join c with
  | [] => Skip
  | q :: rest =>
      let c1 := set_join c rest in
      let t := q_topic q in
      match t_phase (c_topic c t) with
      | PAbsent =>                                         (* create the paused topic, go topicInit(t, join, h) *)
          Ok (set_inits (put_topic c1 t (mkTopic PInit [])) (c_inits c1 ++ [q]))
      | PInit => sess_done_if_live c1 (q_sess q)           (* t.isInactive(): Done(); ErrLockedReply *)
      | PRun =>
          if rfull then sess_done_if_live c1 (q_sess q)    (* t.reg full: Done(); 503 *)
          else Ok (set_reg c1 (c_reg c1 ++ [q]))
      end
  end.

(* the loop `for len(t.unreg) > 0 { msg := <-t.unreg; if msg.sess != nil && msg.sess.inflightReqs != nil { Done() } ... }`
   of the failure branch of topicInit (init_topic.go:79-88): NO test of msg.init *)
Fixpoint drain_unreg (f : sid -> sess) (l : list req) : option (sid -> sess) :=
  match l with
  | [] => Some f
  | q :: r =>
      match done_if_live (f (q_sess q)) with
      | Some x => drain_unreg (upd f (q_sess q) x) r
      | None => None
      end
  end.

(* ---------- topicInit (init_topic.go:21-132) ---------- *)
Definition do_init_done (c : config) (t : tid) (ok : bool) : outcome :=
  match take_first t (c_inits c) with
  | None => Skip
  | Some (q, rest) =>
      let c1 := set_inits c rest in
      if ok then
        (* t.reg <- join (subscribeReqIssued = true); markPaused(false); go t.run(h) *)
        Ok (set_reg (put_topic c1 t (mkTopic PRun (t_sessions (c_topic c t)))) (c_reg c1 ++ [q]))
      else
        (* h.topicDel; reply to join; re-queue t.reg to hub.join; drain t.clientMsg, t.unreg, t.meta; deferred Done() *)
        let c2 := put_topic c1 t (mkTopic PAbsent []) in
        let c3 := set_reg (set_join c2 (c_join c2 ++ filter (for_topic t) (c_reg c2))) (filter (not_for_topic t) (c_reg c2)) in
        match drain_unreg (c_sess c3) (filter (for_topic t) (c_unreg c3)) with
        | None => Panic site_done_before_add
        | Some f =>
            let c4 := set_unreg (with_sessions c3 f) (filter (not_for_topic t) (c_unreg c3)) in
            sess_done_if_live c4 (q_sess q)                (* defer: !subscribeReqIssued && join.Sub != nil && inflightReqs != nil *)
        end
  end.

(* ---------- Topic.registerSession (topic.go:329-363) ---------- *)
Definition do_reg (c : config) (t : tid) (ok : bool) : outcome :=
  match t_phase (c_topic c t) with
  | PRun =>
      match take_first t (c_reg c) with
      | None => Skip
      | Some (q, rest) =>
          let c1 := set_reg c rest in
          let s := q_sess q in
          let x := c_sess c1 s in
          let c2 :=
            if mem t (s_subs x) then c1                    (* msg.sess.getSub(t.name) != nil: InfoAlreadySubscribed *)
            else if ok then                                (* handleSubscription: t.addSession, sess.addSub *)
              put_sess (put_topic c1 t (mkTopic PRun (s :: t_sessions (c_topic c1 t)))) s (set_subs x (t :: s_subs x))
            else c1 in
          sess_done_if_live c2 s                           (* if msg.sess.inflightReqs != nil { Done() } *)
      end
  | _ => Skip
  end.

(* Topic.remSession + Session.delSub for a simple session (handleLeaveRequest, topic.go:716-722) *)
Definition detach_now (c : config) (t : tid) (s : sid) : config :=
  let tp := c_topic c t in
  if mem s (t_sessions tp) then
    let x := c_sess c s in
    put_sess (put_topic c t (mkTopic (t_phase tp) (remove_n s (t_sessions tp)))) s (set_subs x (remove_n t (s_subs x)))
  else c.

(* Topic.evictUser (topic.go:3343-3358): remSession; s.detachSession(t.name) (skipped once terminating) *)
Fixpoint evict_all (c : config) (t : tid) (ss : list sid) : config :=
  match ss with
  | [] => c
  | s :: r =>
      let tp := c_topic c t in
      let c1 :=
        if mem s (t_sessions tp) then
          let x := c_sess c s in
          put_sess (put_topic c t (mkTopic (t_phase tp) (remove_n s (t_sessions tp)))) s
                   (if s_term x then x else set_detachq x (s_detachq x ++ [t]))
        else c in
      evict_all c1 t r
  end.

(* ---------- Topic.unregisterSession (topic.go:300-327) ---------- *)
Definition unregister_session (init_test : bool) (c : config) (t : tid) (q : req) (evict : list sid) : outcome :=
  (* t.handleLeaveRequest(msg, msg.sess) *)
  let c1 :=
    match q_kind q with
    | RLeave true => if q_init q then evict_all c t evict else detach_now c t (q_sess q)      (* replyLeaveUnsub -> evictUser *)
    | _ => detach_now c t (q_sess q)
    end in
  (* if msg.init && msg.sess.inflightReqs != nil { msg.sess.inflightReqs.Done() } *)
  if (if init_test then q_init q else true) then sess_done_if_live c1 (q_sess q) else Ok c1.

Definition do_unreg (init_test : bool) (c : config) (t : tid) (evict : list sid) : outcome :=
  match t_phase (c_topic c t) with
  | PRun =>
      match take_first t (c_unreg c) with
      | None => Skip
      | Some (q, rest) => unregister_session init_test (set_unreg c rest) t q evict
      end
  | _ => Skip
  end.

(* ---------- Topic.broadcastToSessions (topic.go:1255-1338) ---------- *)
(* Session.queueOut: true when terminating; false when the send queue is full *)
Definition queue_out_fails (x : sess) : bool := negb (s_term x) && s_full x.

Definition drop_list (c : config) (t : tid) (rcpts : list sid) : list sid :=
  filter (fun s => mem s rcpts && queue_out_fails (c_sess c s)) (t_sessions (c_topic c t)).

(* for _, sess := range dropSessions { t.unregisterSession(&ClientComMessage{sess: sess, init: false}) } *)
Fixpoint drop_sessions (init_test : bool) (c : config) (t : tid) (l : list sid) : outcome :=
  match l with
  | [] => Ok c
  | s :: r =>
      match unregister_session init_test c t (mkReq s t (RLeave false) false) [] with
      | Ok c1 => drop_sessions init_test c1 t r
      | o => o
      end
  end.

Definition do_broadcast (init_test : bool) (c : config) (t : tid) (rcpts : list sid) : outcome :=
  match t_phase (c_topic c t) with
  | PRun => drop_sessions init_test c t (drop_list c t rcpts)
  | _ => Skip
  end.

(* ---------- Session.cleanUp (session.go:412-428), unsubAll (224-236) ---------- *)
Definition do_disc_begin (c : config) (s : sid) : outcome :=
  let x := c_sess c s in
  if s_term x then Skip else Ok (put_sess c s (set_detachq (set_term x) [])).     (* terminating = 1; purgeChannels *)

Definition do_disc_end (c : config) (s : sid) : outcome :=
  let x := c_sess c s in
  if s_term x then
    match s_inflight x with
    | Some O =>                                            (* inflightReqs.Wait() returns *)
        Ok (set_unreg (put_sess c s (set_inflight x None))            (* s.inflightReqs = nil *)
                      (c_unreg c ++ map (fun t => mkReq s t (RLeave false) false) (s_subs x)))   (* unsubAll *)
    | _ => Skip
    end
  else Skip.

Definition do_sess_detach (c : config) (s : sid) : outcome :=
  let x := c_sess c s in
  match s_detachq x with
  | [] => Skip
  | t :: r => Ok (put_sess c s (set_subs (set_detachq x r) (remove_n t (s_subs x))))
  end.

(* ---------- one step ---------- *)
Definition exec (init_test : bool) (l : label) (c : config) : outcome :=
  match l with
  | LSub s t jfull => do_subscribe c s t jfull
  | LLeave s t unsub mefnd => do_leave c s t unsub mefnd
  | LHubJoin rfull => do_hub_join c rfull
  | LInitDone t ok => do_init_done c t ok
  | LReg t ok => do_reg c t ok
  | LUnreg t evict => do_unreg init_test c t evict
  | LBroadcast t rcpts => do_broadcast init_test c t rcpts
  | LClog s b => Ok (put_sess c s (set_full (c_sess c s) b))
  | LDiscBegin s => do_disc_begin c s
  | LDiscEnd s => do_disc_end c s
  | LEvictUser t ss => match t_phase (c_topic c t) with PRun => Ok (evict_all c t ss) | _ => Skip end
  | LSessDetach s => do_sess_detach c s
  end.

(* a history: labels that are not enabled are skipped; a panic ends the run *)
Fixpoint run (init_test : bool) (c : config) (ls : list label) : outcome :=
  match ls with
  | [] => Ok c
  | l :: r =>
      match exec init_test l c with
      | Ok c1 => run init_test c1 r
      | Skip => run init_test c r
      | Panic site => Panic site
      end
  end.

Definition is_panic (o : outcome) : bool := match o with Panic _ => true | _ => false end.

(* server start: every connection is new (newBoundedWaitGroup(1)), nothing is loaded *)
Definition sess0 : sess := mkSess (Some O) false false [] [].
Definition topic0 : topic := mkTopic PAbsent [].
Definition init_cfg : config := mkCfg (fun _ => sess0) (fun _ => topic0) [] [] [] [].

(* requests of session s that hold its slot *)
Definition holds (s : sid) (q : req) : bool := N.eqb (q_sess q) s && q_init q.
Definition count (s : sid) (l : list req) : nat := length (filter (holds s) l).
Definition pending (c : config) (s : sid) : nat :=
  count s (c_join c) + count s (c_inits c) + count s (c_reg c) + count s (c_unreg c).

Definition quiescent (c : config) : bool :=
  match c_join c, c_inits c, c_reg c, c_unreg c with [], [], [], [] => true | _, _, _, _ => false end.

(* the witness of the refutation: a session attaches, stops reading, the topic broadcasts *)
Definition w_slow_consumer : list label :=
  [LSub 1 7 false; LHubJoin false; LInitDone 7 true; LReg 7 true; LClog 1 true; LBroadcast 7 [1]]%N.

(* ---------- the driver's view (harness/runner/r_c13x.ml) ---------- *)
(* run internal steps until the queues are empty: what the implementation does between two quiescent points.
   [init_ok q] / [reg_ok q] : result of topicInit / handleSubscription for request q; [users s] : the sessions of s's user *)
Definition internal_step (init_ok reg_ok : req -> bool) (users : sid -> list sid) (c : config) : option label :=
  match c_join c, c_inits c, c_reg c, c_unreg c with
  | _ :: _, _, _, _ => Some (LHubJoin false)
  | [], q :: _, _, _ => Some (LInitDone (q_topic q) (init_ok q))
  | [], [], q :: _, _ => Some (LReg (q_topic q) (reg_ok q))
  | [], [], [], q :: _ => Some (LUnreg (q_topic q) (users (q_sess q)))
  | [], [], [], [] => None
  end.

Fixpoint settle (fuel : nat) (init_test : bool) (init_ok reg_ok : req -> bool) (users : sid -> list sid) (c : config) : outcome :=
  match fuel with
  | O => Ok c
  | S k =>
      match internal_step init_ok reg_ok users c with
      | None => Ok c
      | Some l =>
          match exec init_test l c with
          | Ok c1 => settle k init_test init_ok reg_ok users c1
          | Skip => Ok c
          | Panic site => Panic site
          end
      end
  end.
