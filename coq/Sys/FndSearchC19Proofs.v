(* Laws of the SEARCH layer of C19 (model Sys/FndSearchC19.v): all queries, all topic
   states, all sessions, all configurations of masked namespaces, all rewriters, all
   candidate rows; histories of any length. *)
From Coq Require Import NArith ZArith List Bool Lia Arith Permutation.
From Coq Require Import ZifyBool ZifyNat ZifyN.
Require Import Tinode.Base.Util Tinode.Pure.Query Tinode.Pure.QuerySpec Tinode.Pure.QueryProofs.
Require Import Tinode.Pure.Tags Tinode.Pure.TagsProofs Tinode.Sys.FndSearchC19.
Import ListNotations.
Open Scope N_scope.

(* ---------- stringSliceDelta: every new string that is not old is reported as added ---------- *)
Lemma delta_loop_added_complete_c19 fuel : forall old new a r i,
  (length old + length new <= fuel)%nat ->
  delta_loop fuel old new = (a, r, i) -> forall x, In x new -> ~ In x old -> In x a.
Proof.
  induction fuel as [|f IH]; intros old new a r i Hl H x Hx Hn.
  - destruct new; [contradiction|]. destruct old; cbn in Hl; lia.
  - cbn [delta_loop] in H. destruct old as [|o os], new as [|n ns]; try contradiction.
    + destruct (delta_loop f [] ns) as [[a' r'] i'] eqn:E. inversion H; subst.
      destruct Hx as [<-|Hx]; [now left|]. right.
      eapply IH; [|exact E|exact Hx|exact Hn]. cbn in *. lia.
    + destruct (lex_ltb n o) eqn:E1.
      * destruct (delta_loop f (o :: os) ns) as [[a' r'] i'] eqn:E. inversion H; subst.
        destruct Hx as [<-|Hx]; [now left|]. right.
        eapply IH; [|exact E|exact Hx|exact Hn]. cbn in *. lia.
      * destruct (lex_ltb o n) eqn:E2.
        -- destruct (delta_loop f os (n :: ns)) as [[a' r'] i'] eqn:E. inversion H; subst.
           eapply IH; [|exact E|exact Hx|]. { cbn in *. lia. }
           intros C. apply Hn. now right.
        -- pose proof (lex_total _ _ E2 E1). subst n.
           destruct (delta_loop f os ns) as [[a' r'] i'] eqn:E. inversion H; subst.
           destruct Hx as [<-|Hx]; [exfalso; apply Hn; now left|].
           eapply IH; [|exact E|exact Hx|]. { cbn in *. lia. }
           intros C. apply Hn. now right.
Qed.

Lemma delta_added_complete_c19 old new a r i :
  string_slice_delta old new = (a, r, i) -> forall x, In x new -> ~ In x old -> In x a.
Proof.
  unfold string_slice_delta. intros H x Hx Hn.
  destruct old as [|o os], new as [|n ns]; try contradiction.
  - inversion H; subst. exact Hx.
  - eapply delta_loop_added_complete_c19; [|exact H| |].
    + rewrite (Permutation_length (sort_perm (o :: os))), (Permutation_length (sort_perm (n :: ns))). lia.
    + apply (Permutation_in _ (Permutation_sym (sort_perm (n :: ns)))). exact Hx.
    + intros C. apply Hn. apply (Permutation_in _ (sort_perm (o :: os))). exact C.
Qed.

Lemma first_rewrite_nil_c19 (fs : list (tag -> tag)) (orig : tag) :
  first_rewrite_c19 fs orig = [] <-> forall f, In f fs -> f orig = [].
Proof.
  induction fs as [|f fs IH]; cbn [first_rewrite_c19].
  - split; [intros _ f []|reflexivity].
  - destruct (f orig) eqn:E.
    + rewrite IH. split.
      * intros H g [<-|Hg]; auto.
      * intros H g Hg. apply H. now right.
    + split; [discriminate|]. intros H. specialize (H f (or_introl eq_refl)). congruence.
Qed.

(* the first rewriter of the list that answers decides *)
Lemma first_rewrite_split_c19 (fs1 : list (tag -> tag)) (f : tag -> tag) (fs2 : list (tag -> tag)) (orig : tag) :
  (forall g, In g fs1 -> g orig = []) -> f orig <> [] ->
  first_rewrite_c19 (fs1 ++ f :: fs2) orig = f orig.
Proof.
  intros H1 Hf. induction fs1 as [|g fs1 IH]; cbn [app first_rewrite_c19].
  - destruct (f orig); [congruence|reflexivity].
  - rewrite (H1 g (or_introl eq_refl)). apply IH. intros h Hh. apply H1. now right.
Qed.

Section FndSearchLaws.
  Variable lower : N -> N.
  Variable is_letter : N -> bool.
  Variable is_number : N -> bool.
  Variable vals : list (tag -> tag -> tag).
  Variable auths : list (tag -> tag).

  Notation restricted := (restricted is_letter is_number).
  Notation masked_gate := (masked_gate is_letter is_number).
  Notation prefixed := (prefixed is_letter is_number).
  Notation tag_ok := (tag_ok is_letter is_number).
  Notation rewrite_tag := (rewrite_tag_c19 is_letter is_number vals auths).
  Notation get_sub := (get_sub_c19 lower is_letter is_number vals auths).
  Notation step := (step_c19 lower is_letter is_number vals auths).
  Notation run := (run_c19 lower is_letter is_number vals auths).
  Notation active_query := active_query_c19.

  (* ---------- the masked-namespace gate, both directions ---------- *)
  Lemma masked_gate_complete_c19 own terms masked t :
    In t terms -> restricted masked t = true -> ~ In t own -> masked_gate own terms masked = false.
  Proof.
    intros Ht Hr Hn. unfold Tags.masked_gate.
    destruct (string_slice_delta own (filter_restricted is_letter is_number terms masked)) as [[a r] i] eqn:E.
    assert (In t a) as Ha.
    { eapply delta_added_complete_c19; [exact E| |exact Hn]. apply in_filter_restricted. auto. }
    destruct a; [contradiction|reflexivity].
  Qed.

  (* ---------- rewriteTag: the documented precedence ---------- *)
  Lemma rewrite_prefixed_c19 cc wl orig : prefixed orig = true -> rewrite_tag cc wl orig = orig.
  Proof. intros H. unfold rewrite_tag_c19. now rewrite H. Qed.

  (* a validator that indexes the term decides, whatever the authenticators say *)
  Lemma rewrite_validator_first_c19 cc wl orig vs1 v vs2 :
    vals = vs1 ++ v :: vs2 -> prefixed orig = false ->
    (forall u, In u vs1 -> u cc orig = []) -> v cc orig <> [] ->
    rewrite_tag cc wl orig = v cc orig.
  Proof.
    intros Hv Hp H1 Hn. unfold rewrite_tag_c19. rewrite Hp, Hv.
    assert (first_rewrite_c19 (map (fun u => u cc) (vs1 ++ v :: vs2)) orig = v cc orig) as ->.
    { rewrite map_app. cbn [map].
      apply (first_rewrite_split_c19 (map (fun u => u cc) vs1) (v cc) (map (fun u => u cc) vs2) orig).
      - intros g Hg. apply in_map_iff in Hg. destruct Hg as [u [<- Hu]]. auto.
      - exact Hn. }
    destruct (v cc orig); [congruence|reflexivity].
  Qed.

  (* no validator answers, login rewriting is on: the first authenticator that answers decides *)
  Lemma rewrite_login_second_c19 cc orig as1 a as2 :
    auths = as1 ++ a :: as2 -> prefixed orig = false ->
    (forall u, In u vals -> u cc orig = []) ->
    (forall b, In b as1 -> b orig = []) -> a orig <> [] ->
    rewrite_tag cc true orig = a orig.
  Proof.
    intros Ha Hp Hv H1 Hn. unfold rewrite_tag_c19. rewrite Hp.
    assert (first_rewrite_c19 (map (fun v => v cc) vals) orig = []) as ->.
    { apply first_rewrite_nil_c19. intros f Hf. apply in_map_iff in Hf. destruct Hf as [u [<- Hu]]. auto. }
    rewrite Ha, (first_rewrite_split_c19 as1 a as2 orig H1 Hn).
    destruct (a orig); [congruence|reflexivity].
  Qed.

  (* nothing answers (or only an authenticator while login rewriting is off): the term itself when
     it is a valid tag, otherwise it is dropped *)
  Lemma rewrite_plain_c19 cc wl orig :
    prefixed orig = false -> (forall u, In u vals -> u cc orig = []) ->
    (wl = true -> forall a, In a auths -> a orig = []) ->
    rewrite_tag cc wl orig = if tag_ok orig then orig else [].
  Proof.
    intros Hp Hv Ha. unfold rewrite_tag_c19. rewrite Hp.
    assert (first_rewrite_c19 (map (fun v => v cc) vals) orig = []) as ->.
    { apply first_rewrite_nil_c19. intros f Hf. apply in_map_iff in Hf. destruct Hf as [u [<- Hu]]. auto. }
    destruct wl; [|reflexivity].
    assert (first_rewrite_c19 auths orig = []) as ->; [|reflexivity].
    apply first_rewrite_nil_c19. auto.
  Qed.

  Variable c : fcfg_c19.

  (* ---------- one {get what=sub} ---------- *)
  (* everything that happens when the store is called *)
  Lemma get_sub_call_c19 t s r k :
    get_sub c t s = (r, Some k) ->
    exists q wl, active_query t s = Some (q, wl) /\
      parse lower (rewrite_tag (s_cc s) wl) q = Ok (k_req k, k_opt k) /\
      masked_gate (f_tags t) (call_terms_c19 k) (fc_masked c) = true /\
      k_active k = negb (s_root s) /\
      r = match find_subs_c19 (fc_self c) (k_req k) (k_opt k) (k_active k) (fc_world c) with
          | [] => FCtrl 204
          | l => FMeta (map cd_id l)
          end.
  Proof.
    unfold get_sub_c19, parse_query_c19. intros H.
    destruct (active_query t s) as [[q wl]|]; [|discriminate].
    destruct (is_nil q); [discriminate|].
    destruct (parse lower (rewrite_tag (s_cc s) wl) q) as [[req opt]|] eqn:P; [|discriminate].
    destruct (is_nil req && is_nil opt); [discriminate|].
    destruct (masked_gate (f_tags t) (concat req ++ opt) (fc_masked c)) eqn:G; cbn [negb] in H; [|discriminate].
    inversion H; subst. exists q, wl. cbn [k_req k_opt k_active call_terms_c19]. repeat split; auto.
    destruct (find_subs_c19 _ _ _ _ _); reflexivity.
  Qed.

  (* (a) the store is called only if every term of BOTH sets that lies in a masked namespace is
     one of the tags the topic holds for the user *)
  Theorem get_sub_masked_terms_own_c19 t s r k :
    get_sub c t s = (r, Some k) ->
    forall x, In x (call_terms_c19 k) -> restricted (fc_masked c) x = true -> In x (f_tags t).
  Proof.
    intros H x Hx Hr. destruct (get_sub_call_c19 _ _ _ _ H) as [q [wl [_ [_ [G _]]]]].
    eapply masked_filter_sound; eauto.
  Qed.

  (* ... otherwise 403 and no store call: one foreign masked term anywhere in the reading *)
  Theorem get_sub_foreign_masked_refused_c19 t s q wl req opt x :
    active_query t s = Some (q, wl) ->
    parse lower (rewrite_tag (s_cc s) wl) q = Ok (req, opt) ->
    In x (concat req ++ opt) -> restricted (fc_masked c) x = true -> ~ In x (f_tags t) ->
    get_sub c t s = (FCtrl 403, None).
  Proof.
    intros A P Hx Hr Hn. unfold get_sub_c19, parse_query_c19. rewrite A.
    destruct (is_nil q) eqn:Eq.
    { destruct q; [|discriminate]. exfalso.
      apply parse_sound_complete in P. destruct P as [_ P]. vm_compute in P. inversion P; subst.
      destruct Hx. }
    rewrite P.
    destruct (is_nil req && is_nil opt) eqn:E.
    { destruct req, opt; try discriminate. destruct Hx. }
    now rewrite (masked_gate_complete_c19 _ _ _ x Hx Hr Hn).
  Qed.

  (* (b) what is handed to the store is the documented reading of the active query, the terms
     rewritten by rewrite_tag (login rewriting exactly for the session's public query) *)
  Theorem get_sub_call_is_documented_reading_c19 t s r k :
    get_sub c t s = (r, Some k) ->
    exists q wl, active_query t s = Some (q, wl) /\ well_formed q /\
                 (k_req k, k_opt k) = denote lower (rewrite_tag (s_cc s) wl) q.
  Proof.
    intros H. destruct (get_sub_call_c19 _ _ _ _ H) as [q [wl [A [P _]]]].
    exists q, wl. apply parse_sound_complete in P. destruct P as [W P]. auto.
  Qed.

  (* malformed queries never reach the store *)
  Theorem get_sub_malformed_rejected_c19 t s q wl :
    active_query t s = Some (q, wl) -> q <> [] -> ~ well_formed q ->
    get_sub c t s = (FCtrl 400, None).
  Proof.
    intros A Hq W. unfold get_sub_c19, parse_query_c19. rewrite A.
    destruct q; [congruence|]. cbn [is_nil].
    apply (parse_err_iff lower (rewrite_tag (s_cc s) wl)) in W. now rewrite W.
  Qed.

  (* (c) a session that is not root always passes activeOnly, and is never shown a row that is not
     active; every row shown carries a tag of the query and one of every required group *)
  Theorem get_sub_nonroot_active_only_c19 t s r k :
    get_sub c t s = (r, Some k) -> s_root s = false -> k_active k = true.
  Proof.
    intros H R. destruct (get_sub_call_c19 _ _ _ _ H) as [q [wl [_ [_ [_ [A _]]]]]]. now rewrite A, R.
  Qed.

  Lemma find_subs_in_c19 self req opt active w x :
    In x (find_subs_c19 self req opt active w) ->
    In x w /\ cand_matches_c19 req opt x = true /\ (active = true -> cd_ok x = true) /\
    (cd_user x = true -> cd_id x <> self).
  Proof.
    unfold find_subs_c19, find_users_c19, find_topics_c19. rewrite in_app_iff, !filter_In.
    intros [[Hw Hf]|[Hw Hf]]; split; auto.
    - apply andb_prop in Hf. destruct Hf as [Hf Hs]. apply andb_prop in Hf. destruct Hf as [Hf Ha].
      apply andb_prop in Hf. destruct Hf as [Hu Hm]. repeat split; auto.
      + intros ->. now destruct (cd_ok x).
      + intros _ E. rewrite E, N.eqb_refl in Hs. discriminate.
    - apply andb_prop in Hf. destruct Hf as [Hf Ha]. apply andb_prop in Hf. destruct Hf as [Hu Hm].
      repeat split; auto.
      + intros ->. now destruct (cd_ok x).
      + intros E. rewrite E in Hu. discriminate.
  Qed.

  Theorem get_sub_results_allowed_c19 t s ids k :
    get_sub c t s = (FMeta ids, Some k) ->
    forall i, In i ids -> exists x, In x (fc_world c) /\ cd_id x = i /\
      cand_matches_c19 (k_req k) (k_opt k) x = true /\ (s_root s = false -> cd_ok x = true).
  Proof.
    intros H i Hi. destruct (get_sub_call_c19 _ _ _ _ H) as [q [wl [_ [_ [_ [A R]]]]]].
    destruct (find_subs_c19 (fc_self c) (k_req k) (k_opt k) (k_active k) (fc_world c)) as [|y l] eqn:E;
      [discriminate|]. assert (ids = map cd_id (y :: l)) as -> by (inversion R; reflexivity).
    rewrite <- E in Hi.
    apply in_map_iff in Hi. destruct Hi as [x [<- Hx]]. apply find_subs_in_c19 in Hx.
    destruct Hx as [Hw [Hm [Ha _]]]. exists x. repeat split; auto.
    intros Rt. apply Ha. now rewrite A, Rt.
  Qed.

  (* ---------- histories ---------- *)
  Definition tags_own_c19 (t : fnd_c19) : Prop := incl (f_tags t) (fc_own c).

  Lemma step_tags_own_c19 t r : tags_own_c19 t -> tags_own_c19 (fst (step c t r)).
  Proof.
    intros H. destruct r as [s pub priv|s| |]; cbn [step_c19 fst].
    - destruct (set_desc_c19 t s pub priv) as [t' a] eqn:E.
      unfold set_desc_c19 in E.
      destruct (merge_str_c19 (lookup_pub_c19 (s_id s) (f_public t)) pub),
               (merge_str_c19 (f_private t) priv); inversion E; subst; exact H.
    - exact H.
    - intros x [].
    - intros x Hx. exact Hx.
  Qed.

  Definition call_ok_c19 (a : fresp_c19 * option fcall_c19) : Prop :=
    match snd a with
    | Some k => forall x, In x (call_terms_c19 k) -> restricted (fc_masked c) x = true -> In x (fc_own c)
    | None => True
    end.

  Lemma step_call_ok_c19 t r : tags_own_c19 t -> call_ok_c19 (snd (step c t r)).
  Proof.
    intros H. destruct r as [s pub priv|s| |]; cbn [step_c19 snd]; try exact I.
    - destruct (set_desc_c19 t s pub priv). exact I.
    - unfold call_ok_c19. destruct (get_sub c t s) as [r [k|]] eqn:E; cbn [snd]; [|exact I].
      intros x Hx Hr. apply H. eapply get_sub_masked_terms_own_c19; eauto.
  Qed.

  (* through EVERY sequence of requests from a freshly loaded topic: whenever the store is called,
     every masked-namespace term it receives is one of the user's own (stored) tags *)
  Theorem run_masked_terms_own_c19 rs : forall t,
    tags_own_c19 t -> Forall call_ok_c19 (snd (run c t rs)) /\ tags_own_c19 (fst (run c t rs)).
  Proof.
    induction rs as [|r rs IH]; intros t H; cbn [run_c19].
    - split; [constructor|exact H].
    - pose proof (step_tags_own_c19 t r H) as H1. pose proof (step_call_ok_c19 t r H) as H2.
      destruct (step c t r) as [t1 a]. cbn [fst snd] in *.
      destruct (IH t1 H1) as [F T]. destruct (run c t1 rs) as [t2 l]. cbn [fst snd] in *.
      split; [constructor; assumption|exact T].
  Qed.

  (* the same for the flag: no request sequence makes a non-root session search inactive rows *)
  Definition call_active_c19 (r : freq_c19) (a : fresp_c19 * option fcall_c19) : Prop :=
    match r, snd a with
    | FGetSub s, Some k => s_root s = false -> k_active k = true
    | _, _ => True
    end.

  Theorem run_nonroot_active_only_c19 rs : forall t,
    Forall2 call_active_c19 rs (snd (run c t rs)).
  Proof.
    induction rs as [|r rs IH]; intros t; cbn [run_c19]; [constructor|].
    destruct (step c t r) as [t1 a] eqn:E. specialize (IH t1). destruct (run c t1 rs) as [t2 l].
    cbn [snd] in *. constructor; [|exact IH].
    unfold call_active_c19. destruct r as [s pub priv|s| |]; auto.
    cbn [step_c19] in E. injection E as <- <-. destruct (get_sub c t s) as [r [k|]] eqn:G; cbn [snd]; auto.
    eapply get_sub_nonroot_active_only_c19; eauto.
  Qed.

  (* ---------- the auth LEVEL of the session (sess.authLvl is an int) ----------
     'ordinary users' = every session whose level is not LevelRoot: LevelNone (0, a session object
     that was never given a level), LevelAnon (10, anonymous-scheme account), LevelAuth (20) and
     every other number. *)
  Lemma s_root_false_iff_c19 s : s_root s = false <-> s_lvl s <> level_root_c19.
  Proof. unfold s_root. apply Z.eqb_neq. Qed.

  (* the flag handed to the store, exactly: activeOnly = false iff the level IS LevelRoot *)
  Theorem get_sub_active_flag_c19 t s r k :
    get_sub c t s = (r, Some k) -> (k_active k = true <-> s_lvl s <> level_root_c19).
  Proof.
    intros H. destruct (get_sub_call_c19 _ _ _ _ H) as [q [wl [_ [_ [_ [A _]]]]]]. rewrite A.
    rewrite <- s_root_false_iff_c19. destruct (s_root s); split; intros E; try reflexivity; discriminate.
  Qed.

  Theorem get_sub_level_active_only_c19 t s r k :
    get_sub c t s = (r, Some k) -> s_lvl s <> level_root_c19 -> k_active k = true.
  Proof. intros H L. apply (get_sub_active_flag_c19 _ _ _ _ H). exact L. Qed.

  Lemma nodup_map_inj_c19 {A B} (f : A -> B) (l : list A) x y :
    NoDup (map f l) -> In x l -> In y l -> f x = f y -> x = y.
  Proof.
    induction l as [|a l IH]; cbn [map]; intros N Hx Hy E; [contradiction|].
    inversion N as [|? ? Na Nl]; subst.
    destruct Hx as [<-|Hx], Hy as [<-|Hy]; auto.
    - exfalso. apply Na. rewrite E. now apply in_map.
    - exfalso. apply Na. rewrite <- E. now apply in_map.
  Qed.

  (* whatever the level, if it is not root: every row shown is an existing, matching, ACTIVE row *)
  Theorem get_sub_level_results_active_c19 t s ids k :
    get_sub c t s = (FMeta ids, Some k) -> s_lvl s <> level_root_c19 ->
    forall i, In i ids -> exists x, In x (fc_world c) /\ cd_id x = i /\
      cand_matches_c19 (k_req k) (k_opt k) x = true /\ cd_ok x = true.
  Proof.
    intros H L i Hi. destruct (get_sub_results_allowed_c19 _ _ _ _ H i Hi) as [x [Hw [He [Hm Ha]]]].
    exists x. repeat split; auto. apply Ha. now apply s_root_false_iff_c19.
  Qed.

  (* ... so, rows having distinct ids, a suspended or deleted account / topic is NEVER among the
     results of a session that is not root *)
  Theorem get_sub_level_never_inactive_c19 t s ids k :
    NoDup (map cd_id (fc_world c)) ->
    get_sub c t s = (FMeta ids, Some k) -> s_lvl s <> level_root_c19 ->
    forall x, In x (fc_world c) -> cd_ok x = false -> ~ In (cd_id x) ids.
  Proof.
    intros N H L x Hx Hok Hi.
    destruct (get_sub_level_results_active_c19 _ _ _ _ H L _ Hi) as [y [Hy [E [_ Ok]]]].
    assert (y = x) as -> by (eapply nodup_map_inj_c19; eauto). congruence.
  Qed.

  (* the level does not matter otherwise: two sessions that differ in nothing but their levels, none
     of them root, get the same answer and make the same store call - an anonymous or level-less
     session sees exactly what a fully authenticated one sees *)
  Definition sess_sim_c19 (s1 s2 : sess_c19) : Prop :=
    s_id s1 = s_id s2 /\ s_cc s1 = s_cc s2 /\ s_lvl s1 <> level_root_c19 /\ s_lvl s2 <> level_root_c19.

  Theorem get_sub_level_irrelevant_c19 t s1 s2 :
    sess_sim_c19 s1 s2 -> get_sub c t s1 = get_sub c t s2.
  Proof.
    intros [Hi [Hc [L1 L2]]]. unfold get_sub_c19, active_query_c19. rewrite Hi, Hc.
    apply Z.eqb_neq in L1. apply Z.eqb_neq in L2. now rewrite L1, L2.
  Qed.

  Definition req_sim_c19 (r1 r2 : freq_c19) : Prop :=
    match r1, r2 with
    | FSetDesc s1 p1 v1, FSetDesc s2 p2 v2 => s_id s1 = s_id s2 /\ p1 = p2 /\ v1 = v2
    | FGetSub s1, FGetSub s2 => sess_sim_c19 s1 s2
    | FUnload, FUnload => True
    | FUserTags, FUserTags => True
    | _, _ => False
    end.

  Lemma step_level_irrelevant_c19 t r1 r2 : req_sim_c19 r1 r2 -> step c t r1 = step c t r2.
  Proof.
    destruct r1 as [s1 p1 v1|s1| |], r2 as [s2 p2 v2|s2| |]; cbn [req_sim_c19]; try contradiction; auto.
    - intros [Hi [-> ->]]. cbn [step_c19]. unfold set_desc_c19. now rewrite Hi.
    - intros H. cbn [step_c19]. now rewrite (get_sub_level_irrelevant_c19 t s1 s2 H).
  Qed.

  (* ... through every history *)
  Theorem run_level_irrelevant_c19 rs1 : forall rs2 t,
    Forall2 req_sim_c19 rs1 rs2 -> run c t rs1 = run c t rs2.
  Proof.
    induction rs1 as [|r1 rs1 IH]; intros rs2 t F; inversion F as [|? r2 ? rs2' Hr Hrs]; subst; [reflexivity|].
    cbn [run_c19]. rewrite (step_level_irrelevant_c19 t r1 r2 Hr).
    destruct (step c t r2) as [t1 a]. now rewrite (IH rs2' t1 Hrs).
  Qed.

  (* the two laws over histories, for every level: whenever a session that is not root searches, the
     store is told activeOnly and every row shown is active *)
  Definition call_level_ok_c19 (r : freq_c19) (a : fresp_c19 * option fcall_c19) : Prop :=
    match r, a with
    | FGetSub s, (resp, Some k) =>
      s_lvl s <> level_root_c19 ->
      k_active k = true /\
      match resp with
      | FMeta ids => forall i, In i ids -> exists x, In x (fc_world c) /\ cd_id x = i /\ cd_ok x = true
      | _ => True
      end
    | _, _ => True
    end.

  Theorem run_level_active_only_c19 rs : forall t,
    Forall2 call_level_ok_c19 rs (snd (run c t rs)).
  Proof.
    induction rs as [|r rs IH]; intros t; cbn [run_c19]; [constructor|].
    destruct (step c t r) as [t1 a] eqn:E. specialize (IH t1). destruct (run c t1 rs) as [t2 l].
    cbn [snd] in *. constructor; [|exact IH].
    unfold call_level_ok_c19. destruct r as [s pub priv|s| |]; auto.
    cbn [step_c19] in E. injection E as <- <-. destruct (get_sub c t s) as [resp [k|]] eqn:G; auto.
    intros L. split; [eapply get_sub_level_active_only_c19; eauto|].
    destruct resp as [code|ids|]; auto.
    intros i Hi. destruct (get_sub_level_results_active_c19 _ _ _ _ G L i Hi) as [x [Hw [He [_ Ok]]]].
    exists x. auto.
  Qed.
End FndSearchLaws.
