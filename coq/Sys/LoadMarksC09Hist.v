(* C09 on a peer-to-peer topic, over EVERY history of Sys/LoadMarksC09.v (any notes, publishes,
   unsubscriptions, re-subscriptions by either party, unloads, restarts, failing / crashing store
   calls): the store is never ahead of the loaded topic, the stored marks never decrease while a
   subscription lasts, and a (re)load gives every party exactly its stored marks back. *)
From Coq Require Import ZArith NArith List Bool Lia.
From Tinode Require Import Base.Util Pure.Acs Sys.Topic Sys.TopicTac Sys.TopicFrame Sys.TopicMarks Sys.TopicMono
  Sys.TopicCohMarks Sys.TopicCoh2 Sys.TopicLoad Sys.LoadMarksC09 Sys.LoadMarksC09Proofs.
Import ListNotations.
Open Scope Z_scope.

(* ------------------------------------------------------------------ *)
(* more store primitives through smk                                    *)
Definition set3 (rd rc : option Z) (a : Z * Z * Z) : Z * Z * Z :=
  let '(r0, c0, d0) := a in (match rd with Some v => v | None => r0 end, match rc with Some v => v | None => c0 end, d0).
Lemma smk_update_marks s u rd rc u0 : (u =? 0)%N = false ->
  smk (ad_subs_update s u (mkUpd None None rd rc None)) u0 = if N.eqb u0 u then option_map (set3 rd rc) (smk s u0) else smk s u0.
Proof.
  intros NZ. unfold smk, ad_subs_update. rewrite NZ. cbn [subs st_subs].
  rewrite find_sub_upd by (intros r Hr; exact Hr).
  destruct (N.eqb u0 u); [|reflexivity]. destruct (find_sub u0 (subs s)) as [r|]; [|reflexivity].
  cbn [option_map apply_upd s_deleted s_read s_recv s_delid u_read u_recv u_delid]. destruct (s_deleted r); reflexivity.
Qed.
Lemma smk_subs_delete s u s' u0 : ad_subs_delete s u = Some s' -> smk s' u0 = if N.eqb u0 u then None else smk s u0.
Proof.
  unfold ad_subs_delete. break_match; intros H; inv H. unfold smk. cbn [subs st_subs st_dellog].
  rewrite find_sub_upd by (intros r Hr; exact Hr).
  destruct (N.eqb u0 u); [|reflexivity]. destruct (find_sub u0 (subs s)); reflexivity.
Qed.
Lemma smk_seqid v s u : smk (st_seqid v s) u = smk s u. Proof. reflexivity. Qed.
Lemma smk_msg_save s seq from content s2 u : ad_msg_save s seq from content = Some s2 -> smk s2 u = smk s u.
Proof. unfold ad_msg_save. break_match; intros H; inv H. reflexivity. Qed.
Lemma smk_wipe s u : smk (p2p_wipe s) u = None. Proof. reflexivity. Qed.

(* ------------------------------------------------------------------ *)
(* the invariant                                                        *)
Section Hist.
Variable sm : sessmap.
Variable roots : list N.
Variable ua ub : N.
Hypothesis ua_nz : ua <> 0%N.
Hypothesis ub_nz : ub <> 0%N.

Definition party (u : N) : Prop := u = ua \/ u = ub.
(* the sessions that act in a history belong to the two parties *)
Definition kop_ok (o : kop) : Prop :=
  match o with
  | KSub sid _ | KLeave sid _ | KPub sid _ _ | KNote sid _ _ | KGetDesc sid | KGetSub sid => party (sess_uid sm sid)
  | KUnload | KRestart => True
  end.

(* store: one row per user, rows of the two parties only, no rows without a topic row, stored marks at most seqid *)
Definition ksinv (s : store) : Prop :=
  und s /\ p2p_parties s ua ub /\ (t_exists s = false -> subs s = []) /\
  (forall u rd rc dl, smk s u = Some (rd, rc, dl) -> rd <= t_seqid s /\ rc <= t_seqid s).
(* loaded topic: the topic row exists, lastID <= seqid <= lastID + 1, an entry marked deleted has no live row, a live
   entry has a live row whose marks are NOT AHEAD of the cached ones, and the cached marks are at most lastID *)
Definition entry_ok (s : store) (L : Z) (u : N) (p : kpud) : Prop :=
  if kp_deleted p then smk s u = None
  else kp_read p <= L /\ kp_recv p <= L /\
       exists srd src sdl, smk s u = Some (srd, src, sdl) /\ srd <= kp_read p /\ src <= kp_recv p.
Definition kcinv (s : store) (c : kcache) : Prop :=
  t_exists s = true /\ (0 <= k_lastid c /\ k_lastid c <= t_seqid s <= k_lastid c + 1) /\
  forall u p, alookup u (k_users c) = Some p -> entry_ok s (k_lastid c) u p.
(* uid 0 is nobody; sequence numbers are not negative *)
Definition kbase (s : store) : Prop := 0 <= t_seqid s /\ alookup 0%N (users s) = None.
Definition kinv (x : kstate) : Prop :=
  ksinv (y_st x) /\ kbase (y_st x) /\ match y_ca x with Some c => kcinv (y_st x) c | None => True end.

(* neither stored mark of a user whose row is live before and after is lower afterwards *)
Definition ksmono (s s' : store) : Prop :=
  forall u rd rc dl rd' rc' dl', smk s u = Some (rd, rc, dl) -> smk s' u = Some (rd', rc', dl') -> rd <= rd' /\ rc <= rc'.
Lemma ksmono_refl s : ksmono s s.
Proof. intros u rd rc dl rd' rc' dl' H1 H2. rewrite H1 in H2. inv H2. lia. Qed.
Lemma ksmono_same s s' : (forall u, smk s' u = smk s u) -> ksmono s s'.
Proof. intros E u rd rc dl rd' rc' dl' H1 H2. rewrite E, H1 in H2. inv H2. lia. Qed.

(* ---------- moves of the store ---------- *)
Lemma parties_sub_create s u w g : p2p_parties s ua ub -> party u -> p2p_parties (ad_sub_create s u w g) ua ub.
Proof.
  intros PP PU r. unfold ad_sub_create. rewrite owner_subs. destruct (find_sub u (subs s)); cbn [subs st_subs]; intros Hin.
  - unfold upd_sub in Hin. apply in_map_iff in Hin. destruct Hin as [r0 [E Hin]]. destruct (N.eqb (s_user r0) u); subst r; [exact PU|auto].
  - apply in_app_or in Hin. destruct Hin as [Hin|[<-|[]]]; [auto|exact PU].
Qed.
Lemma parties_same s s' : (forall r', In r' (subs s') -> exists r, In r (subs s) /\ s_user r = s_user r') -> p2p_parties s ua ub -> p2p_parties s' ua ub.
Proof. intros E PP r' Hin. destruct (E r' Hin) as [r [H1 H2]]. rewrite <- H2. auto. Qed.
Lemma parties_subs_update s u up : p2p_parties s ua ub -> p2p_parties (ad_subs_update s u up) ua ub.
Proof.
  apply parties_same. intros r'. unfold ad_subs_update. destruct (u =? 0)%N; cbn [subs st_subs]; intros Hin.
  - apply in_map_iff in Hin. destruct Hin as [r [<- Hin]]. exists r. split; [exact Hin|reflexivity].
  - unfold upd_sub in Hin. apply in_map_iff in Hin. destruct Hin as [r [<- Hin]]. exists r. split; [exact Hin|]. destruct (N.eqb (s_user r) u); reflexivity.
Qed.
Lemma parties_subs_delete s u s' : ad_subs_delete s u = Some s' -> p2p_parties s ua ub -> p2p_parties s' ua ub.
Proof.
  unfold ad_subs_delete. break_match; intros H; inv H. apply parties_same. cbn [subs st_subs st_dellog]. intros r' Hin.
  unfold upd_sub in Hin. apply in_map_iff in Hin. destruct Hin as [r [<- Hin]]. exists r. split; [exact Hin|]. destruct (N.eqb (s_user r) u); reflexivity.
Qed.
Lemma subs_delete_nonempty s u s' : ad_subs_delete s u = Some s' -> subs s' = [] -> subs s = [].
Proof.
  unfold ad_subs_delete. break_match; intros H; inv H. cbn [subs st_subs st_dellog]. unfold upd_sub.
  destruct (subs s); [reflexivity|discriminate].
Qed.

Lemma exists_sub_create s u w g : t_exists (ad_sub_create s u w g) = t_exists s.
Proof. destruct (sframe_sub_create s u w g) as [H _]. exact H. Qed.
Lemma seqid_sub_create' s u w g : t_seqid (ad_sub_create s u w g) = t_seqid s.
Proof. destruct (sframe_sub_create s u w g) as [_ [H _]]. exact H. Qed.
Lemma exists_subs_update s u up : t_exists (ad_subs_update s u up) = t_exists s.
Proof. destruct (sframe_subs_update s u up) as [H _]. exact H. Qed.
Lemma seqid_subs_update' s u up : t_seqid (ad_subs_update s u up) = t_seqid s.
Proof. destruct (sframe_subs_update s u up) as [_ [H _]]. exact H. Qed.

(* a row is created for a party whose row is not live: the topic row exists *)
Lemma ksinv_sub_create s u w g : ksinv s -> party u -> t_exists s = true -> 0 <= t_seqid s -> ksinv (ad_sub_create s u w g).
Proof.
  intros [U [PP [NE SB]]] PU EX NN. split; [now apply und_sub_create|]. split; [now apply parties_sub_create|].
  split; [rewrite exists_sub_create, EX; discriminate|].
  intros u0 rd rc dl. rewrite smk_sub_create, seqid_sub_create'. destruct (N.eqb u0 u); [intros H; inv H; lia|apply SB].
Qed.
Lemma ksinv_update_nomarks s u w g : ksinv s -> ksinv (ad_subs_update s u (mkUpd w g None None None)).
Proof.
  intros [U [PP [NE SB]]]. split; [now apply und_subs_update|]. split; [now apply parties_subs_update|].
  split.
  - rewrite exists_subs_update. intros EX. specialize (NE EX). unfold ad_subs_update. destruct (u =? 0)%N; cbn [subs st_subs]; rewrite NE; reflexivity.
  - intros u0 rd rc dl. rewrite smk_update_nomarks, seqid_subs_update'. apply SB.
Qed.
Lemma ksinv_update_marks s u rd rc : ksinv s -> (u =? 0)%N = false ->
  (forall v, rd = Some v -> v <= t_seqid s) -> (forall v, rc = Some v -> v <= t_seqid s) ->
  ksinv (ad_subs_update s u (mkUpd None None rd rc None)).
Proof.
  intros [U [PP [NE SB]]] NZ Brd Brc. split; [now apply und_subs_update|]. split; [now apply parties_subs_update|].
  split.
  - rewrite exists_subs_update. intros EX. specialize (NE EX). unfold ad_subs_update. rewrite NZ; cbn [subs st_subs]; rewrite NE; reflexivity.
  - intros u0 a b d. rewrite smk_update_marks by exact NZ. rewrite seqid_subs_update'. destruct (N.eqb u0 u); [|apply SB].
    destruct (smk s u0) as [[[r0 c0] d0]|] eqn:E; [|discriminate]. cbn [option_map set3]. intros H. inv H.
    destruct (SB _ _ _ _ E) as [B1 B2]. split; [destruct rd; [apply Brd; reflexivity|exact B1]|destruct rc; [apply Brc; reflexivity|exact B2]].
Qed.
Lemma ksinv_subs_delete s u s' : ad_subs_delete s u = Some s' -> ksinv s -> ksinv s'.
Proof.
  intros D [U [PP [NE SB]]]. pose proof (sframe_subs_delete _ _ _ D) as [EX [SQ _]].
  split; [eapply und_subs_delete; eauto|]. split; [eapply parties_subs_delete; eauto|]. split.
  - rewrite EX. intros E. specialize (NE E). unfold ad_subs_delete in D. break_match_hyp; [|discriminate]. inv D.
    cbn [subs st_subs st_dellog]. rewrite NE. reflexivity.
  - intros u0 a b d. rewrite (smk_subs_delete _ _ _ _ D), SQ. destruct (N.eqb u0 u); [discriminate|apply SB].
Qed.
Lemma ksinv_seqid s v : ksinv s -> t_seqid s <= v -> ksinv (st_seqid v s).
Proof.
  intros [U [PP [NE SB]]] LE. split; [exact U|]. split; [exact PP|]. split; [exact NE|].
  intros u a b d H. cbn [t_seqid st_seqid]. destruct (SB _ _ _ _ H). lia.
Qed.
Lemma ksinv_msg_save s seq from content s2 : ad_msg_save s seq from content = Some s2 -> ksinv s -> ksinv s2.
Proof.
  unfold ad_msg_save. break_match; intros H; inv H. intros [U [PP [NE SB]]]. split; [exact U|]. split; [exact PP|]. split; [exact NE|exact SB].
Qed.
Lemma ksinv_wipe s : ksinv (p2p_wipe s).
Proof.
  split; [constructor|]. split; [intros r []|]. split; [reflexivity|]. intros u a b d H. discriminate H.
Qed.

(* ---------- entries ---------- *)
Lemma kcinv_sess f0 s c : kcinv s c -> kcinv s (k_set_sess f0 c).
Proof. exact (fun H => H). Qed.

(* after a load the cache is the store *)
Lemma keq_kcinv s c : ksinv s -> kbase s -> keq s c -> t_exists s = true -> k_lastid c = t_seqid s ->
  (forall u p, alookup u (k_users c) = Some p -> kp_deleted p = false) -> kcinv s c.
Proof.
  intros [U [PP [NE SB]]] [NN _] K EX L LV. split; [exact EX|]. split; [lia|].
  intros u p AL. unfold entry_ok. rewrite (LV u p AL).
  assert (kmk c u = Some (kp_read p, kp_recv p, kp_delid p)) as M by (unfold kmk; rewrite AL, (LV u p AL); reflexivity).
  apply K in M. destruct (SB _ _ _ _ M). rewrite L. split; [assumption|]. split; [assumption|].
  exists (kp_read p), (kp_recv p), (kp_delid p). split; [exact M|lia].
Qed.

(* ---------- base facts ---------- *)
Lemma kbase_sframe s s' : sframe s s' -> kbase s -> kbase s'.
Proof. intros [_ [SQ [_ [_ [_ [_ US]]]]]] [A B]. split; [rewrite SQ; exact A|rewrite US; exact B]. Qed.
Lemma kbase_sub_create s u w g : kbase s -> kbase (ad_sub_create s u w g).
Proof. apply kbase_sframe, sframe_sub_create. Qed.
Lemma kbase_subs_update s u up : kbase s -> kbase (ad_subs_update s u up).
Proof. apply kbase_sframe, sframe_subs_update. Qed.

(* ---------- the load ---------- *)
Lemma smk_known_row s u m : smk s u = Some m -> known s u = true -> exists r, In r (p2p_rows s) /\ s_user r = u.
Proof.
  unfold smk. destruct (find_sub u (subs s)) as [r|] eqn:FS; [|discriminate]. destruct (s_deleted r) eqn:D; [discriminate|].
  intros _ K. exists r. pose proof (find_sub_user _ _ _ FS) as E. split; [|exact E].
  unfold p2p_rows. apply filter_In. split; [unfold find_sub in FS; apply find_some in FS; tauto|]. rewrite D, E, K. reflexivity.
Qed.

Inductive load_store (s : store) (u1 u2 : N) : store -> Prop :=
| LS_same : load_store s u1 u2 s
| LS_one u w g : u = u1 \/ u = u2 -> smk s u = None -> t_exists s = true -> alookup u2 (users s) <> None ->
    load_store s u1 u2 (ad_sub_create s u w g)
| LS_new w1 g1 w2 g2 : t_exists s = false -> alookup u2 (users s) <> None ->
    load_store s u1 u2 (ad_sub_create (ad_sub_create (p2p_row s) u1 w1 g1) u2 w2 g2).

Lemma kinit_p2p_store f s n u1 u2 s' c n' ns :
  und s -> (alookup u2 (users s) <> None -> p2p_parties s u1 u2) ->
  kinit_p2p f s n u1 u2 = KOk s' c n' ns ->
  load_store s u1 u2 s' /\ k_lastid c = t_seqid s' /\ t_exists s' = true.
Proof.
  intros U PP0 H. unfold kinit_p2p in H.
  destruct (call f n) as [ok1 n1]. destruct (negb ok1); [discriminate|].
  destruct (t_exists s) eqn:EX.
  - destruct (call f n1) as [ok2 n2]. destruct (negb ok2); [discriminate|]. cbn [andb] in H.
    destruct (length (p2p_rows s) =? 0)%nat eqn:L0; [discriminate|].
    destruct (length (p2p_rows s) =? 2)%nat eqn:L2.
    + inv H. split; [constructor|]. split; [reflexivity|exact EX].
    + destruct (call f n2) as [ok3 n3]. destruct (negb ok3); [discriminate|].
      destruct (N.eqb u1 u2) eqn:NEQ; [discriminate|].
      destruct (alookup u1 (users s)) as [acc1|] eqn:A1; [|discriminate].
      destruct (alookup u2 (users s)) as [acc2|] eqn:A2; [|discriminate].
      assert (p2p_parties s u1 u2) as PP by (apply PP0; discriminate).
      assert (known s u1 = true) as K1 by (unfold known; rewrite A1; reflexivity).
      assert (known s u2 = true) as K2 by (unfold known; rewrite A2; reflexivity).
      destruct (p2p_rows s) as [|r [|r2 [|r3 rest]]] eqn:RS; cbn in L0, L2; try discriminate.
      * destruct (N.eqb (s_user r) u1) eqn:E1.
        -- destruct (call f n3) as [ok4 n4]. destruct (negb ok4); [discriminate|]. inv H.
           split; [|split; [cbn [k_lastid]; now rewrite seqid_sub_create'|now rewrite exists_sub_create]].
           apply LS_one; [now right| |exact EX|rewrite A2; discriminate].
           destruct (smk s u2) as [m|] eqn:S; [exfalso|reflexivity].
           destruct (smk_known_row _ _ _ S K2) as [r' [Hin E]]. rewrite RS in Hin. destruct Hin as [<-|[]].
           apply N.eqb_eq in E1. rewrite E1 in E. subst u2. rewrite N.eqb_refl in NEQ. discriminate.
        -- destruct (call f n3) as [ok4 n4]. destruct (negb ok4); [discriminate|]. inv H.
           split; [|split; [cbn [k_lastid]; now rewrite seqid_sub_create'|now rewrite exists_sub_create]].
           apply LS_one; [now left| |exact EX|rewrite A2; discriminate].
           destruct (smk s u1) as [m|] eqn:S; [exfalso|reflexivity].
           destruct (smk_known_row _ _ _ S K1) as [r' [Hin E]]. rewrite RS in Hin. destruct Hin as [<-|[]].
           rewrite E, N.eqb_refl in E1. discriminate.
      * exfalso.
        assert (In r (p2p_rows s) /\ In r2 (p2p_rows s) /\ In r3 (p2p_rows s)) as [I1 [I2 I3]]
          by (rewrite RS; cbn [In]; tauto).
        pose proof (users_filter (fun r => negb (s_deleted r) && known s (s_user r)) (subs s) U) as ND.
        fold (p2p_rows s) in ND. rewrite RS in ND. cbn [map] in ND.
        inversion ND as [|? ? N1 ND1]; subst. inversion ND1 as [|? ? N2 ND2]; subst. cbn in N1, N2.
        apply p2p_rows_in in I1, I2, I3.
        destruct (PP r (proj1 I1)), (PP r2 (proj1 I2)), (PP r3 (proj1 I3)); intuition congruence.
  - cbn [andb] in H. destruct (call f n1) as [ok3 n3]. destruct (negb ok3); [discriminate|].
    destruct (N.eqb u1 u2) eqn:NEQ; [discriminate|].
    destruct (alookup u1 (users s)) as [acc1|]; [|discriminate].
    destruct (alookup u2 (users s)) as [acc2|] eqn:A2; [|discriminate].
    destruct (call f n3) as [ok4 n4]. destruct (negb ok4); [discriminate|]. inv H.
    split; [apply LS_new; [exact EX|rewrite A2; discriminate]|]. split; [cbn [k_lastid]; now rewrite !seqid_sub_create'|now rewrite !exists_sub_create].
Qed.

Lemma party_peer u : party u -> party (kpeer ua ub u).
Proof. unfold party, kpeer. intros [-> | ->]; [rewrite N.eqb_refl; auto|]. destruct (N.eqb ub ua) eqn:E; [apply N.eqb_eq in E|]; auto. Qed.
Lemma parties_peer s u : party u -> p2p_parties s ua ub -> p2p_parties s u (kpeer ua ub u).
Proof.
  unfold party, kpeer. intros [-> | ->] PP r Hin; destruct (PP r Hin) as [E|E].
  - rewrite N.eqb_refl. auto.
  - rewrite N.eqb_refl. auto.
  - destruct (N.eqb ub ua) eqn:E2; [apply N.eqb_eq in E2; left; congruence|auto].
  - destruct (N.eqb ub ua) eqn:E2; auto.
Qed.

Lemma load_store_inv s u1 u2 s' : ksinv s -> kbase s -> party u1 -> (u2 = kpeer ua ub u1 \/ u2 = 0%N) ->
  load_store s u1 u2 s' -> ksinv s' /\ kbase s' /\ ksmono s s'.
Proof.
  intros SI KB P1 P2 LS.
  assert (alookup u2 (users s) <> None -> party u2) as PU2.
  { intros NN. destruct P2 as [-> | ->]; [now apply party_peer|]. destruct KB as [_ Z0]. contradiction. }
  destruct LS as [|u w g HU SN EX A2|w1 g1 w2 g2 EX A2].
  - split; [exact SI|]. split; [exact KB|apply ksmono_refl].
  - assert (party u) as PU by (destruct HU as [-> | ->]; auto).
    split; [apply ksinv_sub_create; auto; apply KB|]. split; [now apply kbase_sub_create|].
    intros u0 rd rc dl rd' rc' dl' H1. rewrite smk_sub_create. destruct (N.eqb u0 u) eqn:E; [|intros H2; rewrite H1 in H2; inv H2; lia].
    apply N.eqb_eq in E. subst u0. rewrite SN in H1. discriminate.
  - destruct SI as [U [PP [NE SB]]]. pose proof (NE EX) as E0.
    assert (ksinv (p2p_row s)) as S0.
    { unfold p2p_row. split; [unfold und; cbn [subs]; rewrite E0; constructor|]. split; [intros r; cbn [subs]; rewrite E0; intros []|].
      split; [cbn [t_exists]; discriminate|]. intros u a b d. unfold smk. cbn [subs]. rewrite E0. discriminate. }
    assert (kbase (p2p_row s)) as B0 by (destruct KB as [_ Z0]; split; [cbn; lia|exact Z0]).
    split; [apply ksinv_sub_create; [apply ksinv_sub_create; auto; cbn; lia|apply PU2, A2|now rewrite exists_sub_create|rewrite seqid_sub_create'; cbn; lia]|].
    split; [now apply kbase_sub_create, kbase_sub_create|].
    intros u0 rd rc dl rd' rc' dl' H1. unfold smk in H1. rewrite E0 in H1. discriminate.
Qed.

Lemma kload_inv f s n u1 u2 s' c n' ns : ksinv s -> kbase s -> party u1 -> (u2 = kpeer ua ub u1 \/ u2 = 0%N) ->
  kinit_p2p f s n u1 u2 = KOk s' c n' ns ->
  ksinv s' /\ kbase s' /\ kcinv s' c /\ ksmono s s' /\ keq s' c.
Proof.
  intros SI KB P1 P2 H.
  assert (alookup u2 (users s) <> None -> p2p_parties s u1 u2) as PP0.
  { intros NN. destruct P2 as [-> | ->]; [apply parties_peer; [exact P1|apply SI]|]. destruct KB as [_ Z0]. contradiction. }
  pose proof (kinit_p2p_store _ _ _ _ _ _ _ _ _ (proj1 SI) PP0 H) as [LS [L EX]].
  destruct (load_store_inv _ _ _ _ SI KB P1 P2 LS) as [SI' [KB' SM]].
  assert (keq s' c) as K by (eapply kinit_p2p_keq_gen; eauto; apply SI).
  split; [exact SI'|]. split; [exact KB'|]. split; [|split; [exact SM|exact K]].
  apply keq_kcinv; auto. intros u p AL. eapply (kinit_topic_live KP2P); [exact H|exact AL].
Qed.

(* ---------- handlers ---------- *)
Definition ok4 (s s1 : store) (c1 : kcache) : Prop := ksinv s1 /\ kbase s1 /\ kcinv s1 c1 /\ ksmono s s1.
Lemma ok4_sess f0 s s1 c1 : ok4 s s1 c1 -> ok4 s s1 (k_set_sess f0 c1).
Proof. exact (fun H => H). Qed.
Lemma ok4_refl s c : ksinv s -> kbase s -> kcinv s c -> ok4 s s c.
Proof. intros. split; [assumption|]. split; [assumption|]. split; [assumption|apply ksmono_refl]. Qed.

Lemma entry_ok_mono s s' L L' u p : entry_ok s L u p -> smk s' u = smk s u -> L <= L' -> entry_ok s' L' u p.
Proof.
  unfold entry_ok. intros H E LE. rewrite E. destruct (kp_deleted p); [exact H|].
  destruct H as [A [B C]]. split; [lia|]. split; [lia|exact C].
Qed.
(* one entry is (re)written, lastID may grow *)
Lemma kcinv_set s c s' u v L' :
  kcinv s c -> t_exists s' = true -> (0 <= L' /\ L' <= t_seqid s' <= L' + 1) -> k_lastid c <= L' ->
  (forall u0, N.eqb u0 u = false -> smk s' u0 = smk s u0) -> entry_ok s' L' u v ->
  kcinv s' (mkKC L' (k_delid c) (aset u v (k_users c)) (k_sess c)).
Proof.
  intros [EX [LS EN]] EX' LS' LE SM EV. split; [exact EX'|]. split; [exact LS'|]. cbn [k_users k_lastid].
  intros u0 p0. rewrite alookup_aset. destruct (N.eqb u0 u) eqn:E.
  - intros H. inv H. apply N.eqb_eq in E. subst u0. exact EV.
  - intros AL. eapply entry_ok_mono; [apply EN; exact AL|apply SM; exact E|exact LE].
Qed.
Lemma kcinv_keep s c s' L' :
  kcinv s c -> t_exists s' = true -> (0 <= L' /\ L' <= t_seqid s' <= L' + 1) -> k_lastid c <= L' ->
  (forall u0 p0, alookup u0 (k_users c) = Some p0 -> smk s' u0 = smk s u0) ->
  kcinv s' (mkKC L' (k_delid c) (k_users c) (k_sess c)).
Proof.
  intros [EX [LS EN]] EX' LS' LE SM. split; [exact EX'|]. split; [exact LS'|]. cbn [k_users k_lastid].
  intros u0 p0 AL. eapply entry_ok_mono; [apply EN; exact AL|eapply SM; exact AL|exact LE].
Qed.

Lemma party_nz u : party u -> (u =? 0)%N = false.
Proof. intros [-> | ->]; apply N.eqb_neq; assumption. Qed.

(* Subs.Create for a party without a live row *)
Lemma ok4_create s c u w g : ksinv s -> kbase s -> kcinv s c -> party u -> smk s u = None ->
  ok4 s (ad_sub_create s u w g) (k_set_users (aset u (mkKP w g false 0 0 0)) c).
Proof.
  intros SI KB CI PU SN. pose proof CI as [EX [LS EN]].
  split; [apply ksinv_sub_create; auto; apply KB|]. split; [now apply kbase_sub_create|]. split.
  - unfold k_set_users. apply kcinv_set with (s := s); auto.
    + now rewrite exists_sub_create.
    + now rewrite seqid_sub_create'.
    + lia.
    + intros u0 E. rewrite smk_sub_create, E. reflexivity.
    + unfold entry_ok. cbn [kp_deleted kp_read kp_recv]. split; [lia|]. split; [lia|].
      exists 0, 0, 0. rewrite smk_sub_create, N.eqb_refl. split; [reflexivity|lia].
  - intros u0 rd rc dl rd' rc' dl' H1. rewrite smk_sub_create. destruct (N.eqb u0 u) eqn:E; [|intros H2; rewrite H1 in H2; inv H2; lia].
    apply N.eqb_eq in E. subst u0. rewrite SN in H1. discriminate.
Qed.
(* thisUserSub on a live entry: the modes change, the marks stay *)
Lemma ok4_modes s c u p w g s1 : ksinv s -> kbase s -> kcinv s c -> alookup u (k_users c) = Some p ->
  s1 = s \/ (exists w', s1 = ad_subs_update s u (mkUpd (Some w') None None None None)) ->
  ok4 s s1 (k_set_users (aset u (kp_set_modes w g p)) c).
Proof.
  intros SI KB CI AL HS. pose proof CI as [EX [LS EN]].
  assert (forall u0, smk s1 u0 = smk s u0) as SM by (intros u0; destruct HS as [-> | [w' ->]]; [reflexivity|apply smk_update_nomarks]).
  assert (ksinv s1 /\ kbase s1 /\ t_exists s1 = true /\ t_seqid s1 = t_seqid s) as [SI1 [KB1 [EX1 SQ1]]].
  { destruct HS as [-> | [w' ->]]; [auto|]. split; [now apply ksinv_update_nomarks|]. split; [now apply kbase_subs_update|].
    split; [now rewrite exists_subs_update|apply seqid_subs_update']. }
  split; [exact SI1|]. split; [exact KB1|]. split; [|now apply ksmono_same].
  unfold k_set_users. apply kcinv_set with (s := s); auto; try (rewrite SQ1; exact LS); try lia.
  pose proof (EN u p AL) as E. unfold entry_ok in *. cbn [kp_set_modes kp_deleted kp_read kp_recv]. rewrite SM. exact E.
Qed.

Lemma ksub_inv root f s c n sid u ns : ksinv s -> kbase s -> kcinv s c -> party u ->
  ok4 s (kh_st (ksub LP2P root f s c n sid u ns)) (kh_ca (ksub LP2P root f s c n sid u ns)).
Proof.
  intros SI KB CI PU. unfold ksub. destruct (alookup u (k_users c)) as [p|] eqn:AL.
  - destruct (kp_deleted p) eqn:D.
    + assert (smk s u = None) as SN by (destruct CI as [_ [_ EN]]; specialize (EN u p AL); unfold entry_ok in EN; rewrite D in EN; exact EN).
      repeat (break_match; cbn [kh_st kh_ca]); unfold k_evict; repeat apply ok4_sess;
        first [apply ok4_refl; assumption | apply ok4_create; assumption].
    + repeat (break_match; cbn [kh_st kh_ca]); unfold k_evict; repeat apply ok4_sess;
        first [apply ok4_refl; assumption | eapply ok4_modes; eauto].
  - cbn [kh_st kh_ca]. apply ok4_refl; assumption.
Qed.

Lemma kleave_unsub_inv f s c n sid u s1 oc n1 o1 : ksinv s -> kbase s -> kcinv s c -> party u ->
  kleave_unsub LP2P f s c n sid u = (s1, oc, n1, o1) ->
  ksinv s1 /\ kbase s1 /\ ksmono s s1 /\ match oc with Some c1 => kcinv s1 c1 | None => True end.
Proof.
  intros SI KB CI PU H. unfold kleave_unsub in H. pose proof CI as [EX [LS EN]].
  destruct (call f n) as [ok1 m1]. destruct (negb ok1); [inv H; auto using ksmono_refl|].
  destruct (ad_subs_delete s u) as [s2|] eqn:D; [|inv H; auto using ksmono_refl].
  pose proof (sframe_subs_delete _ _ _ D) as SF. pose proof SF as [EX2 [SQ2 _]].
  assert (ksinv s2) as SI2 by (eapply ksinv_subs_delete; eauto).
  assert (kbase s2) as KB2 by (eapply kbase_sframe; eauto).
  assert (ksmono s s2) as SM2.
  { intros u0 rd rc dl rd' rc' dl' H1. rewrite (smk_subs_delete _ _ _ _ D). destruct (N.eqb u0 u); [discriminate|]. intros H2. rewrite H1 in H2. inv H2. lia. }
  assert (kcinv s2 (k_evict (k_set_users (aset u (mkKP (kp_want (kget c u)) (kp_given (kget c u)) true (kp_read (kget c u)) (kp_recv (kget c u)) (kp_delid (kget c u)))) c) u)) as CI2.
  { unfold k_evict. apply kcinv_sess. unfold k_set_users. apply kcinv_set with (s := s); auto; try (rewrite ?EX2, ?SQ2; assumption); try lia.
    - intros u0 E. rewrite (smk_subs_delete _ _ _ _ D), E. reflexivity.
    - unfold entry_ok. cbn [kp_deleted]. rewrite (smk_subs_delete _ _ _ _ D), N.eqb_refl. reflexivity. }
  break_match_hyp.
  - destruct (call f m1) as [ok2 m2]. destruct (negb ok2); inv H; [auto|].
    split; [apply ksinv_wipe|]. split; [destruct KB2 as [_ Z0]; split; [cbn; lia|exact Z0]|]. split; [|exact I].
    intros u0 rd rc dl rd' rc' dl' _ H2. discriminate H2.
  - inv H. auto.
Qed.

Lemma seqid_msg_save s seq from content s2 : ad_msg_save s seq from content = Some s2 -> t_seqid s2 = t_seqid s /\ t_exists s2 = t_exists s /\ users s2 = users s.
Proof. unfold ad_msg_save. break_match; intros H; inv H. auto. Qed.

Lemma kpublish_inv f s c n sid u content noecho : ksinv s -> kbase s -> kcinv s c -> party u ->
  ok4 s (kh_st (kpublish LP2P f s c n sid u content noecho)) (kh_ca (kpublish LP2P f s c n sid u content noecho)).
Proof.
  intros SI KB CI PU. pose proof CI as [EX [LS EN]]. unfold kpublish. rewrite EX. cbn [negb].
  set (seq := k_lastid c + 1).
  assert (ksinv (st_seqid seq s)) as SI1 by (apply ksinv_seqid; [exact SI|unfold seq; lia]).
  assert (kbase (st_seqid seq s)) as KB1 by (destruct KB as [A B]; split; [cbn; unfold seq; lia|exact B]).
  assert (kcinv (st_seqid seq s) c) as CI1.
  { destruct c as [L d us ss]. apply kcinv_keep with (s := s) (c := mkKC L d us ss); auto; cbn [k_lastid t_seqid st_seqid] in *; try lia; reflexivity. }
  assert (ksmono s (st_seqid seq s)) as SM1 by (apply ksmono_same; reflexivity).
  destruct (negb (is_writer (kp_mode (kget c u)))); [cbn [kh_st kh_ca]; now apply ok4_refl|].
  destruct (call f n) as [ok1 n1]. destruct (negb ok1); [cbn [kh_st kh_ca]; now apply ok4_refl|].
  destruct (call f n1) as [ok2 n2].
  destruct (negb ok2); [cbn [kh_st kh_ca]; split; [exact SI1|]; split; [exact KB1|]; split; [exact CI1|exact SM1]|].
  destruct (ad_msg_save (st_seqid seq s) seq u content) as [s2|] eqn:MS;
    [|cbn [kh_st kh_ca]; split; [exact SI1|]; split; [exact KB1|]; split; [exact CI1|exact SM1]].
  pose proof (seqid_msg_save _ _ _ _ _ MS) as [SQ2 [EX2 US2]]. cbn [t_seqid t_exists users st_seqid] in SQ2, EX2, US2.
  assert (ksinv s2) as SI2 by (eapply ksinv_msg_save; eauto).
  assert (forall u0, smk s2 u0 = smk s u0) as SM2 by (intros u0; rewrite (smk_msg_save _ _ _ _ _ u0 MS); reflexivity).
  set (p := kget c u).
  destruct (if is_reader (kp_mode p) then call f n2 else (true, n2)) as [ok3 n3].
  set (b := is_reader (kp_mode p) && ok3).
  set (s3 := if b then ad_subs_update s2 u (mkUpd None None (Some seq) (Some seq) None) else s2).
  cbn [kh_st kh_ca].
  assert (t_seqid s3 = seq /\ t_exists s3 = true /\ users s3 = users s) as [SQ3 [EX3 US3]].
  { unfold s3. destruct b; [rewrite seqid_subs_update', exists_subs_update; destruct (sframe_subs_update s2 u (mkUpd None None (Some seq) (Some seq) None)) as [_ [_ [_ [_ [_ [_ E]]]]]]; rewrite E|]; rewrite ?SQ2, ?EX2, ?US2; auto. }
  assert (forall u0, smk s3 u0 = if b && N.eqb u0 u then option_map (set3 (Some seq) (Some seq)) (smk s u0) else smk s u0) as SM3.
  { intros u0. unfold s3. destruct b; cbn [andb]; [|apply SM2]. rewrite smk_update_marks by (now apply party_nz). rewrite !SM2. reflexivity. }
  assert (ksinv s3) as SI3.
  { unfold s3. destruct b; [|exact SI2]. apply ksinv_update_marks; [exact SI2|now apply party_nz| |]; intros v E; inv E; rewrite SQ2; lia. }
  assert (kbase s3) as KB3 by (destruct KB as [A B]; split; [rewrite SQ3; unfold seq; lia|rewrite US3; exact B]).
  assert (ksmono s s3) as SM.
  { intros u0 rd rc dl rd' rc' dl' H1. rewrite SM3, H1. destruct SI as [_ [_ [_ SB]]]. destruct (SB _ _ _ _ H1) as [B1 B2].
    destruct (b && N.eqb u0 u); cbn [option_map set3]; intros H2; inv H2; unfold seq; lia. }
  split; [exact SI3|]. split; [exact KB3|]. split; [|exact SM].
  destruct (alookup u (k_users c)) as [q|] eqn:AL.
  - assert (p = q) as -> by (unfold p, kget; rewrite AL; reflexivity).
    unfold k_set_users, k_set_lastid. cbn [k_lastid k_delid k_users k_sess].
    apply kcinv_set with (s := s) (c := c); auto; try (rewrite SQ3; unfold seq; lia); try (unfold seq; lia).
    + intros u0 E. rewrite SM3, E, andb_false_r. reflexivity.
    + pose proof (EN u q AL) as E. unfold entry_ok in *. cbn [kp_set_marks kp_deleted kp_read kp_recv]. rewrite SM3, N.eqb_refl, andb_true_r.
      destruct (kp_deleted q); [rewrite E; destruct b; reflexivity|].
      destruct E as [A [B [srd [src [sdl [E [C D]]]]]]]. split; [lia|]. split; [lia|]. rewrite E.
      destruct b; cbn [option_map set3]; [exists seq, seq, sdl|exists srd, src, sdl]; (split; [reflexivity|unfold seq; lia]).
  - unfold k_set_lastid. apply kcinv_keep with (s := s); auto; try (rewrite SQ3; unfold seq; lia); try (unfold seq; lia).
    intros u0 p0 AL0. rewrite SM3. destruct (N.eqb u0 u) eqn:E; [|rewrite andb_false_r; reflexivity].
    apply N.eqb_eq in E. subst u0. rewrite AL in AL0. discriminate.
Qed.

Lemma knote_inv f s c n sid u what seq : ksinv s -> kbase s -> kcinv s c -> party u ->
  ok4 s (kh_st (knote f s c n sid u what seq)) (kh_ca (knote f s c n sid u what seq)).
Proof.
  intros SI KB CI PU. pose proof CI as [EX [LS EN]]. unfold knote.
  destruct (k_lastid c <? seq) eqn:LT; [cbn [kh_st kh_ca]; now apply ok4_refl|]. apply Z.ltb_ge in LT.
  destruct (N.eqb what K_kp); [destruct (negb (is_writer _)); cbn [kh_st kh_ca]; now apply ok4_refl|].
  destruct (N.eqb what K_read || N.eqb what K_recv); [|cbn [kh_st kh_ca]; now apply ok4_refl].
  destruct (alookup u (k_users c)) as [p|] eqn:AL.
  2:{ unfold kget. rewrite AL. cbn. now apply ok4_refl. }
  assert (kget c u = p) as -> by (unfold kget; rewrite AL; reflexivity).
  destruct (kp_deleted p) eqn:D; [cbn; now apply ok4_refl|].
  destruct (negb (is_reader (kp_mode p))); [cbn [kh_st kh_ca]; now apply ok4_refl|].
  pose proof (EN u p AL) as E. unfold entry_ok in E. rewrite D in E. destruct E as [A [B [srd [src [sdl [E [C D']]]]]]].
  set (is_read := N.eqb what K_read).
  destruct (is_read && (seq <=? kp_read p)) eqn:G1; [cbn [kh_st kh_ca]; now apply ok4_refl|].
  destruct (negb is_read && (seq <=? kp_recv p)) eqn:G2; [cbn [kh_st kh_ca]; now apply ok4_refl|].
  set (rd := if is_read then seq else kp_read p).
  set (rc := if is_read then (if kp_recv p <? seq then seq else kp_recv p) else (if seq <? kp_read p then kp_read p else seq)).
  destruct (call f n) as [ok1 n1]. destruct (negb ok1); [cbn [kh_st kh_ca]; now apply ok4_refl|]. cbn [kh_st kh_ca].
  assert (kp_read p <= rd /\ kp_recv p <= rc /\ rd <= k_lastid c /\ rc <= k_lastid c /\ (is_read = true -> kp_read p < seq) /\ (is_read = false -> kp_recv p < seq /\ seq <= rc)) as [R1 [R2 [R3 [R4 [R5 R6]]]]].
  { unfold rd, rc. destruct is_read; cbn [andb negb] in G1, G2.
    - apply Z.leb_gt in G1. destruct (kp_recv p <? seq) eqn:X; [apply Z.ltb_lt in X|apply Z.ltb_ge in X]; repeat split; try lia; discriminate.
    - apply Z.leb_gt in G2. destruct (seq <? kp_read p) eqn:X; [apply Z.ltb_lt in X|apply Z.ltb_ge in X]; repeat split; try lia; discriminate. }
  set (upd := if is_read then mkUpd None None (Some rd) None None else mkUpd None None None (Some rc) None).
  set (s1 := ad_subs_update s u upd).
  assert (exists ord orc, upd = mkUpd None None ord orc None /\ (forall v, ord = Some v -> v = rd /\ is_read = true) /\ (forall v, orc = Some v -> v = rc /\ is_read = false)) as [ord [orc [EU [O1 O2]]]].
  { unfold upd. destruct is_read; [exists (Some rd), None|exists None, (Some rc)]; (split; [reflexivity|]); split; intros v X; inv X; auto. }
  assert (forall u0, smk s1 u0 = if N.eqb u0 u then option_map (set3 ord orc) (smk s u0) else smk s u0) as SM1
    by (intros u0; unfold s1; rewrite EU; apply smk_update_marks; now apply party_nz).
  assert (ksinv s1) as SI1.
  { unfold s1. rewrite EU. apply ksinv_update_marks; [exact SI|now apply party_nz| |]; intros v X; [destruct (O1 v X) as [-> _]|destruct (O2 v X) as [-> _]]; lia. }
  assert (kbase s1) as KB1 by (now apply kbase_subs_update).
  split; [exact SI1|]. split; [exact KB1|]. split.
  - unfold k_set_users. apply kcinv_set with (s := s); auto; unfold s1; rewrite ?exists_subs_update, ?seqid_subs_update'; auto; try lia.
    + intros u0 X. fold s1. rewrite SM1, X. reflexivity.
    + fold s1. unfold entry_ok. cbn [kp_set_marks kp_deleted kp_read kp_recv]. rewrite D. split; [exact R3|]. split; [exact R4|].
      rewrite SM1, N.eqb_refl, E. cbn [option_map set3].
      eexists _, _, _. split; [reflexivity|].
      split; [destruct ord as [v|]; [destruct (O1 v eq_refl) as [-> _]|]; lia|destruct orc as [v|]; [destruct (O2 v eq_refl) as [-> _]|]; lia].
  - intros u0 a b d a' b' d' H1. rewrite SM1. destruct (N.eqb u0 u) eqn:X; [|intros H2; rewrite H1 in H2; inv H2; lia].
    apply N.eqb_eq in X. subst u0. rewrite E in H1 |- *. inv H1. cbn [option_map set3]. intros H2. inv H2.
    split; [destruct ord as [v|]; [destruct (O1 v eq_refl) as [-> IR]; specialize (R5 IR)|]; lia
           |destruct orc as [v|]; [destruct (O2 v eq_refl) as [-> IR]; destruct (R6 IR)|]; lia].
Qed.

(* ---------- one request ---------- *)
Definition skeep (s s1 : store) : Prop := forall u m, smk s u = Some m -> smk s1 u = Some m.
Lemma load_store_keep s u1 u2 s' : (t_exists s = false -> subs s = []) -> load_store s u1 u2 s' -> skeep s s'.
Proof.
  intros NE LS. destruct LS as [|u w g HU SN EX A2|w1 g1 w2 g2 EX A2]; intros u0 m H1.
  - exact H1.
  - rewrite smk_sub_create. destruct (N.eqb u0 u) eqn:E; [|exact H1]. apply N.eqb_eq in E. subst u0. rewrite SN in H1. discriminate.
  - unfold smk in H1. rewrite (NE EX) in H1. discriminate.
Qed.
Lemma ksmono_keep s s1 s2 : skeep s s1 -> ksmono s1 s2 -> ksmono s s2.
Proof. intros K M u rd rc dl rd' rc' dl' H1 H2. eapply M; [apply K; exact H1|exact H2]. Qed.

Lemma kget_desc_st s c n sid u : kh_st (kget_desc s c n sid u) = s /\ kh_ca (kget_desc s c n sid u) = c.
Proof. unfold kget_desc. repeat break_match; auto. Qed.
Lemma kget_sub_st f s c n sid u : kh_st (kget_sub LP2P f s c n sid u) = s /\ kh_ca (kget_sub LP2P f s c n sid u) = c.
Proof. unfold kget_sub. repeat break_match; auto. Qed.

Lemma kstep_inv f x o : kinv x -> kop_ok o ->
  kinv (fst (kstep LP2P sm roots ua ub f x o)) /\ ksmono (y_st x) (y_st (fst (kstep LP2P sm roots ua ub f x o))).
Proof.
  destruct x as [s oc n]. intros [SI [KB CI]] OK. cbn [y_st y_ca] in *.
  assert (kinv (mkKS s oc 0) /\ ksmono s s) as KEEP by (split; [split; [exact SI|split; [exact KB|exact CI]]|apply ksmono_refl]).
  assert (kinv (mkKS s None 0) /\ ksmono s s) as GONE by (split; [split; [exact SI|split; [exact KB|exact I]]|apply ksmono_refl]).
  assert (forall s1 c1 n1, ok4 s s1 c1 -> kinv (mkKS s1 (Some c1) n1) /\ ksmono s s1) as FIN
    by (intros s1 c1 n1 [A [B [C D]]]; split; [split; [exact A|split; [exact B|exact C]]|exact D]).
  destruct o as [sid byname|sid unsub|sid content noecho|sid what seq|sid|sid| |]; cbn [kop_ok] in OK; unfold kstep; cbn [y_st y_ca].
  - (* sub *)
    destruct oc as [c|].
    + destruct (kattached c sid); cbn [fst y_st]; [exact KEEP|]. apply FIN. now apply ksub_inv.
    + unfold kload. destruct (kinit_p2p f s 0 (sess_uid sm sid) (if byname then 0%N else kpeer ua ub (sess_uid sm sid))) as [code n1|s1 c n1 ns] eqn:LD; cbn [fst y_st].
      * exact GONE.
      * assert ((if byname then 0%N else kpeer ua ub (sess_uid sm sid)) = kpeer ua ub (sess_uid sm sid) \/ (if byname then 0%N else kpeer ua ub (sess_uid sm sid)) = 0%N) as P2
          by (destruct byname; auto).
        destruct (kload_inv _ _ _ _ _ _ _ _ _ SI KB OK P2 LD) as [SI1 [KB1 [CI1 [SM1 _]]]].
        assert (skeep s s1) as SK.
        { assert (alookup (if byname then 0%N else kpeer ua ub (sess_uid sm sid)) (users s) <> None ->
                  p2p_parties s (sess_uid sm sid) (if byname then 0%N else kpeer ua ub (sess_uid sm sid))) as PP0.
          { intros NN. destruct P2 as [-> | E0]; [apply parties_peer; [exact OK|apply SI]|]. rewrite E0 in NN. destruct KB as [_ Z0]. contradiction. }
          destruct (kinit_p2p_store _ _ _ _ _ _ _ _ _ (proj1 SI) PP0 LD) as [LS _]. eapply load_store_keep; [apply SI|exact LS]. }
        pose proof (ksub_inv (k_is_root roots (sess_uid sm sid)) f s1 c n1 sid (sess_uid sm sid)
                      (ns || match alookup (sess_uid sm sid) (k_users c) with Some p => kp_deleted p | None => true end) SI1 KB1 CI1 OK) as [A [B [C D]]].
        split; [split; [exact A|split; [exact B|exact C]]|]. eapply ksmono_keep; eauto.
  - (* leave *)
    destruct oc as [c|]; [|exact KEEP]. destruct (kattached c sid); [|exact KEEP]. destruct unsub.
    + destruct (kleave_unsub LP2P f s c 0 sid (sess_uid sm sid)) as [[[s1 oc1] n1] o1] eqn:LV.
      destruct (kleave_unsub_inv _ _ _ _ _ _ _ _ _ _ SI KB CI OK LV) as [A [B [C D]]]. cbn [fst y_st].
      split; [split; [exact A|split; [exact B|exact D]]|exact C].
    + cbn [fst y_st kh_st kh_ca]. apply FIN. apply ok4_sess. now apply ok4_refl.
  - (* pub *)
    destruct oc as [c|]; [|exact KEEP]. destruct (kattached c sid || false); [|exact KEEP]. cbn [fst y_st]. apply FIN. now apply kpublish_inv.
  - (* note *)
    destruct (negb _); [exact KEEP|]. destruct oc as [c|]; [|destruct (N.eqb what K_recv); exact KEEP].
    destruct (kattached c sid); [cbn [fst y_st]; apply FIN; now apply knote_inv|].
    destruct (N.eqb what K_recv); [cbn [fst y_st]; apply FIN; now apply knote_inv|exact KEEP].
  - (* get desc *)
    destruct (koffline_desc LP2P f s sid (kpeer ua ub (sess_uid sm sid))) as [n1 o1].
    assert (kinv (mkKS s oc n1) /\ ksmono s s) as OFF by (split; [split; [exact SI|split; [exact KB|exact CI]]|apply ksmono_refl]).
    destruct oc as [c|]; [|exact OFF]. destruct (kattached c sid); [|exact OFF]. cbn [fst y_st].
    destruct (kget_desc_st s c 0 sid (sess_uid sm sid)) as [-> ->]. apply FIN. now apply ok4_refl.
  - (* get sub *)
    destruct (koffline_sub f sid) as [n1 o1].
    assert (kinv (mkKS s oc n1) /\ ksmono s s) as OFF by (split; [split; [exact SI|split; [exact KB|exact CI]]|apply ksmono_refl]).
    destruct oc as [c|]; [|exact OFF]. destruct (kattached c sid); [|exact OFF]. cbn [fst y_st].
    destruct (kget_sub_st f s c 0 sid (sess_uid sm sid)) as [-> ->]. apply FIN. now apply ok4_refl.
  - (* unload *)
    destruct oc as [c|]; [|exact KEEP]. destruct (k_sess c); [exact GONE|exact KEEP].
  - (* restart *)
    exact GONE.
Qed.

Lemma kstep_f_inv x fo : kinv x -> kop_ok (snd fo) ->
  kinv (fst (kstep_f LP2P sm roots ua ub x fo)) /\ ksmono (y_st x) (y_st (fst (kstep_f LP2P sm roots ua ub x fo))).
Proof.
  intros KI OK. unfold kstep_f. pose proof (kstep_inv (fst fo) x (snd fo) KI OK) as [A B].
  destruct (kstep LP2P sm roots ua ub (fst fo) x (snd fo)) as [x1 o1]. cbn [fst] in *.
  destruct (fst fo); cbn [fst y_st]; try (split; assumption).
  destruct A as [A1 [A2 _]]. split; [split; [exact A1|split; [exact A2|exact I]]|exact B].
Qed.

Lemma krun_inv h : forall x, kinv x -> Forall (fun fo => kop_ok (snd fo)) h -> kinv (fst (krun LP2P sm roots ua ub x h)).
Proof.
  induction h as [|fo h IH]; intros x KI OK; cbn [krun]; [exact KI|]. inversion OK as [|? ? O1 O2]; subst.
  pose proof (kstep_f_inv x fo KI O1) as [A _]. destruct (kstep_f LP2P sm roots ua ub x fo) as [x1 o1]. cbn [fst] in A.
  specialize (IH x1 A O2). destruct (krun LP2P sm roots ua ub x1 h) as [x2 os]. exact IH.
Qed.

End Hist.
