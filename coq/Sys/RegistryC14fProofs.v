(* C14, round s14f: proofs about the session registry and the online counters (RegistryC14f.v) *)
From Coq Require Import List NArith ZArith Bool Lia ZifyBool ZifyN.
Import ListNotations.
Require Import Tinode.Sys.RegistryC14f.
Local Open Scope N_scope.

Lemma rdel_In x y l : In x (rdel y l) <-> In x l /\ x <> y.
Proof. unfold rdel. rewrite filter_In, negb_true_iff, N.eqb_neq. tauto. Qed.

Lemma memN_In x l : memN x l = true <-> In x l.
Proof.
  unfold memN. rewrite existsb_exists. split.
  - intros [y [H1 H2]]. apply N.eqb_eq in H2. subst; auto.
  - intro; exists x; split; auto. apply N.eqb_refl.
Qed.

Lemma rdel_all_In x xs l : In x (rdel_all xs l) <-> In x l /\ ~ In x xs.
Proof.
  unfold rdel_all. rewrite filter_In, negb_true_iff. rewrite <- (memN_In x xs).
  destruct (memN x xs); intuition congruence.
Qed.

Lemma expire_back_app h ex back : forall e k, expire_back_c14f h ex back = (e, k) -> back = e ++ k.
Proof.
  induction back as [|s r IH]; cbn; intros e k H.
  - inversion H; auto.
  - destruct (r_touched_of h s <? ex)%Z.
    + destruct (expire_back_c14f h ex r) as [e' k'] eqn:E. inversion H; subst. cbn. f_equal. apply IH; auto.
    + inversion H; auto.
Qed.

Lemma nodup_app_disj {A} (l1 l2 : list A) : NoDup (l1 ++ l2) -> forall x, In x l1 -> ~ In x l2.
Proof.
  induction l1; cbn; intros H x Hin. contradiction.
  inversion H; subst. destruct Hin.
  - subst. intro. apply H2. apply in_or_app; auto.
  - eapply IHl1; eauto.
Qed.

Lemma nodup_app_r {A} (l1 l2 : list A) : NoDup (l1 ++ l2) -> NoDup l2.
Proof. induction l1; cbn; intros H; auto. inversion H; auto. Qed.

Lemma is_lp_cons s h x : r_is_lp (s :: h) x = if rs_sid s =? x then rs_lp s else r_is_lp h x.
Proof. unfold r_is_lp; cbn. destruct (rs_sid s =? x); auto. Qed.

Lemma rfind_lp h sid s : rfind_c14f h sid = Some s -> r_is_lp h sid = rs_lp s.
Proof. unfold r_is_lp. intros ->. auto. Qed.

Definition rinv_c14f (st : rstore_c14f) : Prop :=
  reg_exact_c14f st /\ (forall x, In x (r_term st) -> x < r_next st).

Lemma rinv_init life : rinv_c14f (init_c14f life).
Proof.
  unfold rinv_c14f, reg_exact_c14f, init_c14f; cbn. repeat split; try constructor; try tauto; try lia.
Qed.

Lemma rinv_new st lp uid now : rinv_c14f st -> rinv_c14f (fst (new_session_c14f st lp uid now)).
Proof.
  intros [[C [L [I3 I4]]] I5]. unfold new_session_c14f.
  set (sid := r_next st). set (s := mkRS sid uid lp now).
  set (lru1 := if lp then sid :: r_lru st else r_lru st).
  destruct (expire_back_c14f (s :: r_heap st) (now - r_life st)%Z (rev lru1)) as [e k] eqn:E.
  apply expire_back_app in E.
  assert (Hlt : forall x, In x (r_lru st) -> x < sid /\ r_is_lp (r_heap st) x = true /\ In x (r_cache st)).
  { intros x Hx. apply I4 in Hx. destruct Hx as [Hc Hl]. pose proof (proj1 (I3 x) Hc) as Hq. unfold sid. tauto. }
  assert (Hns : ~ In sid (r_cache st)). { intro Hc. apply I3 in Hc. unfold sid in Hc. lia. }
  assert (Hnl : ~ In sid (r_lru st)). { intro Hc. apply Hlt in Hc. lia. }
  assert (L1 : NoDup lru1). { unfold lru1. destruct lp; auto. constructor; auto. }
  assert (Hsplit : forall x, In x lru1 <-> In x e \/ In x k).
  { intro x. rewrite in_rev, E, in_app_iff. tauto. }
  assert (ND : NoDup (e ++ k)). { rewrite <- E. apply NoDup_rev; auto. }
  assert (Hdis := nodup_app_disj _ _ ND).
  assert (Hl1 : forall x, In x lru1 <-> (x = sid /\ lp = true) \/ In x (r_lru st)).
  { intro x. unfold lru1. destruct lp; cbn; intuition congruence. }
  assert (Hlp : forall x, r_is_lp (s :: r_heap st) x = if sid =? x then lp else r_is_lp (r_heap st) x).
  { intro x. rewrite is_lp_cons. reflexivity. }
  split; [split; [|split; [|split]]|]; cbn [fst r_cache r_lru r_term r_next r_heap].
  - apply NoDup_filter. constructor; auto.
  - apply NoDup_rev. eapply nodup_app_r; eauto.
  - intro x. rewrite rdel_all_In, in_app_iff. cbn [In]. rewrite I3. fold sid.
    split.
    + intros [[Hx|[Hx Ht]] Hne].
      * subst x. split; [lia|]. intros [H|H]; [tauto|]. apply I5 in H. fold sid in H. lia.
      * split; [lia|]. tauto.
    + intros [Hx Hn]. split; [|tauto].
      destruct (N.eq_dec sid x); [left; auto|right]. split; [lia|tauto].
  - intro x. rewrite <- in_rev, rdel_all_In. cbn [In]. rewrite Hlp. split.
    + intro Hk. assert (Hne : ~ In x e). { intro He. eapply Hdis; eauto. }
      assert (H1 : In x lru1) by (apply Hsplit; auto).
      apply Hl1 in H1. destruct H1 as [[-> ->]|H1].
      * rewrite N.eqb_refl. tauto.
      * apply Hlt in H1. destruct H1 as [Hl [Hp Hc]].
        replace (sid =? x) with false by lia. tauto.
    + intros [[Hc Hne] Hp]. assert (H1 : In x lru1).
      { apply Hl1. destruct (N.eq_dec sid x) as [->|Hd].
        - rewrite N.eqb_refl in Hp. left; auto.
        - replace (sid =? x) with false in Hp by lia. right. apply I4. split; auto.
          destruct Hc; [contradiction|auto]. }
      apply Hsplit in H1. tauto.
  - intro x. rewrite in_app_iff. intros [He|Ht].
    + assert (H1 : In x lru1) by (apply Hsplit; auto). apply Hl1 in H1.
      destruct H1 as [[-> _]|H1]; [lia|]. apply Hlt in H1. lia.
    + apply I5 in Ht. fold sid in Ht. lia.
Qed.

Lemma rinv_get st sid now : rinv_c14f st -> rinv_c14f (fst (get_c14f st sid now)).
Proof.
  intros [[C [L [I3 I4]]] I5]. unfold get_c14f.
  destruct (memN sid (r_cache st)) eqn:M; [|split; [split|]; auto].
  destruct (r_is_lp (r_heap st) sid) eqn:P; [|split; [split|]; auto].
  apply memN_In in M. cbn [fst].
  split; [split; [|split; [|split]]|]; cbn [r_cache r_lru r_term r_next r_heap]; auto.
  - constructor. rewrite rdel_In. tauto. apply NoDup_filter; auto.
  - intro x. cbn [In]. rewrite rdel_In, is_lp_cons. cbn [rs_sid rs_lp]. rewrite I4.
    destruct (N.eq_dec sid x) as [->|Hd].
    + rewrite N.eqb_refl. tauto.
    + replace (sid =? x) with false by lia. intuition congruence.
Qed.

Lemma rinv_disc st sid : rinv_c14f st -> rinv_c14f (disconnect_c14f st sid).
Proof.
  intros [[C [L [I3 I4]]] I5]. unfold disconnect_c14f.
  destruct (sid <? r_next st) eqn:Hlt; [|split; [split|]; auto].
  split; [split; [|split; [|split]]|]; cbn [r_cache r_lru r_term r_next r_heap].
  - apply NoDup_filter; auto.
  - destruct (r_is_lp (r_heap st) sid); auto. apply NoDup_filter; auto.
  - intro x. rewrite rdel_In, I3. cbn [In]. intuition congruence.
  - intro x. rewrite rdel_In. destruct (r_is_lp (r_heap st) sid) eqn:P.
    + rewrite rdel_In, I4. tauto.
    + rewrite I4. split; [|tauto]. intros [Hc Hp]. repeat split; auto. intros ->. congruence.
  - intro x. cbn [In]. intros [<-|H]; [lia|auto].
Qed.

Lemma rinv_evict st uid skip : rinv_c14f st -> rinv_c14f (fst (evict_c14f st uid skip)).
Proof.
  intros [[C [L [I3 I4]]] I5]. unfold evict_c14f. cbn [fst].
  split; [split; [|split; [|split]]|]; cbn [r_cache r_lru r_term r_next r_heap].
  - apply NoDup_filter; auto.
  - apply NoDup_filter; auto.
  - intro x. rewrite filter_In, in_app_iff, filter_In, I3.
    destruct (victim_c14f (r_heap st) uid skip x); cbn; intuition congruence.
  - intro x. rewrite !filter_In, I4.
    destruct (victim_c14f (r_heap st) uid skip x); destruct (r_is_lp (r_heap st) x); cbn; intuition congruence.
  - intro x. rewrite in_app_iff, filter_In, I3. intros [[[H _] _]|H]; auto.
Qed.

Lemma rinv_age st sid d : rinv_c14f st -> rinv_c14f (age_c14f st sid d).
Proof.
  intros [[C [L [I3 I4]]] I5]. unfold age_c14f.
  destruct (rfind_c14f (r_heap st) sid) as [s|] eqn:F; [|split; [split|]; auto].
  apply rfind_lp in F.
  split; [split; [|split; [|split]]|]; cbn [r_cache r_lru r_term r_next r_heap]; auto.
  intro x. rewrite is_lp_cons. cbn [rs_sid rs_lp]. rewrite I4.
  destruct (N.eq_dec sid x) as [->|Hd].
  - rewrite N.eqb_refl, F. tauto.
  - replace (sid =? x) with false by lia. tauto.
Qed.

Lemma rinv_step st o : rinv_c14f st -> rinv_c14f (rstep_c14f st o).
Proof.
  destruct o; cbn [rstep_c14f].
  - apply rinv_new. - apply rinv_get. - apply rinv_disc. - apply rinv_evict. - apply rinv_age.
Qed.

Lemma rinv_run h : forall st, rinv_c14f st -> rinv_c14f (rrun_c14f st h).
Proof. induction h as [|o h IH]; cbn; intros st H; auto. apply IH. apply rinv_step; auto. Qed.

Lemma registry_exact_c14f life h : reg_exact_c14f (rrun_c14f (init_c14f life) h).
Proof. apply (rinv_run h). apply rinv_init. Qed.

(* the session just created is registered (unless its own clock reading makes it stale at birth) and every
   session NewSession expires is unregistered and terminated *)
Lemma new_session_registered_c14f life h lp uid now st' sid expired :
  new_session_c14f (rrun_c14f (init_c14f life) h) lp uid now = (st', (sid, expired)) ->
  (forall x, In x expired -> ~ In x (r_cache st') /\ ~ In x (r_lru st') /\ In x (r_term st')) /\
  (~ In sid expired -> In sid (r_cache st')).
Proof.
  intro H.
  assert (R : rinv_c14f st').
  { replace st' with (fst (new_session_c14f (rrun_c14f (init_c14f life) h) lp uid now)) by (rewrite H; auto).
    apply rinv_new. apply (rinv_run h). apply rinv_init. }
  destruct R as [[C [L [I3 I4]]] I5].
  unfold new_session_c14f in H.
  destruct (expire_back_c14f _ _ _) as [e k] eqn:E in H. injection H as Hst Hsid Hex. subst st' sid expired.
  cbn [r_cache r_lru r_term r_next r_heap] in *.
  split.
  - intros x Hx. assert (Ht : In x (e ++ r_term (rrun_c14f (init_c14f life) h))) by (apply in_or_app; auto).
    repeat split; auto.
    + intro Hc. apply I3 in Hc. tauto.
    + intro Hc. apply I4 in Hc. destruct Hc as [Hc _]. apply I3 in Hc. tauto.
  - intro Hn. destruct (memN (r_next (rrun_c14f (init_c14f life) h)) e) eqn:M; [apply memN_In in M; tauto|cbn; left; auto].
Qed.

(* ---------------------------------------------------------------- PART B: online counters *)
Local Open Scope Z_scope.

Lemma oget_oset m a v u : oget (oset m a v) u = if (a =? u)%N then v else oget m u.
Proof.
  induction m as [|[k w] r IH]; cbn.
  - destruct (a =? u)%N; auto.
  - destruct (k =? a)%N eqn:K; cbn.
    + apply N.eqb_eq in K; subst. destruct (a =? u)%N; auto.
    + rewrite IH. destruct (k =? u)%N eqn:K2; auto.
      apply N.eqb_eq in K2; subst. replace (a =? u)%N with false; auto.
      symmetry. apply N.eqb_neq. apply N.eqb_neq in K. congruence.
Qed.

Lemma okeys_oset m a v k : In k (map fst (oset m a v)) <-> k = a \/ In k (map fst m).
Proof.
  induction m as [|[k' w] r IH]; cbn.
  - intuition.
  - destruct (k' =? a)%N eqn:K; cbn.
    + apply N.eqb_eq in K; subst. intuition.
    + rewrite IH. intuition.
Qed.

Lemma orem_absent m sid : ~ In sid (map fst m) -> orem m sid = m.
Proof.
  induction m as [|[k v] r IH]; cbn; intros H; auto.
  destruct (k =? sid)%N eqn:K; cbn.
  - apply N.eqb_eq in K. subst. tauto.
  - f_equal. apply IH. tauto.
Qed.

Lemma ofind_in m sid u : ofind m sid = Some u -> In sid (map fst m).
Proof.
  induction m as [|[k v] r IH]; cbn; intros H; [discriminate|].
  destruct (k =? sid)%N eqn:K; [apply N.eqb_eq in K; auto|right; auto].
Qed.

Lemma ofind_none m sid : ofind m sid = None -> ~ In sid (map fst m).
Proof.
  induction m as [|[k v] r IH]; cbn; intros H; [tauto|].
  destruct (k =? sid)%N eqn:K; [discriminate|]. apply N.eqb_neq in K. intros [E|E]; [congruence|]. apply IH; auto.
Qed.

Lemma ocount_cons s a m u : ocount ((s, a) :: m) u = (if (a =? u)%N then 1 else 0) + ocount m u.
Proof. unfold ocount. cbn. destruct (a =? u)%N; cbn [length]; lia. Qed.

Lemma ocount_orem m sid uid u : NoDup (map fst m) -> ofind m sid = Some uid ->
  ocount (orem m sid) u = ocount m u - (if (uid =? u)%N then 1 else 0).
Proof.
  induction m as [|[k v] r IH]; cbn [map fst ofind]; intros ND F; [discriminate|].
  inversion ND; subst.
  destruct (k =? sid)%N eqn:K.
  - inversion F; subst. apply N.eqb_eq in K; subst.
    unfold orem. cbn [filter fst]. rewrite N.eqb_refl. cbn [negb].
    change (filter (fun p => negb (fst p =? sid)%N) r) with (orem r sid).
    rewrite orem_absent; auto. rewrite ocount_cons. lia.
  - unfold orem. cbn [filter fst]. rewrite K. cbn [negb].
    change (filter (fun p => negb (fst p =? sid)%N) r) with (orem r sid).
    rewrite !ocount_cons. rewrite IH; auto. lia.
Qed.

Lemma orem_keys m sid k : In k (map fst (orem m sid)) -> In k (map fst m).
Proof.
  unfold orem. rewrite !in_map_iff. intros [p [E H]]. apply filter_In in H. exists p; tauto.
Qed.

Lemma orem_nodup m sid : NoDup (map fst m) -> NoDup (map fst (orem m sid)).
Proof.
  induction m as [|[k v] r IH]; cbn; intros ND; auto. inversion ND; subst.
  destruct (k =? sid)%N; cbn; auto. constructor; auto. intro H. apply orem_keys in H. auto.
Qed.

Definition oinv_c14f (t : otopic_c14f) : Prop :=
  NoDup (map fst (o_sess t)) /\ forall u, oget (o_per t) u = ocount (o_sess t) u.

Lemma oinv_step t o : oinv_c14f t -> oinv_c14f (ostep_c14f t o).
Proof.
  intros [ND H]. destruct o as [sid a|sid su]; cbn [ostep_c14f].
  - unfold oattach_c14f. destruct (ofind (o_sess t) sid) eqn:F; [split; auto|].
    apply ofind_none in F. split; cbn [o_sess o_per].
    + cbn. constructor; auto.
    + intro u. rewrite oget_oset, ocount_cons, <- !H. destruct (a =? u)%N eqn:E; [apply N.eqb_eq in E; subst|]; lia.
  - unfold oleave_c14f. destruct (ofind (o_sess t) sid) as [uid|] eqn:F; [|split; auto].
    split; cbn [o_sess o_per].
    + apply orem_nodup; auto.
    + intro u. rewrite oget_oset. rewrite (ocount_orem _ _ uid); auto. rewrite <- !H.
      destruct (uid =? u)%N eqn:E; [apply N.eqb_eq in E; subst|]; lia.
Qed.

Lemma oget_init members u : oget (map (fun u => (u, 0)) members) u = 0.
Proof. induction members; cbn; auto. destruct (a =? u)%N; auto. Qed.

Lemma oinv_init members : oinv_c14f (oinit_c14f members).
Proof. split; cbn. constructor. intro u. rewrite oget_init. reflexivity. Qed.

Lemma oinv_run h : forall t, oinv_c14f t -> oinv_c14f (orun_c14f t h).
Proof. induction h; cbn; intros; auto. apply IHh. apply oinv_step; auto. Qed.

Lemma online_counts_c14f members h u :
  oget (o_per (orun_c14f (oinit_c14f members) h)) u = ocount (o_sess (orun_c14f (oinit_c14f members) h)) u.
Proof. apply (oinv_run h). apply oinv_init. Qed.

Lemma online_restored_c14f members h :
  o_sess (orun_c14f (oinit_c14f members) h) = [] -> forall u, oget (o_per (orun_c14f (oinit_c14f members) h)) u = 0.
Proof. intros E u. rewrite online_counts_c14f, E. reflexivity. Qed.

Lemma okeys_step t o k : In k (map fst (o_per (ostep_c14f t o))) ->
  In k (map fst (o_per t)) \/ (exists s, o = OAttach s k) \/ In k (map snd (o_sess t)).
Proof.
  destruct o as [sid a|sid su]; cbn [ostep_c14f].
  - unfold oattach_c14f. destruct (ofind (o_sess t) sid); auto. cbn [o_per]. rewrite okeys_oset.
    intros [->|H]; eauto.
  - unfold oleave_c14f. destruct (ofind (o_sess t) sid) as [uid|] eqn:F; auto. cbn [o_per]. rewrite okeys_oset.
    intros [->|H]; auto. right. right.
    clear -F. induction (o_sess t) as [|[k v] r IH]; cbn in *; [discriminate|].
    destruct (k =? sid)%N; [inversion F; auto|right; auto].
Qed.
