(* A simple executable reference for replyDelMsg's request validation/clipping
   and for range normalisation, used by the topic model until it is wired to
   Pure/Ranges.v.  Ranges are (low, hi): [low, hi) or the single id low when
   hi = 0.  The canonical form produced here is: ids expanded, sorted,
   de-duplicated, re-compressed into maximal runs (a run of one id as (id, 0)). *)
From Coq Require Import ZArith List Bool.
Import ListNotations.
Open Scope Z_scope.

Definition expand1 (r : Z * Z) : list Z :=
  let '(lo, hi) := r in
  if hi =? 0 then [lo] else map (fun i => lo + Z.of_nat i) (seq 0 (Z.to_nat (hi - lo))).
Definition expand (rs : list (Z * Z)) : list Z := flat_map expand1 rs.

Fixpoint insert_uniq (x : Z) (l : list Z) : list Z :=
  match l with
  | [] => [x]
  | y :: r => if x <? y then x :: l else if x =? y then l else y :: insert_uniq x r
  end.
Definition sort_uniq (l : list Z) : list Z := fold_right insert_uniq [] l.

(* compress a sorted duplicate-free list into maximal runs *)
Fixpoint compress_aux (lo prev : Z) (l : list Z) : list (Z * Z) :=
  match l with
  | [] => [(lo, if prev =? lo then 0 else prev + 1)]
  | x :: r => if x =? prev + 1 then compress_aux lo x r
              else (lo, if prev =? lo then 0 else prev + 1) :: compress_aux x x r
  end.
Definition compress (l : list Z) : list (Z * Z) :=
  match l with [] => [] | x :: r => compress_aux x x r end.

Definition norm_ranges_lite (rs : list (Z * Z)) : list (Z * Z) := compress (sort_uniq (expand rs)).

Definition max_delete_count_lite : Z := 1024.

Fixpoint clip_all (last : Z) (req : list (Z * Z)) : option (list (Z * Z) * Z) :=
  match req with
  | [] => Some ([], 0)
  | (lo, hi) :: r =>
    if (last <? lo) || (lo <? 0) || (hi <? 0) || ((0 <? hi) && (hi <? lo)) || ((lo =? 0) && (hi =? 0)) then None
    else
      let hi' := if last <? hi then last + 1 else if (lo =? hi) || (lo + 1 =? hi) then 0 else hi in
      let cnt := if hi' =? 0 then 1 else hi' - lo in
      match clip_all last r with
      | None => None
      | Some (rs, c) => Some ((lo, hi') :: rs, cnt + c)
      end
  end.

Definition del_ranges_lite (last : Z) (req : list (Z * Z)) : option (list (Z * Z)) :=
  match req with
  | [] => None
  | _ =>
    match clip_all last req with
    | None => None
    | Some (rs, count) =>
      let out := norm_ranges_lite rs in
      if (max_delete_count_lite <? count) && (1 <? Z.of_nat (length out)) then None else Some out
    end
  end.
