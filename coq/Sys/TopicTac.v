(* Tactics and store-primitive frame lemmas shared by the topic proofs. *)
From Coq Require Import ZArith NArith List Bool Lia.
From Tinode Require Import Base.Util Pure.Acs Sys.Topic.
Import ListNotations.
Open Scope Z_scope.

Ltac break_match :=
  match goal with
  | |- context [match ?x with _ => _ end] => destruct x eqn:?
  end.
Ltac break_match_hyp :=
  match goal with
  | H : context [match ?x with _ => _ end] |- _ => destruct x eqn:?
  end.
Ltac inv H := inversion H; subst; clear H.

(* the projection the numbering properties read *)
Definition seqs (s : store) : list Z := map m_seq (msgs s).

Lemma seqs_subs f s : seqs (st_subs f s) = seqs s. Proof. reflexivity. Qed.
Lemma seqs_dellog f s : seqs (st_dellog f s) = seqs s. Proof. reflexivity. Qed.
Lemma seqs_owner v s : seqs (st_owner v s) = seqs s. Proof. reflexivity. Qed.
Lemma seqs_seqid v s : seqs (st_seqid v s) = seqs s. Proof. reflexivity. Qed.
Lemma seqs_delid v s : seqs (st_delid v s) = seqs s. Proof. reflexivity. Qed.

Lemma seqs_sub_create s u w g : seqs (ad_sub_create s u w g) = seqs s.
Proof. unfold ad_sub_create. repeat break_match; reflexivity. Qed.
Lemma seqid_sub_create s u w g : t_seqid (ad_sub_create s u w g) = t_seqid s.
Proof. unfold ad_sub_create. repeat break_match; reflexivity. Qed.
Lemma seqs_subs_update s u up : seqs (ad_subs_update s u up) = seqs s.
Proof. unfold ad_subs_update. break_match; reflexivity. Qed.
Lemma seqid_subs_update s u up : t_seqid (ad_subs_update s u up) = t_seqid s.
Proof. unfold ad_subs_update. break_match; reflexivity. Qed.
Lemma seqs_subs_delete s u s' : ad_subs_delete s u = Some s' -> seqs s' = seqs s /\ t_seqid s' = t_seqid s.
Proof. unfold ad_subs_delete. break_match; intros H; inv H. split; reflexivity. Qed.
Lemma seqs_delete_list s d fu rs : seqs (ad_msg_delete_list s d fu rs) = seqs s.
Proof.
  unfold ad_msg_delete_list, seqs. break_match; cbn; [|reflexivity].
  rewrite map_map. apply map_ext. intros m. break_match; reflexivity.
Qed.
Lemma seqid_delete_list s d fu rs : t_seqid (ad_msg_delete_list s d fu rs) = t_seqid s.
Proof. unfold ad_msg_delete_list. break_match; reflexivity. Qed.

#[export] Hint Rewrite seqs_subs seqs_dellog seqs_owner seqs_seqid seqs_delid seqs_sub_create seqid_sub_create
  seqs_subs_update seqid_subs_update seqs_delete_list seqid_delete_list : topic.

Lemma NoDup_app_single {A} (l : list A) (x : A) : NoDup l -> ~ In x l -> NoDup (l ++ [x]).
Proof.
  induction l as [|y l IH]; intros H1 H2; cbn.
  - constructor; [intros []|constructor].
  - inversion H1 as [|? ? Hy Hl]; subst. constructor.
    + intros Hin. apply in_app_or in Hin. destruct Hin as [Hin|[Hin|[]]]; [contradiction|].
      subst. apply H2. now left.
    + apply IH; [assumption|]. intros Hin. apply H2. now right.
Qed.

Lemma firstn_In {A} (n : nat) (l : list A) (x : A) : In x (firstn n l) -> In x l.
Proof. intros H. rewrite <- (firstn_skipn n l). apply in_or_app. now left. Qed.
