(* C14 (round s14d): the failed-delete branch of Hub.topicUnreg.  Lemmas about Sys/TopicStatusC14d.v (status word)
   and about the step [HubUnregFail] of Sys/Lifecycle.v. *)
From Coq Require Import List Arith Bool NArith Lia.
Import ListNotations.
Require Import Tinode.Sys.Lifecycle Tinode.Sys.LifecycleProofs Tinode.Sys.TopicStatusC14d.

(* ---------- the status word ---------- *)

Lemma bit_of_2 : forall n : N, n <> 1%N -> N.testbit 2 n = false.
Proof. intros n Hn. change 2%N with (2 ^ 1)%N. apply N.pow2_bits_false. intros X. apply Hn. symmetry. exact X. Qed.

Lemma failed_delete_restores_status : forall st : N,
  is_paused st = false -> unreg_del_status true st = st.
Proof.
  intros st H. unfold unreg_del_status, mark_paused, status_change_bits, is_paused, topicStatusPaused in *.
  apply negb_false_iff in H. apply N.eqb_eq in H.
  apply N.bits_inj. intros n. rewrite N.ldiff_spec, N.lor_spec.
  destruct (N.eq_dec n 1) as [->|Hn].
  - assert (E : N.testbit st 1 = false).
    { assert (X : N.testbit (N.land st 2) 1 = false) by (rewrite H; apply N.bits_0).
      rewrite N.land_spec in X. change (N.testbit 2 1) with true in X. rewrite andb_true_r in X. exact X. }
    rewrite E. reflexivity.
  - rewrite (bit_of_2 n Hn). rewrite orb_false_r. simpl. rewrite andb_true_r. reflexivity.
Qed.

(* whatever the word was, the failure path leaves every flag but `paused` as it was and `paused` clear *)
Lemma failed_delete_status_bits : forall st n,
  N.testbit (unreg_del_status true st) n = if N.eqb n 1 then false else N.testbit st n.
Proof.
  intros st n. unfold unreg_del_status, mark_paused, status_change_bits, topicStatusPaused.
  rewrite N.ldiff_spec, N.lor_spec.
  destruct (N.eqb_spec n 1) as [->|Hn].
  - change (N.testbit 2 1) with true. rewrite orb_true_r. reflexivity.
  - rewrite (bit_of_2 n Hn). rewrite orb_false_r. simpl. rewrite andb_true_r. reflexivity.
Qed.

Lemma land_bit_zero : forall st k, (N.land st (2 ^ k) =? 0)%N = negb (N.testbit st k).
Proof.
  intros st k. destruct (N.testbit st k) eqn:E; simpl.
  - apply N.eqb_neq. intros H. assert (X : N.testbit (N.land st (2 ^ k)) k = false) by (rewrite H; apply N.bits_0).
    rewrite N.land_spec, E, N.pow2_bits_true in X. discriminate.
  - apply N.eqb_eq. apply N.bits_inj. intros n. rewrite N.land_spec, N.bits_0.
    destruct (N.eq_dec n k) as [->|Hn]; [rewrite E; reflexivity|].
    rewrite N.pow2_bits_false by (intros X; apply Hn; symmetry; exact X). apply andb_false_r.
Qed.

Lemma is_paused_bit : forall st, is_paused st = N.testbit st 1.
Proof. intros. unfold is_paused, topicStatusPaused. change 2%N with (2 ^ 1)%N. rewrite land_bit_zero, negb_involutive. reflexivity. Qed.
Lemma is_deleted_bit : forall st, is_deleted st = N.testbit st 4.
Proof. intros. unfold is_deleted, topicStatusMarkedDeleted. change 16%N with (2 ^ 4)%N. rewrite land_bit_zero, negb_involutive. reflexivity. Qed.

Lemma is_inactive_bits : forall st, is_inactive st = N.testbit st 1 || N.testbit st 4.
Proof.
  intros st. unfold is_inactive, topicStatusPaused, topicStatusMarkedDeleted.
  destruct (N.testbit st 1) eqn:E1; destruct (N.testbit st 4) eqn:E4; simpl.
  - apply negb_true_iff. apply N.eqb_neq. intros H.
    assert (X : N.testbit (N.land st 18) 1 = false) by (rewrite H; apply N.bits_0).
    rewrite N.land_spec, E1 in X. discriminate.
  - apply negb_true_iff. apply N.eqb_neq. intros H.
    assert (X : N.testbit (N.land st 18) 1 = false) by (rewrite H; apply N.bits_0).
    rewrite N.land_spec, E1 in X. discriminate.
  - apply negb_true_iff. apply N.eqb_neq. intros H.
    assert (X : N.testbit (N.land st 18) 4 = false) by (rewrite H; apply N.bits_0).
    rewrite N.land_spec, E4 in X. discriminate.
  - apply negb_false_iff. apply N.eqb_eq. apply N.bits_inj. intros n. rewrite N.land_spec, N.bits_0.
    change (N.lor 2 16) with 18%N.
    destruct (N.eq_dec n 1) as [->|H1]; [rewrite E1; reflexivity|].
    destruct (N.eq_dec n 4) as [->|H4]; [rewrite E4; reflexivity|].
    assert (X : N.testbit 18 n = false).
    { change 18%N with (N.lor (2 ^ 1) (2 ^ 4)). rewrite N.lor_spec.
      rewrite (N.pow2_bits_false 1 n) by (intros X; apply H1; symmetry; exact X).
      rewrite (N.pow2_bits_false 4 n) by (intros X; apply H4; symmetry; exact X). reflexivity. }
    rewrite X. apply andb_false_r.
Qed.

(* a topic that served requests before a failed delete serves them after it *)
Lemma failed_delete_keeps_active : forall st, is_inactive st = false -> is_inactive (unreg_del_status true st) = false.
Proof.
  intros st H. rewrite is_inactive_bits in *. rewrite !failed_delete_status_bits. simpl.
  apply orb_false_iff in H. tauto.
Qed.

(* ... and ANY topic is un-paused by the failure path, while `marked deleted` is never set by it *)
Lemma failed_delete_flags : forall st,
  status_flags (unreg_del_status true st) = (false, is_deleted st).
Proof.
  intros st. unfold status_flags. rewrite is_paused_bit, !is_deleted_bit, !failed_delete_status_bits. reflexivity.
Qed.

(* the successful path ends inactive for good *)
Lemma successful_delete_inactive : forall st, is_inactive (unreg_del_status false st) = true.
Proof.
  intros st. rewrite is_inactive_bits. unfold unreg_del_status, mark_deleted, mark_paused, status_change_bits,
    topicStatusPaused, topicStatusMarkedDeleted.
  rewrite !N.lor_spec. change (N.testbit 2 1) with true. rewrite orb_true_r. reflexivity.
Qed.

(* ---------- the status word of a model instance ---------- *)

(* Lifecycle.v keeps `paused` as the phase PInit (the only code that pauses a registered topic for longer than one
   handler body is the hub's join, hub.go:195; topicInit un-pauses, init_topic.go:126) and `marked deleted` as
   [i_deleted]; the other two flags do not influence any step *)
Definition abs_status (x : tinst) : N :=
  N.lor (if is_init (i_phase x) then topicStatusPaused else 0%N) (if i_deleted x then topicStatusMarkedDeleted else 0%N).

Lemma inactive_abs_status : forall x, inactive x = is_inactive (abs_status x).
Proof.
  intros x. unfold inactive, abs_status. destruct (i_phase x); destruct (i_deleted x); reflexivity.
Qed.

(* ---------- the step HubUnregFail ---------- *)

(* everything a later step can read about topics is as before; sessions differ in the outbox only *)
Record same_serving (c c' : config) : Prop := mkSameServing {
  ss_inst : c_inst c' = c_inst c;
  ss_next : c_next c' = c_next c;
  ss_table : c_table c' = c_table c;
  ss_store : c_store c' = c_store c;
  ss_hjoin : c_hjoin c' = c_hjoin c;
  ss_inits : c_inits c' = c_inits c;
  ss_treg : c_treg c' = c_treg c;
  ss_tunreg : c_tunreg c' = c_tunreg c;
  ss_texit : c_texit c' = c_texit c;
  ss_ischan : c_ischan c' = c_ischan c;
  ss_sess : forall s, s_subs (c_sess c' s) = s_subs (c_sess c s) /\ s_inflight (c_sess c' s) = s_inflight (c_sess c s) /\
                      s_term (c_sess c' s) = s_term (c_sess c s) /\ s_done (c_sess c' s) = s_done (c_sess c s) /\
                      s_detachq (c_sess c' s) = s_detachq (c_sess c s) }.

Lemma s_reply_fields : forall x p,
  s_subs (s_reply x p) = s_subs x /\ s_inflight (s_reply x p) = s_inflight x /\ s_term (s_reply x p) = s_term x /\
  s_done (s_reply x p) = s_done x /\ s_detachq (s_reply x p) = s_detachq x.
Proof. intros x p. unfold s_reply. destruct (s_term x) eqn:E; simpl; rewrite ?E; auto. Qed.

Lemma hubunregfail_inv : forall c c', exec HubUnregFail c = Some c' ->
  exists r rest, c_hunreg c = HDel r :: rest /\ c_hunreg c' = rest /\
    c' = on_sess (set_hunreg c rest) (r_sid r) (fun x => s_reply x (rep r CInternal)) /\
    match c_table c (r_topic r) with
    | Some i => is_init (i_phase (c_inst c i)) = false
    | None => c_store c (r_topic r) = true
    end.
Proof.
  intros c c' Hs. simpl in Hs.
  destruct (c_hunreg c) as [|[t|r] rest] eqn:E; try discriminate. exists r, rest. simpl in Hs.
  destruct (c_table c (r_topic r)) as [i|].
  - destruct (is_init (i_phase (c_inst c i))); [discriminate|]. injection Hs as <-. repeat split; reflexivity.
  - destruct (c_store c (r_topic r)); [|discriminate]. injection Hs as <-. repeat split; reflexivity.
Qed.

Lemma hubunregfail_same_serving : forall c c', exec HubUnregFail c = Some c' -> same_serving c c'.
Proof.
  intros c c' Hs. destruct (hubunregfail_inv _ _ Hs) as (r & rest & _ & _ & -> & _).
  constructor; try reflexivity.
  intros s. simpl. unfold upd. destruct (Nat.eqb_spec s (r_sid r)) as [->|]; [apply s_reply_fields|auto].
Qed.

(* the owner is told: 500, unless his session is closing (queueOut drops everything then) *)
Lemma hubunregfail_answered : forall c c', exec HubUnregFail c = Some c' ->
  exists r rest, c_hunreg c = HDel r :: rest /\
    (s_term (c_sess c (r_sid r)) = false -> s_out (c_sess c' (r_sid r)) = s_out (c_sess c (r_sid r)) ++ [rep r CInternal]).
Proof.
  intros c c' Hs. destruct (hubunregfail_inv _ _ Hs) as (r & rest & E & _ & -> & _).
  exists r, rest. split; [exact E|]. intros Ht. simpl. unfold upd. rewrite Nat.eqb_refl. unfold s_reply. simpl. rewrite Ht. reflexivity.
Qed.

(* the status word of every instance is what the code's status operations leave: for the instance the request
   addresses it went through markPaused(true); markPaused(false) *)
Lemma hubunregfail_status : forall c c' , exec HubUnregFail c = Some c' ->
  forall r rest i, c_hunreg c = HDel r :: rest -> c_table c (r_topic r) = Some i ->
  abs_status (c_inst c' i) = unreg_del_status true (abs_status (c_inst c i)) /\
  inactive (c_inst c' i) = inactive (c_inst c i).
Proof.
  intros c c' Hs r rest i E Et. destruct (hubunregfail_inv _ _ Hs) as (r' & rest' & E' & _ & -> & Hc).
  rewrite E in E'. injection E' as <- <-. rewrite Et in Hc. simpl.
  split; [|reflexivity].
  symmetry. apply failed_delete_restores_status. rewrite is_paused_bit. unfold abs_status. rewrite Hc.
  destruct (i_deleted (c_inst c i)); reflexivity.
Qed.

(* a step enabled before the failed delete that is not the hub taking the next Hub.unreg item is enabled after it,
   and the two results agree again on everything but outboxes: stated for the requests of the members *)
Lemma same_serving_lookup : forall c c' s t, same_serving c c' -> lookup t (s_subs (c_sess c' s)) = lookup t (s_subs (c_sess c s)).
Proof. intros c c' s t H. destruct (ss_sess _ _ H s) as (-> & _). reflexivity. Qed.

Lemma client_enabled_after_failed_delete : forall c c' l,
  same_serving c c' ->
  match l with ClientSub _ _ _ | ClientLeave _ _ _ _ | DiscBegin _ | DiscEnd _ | SessDetach _ => True | _ => False end ->
  exec l c <> None -> exec l c' <> None.
Proof.
  intros c c' l H Hl He. destruct l; try contradiction; simpl in *.
  - destruct (ss_sess _ _ H s) as (A & B & C & D & E). rewrite A, B, C.
    destruct (s_term (c_sess c s) || negb (s_inflight (c_sess c s) =? 0)); [exact He|].
    destruct (lookup t (s_subs (c_sess c s))); discriminate.
  - destruct (ss_sess _ _ H s) as (A & B & C & D & E). rewrite A, B, C.
    destruct (s_term (c_sess c s) || negb (s_inflight (c_sess c s) =? 0)); [exact He|].
    destruct (lookup t (s_subs (c_sess c s))); discriminate.
  - destruct (ss_sess _ _ H s) as (A & B & C & D & E). rewrite E.
    destruct (s_detachq (c_sess c s)); [exact He|discriminate].
  - destruct (ss_sess _ _ H s) as (A & B & C & D & E). rewrite C.
    destruct (s_term (c_sess c s)); [exact He|discriminate].
  - destruct (ss_sess _ _ H s) as (A & B & C & D & E). rewrite B, C, D.
    destruct (negb (s_term (c_sess c s)) || s_done (c_sess c s) || negb (s_inflight (c_sess c s) =? 0)); [exact He|discriminate].
Qed.
