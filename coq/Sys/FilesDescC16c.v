(* C16  Topic.replySetDesc (server/topic.go:2163-2354), the part that decides whether the avatar
   listed in extra.attachments is linked: statement by statement, above the store slice of
   Sys/Files.v, with a fault plan over the adapter calls of the request.  Definitions only (lemmas:
   Sys/FilesDescC16cProofs.v).

   The request makes up to three adapter calls, IN THIS ORDER:
     [UserUpdate | TopicUpdate] ; [SubsUpdate] ; [FileLinkAttachments]
   the first when the main object changes (`len(core) > 0`; none for 'fnd'), the second when the
   subscription changes and the first did not fail, the third ONLY AFTER both succeeded (`if err != nil
   { reply 500; return }` stands between them) - its own error is logged and ignored.  Linking the
   new avatar drops the previous avatar link of the same topic / user (one avatar per owner object,
   db/mysql/adapter.go FileLinkAttachments = memverif), so the order matters: a link made before an
   update that is then refused would leave the stored record referencing the old avatar while the
   old avatar has lost its link and is garbage-collected after the grace period.

   What the handler reads from the other slices is the request environment [sreq_c16c]:
   - [sq_pre]: outcome of the checks in the `if set.Desc != nil` block (Trusted by non-root, direct
     change of a p2p topic, public / defacs by a non-owner of a group topic -> 403; assignAccess
     error -> 400);
   - [sq_core]: Some v iff assignAccess / assignGenericValues put at least one entry into `core`
     (v: the value topics.public / users.public gets);
   - [sq_sub]: Some v iff Private changed (v: the new value);
   - [sq_urls]: msg.Extra.Attachments ([] when Extra is nil).
   The theorems of Props/PropC16.v quantify over all of them. *)
From Coq Require Import NArith ZArith List Bool.
From Tinode Require Import Pure.Url Sys.Files.
Import ListNotations.

Inductive cat_c16c := CatMeC16c | CatFndC16c | CatP2PC16c | CatGrpC16c.

Inductive pre_c16c := PreOkC16c | PreDeniedC16c | PreMalformedC16c.

(* the adapter calls of the request, as memverif's call log names them *)
Inductive dcall_c16c := DUserUpdateC16c | DTopicUpdateC16c | DSubsUpdateC16c | DFileLinkC16c.

(* the adapter call returns an error for a reason outside the slice *)
Record desc_faults_c16c := { df_core : bool; df_subs : bool; df_link : bool }.

Definition no_desc_faults_c16c : desc_faults_c16c := {| df_core := false; df_subs := false; df_link := false |}.

Record sreq_c16c := {
  sq_pre : pre_c16c;
  sq_core : option N;
  sq_sub : option N;
  sq_urls : list (list N)
}.

Record dstate_c16c := {
  dd_fs : state;                          (* uploads, link rows, topics, users, bytes (Sys/Files.v) *)
  dd_public : list (target * N);          (* topics.public / users.public by owner object *)
  dd_private : list ((N * N) * N);        (* subscriptions.private by (topic, user) *)
  dd_calls : list (dcall_c16c * bool)     (* ghost: adapter calls made, NEWEST FIRST; true = made to fail by the plan *)
}.

Inductive set_outcome_c16c :=
| SetDeniedC16c        (* 403 *)
| SetMalformedC16c     (* 400 *)
| SetNotModifiedC16c   (* 304: `{set} generated no update to DB` *)
| SetFailedC16c        (* 500: the core or the subscription update failed *)
| SetOkC16c.           (* 200 *)

Definition code_of_c16c (o : set_outcome_c16c) : Z :=
  match o with
  | SetDeniedC16c => 403 | SetMalformedC16c => 400 | SetNotModifiedC16c => 304
  | SetFailedC16c => 500 | SetOkC16c => 200
  end%Z.

Definition dlog_c16c (s : dstate_c16c) (c : dcall_c16c) (fault : bool) : dstate_c16c :=
  {| dd_fs := dd_fs s; dd_public := dd_public s; dd_private := dd_private s;
     dd_calls := (c, fault) :: dd_calls s |}.

Definition set_assoc_c16c {K : Type} (eqb : K -> K -> bool) (k : K) (v : N) (l : list (K * N)) : list (K * N) :=
  map (fun p => if eqb (fst p) k then (fst p, v) else p) l.

(* adp.UserUpdate(uid, core) / adp.TopicUpdate(name, core): UPDATE ... WHERE id / name = ?  (no row: no
   error).  A call that returns an error changes nothing but the log. *)
Definition core_update_c16c (fault : bool) (s0 : dstate_c16c) (c : dcall_c16c) (tg : target) (v : N)
    : dstate_c16c * bool :=
  let s := dlog_c16c s0 c fault in
  if fault then (s, true)
  else ({| dd_fs := dd_fs s; dd_public := set_assoc_c16c target_eqb tg v (dd_public s);
           dd_private := dd_private s; dd_calls := dd_calls s |}, false).

Definition pair_eqb_c16c (a b : N * N) : bool := (fst a =? fst b)%N && (snd a =? snd b)%N.

(* adp.SubsUpdate(topic, uid, {Private}) *)
Definition subs_update_c16c (fault : bool) (s0 : dstate_c16c) (topic uid v : N) : dstate_c16c * bool :=
  let s := dlog_c16c s0 DSubsUpdateC16c fault in
  if fault then (s, true)
  else ({| dd_fs := dd_fs s; dd_public := dd_public s;
           dd_private := set_assoc_c16c pair_eqb_c16c (topic, uid) v (dd_private s);
           dd_calls := dd_calls s |}, false).

(* adp.FileLinkAttachments(topic | "", userId | 0, 0, fids): one transaction - the earlier links of
   the owner object go, the first id is linked; a missing record or owner object rolls everything
   back ([link_single]).  The error is not used by the caller. *)
Definition file_link_owner_c16c (fault : bool) (s0 : dstate_c16c) (tg : target) (fids : list N) : dstate_c16c :=
  let s := dlog_c16c s0 DFileLinkC16c fault in
  if fault then s
  else {| dd_fs := link_single (dd_fs s) tg fids; dd_public := dd_public s; dd_private := dd_private s;
          dd_calls := dd_calls s |}.

(* the owner object fileMapper.LinkAttachments(t.name, ZeroUid, ...) links to:
   `if types.GetTopicCat(topic) == types.TopicCatMe { userId = ParseUserId(topic); topic = "" }`;
   the name of a 'me' topic is the user id of its owner, every other topic is linked by name *)
Definition owner_target_c16c (cat : cat_c16c) (tname as_uid : N) : target :=
  match cat with
  | CatMeC16c => TUser as_uid
  | _ => TTopic tname
  end.

(* store.Files.LinkAttachments(t.name, types.ZeroUid, attachments) *)
Definition link_attachments_c16c (fault : bool) (handler : bool) (serve : list N) (s : dstate_c16c)
    (tg : target) (urls : list (list N)) : dstate_c16c :=
  (* if mediaHandler == nil { return nil } *)
  if negb handler then s
  else
    (* for _, url := range attachments { if fid := GetIdFromUrl(url); !fid.IsZero() { append } } *)
    let fids := resolve serve urls in
    (* if len(fids) > 0 { return adp.FileLinkAttachments(...) }; return nil *)
    if negb (length fids =? 0)%nat then file_link_owner_c16c fault s tg fids
    else s.

(* len(core)+len(sub) > 0 *)
Definition is_modified_c16c (rq : sreq_c16c) : bool :=
  match sq_core rq, sq_sub rq with None, None => false | _, _ => true end.

(* if len(core) > 0 { switch t.cat { case Me: err = store.Users.Update(asUid, core); case Fnd: nothing;
   default: err = store.Topics.Update(t.name, core) } } *)
Definition core_step_c16c (fault : bool) (s : dstate_c16c) (cat : cat_c16c) (tname as_uid : N)
    (core : option N) : dstate_c16c * bool :=
  match core with
  | Some v =>
    match cat with
    | CatMeC16c => core_update_c16c fault s DUserUpdateC16c (TUser as_uid) v
    | CatFndC16c => (s, false)
    | _ => core_update_c16c fault s DTopicUpdateC16c (TTopic tname) v
    end
  | None => (s, false)
  end.

(* if err == nil && len(sub) > 0 { err = store.Subs.Update(tname, asUid, sub) } *)
Definition subs_step_c16c (fault : bool) (r1 : dstate_c16c * bool) (tname as_uid : N) (sub : option N)
    : dstate_c16c * bool :=
  if negb (snd r1) then
    match sub with
    | Some v => subs_update_c16c fault (fst r1) tname as_uid v
    | None => (fst r1, false)
    end
  else r1.

(* if len(core) > 0 && msg.Extra != nil && len(msg.Extra.Attachments) > 0 { LinkAttachments; error ignored } *)
Definition link_step_c16c (fault : bool) (handler : bool) (serve : list N) (s : dstate_c16c)
    (cat : cat_c16c) (tname as_uid : N) (core : option N) (urls : list (list N)) : dstate_c16c :=
  match core with
  | Some _ =>
    if negb (length urls =? 0)%nat
    then link_attachments_c16c fault handler serve s (owner_target_c16c cat tname as_uid) urls
    else s
  | None => s
  end.

(* Topic.replySetDesc(sess, asUid, asChan, authLevel, msg).
   [tname]: t.name as a token ('me': the topic of user [as_uid]). *)
Definition set_desc_c16c (ft : desc_faults_c16c) (handler : bool) (serve : list N)
    (s : dstate_c16c) (cat : cat_c16c) (tname as_uid : N) (rq : sreq_c16c)
    : dstate_c16c * set_outcome_c16c :=
  (* if set := msg.Set; set.Desc != nil { ... 403 / 400 ... } *)
  match sq_pre rq with
  | PreDeniedC16c => (s, SetDeniedC16c)
  | PreMalformedC16c => (s, SetMalformedC16c)
  | PreOkC16c =>
    (* if len(core)+len(sub) == 0 { 304 } *)
    if negb (is_modified_c16c rq) then (s, SetNotModifiedC16c)
    else
      let r1 := core_step_c16c (df_core ft) s cat tname as_uid (sq_core rq) in
      let r2 := subs_step_c16c (df_subs ft) r1 tname as_uid (sq_sub rq) in
      (* if err != nil { sess.queueOut(ErrUnknownReply); return err } *)
      if snd r2 then (fst r2, SetFailedC16c)
      else (link_step_c16c (df_link ft) handler serve (fst r2) cat tname as_uid (sq_core rq) (sq_urls rq), SetOkC16c)
  end.

(* replySetDesc AS IT WOULD BE with the link made before the store updates (kept to be refuted in
   Props/PropC16.v: a refused request then has an effect on the link table) *)
Definition set_desc_link_first_c16c (ft : desc_faults_c16c) (handler : bool) (serve : list N)
    (s : dstate_c16c) (cat : cat_c16c) (tname as_uid : N) (rq : sreq_c16c)
    : dstate_c16c * set_outcome_c16c :=
  match sq_pre rq with
  | PreDeniedC16c => (s, SetDeniedC16c)
  | PreMalformedC16c => (s, SetMalformedC16c)
  | PreOkC16c =>
    if negb (is_modified_c16c rq) then (s, SetNotModifiedC16c)
    else
      let s0 := link_step_c16c (df_link ft) handler serve s cat tname as_uid (sq_core rq) (sq_urls rq) in
      let r1 := core_step_c16c (df_core ft) s0 cat tname as_uid (sq_core rq) in
      let r2 := subs_step_c16c (df_subs ft) r1 tname as_uid (sq_sub rq) in
      if snd r2 then (fst r2, SetFailedC16c) else (fst r2, SetOkC16c)
  end.

(* vocabulary of the theorems *)
Definition with_dfs_c16c (s : dstate_c16c) (f : state) : dstate_c16c :=
  {| dd_fs := f; dd_public := dd_public s; dd_private := dd_private s; dd_calls := dd_calls s |}.

Definition links_of_c16c (tg : target) (ls : list (N * target)) : list (N * target) :=
  filter (fun l => target_eqb (snd l) tg) ls.
