(* C16  The download endpoint largeFileServe (server/hdl_files.go:33-160) with EVERY request field
   the upload endpoint's model has (Sys/Files.v, [ureq]): API key at header / query / form / cookie,
   credentials at X-Tinode-Auth / Authorization / query / form / cookie, a session id in the query or
   the form, and the `topic` parameter in the query or the form (the parameter whose value "newacc"
   exempts an UPLOAD from the credential check).  Definitions only (lemmas: Sys/FilesServeC16cProofs.v).

   net/http: Request.FormValue parses a multipart/form-data body for EVERY method ("multipart/form-data
   form body (always)", request.go), so a GET or HEAD that carries such a body has form fields;
   query parameters take precedence over them.  largeFileServe wraps no MaxBytesReader: there is no
   size limit on this side.

   largeFileServe never reads the `topic` parameter: the fields [dq_topic_query] / [dq_topic_form]
   are part of the request and NOT of the decision - that is the statement of
   c16_download_needs_credentials / c16_download_ignores_topic in Props/PropC16.v. *)
From Coq Require Import NArith ZArith List Bool.
From Tinode Require Import Pure.Url Sys.Files.
Import ListNotations.

Record dreq_c16c := {
  dq_meth : meth;
  dq_key_hdr : option key_kind; dq_key_query : option key_kind;
  dq_key_form : option key_kind; dq_key_cookie : option key_kind;
  dq_cred_xauth : option cred_kind; dq_cred_authz : option cred_kind; dq_cred_query : option cred_kind;
  dq_cred_form : option cred_kind; dq_cred_cookie : option cred_kind;
  dq_sid_query : option N; dq_sid_form : option N;
  dq_topic_query : option bool; dq_topic_form : option bool;   (* Some true: topic=newacc *)
  dq_body_form : bool;                      (* the request carries a well-formed multipart/form-data body *)
  dq_handler : bool;                        (* a media handler is configured *)
  dq_hdr : hdr_outcome;
  dq_found : bool                           (* Download(url) finds a completed record and its bytes *)
}.

(* a form field is seen iff the body is a multipart form (any method) *)
Definition dq_vis_c16c {A : Type} (r : dreq_c16c) (x : option A) : option A :=
  if dq_body_form r then x else None.

(* getAPIKey: header, query, FormValue, cookie *)
Definition dq_keys_c16c (r : dreq_c16c) : list (option key_kind) :=
  [dq_key_hdr r; dq_key_query r; dq_vis_c16c r (dq_key_form r); dq_key_cookie r].

(* getHttpAuth: X-Tinode-Auth, Authorization, query, FormValue, cookie *)
Definition dq_creds_c16c (r : dreq_c16c) : list (option cred_kind) :=
  [dq_cred_xauth r; dq_cred_authz r; dq_cred_query r; dq_vis_c16c r (dq_cred_form r); dq_cred_cookie r].

(* req.FormValue("sid"): the query first, then the multipart body *)
Definition dq_sid_c16c (r : dreq_c16c) : option N :=
  match dq_sid_query r with Some u => Some u | None => dq_vis_c16c r (dq_sid_form r) end.

(* what req.FormValue("topic") == "newacc" WOULD be; the upload handler reads it, this handler does not *)
Definition dq_newacc_c16c (r : dreq_c16c) : bool :=
  match dq_topic_query r with
  | Some b => b
  | None => match dq_vis_c16c r (dq_topic_form r) with Some b => b | None => false end
  end.

(* largeFileServe, in the code's order *)
Definition serve_gate_c16c (r : dreq_c16c) : outcome :=
  match dq_meth r with
  (* if req.Method == http.MethodOptions { mh.Headers(req, true) ... return } *)
  | MOptions => preflight (dq_handler r) (dq_hdr r)
  (* if req.Method != GET && req.Method != HEAD { 405 } *)
  | MGet | MHead =>
    (* if isValid, _ := checkAPIKey(getAPIKey(req)); !isValid { 403 } *)
    if negb (key_check (dq_keys_c16c r)) then Reply 403 ENone
    else
      (* uid, challenge, err := authHttpRequest(req) *)
      match auth_of (dq_creds_c16c r) (dq_sid_c16c r) with
      | AuthErr c => Reply c ENone
      | AuthChallenge => Reply 300 ENone
      | AuthUid u =>
        (* if uid.IsZero() { 401 }   - no condition on any other field of the request *)
        if (u =? 0)%N then Reply 401 ENone
        else if negb (dq_handler r) then Crash ENone
        else match dq_hdr r with
             | HdrErr c => Reply c ENone
             | HdrStatus c =>
               if negb (c =? 0)%Z then Reply c ENone
               else match dq_meth r with
                    | MHead => Reply 200 ENone
                    | _ => if dq_found r then Reply 200 EServed else Reply 404 ENone
                    end
             end
      end
  | _ => Reply 405 ENone
  end.

(* the request as the gate of Sys/Files.v sees it *)
Definition sreq_of_c16c (r : dreq_c16c) : sreq :=
  {| s_meth := dq_meth r; s_keys := dq_keys_c16c r; s_creds := dq_creds_c16c r; s_sid := dq_sid_c16c r;
     s_handler := dq_handler r; s_hdr := dq_hdr r; s_found := dq_found r |}.

Definition dq_with_found_c16c (r : dreq_c16c) (found : bool) : dreq_c16c :=
  {| dq_meth := dq_meth r;
     dq_key_hdr := dq_key_hdr r; dq_key_query := dq_key_query r; dq_key_form := dq_key_form r; dq_key_cookie := dq_key_cookie r;
     dq_cred_xauth := dq_cred_xauth r; dq_cred_authz := dq_cred_authz r; dq_cred_query := dq_cred_query r;
     dq_cred_form := dq_cred_form r; dq_cred_cookie := dq_cred_cookie r;
     dq_sid_query := dq_sid_query r; dq_sid_form := dq_sid_form r;
     dq_topic_query := dq_topic_query r; dq_topic_form := dq_topic_form r;
     dq_body_form := dq_body_form r; dq_handler := dq_handler r; dq_hdr := dq_hdr r; dq_found := found |}.

(* the same request with another `topic` parameter *)
Definition dq_with_topic_c16c (r : dreq_c16c) (tq tf : option bool) : dreq_c16c :=
  {| dq_meth := dq_meth r;
     dq_key_hdr := dq_key_hdr r; dq_key_query := dq_key_query r; dq_key_form := dq_key_form r; dq_key_cookie := dq_key_cookie r;
     dq_cred_xauth := dq_cred_xauth r; dq_cred_authz := dq_cred_authz r; dq_cred_query := dq_cred_query r;
     dq_cred_form := dq_cred_form r; dq_cred_cookie := dq_cred_cookie r;
     dq_sid_query := dq_sid_query r; dq_sid_form := dq_sid_form r;
     dq_topic_query := tq; dq_topic_form := tf;
     dq_body_form := dq_body_form r; dq_handler := dq_handler r; dq_hdr := dq_hdr r; dq_found := dq_found r |}.

(* the whole download request against the store slice: [dq_found] is what Download finds for the URL;
   the second component is the record whose bytes are sent *)
Definition serve_request_c16c (s : state) (r : dreq_c16c) (serve url : list N) : outcome * option file :=
  let d := download s serve url in
  let o := serve_gate_c16c (dq_with_found_c16c r (match d with Some _ => true | None => false end)) in
  (o, match effect_of o with EServed => d | _ => None end).

(* the download gate AS IT WOULD BE with the sign-up exemption of the upload gate
   (`if uid.IsZero() && req.FormValue("topic") != "newacc"`): kept to be refuted in Props/PropC16.v *)
Definition serve_gate_exempt_c16c (r : dreq_c16c) : outcome :=
  match dq_meth r with
  | MOptions => preflight (dq_handler r) (dq_hdr r)
  | MGet | MHead =>
    if negb (key_check (dq_keys_c16c r)) then Reply 403 ENone
    else
      match auth_of (dq_creds_c16c r) (dq_sid_c16c r) with
      | AuthErr c => Reply c ENone
      | AuthChallenge => Reply 300 ENone
      | AuthUid u =>
        if (u =? 0)%N && negb (dq_newacc_c16c r) then Reply 401 ENone
        else if negb (dq_handler r) then Crash ENone
        else match dq_hdr r with
             | HdrErr c => Reply c ENone
             | HdrStatus c =>
               if negb (c =? 0)%Z then Reply c ENone
               else match dq_meth r with
                    | MHead => Reply 200 ENone
                    | _ => if dq_found r then Reply 200 EServed else Reply 404 ENone
                    end
             end
      end
  | _ => Reply 405 ENone
  end.
