(* C07 proofs, part 2: invariants of the group-topic model that hold under EVERY fault plan:
   the subscriber limit (live rows <= maxSubscriberCount, every live row cached, one row per
   user), attached sessions belong to cached subscribers, and - except at the request pattern
   of finding banned-user-attached - to subscribers whose grant has J. *)
From Coq Require Import ZArith NArith List Bool Lia.
From Tinode Require Import Base.Util Pure.Acs Sys.Topic Sys.TopicTac Sys.TopicFrame Sys.TopicMarks Sys.TopicAclC07 Sys.TopicAclC07Proofs.
Import ListNotations.
Open Scope Z_scope.

(* ---------- the skeleton of the subscription table: (user, deleted) ---------- *)
Definition skel (s : store) : list (N * bool) := map (fun r => (s_user r, s_deleted r)) (subs s).
Definition klive (k : list (N * bool)) : list (N * bool) := filter (fun e => negb (snd e)) k.
Definition set_flag (u : N) (b : bool) (k : list (N * bool)) : list (N * bool) :=
  map (fun e => if N.eqb (fst e) u then (fst e, b) else e) k.

Lemma rows_nodup_skel s : rows_nodup s <-> NoDup (map fst (skel s)).
Proof. unfold rows_nodup, skel. rewrite map_map. cbn. reflexivity. Qed.
Lemma live_count_skel s : live_count s = length (klive (skel s)).
Proof.
  unfold live_count, live_rows, klive, skel. induction (subs s) as [|r l IH]; cbn; [reflexivity|].
  destruct (negb (s_deleted r)); cbn; rewrite IH; reflexivity.
Qed.
Lemma live_cached_skel s c : live_cached s c <-> (forall u, In (u, false) (skel s) -> member c u = true).
Proof.
  unfold live_cached, skel. split.
  - intros H u HI. apply in_map_iff in HI. destruct HI as [r [E HI]]. inv E. apply H; auto.
  - intros H r HI D. apply H. apply in_map_iff. exists r. rewrite D. auto.
Qed.

Lemma set_flag_fst u b k : map fst (set_flag u b k) = map fst k.
Proof. unfold set_flag. rewrite map_map. apply map_ext. intros e. destruct (N.eqb (fst e) u); reflexivity. Qed.
Lemma set_flag_absent u b k : ~ In u (map fst k) -> set_flag u b k = k.
Proof.
  unfold set_flag. induction k as [|e k IH]; cbn; [reflexivity|]. intros H.
  destruct (N.eqb (fst e) u) eqn:E; [apply N.eqb_eq in E; exfalso; apply H; now left|].
  f_equal. apply IH. intros HI. apply H. now right.
Qed.
Lemma klive_set_true u k : (length (klive (set_flag u true k)) <= length (klive k))%nat.
Proof.
  unfold klive, set_flag. induction k as [|[v d] k IH]; cbn; [lia|].
  destruct (N.eqb v u); cbn; destruct d; cbn; lia.
Qed.
Lemma klive_set_false u k : NoDup (map fst k) -> (length (klive (set_flag u false k)) <= S (length (klive k)))%nat.
Proof.
  induction k as [|[v d] k IH]; [cbn; lia|]. intros ND. cbn [map fst] in ND. inversion ND as [|? ? NI ND']; subst.
  change (set_flag u false ((v, d) :: k)) with ((if N.eqb v u then (v, false) else (v, d)) :: set_flag u false k).
  destruct (N.eqb v u) eqn:E.
  - apply N.eqb_eq in E. subst v. rewrite (set_flag_absent u false k NI). unfold klive. destruct d; cbn; lia.
  - specialize (IH ND'). unfold klive in *. destruct d; cbn; lia.
Qed.
Lemma in_set_flag v u b k : In (v, false) (set_flag u b k) ->
  (v = u /\ b = false) \/ (v <> u /\ In (v, false) k).
Proof.
  unfold set_flag. intros HI. apply in_map_iff in HI. destruct HI as [[w d] [E HI]]. cbn in E.
  destruct (N.eqb w u) eqn:E2.
  - apply N.eqb_eq in E2. inv E. left. auto.
  - apply N.eqb_neq in E2. inv E. right. auto.
Qed.

Lemma nodup_map_filter {A B} (g : A -> B) (p : A -> bool) l : NoDup (map g l) -> NoDup (map g (filter p l)).
Proof.
  induction l as [|x l IH]; cbn; [auto|]. intros ND. inversion ND as [|? ? NI ND']; subst.
  destruct (p x); cbn; [|auto]. constructor; [|auto].
  intros HI. apply NI. apply in_map_iff in HI. destruct HI as [y [E HI]]. apply filter_In in HI.
  apply in_map_iff. exists y. tauto.
Qed.

Lemma member_in c u : member c u = true -> In u (map fst (c_users c)).
Proof.
  unfold member. destruct (alookup u (c_users c)) eqn:E; [|discriminate]. intros _.
  apply alookup_in in E. apply in_map_iff. exists (u, p). auto.
Qed.

(* live rows never outnumber the cached users *)
Lemma live_le_cached s c : rows_nodup s -> live_cached s c -> (live_count s <= length (c_users c))%nat.
Proof.
  intros ND LC. rewrite live_count_skel. rewrite <- (map_length fst (klive (skel s))), <- (map_length fst (c_users c)).
  apply NoDup_incl_length.
  - apply nodup_map_filter. apply rows_nodup_skel. exact ND.
  - intros u HI. apply in_map_iff in HI. destruct HI as [[v d] [E HI]]. cbn in E. subst v.
    apply filter_In in HI. destruct HI as [HI D]. cbn in D. destruct d; [discriminate|].
    apply member_in. apply (proj1 (live_cached_skel s c) LC). exact HI.
Qed.

(* ---------- skeleton through the store primitives ---------- *)
Lemma skel_update s u up : skel (ad_subs_update s u up) = skel s.
Proof.
  unfold ad_subs_update, skel. destruct (u =? 0)%N; cbn [subs st_subs]; unfold upd_sub; rewrite map_map; apply map_ext;
    intros r; try destruct (N.eqb (s_user r) u); reflexivity.
Qed.
Lemma skel_owner s u : skel (st_owner u s) = skel s. Proof. reflexivity. Qed.
Lemma find_sub_none_skel u s : find_sub u (subs s) = None -> ~ In u (map fst (skel s)).
Proof.
  unfold find_sub, skel. rewrite map_map. cbn. intros H HI. apply in_map_iff in HI. destruct HI as [r [E HI]].
  eapply find_none in H; [|exact HI]. cbn in H. rewrite E, N.eqb_refl in H. discriminate.
Qed.
Lemma skel_create s u w g :
  skel (ad_sub_create s u w g) =
  match find_sub u (subs s) with Some _ => set_flag u false (skel s) | None => skel s ++ [(u, false)] end.
Proof.
  unfold ad_sub_create.
  assert (forall s', skel (if is_owner (N.land w g) then st_owner u s' else s') = skel s') as Ho
    by (intros; destruct (is_owner _); reflexivity).
  rewrite Ho. destruct (find_sub u (subs s)); unfold skel; cbn [subs st_subs].
  - unfold upd_sub, set_flag. rewrite !map_map. apply map_ext. intros r. cbn.
    destruct (N.eqb (s_user r) u) eqn:E; [apply N.eqb_eq in E; subst|]; reflexivity.
  - rewrite map_app. reflexivity.
Qed.
Lemma skel_delete s u s' : ad_subs_delete s u = Some s' -> skel s' = set_flag u true (skel s).
Proof.
  unfold ad_subs_delete. destruct (ad_sub_get s u false); intros H; inv H.
  unfold skel. cbn [subs st_subs st_dellog]. unfold upd_sub, set_flag. rewrite !map_map. apply map_ext.
  intros r. cbn. destruct (N.eqb (s_user r) u); reflexivity.
Qed.
Lemma skel_msg_save s q a b s' : ad_msg_save s q a b = Some s' -> skel s' = skel s.
Proof. unfold ad_msg_save. destruct (existsb _ _); intros H; inv H. reflexivity. Qed.
Lemma skel_delete_list s d fu rs : skel (ad_msg_delete_list s d fu rs) = skel s.
Proof. unfold ad_msg_delete_list. destruct (fu =? 0)%N; reflexivity. Qed.

(* ---------- the limit invariant on (store, cache) ---------- *)
Definition lim0 (s : store) : Prop := rows_nodup s /\ Z.of_nat (live_count s) <= max_subs.
Definition lim (s : store) (c : cache) : Prop := lim0 s /\ live_cached s c.
Definition cmono (c c' : cache) : Prop := forall v, member c v = true -> member c' v = true.
Lemma cmono_refl c : cmono c c. Proof. intros v H; exact H. Qed.
Lemma cmono_trans a b c : cmono a b -> cmono b c -> cmono a c.
Proof. intros H1 H2 v H. auto. Qed.

Lemma lim_same s c s' c' : skel s' = skel s -> cmono c c' -> lim s c -> lim s' c'.
Proof.
  intros E M [[ND LE] LC]. split; [split|].
  - apply rows_nodup_skel. rewrite E. apply rows_nodup_skel. exact ND.
  - rewrite live_count_skel, E, <- live_count_skel. exact LE.
  - apply live_cached_skel. rewrite E. intros u HI. apply M. apply (proj1 (live_cached_skel s c) LC). exact HI.
Qed.

Lemma lim_create s c u w g c' :
  lim s c -> Z.of_nat (length (c_users c)) < max_subs -> cmono c c' -> member c' u = true ->
  lim (ad_sub_create s u w g) c'.
Proof.
  intros [[ND LE] LC] LT M MU.
  pose proof (live_le_cached s c ND LC) as LL.
  apply rows_nodup_skel in ND. rewrite live_count_skel in LL.
  split; [split|].
  - apply rows_nodup_skel. rewrite skel_create. destruct (find_sub u (subs s)) eqn:E.
    + rewrite set_flag_fst. exact ND.
    + rewrite map_app. cbn. apply NoDup_app_single; [exact ND|]. apply find_sub_none_skel. exact E.
  - rewrite live_count_skel, skel_create. destruct (find_sub u (subs s)).
    + pose proof (klive_set_false u (skel s) ND). lia.
    + unfold klive. rewrite filter_app, app_length. cbn. unfold klive in LL. lia.
  - apply live_cached_skel. rewrite skel_create. intros v HI. destruct (find_sub u (subs s)).
    + apply in_set_flag in HI. destruct HI as [[-> _]|[_ HI]]; [exact MU|].
      apply M. apply (proj1 (live_cached_skel s c) LC). exact HI.
    + apply in_app_or in HI. destruct HI as [HI|[HI|[]]]; [|inv HI; exact MU].
      apply M. apply (proj1 (live_cached_skel s c) LC). exact HI.
Qed.

(* eviction with unsub: the row is gone from the live set (deleted now, or was not live) *)
Lemma lim_delete s c u s' c' :
  lim s c -> (skel s' = set_flag u true (skel s) \/ (skel s' = skel s /\ ~ In (u, false) (skel s))) ->
  (forall v, v <> u -> member c v = true -> member c' v = true) ->
  lim s' c'.
Proof.
  intros [[ND LE] LC] HS M. apply rows_nodup_skel in ND. destruct HS as [E|[E NI]].
  - split; [split|].
    + apply rows_nodup_skel. rewrite E, set_flag_fst. exact ND.
    + rewrite live_count_skel, E. rewrite live_count_skel in LE. pose proof (klive_set_true u (skel s)). lia.
    + apply live_cached_skel. rewrite E. intros v HI. apply in_set_flag in HI.
      destruct HI as [[_ D]|[NE HI]]; [discriminate|]. apply M; [exact NE|].
      apply (proj1 (live_cached_skel s c) LC). exact HI.
  - split; [split|].
    + apply rows_nodup_skel. rewrite E. exact ND.
    + rewrite live_count_skel, E, <- live_count_skel. exact LE.
    + apply live_cached_skel. rewrite E. intros v HI. apply M.
      * intros ->. apply NI. exact HI.
      * apply (proj1 (live_cached_skel s c) LC). exact HI.
Qed.

(* ---------- members through the cache updates ---------- *)
Lemma cmono_aset c u p : cmono c (c_set_users (aset u p) c).
Proof. intros v H. rewrite member_aset, H. apply orb_true_r. Qed.
Lemma member_evict c u b k c' o v : evict_user c u b k = (c', o) ->
  member c' v = if N.eqb v u && b then false else member c v.
Proof.
  intros EV. unfold member. rewrite (evict_lookup _ _ _ _ _ _ v EV).
  destruct (N.eqb v u), b; cbn; try reflexivity. destruct (alookup v (c_users c)); reflexivity.
Qed.
Lemma cmono_evict_false c u k c' o : evict_user c u false k = (c', o) -> cmono c c'.
Proof. intros EV v H. rewrite (member_evict _ _ _ _ _ _ v EV), andb_false_r. exact H. Qed.
Lemma cmono_sess c f : cmono c (c_set_sess f c). Proof. intros v H; exact H. Qed.
Lemma cmono_owner c u : cmono c (c_set_owner u c). Proof. intros v H; exact H. Qed.
Lemma cmono_lastid c z : cmono c (c_set_lastid z c). Proof. intros v H; exact H. Qed.
Lemma cmono_delid c z : cmono c (c_set_delid z c). Proof. intros v H; exact H. Qed.
Lemma cmono_map_delid c d : cmono c (c_set_users (map (fun e => (fst e, p_set_delid d (snd e)))) c).
Proof.
  intros v. unfold member. cbn [c_users c_set_users]. rewrite alookup_map. destruct (alookup v (c_users c)); auto.
Qed.

Ltac cmono_solve :=
  first [ assumption | apply cmono_refl
        | eapply cmono_trans; [|first [apply cmono_aset | apply cmono_sess | apply cmono_owner | apply cmono_lastid
                                       | apply cmono_delid | apply cmono_map_delid | eapply cmono_evict_false; eassumption]];
          cmono_solve ].

(* ---------- thisUserSub / anotherUserSub keep the limit ---------- *)
Lemma tus_finish_mono u w1 g1 oldw oldg nb s3 c3 n3 :
  cmono c3 (h_ca (fst (tus_finish u w1 g1 oldw oldg nb s3 c3 n3))) /\
  h_st (fst (tus_finish u w1 g1 oldw oldg nb s3 c3 n3)) = s3.
Proof.
  unfold tus_finish. repeat break_match; cbn [fst h_ca h_st]; split; try reflexivity; cmono_solve.
Qed.

Lemma tus_lim f s c n u want nb :
  lim s c -> lim (h_st (fst (tus f s c n u want nb))) (h_ca (fst (tus f s c n u want nb))).
Proof.
  intros L. unfold tus. destruct (tus_mw want) as [mw okw]. destruct (negb okw); [exact L|].
  destruct (alookup u (c_users c)) as [p0|] eqn:Eu.
  - unfold tus_exist. destruct (tus_chk _ _ _ _ _) as [[[mw1 g1] oc]|]; [|exact L].
    destruct (if negb _ then call f n else (true, n)) as [ok1 n1]. destruct (negb ok1); [exact L|].
    set (s1 := if negb _ then ad_subs_update s u _ else s).
    assert (skel s1 = skel s) as E1 by (subst s1; destruct (negb _); [apply skel_update|reflexivity]).
    destruct oc.
    + destruct (call f n1) as [ok2 n2]. destruct (negb ok2); [apply (lim_same s c); [exact E1|apply cmono_refl|exact L]|].
      destruct (call f n2) as [ok3 n3].
      destruct (negb ok3); [apply (lim_same s c); [cbn [fst h_st]; rewrite skel_update; exact E1|apply cmono_refl|exact L]|].
      match goal with |- context [tus_finish ?a ?b ?cc ?d ?e ?ff ?s3 ?c3 ?n3] =>
        destruct (tus_finish_mono a b cc d e ff s3 c3 n3) as [M ->] end.
      apply (lim_same s c); [|eapply cmono_trans; [|exact M]|exact L].
      * rewrite skel_owner, skel_update. exact E1.
      * cmono_solve.
    + match goal with |- context [tus_finish ?a ?b ?cc ?d ?e ?ff ?s3 ?c3 ?n3] =>
        destruct (tus_finish_mono a b cc d e ff s3 c3 n3) as [M ->] end.
      apply (lim_same s c); [exact E1|exact M|exact L].
  - unfold tus_new. destruct (max_subs <=? Z.of_nat (length (c_users c))) eqn:EM; [exact L|].
    apply Z.leb_gt in EM.
    destruct (call f n) as [ok1 n1]. destruct (negb ok1); [exact L|].
    destruct (negb (is_joiner _)); [exact L|].
    destruct (match ad_sub_get s u true with Some r => s_deleted r | None => true end) eqn:NC.
    + destruct (call f n1) as [ok2 n2]. destruct (negb ok2); [exact L|].
      destruct (negb (is_joiner _)).
      * destruct (evict_user _ u false 0) as [c3 o3] eqn:EV. cbn [fst h_st h_ca].
        apply lim_create with (c := c); [exact L|exact EM|cmono_solve|].
        rewrite (member_evict _ _ _ _ _ _ u EV), andb_false_r, member_aset, N.eqb_refl. reflexivity.
      * cbn [fst h_st h_ca]. apply lim_create with (c := c); [exact L|exact EM|cmono_solve|].
        rewrite member_aset, N.eqb_refl. reflexivity.
    + cbn [negb]. destruct (negb (is_joiner _)).
      * destruct (evict_user _ u false 0) as [c3 o3] eqn:EV. cbn [fst h_st h_ca].
        apply (lim_same s c); [reflexivity|cmono_solve|exact L].
      * cbn [fst h_st h_ca]. apply (lim_same s c); [reflexivity|cmono_solve|exact L].
Qed.

Lemma aus_lim f s c n u t mode :
  lim s c -> lim (h_st (fst (aus f s c n u t mode))) (h_ca (fst (aus f s c n u t mode))).
Proof.
  intros L. unfold aus. destruct (alookup u (c_users c)); [|exact L].
  destruct (negb (is_sharer _)); [exact L|]. destruct (tus_mw mode) as [mg okg]. destruct (negb okg); [exact L|].
  destruct (_ && _); [exact L|]. destruct (_ && _); [exact L|].
  destruct (alookup t (c_users c)) as [pt|].
  - unfold aus_exist. destruct (_ || _).
    + destruct (negb _); [|exact L]. destruct (evict_user c t false 0) as [c4 o4] eqn:EV. cbn [fst h_st h_ca].
      apply (lim_same s c); [reflexivity|cmono_solve|exact L].
    + destruct (_ && _); [exact L|]. destruct (call f n) as [ok1 n1]. destruct (negb ok1); [exact L|].
      destruct (negb _).
      * destruct (evict_user _ t false 0) as [c4 o4] eqn:EV. cbn [fst h_st h_ca].
        apply (lim_same s c); [apply skel_update|cmono_solve|exact L].
      * cbn [fst h_st h_ca]. apply (lim_same s c); [apply skel_update|cmono_solve|exact L].
  - unfold aus_new. destruct (max_subs <=? Z.of_nat (length (c_users c))) eqn:EM; [exact L|].
    apply Z.leb_gt in EM.
    destruct (call f n) as [ok1 n1]. destruct (negb ok1); [exact L|].
    match goal with |- context [match ?w with (_, _) => _ end] => destruct w as [n2 [[code|wantm]|]] end; try exact L.
    destruct (negb (is_joiner wantm)); [exact L|].
    destruct (call f n2) as [ok3 n3]. destruct (negb ok3); [exact L|].
    destruct (negb (is_joiner _)).
    + destruct (evict_user _ t false 0) as [c4 o4] eqn:EV. cbn [fst h_st h_ca].
      apply lim_create with (c := c); [exact L|exact EM|cmono_solve|].
      rewrite (member_evict _ _ _ _ _ _ t EV), andb_false_r, member_aset, N.eqb_refl. reflexivity.
    + cbn [fst h_st h_ca]. apply lim_create with (c := c); [exact L|exact EM|cmono_solve|].
      rewrite member_aset, N.eqb_refl. reflexivity.
Qed.

(* ---------- requests that never add or remove a subscription ---------- *)
Definition hneutral (s : store) (c : cache) (h : hres) : Prop := skel (h_st h) = skel s /\ cmono c (h_ca h).
Lemma skel_seqid s z : skel (st_seqid z s) = skel s. Proof. reflexivity. Qed.
Lemma skel_delid s z : skel (st_delid z s) = skel s. Proof. reflexivity. Qed.
Ltac skel_solve :=
  repeat match goal with H : ad_msg_save _ _ _ _ = Some _ |- _ => apply skel_msg_save in H end;
  repeat first [rewrite skel_update | rewrite skel_owner | rewrite skel_seqid | rewrite skel_delid | rewrite skel_delete_list];
  first [reflexivity | assumption | congruence].
Ltac neutral_solve := cbn [h_st h_ca]; split; [skel_solve | cmono_solve].

Lemma publish_neutral f s c n sid u ct ne : hneutral s c (publish f s c n sid u ct ne).
Proof. unfold publish, hneutral. repeat break_match; neutral_solve. Qed.
Lemma note_neutral f s c n sid u what seq : hneutral s c (note f s c n sid u what seq).
Proof. unfold note, hneutral. repeat break_match; neutral_solve. Qed.
Lemma get_data_neutral f s c n sid u a b l : hneutral s c (get_data f s c n sid u a b l).
Proof. unfold get_data, hneutral. repeat break_match; neutral_solve. Qed.
Lemma get_desc_neutral s c n sid u : hneutral s c (get_desc s c n sid u).
Proof. unfold get_desc, hneutral. repeat break_match; neutral_solve. Qed.
Lemma get_sub_neutral f s c n sid u : hneutral s c (get_sub f s c n sid u).
Proof. unfold get_sub, hneutral. repeat break_match; neutral_solve. Qed.
Lemma get_del_neutral nr f s c n sid u a b l : hneutral s c (get_del nr f s c n sid u a b l).
Proof. unfold get_del, hneutral. repeat break_match; neutral_solve. Qed.
Lemma del_msg_neutral dr f s c n sid u req hard : hneutral s c (del_msg dr f s c n sid u req hard).
Proof. unfold del_msg, hneutral. repeat break_match; neutral_solve. Qed.

Lemma lim_neutral s c h : hneutral s c h -> lim s c -> lim (h_st h) (h_ca h).
Proof. intros [E M] L. apply (lim_same s c); auto. Qed.

(* unsubscription: the row leaves the live set together with the cache entry *)
Lemma sub_get_none_not_live s u : rows_nodup s -> ad_sub_get s u false = None -> ~ In (u, false) (skel s).
Proof.
  unfold ad_sub_get. intros ND H HI. unfold skel in HI. apply in_map_iff in HI. destruct HI as [r [E HI]].
  injection E as E1 H1. subst u.
  destruct (find_sub (s_user r) (subs s)) as [r'|] eqn:EF.
  - (* the first row of the user is the row itself: one row per user *)
    assert (r' = r) as ->.
    { pose proof (find_sub_in _ _ _ EF) as HI'. pose proof (find_sub_user _ _ _ EF) as EU.
      unfold rows_nodup in ND. clear EF H. induction (subs s) as [|x l IH]; [destruct HI|].
      cbn in ND. inversion ND as [|? ? NI ND']; subst.
      destruct HI as [->|HI], HI' as [->|HI']; auto.
      - exfalso. apply NI. rewrite <- EU. apply in_map. exact HI'.
      - exfalso. apply NI. rewrite EU. apply in_map. exact HI. }
    rewrite H1 in H. cbn in H. discriminate.
  - unfold find_sub in EF. eapply find_none in EF; [|exact HI]. cbn in EF. rewrite N.eqb_refl in EF. discriminate.
Qed.

Lemma del_sub_lim f s c n sid u t : lim s c -> lim (h_st (del_sub f s c n sid u t)) (h_ca (del_sub f s c n sid u t)).
Proof.
  intros L. unfold del_sub. destruct (negb _); [exact L|]. destruct (_ || _); [exact L|].
  destruct (alookup t (c_users c)); [|exact L]. destruct (is_owner _); [exact L|]. destruct (negb _); [exact L|].
  destruct (call f n) as [ok1 n1]. destruct (negb ok1); [exact L|].
  destruct (evict_user c t true 0) as [c1 o1] eqn:EV.
  assert (forall v, v <> t -> member c v = true -> member c1 v = true) as M.
  { intros v NE H. rewrite (member_evict _ _ _ _ _ _ v EV). apply N.eqb_neq in NE. rewrite NE. exact H. }
  destruct (ad_subs_delete s t) as [s'|] eqn:ED; cbn [h_st h_ca].
  - apply (lim_delete s c t); [exact L|left; apply skel_delete; exact ED|exact M].
  - apply (lim_delete s c t); [exact L| |exact M]. right. split; [reflexivity|].
    apply sub_get_none_not_live; [apply L|]. unfold ad_subs_delete in ED. destruct (ad_sub_get s t false); [discriminate|reflexivity].
Qed.

Lemma leave_unsub_lim f s c n sid u : lim s c -> lim (h_st (leave_unsub f s c n sid u)) (h_ca (leave_unsub f s c n sid u)).
Proof.
  intros L. unfold leave_unsub. destruct (N.eqb _ _); [exact L|].
  destruct (call f n) as [ok1 n1]. destruct (negb ok1); [exact L|].
  destruct (ad_subs_delete s u) as [s'|] eqn:ED; [|exact L].
  destruct (evict_user c u true sid) as [c1 o1] eqn:EV. cbn [h_st h_ca].
  apply (lim_delete s c u); [exact L|left; apply skel_delete; exact ED|].
  intros v NE H. rewrite (member_evict _ _ _ _ _ _ v EV). apply N.eqb_neq in NE. rewrite NE. exact H.
Qed.

Lemma leave_mono c sid u : cmono c (fst (leave c sid u)).
Proof. unfold leave. repeat break_match; cbn [fst]; cmono_solve. Qed.

Lemma sub_reply_lim f s c n sid u want bkg :
  lim s c -> lim (h_st (sub_reply f s c n sid u want bkg)) (h_ca (sub_reply f s c n sid u want bkg)).
Proof.
  intros L. unfold sub_reply. rewrite tus_eq.
  match goal with |- context [tus f s c n u want ?nb] => pose proof (tus_lim f s c n u want nb L) as T;
    destruct (tus f s c n u want nb) as [h r] end.
  cbn [fst] in T. destruct r as [code|ch]; cbn [h_st h_ca]; [exact T|].
  apply (lim_same (h_st h) (h_ca h)); [reflexivity| |exact T].
  repeat break_match; cmono_solve.
Qed.

Lemma set_sub_lim f s c n sid u t mode :
  lim s c -> lim (h_st (set_sub f s c n sid u t mode)) (h_ca (set_sub f s c n sid u t mode)).
Proof.
  intros L. pose proof (set_sub_res f s c n sid u t mode) as R. cbv zeta in R.
  destruct (_ || _); destruct R as [-> ->]; [apply tus_lim|apply aus_lim]; exact L.
Qed.

Lemma skel_offline_set_sub f s sid u t mode : skel (o_st (offline_set_sub f s sid u t mode)) = skel s.
Proof. unfold offline_set_sub. repeat break_match; cbn [o_st]; try reflexivity. apply skel_update. Qed.

(* loadSubscribers caches every live row *)
Lemma load_users_member rows : forall acc u,
  (member (mkCache 0 0 0 0 0 acc []) u = true \/ In (u, false) (map (fun r => (s_user r, s_deleted r)) rows)) ->
  member (mkCache 0 0 0 0 0 (fold_left (fun acc r =>
    if s_deleted r then acc
    else aset (s_user r) (mkPud (s_want r) (s_given r) (s_read r) (s_recv r) (s_delid r) 0) acc) rows acc) []) u = true.
Proof.
  induction rows as [|r rows IH]; intros acc u H; cbn.
  - destruct H as [H|[]]. exact H.
  - apply IH. destruct H as [H|[H|H]].
    + left. destruct (s_deleted r); [exact H|]. unfold member in *. cbn [c_users] in *. rewrite alookup_aset.
      destruct (N.eqb u (s_user r)); [reflexivity|exact H].
    + inv H. left. rewrite H2. unfold member. cbn [c_users]. rewrite alookup_aset, N.eqb_refl. reflexivity.
    + right. exact H.
Qed.
Lemma load_live_cached s : live_cached s (load s).
Proof.
  apply live_cached_skel. intros u HI. unfold load, load_users.
  pose proof (load_users_member (subs s) [] u (or_intror HI)) as H. unfold member in *. cbn [c_users] in *. exact H.
Qed.
Lemma lim_load s : lim0 s -> lim s (load s).
Proof. intros L. split; [exact L|apply load_live_cached]. Qed.

Section LimitInv.
Variable dr : Z -> list (Z * Z) -> option (list (Z * Z)).
Variable nr : list (Z * Z) -> list (Z * Z).
Variable sm : sessmap.

Definition inv_lim (x : state) : Prop :=
  lim0 (st x) /\ match ca x with Some c => live_cached (st x) c | None => True end.

Lemma inv_lim_of_lim s c n : lim s c -> inv_lim (mkState s (Some c) n).
Proof. intros [L0 LC]. split; assumption. Qed.
Lemma inv_lim_unloaded s n : lim0 s -> inv_lim (mkState s None n).
Proof. intros L. split; [exact L|exact I]. Qed.

Lemma step_inv_lim f x o : inv_lim x -> inv_lim (fst (step dr nr sm f x o)).
Proof.
  intros [L0 LC]. unfold step.
  assert (forall n, inv_lim (mkState (st x) (ca x) n)) as KEEP by (intros; split; assumption).
  assert (forall c h, ca x = Some c -> hneutral (st x) c h -> inv_lim (mkState (h_st h) (Some (h_ca h)) (h_n h))) as NEU.
  { intros c h E HN. apply inv_lim_of_lim. apply (lim_neutral (st x) c); [exact HN|]. rewrite E in LC. split; assumption. }
  destruct o; cbn [fst].
  - (* sub *)
    destruct (ca x) as [c|] eqn:EC.
    + destruct (attached c sid); cbn [fst]; [apply KEEP|].
      apply inv_lim_of_lim. apply sub_reply_lim. split; assumption.
    + destruct (try_load f (st x) 0) as [n1 [c|code]] eqn:ET; cbn [fst].
      * unfold try_load in ET. repeat break_match_hyp; inv ET.
        apply inv_lim_of_lim. apply sub_reply_lim. apply lim_load. exact L0.
      * apply inv_lim_unloaded. exact L0.
  - (* leave *)
    destruct (ca x) as [c|] eqn:EC; [|cbn [negb]; apply KEEP].
    destruct (attached c sid); cbn [negb]; [|apply KEEP].
    destruct unsub; cbn [fst].
    + apply inv_lim_of_lim. apply leave_unsub_lim. split; assumption.
    + destruct (leave c sid _) as [c1 o1] eqn:EL. cbn [fst h_st h_ca h_n]. apply inv_lim_of_lim.
      apply (lim_same (st x) c); [reflexivity| |split; assumption].
      match goal with H : leave c sid ?a = _ |- _ => pose proof (leave_mono c sid a) as M; rewrite H in M end. exact M.
  - destruct (ca x) as [c|] eqn:EC; [|cbn [negb]; apply KEEP].
    destruct (attached c sid); cbn [negb fst]; [|apply KEEP].
    apply (NEU c); [reflexivity|apply publish_neutral].
  - destruct (ca x) as [c|] eqn:EC.
    + destruct (attached c sid); cbn [negb]; repeat break_match; cbn [fst]; try (apply KEEP);
        apply (NEU c); try reflexivity; apply note_neutral.
    + cbn [negb]. repeat break_match; cbn [fst]; apply KEEP.
  - destruct (ca x) as [c|] eqn:EC; [|cbn [negb]; apply KEEP].
    destruct (attached c sid); cbn [negb fst]; [|apply KEEP].
    apply (NEU c); [reflexivity|apply get_data_neutral].
  - assert (forall n, inv_lim (mkState (o_st (offline_get_desc f (st x) sid (sess_uid sm sid))) (ca x) n)) as OFF
      by (intros; rewrite offline_get_desc_frame; apply KEEP).
    destruct (ca x) as [c|] eqn:EC; [|cbn [negb fst]; apply OFF].
    destruct (attached c sid); cbn [negb fst]; [|apply OFF].
    apply (NEU c); [reflexivity|apply get_desc_neutral].
  - assert (forall n, inv_lim (mkState (o_st (offline_get_sub f (st x) sid (sess_uid sm sid))) (ca x) n)) as OFF
      by (intros; rewrite offline_get_sub_frame; apply KEEP).
    destruct (ca x) as [c|] eqn:EC; [|cbn [negb fst]; apply OFF].
    destruct (attached c sid); cbn [negb fst]; [|apply OFF].
    apply (NEU c); [reflexivity|apply get_sub_neutral].
  - destruct (ca x) as [c|] eqn:EC; [|cbn [negb]; apply KEEP].
    destruct (attached c sid); cbn [negb fst]; [|apply KEEP].
    apply (NEU c); [reflexivity|apply get_del_neutral].
  - destruct (ca x) as [c|] eqn:EC; [|cbn [negb]; apply KEEP].
    destruct (attached c sid); cbn [negb fst]; [|apply KEEP].
    apply (NEU c); [reflexivity|apply del_msg_neutral].
  - (* set sub *)
    assert (forall n, inv_lim (mkState (o_st (offline_set_sub f (st x) sid (sess_uid sm sid) target mode)) (ca x) n)) as OFF.
    { intros n. pose proof (skel_offline_set_sub f (st x) sid (sess_uid sm sid) target mode) as E.
      destruct L0 as [ND LE]. split; [split|]; cbn [st ca].
      - apply rows_nodup_skel. rewrite E. apply rows_nodup_skel. exact ND.
      - rewrite live_count_skel, E, <- live_count_skel. exact LE.
      - destruct (ca x) as [c|]; [|exact I]. apply live_cached_skel. rewrite E. apply live_cached_skel. exact LC. }
    destruct (ca x) as [c|] eqn:EC; [|cbn [negb fst]; apply OFF].
    destruct (attached c sid); cbn [negb fst]; [|apply OFF].
    apply inv_lim_of_lim. apply set_sub_lim. split; assumption.
  - destruct (ca x) as [c|] eqn:EC; [|cbn [negb]; apply KEEP].
    destruct (attached c sid); cbn [negb fst]; [|apply KEEP].
    apply inv_lim_of_lim. apply del_sub_lim. split; assumption.
  - destruct (ca x) as [c|] eqn:EC.
    + destruct (c_sess c); cbn [fst]; [apply inv_lim_unloaded; exact L0|apply KEEP].
    + cbn [fst]. apply KEEP.
  - apply inv_lim_unloaded. exact L0.
Qed.

Lemma step_f_inv_lim x fo : inv_lim x -> inv_lim (fst (step_f dr nr sm x fo)).
Proof.
  intros H. unfold step_f. pose proof (step_inv_lim (fst fo) x (snd fo) H) as S.
  destruct (step dr nr sm (fst fo) x (snd fo)) as [x1 o1]. cbn [fst] in S.
  destruct (fst fo); cbn [fst]; try exact S. apply inv_lim_unloaded. apply S.
Qed.

Lemma run_inv_lim h : forall x, inv_lim x -> inv_lim (fst (run dr nr sm x h)).
Proof.
  induction h as [|fo h IH]; intros x H; cbn; [exact H|].
  pose proof (step_f_inv_lim x fo H) as S. destruct (step_f dr nr sm x fo) as [x1 o1]. cbn [fst] in S.
  specialize (IH x1 S). destruct (run dr nr sm x1 h) as [x2 os]. exact IH.
Qed.
End LimitInv.
