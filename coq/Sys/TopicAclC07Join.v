(* C07 proofs, part 3: attached sessions.  Every attached session belongs to a cached
   subscriber (every fault plan, every request), and that subscriber's grant has J unless
   the request is the pattern of finding banned-user-attached (stale_ban_sub). *)
From Coq Require Import ZArith NArith List Bool Lia.
From Tinode Require Import Base.Util Pure.Acs Sys.Topic Sys.TopicTac Sys.TopicFrame Sys.TopicMarks Sys.TopicAclC07 Sys.TopicAclC07Proofs Sys.TopicAclC07Inv.
Import ListNotations.
Open Scope Z_scope.

(* ---------- mode bits ---------- *)
Lemma has_pow2 m k : has m (2 ^ k)%N = N.testbit m k.
Proof.
  unfold has. destruct (N.testbit m k) eqn:E.
  - apply negb_true_iff. apply N.eqb_neq. intros H.
    assert (N.testbit (N.land m (2 ^ k)) k = false) as T by (rewrite H; apply N.bits_0).
    rewrite N.land_spec, E, N.pow2_bits_true in T. discriminate.
  - apply negb_false_iff. apply N.eqb_eq. apply N.bits_inj. intros i.
    rewrite N.land_spec, N.pow2_bits_eqb, N.bits_0.
    destruct (N.eqb k i) eqn:E2; [apply N.eqb_eq in E2; subst; rewrite E; reflexivity|apply andb_false_r].
Qed.
Lemma is_joiner_bit m : is_joiner m = N.testbit m 0.
Proof. unfold is_joiner. change mJ with (2 ^ 0)%N. apply has_pow2. Qed.
Lemma is_owner_bit m : is_owner m = N.testbit m 7.
Proof. unfold is_owner. change mO with (2 ^ 7)%N. apply has_pow2. Qed.
Lemma is_joiner_lor a b : is_joiner a = true -> is_joiner (N.lor a b) = true.
Proof. rewrite !is_joiner_bit, N.lor_spec. intros ->. reflexivity. Qed.
Lemma is_joiner_strip a : is_joiner (N.ldiff a mO) = is_joiner a.
Proof. rewrite !is_joiner_bit, N.ldiff_spec. change mO with (2 ^ 7)%N. rewrite N.pow2_bits_eqb. cbn. apply andb_true_r. Qed.
Lemma is_joiner_land a b : is_joiner (N.land a b) = true -> is_joiner a = true.
Proof. rewrite !is_joiner_bit, N.land_spec. intros H. apply andb_prop in H. apply H. Qed.

(* ---------- preservation schemes ---------- *)
Definition jfwd (c c' : cache) : Prop :=
  forall v p, alookup v (c_users c) = Some p ->
    (exists p', alookup v (c_users c') = Some p' /\ (is_joiner (p_given p) = true -> is_joiner (p_given p') = true))
    \/ no_sess c' v.

Lemma sm_pres c c' : sess_members c -> incl (c_sess c') (c_sess c) -> jfwd c c' -> sess_members c'.
Proof.
  intros SM I F sid u b HI. pose proof (SM sid u b (I _ HI)) as M. unfold member in *.
  destruct (alookup u (c_users c)) as [p|] eqn:E; [|discriminate].
  destruct (F u p E) as [[p' [E' _]]|NS]; [rewrite E'; reflexivity|exfalso; eapply NS; exact HI].
Qed.
Lemma aj_pres c c' : attached_joiners c -> incl (c_sess c') (c_sess c) -> jfwd c c' -> attached_joiners c'.
Proof.
  intros AJ I F sid u b HI. destruct (AJ sid u b (I _ HI)) as [p [E J]].
  destruct (F u p E) as [[p' [E' J']]|NS]; [exists p'; auto|exfalso; eapply NS; exact HI].
Qed.
Lemma aj_members c : attached_joiners c -> sess_members c.
Proof. intros AJ sid u b HI. destruct (AJ sid u b HI) as [p [E _]]. unfold member. rewrite E. reflexivity. Qed.

Lemma jfwd_refl c : jfwd c c.
Proof. intros v p E. left. exists p. auto. Qed.
Lemma jfwd_of_shrink c c' : cacl_shrink c c' -> jfwd c c'.
Proof.
  intros [_ H] v p E. destruct (H v) as [[G _]|[_ [_ NS]]]; [left|right; exact NS].
  unfold cgiven in G. rewrite E in G. cbn in G. destruct (alookup v (c_users c')) as [p'|]; [|discriminate].
  exists p'. split; [reflexivity|]. cbn in G. inv G. rewrite H1. auto.
Qed.

(* point-wise description of the cache after thisUserSub *)
Lemma jfwd_given c c' :
  (forall v g, cgiven c v = Some g -> exists g', cgiven c' v = Some g' /\ (is_joiner g = true -> is_joiner g' = true)) ->
  jfwd c c'.
Proof.
  intros H v p E. left. destruct (H v (p_given p)) as [g' [G J]]; [unfold cgiven; rewrite E; reflexivity|].
  unfold cgiven in G. destruct (alookup v (c_users c')) as [p'|]; [|discriminate]. inv G. exists p'. auto.
Qed.

Lemma tus_sess_incl f s c n u want nb : incl (c_sess (h_ca (fst (tus f s c n u want nb)))) (c_sess c).
Proof.
  assert (forall c0 p k c' o, evict_user (c_set_users (aset u p) c0) u false k = (c', o) -> incl (c_sess c') (c_sess c0)) as EVI.
  { intros c0 p k c' o EV. rewrite (evict_sess _ _ _ _ _ _ EV). apply incl_filter. }
  unfold tus. destruct (tus_mw want) as [mw okw]. destruct (negb okw); [apply incl_refl|].
  destruct (alookup u (c_users c)) as [p0|].
  - unfold tus_exist. destruct (tus_chk _ _ _ _ _) as [[[mw1 g1] oc]|]; [|apply incl_refl].
    destruct (if negb _ then call f n else (true, n)) as [ok1 n1]. destruct (negb ok1); [apply incl_refl|].
    assert (forall s3 c3 n3 w1 ow og, incl (c_sess (h_ca (fst (tus_finish u w1 g1 ow og nb s3 c3 n3)))) (c_sess c3)) as FIN.
    { intros. unfold tus_finish. destruct (negb (is_joiner _)).
      - destruct (evict_user _ u false 0) as [c5 o5] eqn:EV. cbn [fst h_ca]. eapply EVI; exact EV.
      - destruct (negb (is_joiner g1)); cbn [fst h_ca]; apply incl_refl. }
    destruct oc; [|apply FIN].
    destruct (call f n1) as [ok2 n2]. destruct (negb ok2); [apply incl_refl|].
    destruct (call f n2) as [ok3 n3]. destruct (negb ok3); [apply incl_refl|].
    eapply incl_tran; [apply FIN|apply incl_refl].
  - unfold tus_new. destruct (max_subs <=? _); [apply incl_refl|].
    destruct (call f n) as [ok1 n1]. destruct (negb ok1); [apply incl_refl|].
    destruct (negb (is_joiner _)); [apply incl_refl|].
    destruct (if (_ : bool) then call f n1 else (true, n1)) as [ok2 n2]. destruct (negb ok2); [apply incl_refl|].
    destruct (negb (is_joiner _)).
    + destruct (evict_user _ u false 0) as [c3 o3] eqn:EV. cbn [fst h_ca]. eapply EVI; exact EV.
    + cbn [fst h_ca]. apply incl_refl.
Qed.

Lemma tus_jfwd f s c n u want nb : jfwd c (h_ca (fst (tus f s c n u want nb))).
Proof.
  apply jfwd_given. intros v g G.
  unfold tus. destruct (tus_mw want) as [mw okw]. destruct (negb okw); [eauto|].
  destruct (alookup u (c_users c)) as [p0|] eqn:Eu.
  - unfold tus_exist. destruct (tus_chk _ _ _ _ _) as [[[mw1 g1] oc]|] eqn:EC; [|eauto].
    apply tus_chk_spec in EC. destruct EC as [-> [HGS _]].
    assert (is_joiner (p_given p0) = true -> is_joiner g1 = true) as JG.
    { destruct HGS as [->|[[_ [_ ->]]|[_ [_ [_ ->]]]]]; auto; apply is_joiner_lor. }
    destruct (if negb _ then call f n else (true, n)) as [ok1 n1]. destruct (negb ok1); [eauto|].
    destruct oc.
    + destruct (call f n1) as [ok2 n2]. destruct (negb ok2); [eauto|].
      destruct (call f n2) as [ok3 n3]. destruct (negb ok3); [eauto|].
      match goal with |- context [tus_finish ?a ?b ?cc ?d ?e ?ff ?s3 ?c3 ?n3] =>
        destruct (tus_finish_res a b cc d e ff s3 c3 n3) as [_ [R _]] end.
      rewrite R. eqb_cases v u.
      * unfold cgiven in G. rewrite Eu in G. inv G. eauto.
      * unfold cgiven. cbn [c_users c_set_users c_set_owner]. rewrite alookup_aset.
        eqb_cases v (c_owner c); cbn; [|eauto].
        eexists. split; [reflexivity|]. rewrite is_joiner_strip. unfold cgiven, get_pud in *.
        destruct (alookup (c_owner c) (c_users c)); inv G. auto.
    + match goal with |- context [tus_finish ?a ?b ?cc ?d ?e ?ff ?s3 ?c3 ?n3] =>
        destruct (tus_finish_res a b cc d e ff s3 c3 n3) as [_ [R _]] end.
      rewrite R. eqb_cases v u; [|eauto]. unfold cgiven in G. rewrite Eu in G. inv G. eauto.
  - assert (v <> u) as NE by (intros ->; unfold cgiven in G; rewrite Eu in G; discriminate).
    apply N.eqb_neq in NE.
    assert (forall c0 p, cgiven (c_set_users (aset u p) c0) v = cgiven c0 v) as AS.
    { intros. unfold cgiven. cbn [c_users c_set_users]. rewrite alookup_aset, NE. reflexivity. }
    unfold tus_new. destruct (max_subs <=? _); [eauto|].
    destruct (call f n) as [ok1 n1]. destruct (negb ok1); [eauto|].
    destruct (negb (is_joiner _)); [eauto|].
    destruct (if (_ : bool) then call f n1 else (true, n1)) as [ok2 n2]. destruct (negb ok2); [eauto|].
    destruct (negb (is_joiner _)).
    + destruct (evict_user _ u false 0) as [c3 o3] eqn:EV. cbn [fst h_ca].
      rewrite (evict_cgiven _ _ _ _ _ _ v EV), andb_false_r, AS. eauto.
    + cbn [fst h_ca]. rewrite AS. eauto.
Qed.

Lemma aus_sess_jfwd f s c n u t mode :
  incl (c_sess (h_ca (fst (aus f s c n u t mode)))) (c_sess c) /\ jfwd c (h_ca (fst (aus f s c n u t mode))).
Proof.
  pose proof (incl_refl (c_sess c)) as IR. pose proof (jfwd_refl c) as JR.
  unfold aus. destruct (alookup u (c_users c)) as [hp|]; [|auto].
  destruct (negb (is_sharer _)); [auto|]. destruct (tus_mw mode) as [mg okg]. destruct (negb okg); [auto|].
  destruct (_ && _); [auto|]. destruct (_ && _); [auto|].
  (* after an update of the target's entry followed by an eviction when J is missing *)
  assert (forall p', (forall c4 o4, evict_user (c_set_users (aset t p') c) t false 0 = (c4, o4) ->
            incl (c_sess c4) (c_sess c) /\ jfwd c c4)) as EVJ.
  { intros p' c4 o4 EV. split; [rewrite (evict_sess _ _ _ _ _ _ EV); apply incl_filter|].
    intros v p E. eqb_cases v t.
    - right. intros sid b HI. rewrite (evict_sess _ _ _ _ _ _ EV) in HI. apply filter_In in HI.
      destruct HI as [_ HI]. cbn in HI. rewrite N.eqb_refl in HI. discriminate.
    - left. exists p. split; [|auto]. rewrite (evict_lookup _ _ _ _ _ _ v EV).
      apply N.eqb_neq in E0. rewrite E0. cbn [c_users c_set_users]. rewrite alookup_aset, E0. exact E. }
  assert (forall p', is_joiner (p_given p') = true -> jfwd c (c_set_users (aset t p') c)) as ASJ.
  { intros p' J v p E. left. cbn [c_users c_set_users]. rewrite alookup_aset.
    eqb_cases v t; [exists p'; auto|exists p; auto]. }
  destruct (alookup t (c_users c)) as [pt|] eqn:Et.
  - unfold aus_exist. destruct (_ || _).
    + destruct (negb (is_joiner (p_given pt))) eqn:EJ; [|auto].
      destruct (evict_user c t false 0) as [c4 o4] eqn:EV. cbn [fst h_ca].
      split; [rewrite (evict_sess _ _ _ _ _ _ EV); apply incl_filter|].
      intros v p E. eqb_cases v t.
      * right. intros sid b HI. rewrite (evict_sess _ _ _ _ _ _ EV) in HI. apply filter_In in HI.
        destruct HI as [_ HI]. cbn in HI. rewrite N.eqb_refl in HI. discriminate.
      * left. exists p. split; [|auto]. rewrite (evict_lookup _ _ _ _ _ _ v EV).
        apply N.eqb_neq in E0. rewrite E0. exact E.
    + destruct (_ && _); [auto|]. destruct (call f n) as [ok1 n1]. destruct (negb ok1); [auto|].
      destruct (negb (is_joiner mg)) eqn:EJ.
      * destruct (evict_user _ t false 0) as [c4 o4] eqn:EV. cbn [fst h_ca]. eapply EVJ; exact EV.
      * cbn [fst h_ca]. split; [exact IR|]. apply ASJ. cbn. apply negb_false_iff in EJ. exact EJ.
  - unfold aus_new. destruct (max_subs <=? _); [auto|].
    destruct (call f n) as [ok1 n1]. destruct (negb ok1); [auto|].
    match goal with |- context [match ?w with (_, _) => _ end] => destruct w as [n2 [[code|wantm]|]] end; auto.
    destruct (negb (is_joiner wantm)); [auto|].
    destruct (call f n2) as [ok3 n3]. destruct (negb ok3); [auto|].
    destruct (negb (is_joiner _)) eqn:EJ.
    + destruct (evict_user _ t false 0) as [c4 o4] eqn:EV. cbn [fst h_ca]. eapply EVJ; exact EV.
    + cbn [fst h_ca]. split; [exact IR|]. apply ASJ. cbn. apply negb_false_iff in EJ. exact EJ.
Qed.

(* the reply of a successful {sub}: the subscriber's entry after thisUserSub *)
Lemma tus_joined f s c n u want ch :
  let nb := match alookup u (c_users c) with Some _ => false | None => true end in
  snd (tus f s c n u want nb) = SubOk ch ->
  match ch with Some (w, g) => is_joiner (N.land g w) | None => true end = true ->
  stale_cond c u want = false ->
  exists p', alookup u (c_users (h_ca (fst (tus f s c n u want nb)))) = Some p' /\ is_joiner (p_given p') = true.
Proof.
  intros nb. subst nb. unfold tus, stale_cond. destruct (tus_mw want) as [mw okw].
  destruct okw; cbn [negb andb]; [|discriminate].
  assert (forall c', (exists g, cgiven c' u = Some g /\ is_joiner g = true) ->
          exists p', alookup u (c_users c') = Some p' /\ is_joiner (p_given p') = true) as CG.
  { intros c' [g [G J]]. unfold cgiven in G. destruct (alookup u (c_users c')) as [p'|]; inv G. eauto. }
  destruct (alookup u (c_users c)) as [p0|] eqn:Eu.
  - unfold tus_exist. destruct (tus_chk _ _ _ _ _) as [[[mw1 g1] oc]|]; [|discriminate].
    destruct (if negb _ then call f n else (true, n)) as [ok1 n1]. destruct (negb ok1); [discriminate|].
    set (w1 := tus_w1 c u mw1 g1 (p_want p0)).
    assert (forall s3 c3 n3,
      snd (tus_finish u w1 g1 (p_want p0) (p_given p0) false s3 c3 n3) = SubOk ch ->
      match ch with Some (w, g) => is_joiner (N.land g w) | None => true end = true ->
      negb (is_joiner w1) && (w1 =? p_want p0)%N && (g1 =? p_given p0)%N = false ->
      exists p', alookup u (c_users (h_ca (fst (tus_finish u w1 g1 (p_want p0) (p_given p0) false s3 c3 n3)))) = Some p' /\
                 is_joiner (p_given p') = true) as FIN.
    { intros s3 c3 n3 HS HJ HT. apply CG.
      destruct (tus_finish_res u w1 g1 (p_want p0) (p_given p0) false s3 c3 n3) as [_ [R _]].
      rewrite R, N.eqb_refl. exists g1. split; [reflexivity|].
      revert HS. unfold tus_finish. cbn [orb].
      destruct (negb (is_joiner w1)) eqn:EW.
      - destruct (evict_user _ u false 0) as [c5 o5]. cbn [snd]. intros HS. inv HS.
        destruct (negb ((w1 =? p_want p0)%N && (g1 =? p_given p0)%N)) eqn:ECH.
        + apply is_joiner_land in HJ. exact HJ.
        + apply negb_false_iff in ECH. cbn [andb] in HT. congruence.
      - destruct (negb (is_joiner g1)) eqn:EG; cbn [snd]; [discriminate|]. intros _. apply negb_false_iff in EG. exact EG. }
    destruct oc; [|apply FIN].
    destruct (call f n1) as [ok2 n2]. destruct (negb ok2); [discriminate|].
    destruct (call f n2) as [ok3 n3]. destruct (negb ok3); [discriminate|]. apply FIN.
  - intros HS HJ _. apply CG. revert HS. unfold tus_new. destruct (max_subs <=? _); [discriminate|].
    destruct (call f n) as [ok1 n1]. destruct (negb ok1); [discriminate|].
    destruct (negb (is_joiner _)); [discriminate|].
    destruct (if (_ : bool) then call f n1 else (true, n1)) as [ok2 n2]. destruct (negb ok2); [discriminate|].
    cbn [orb].
    destruct (negb (is_joiner _)).
    + destruct (evict_user _ u false 0) as [c3 o3] eqn:EV. cbn [fst snd h_ca]. intros HS. inv HS.
      rewrite (evict_cgiven _ _ _ _ _ _ u EV), andb_false_r. unfold cgiven. cbn [c_users c_set_users].
      rewrite alookup_aset, N.eqb_refl. cbn. eexists. split; [reflexivity|]. apply is_joiner_land in HJ. exact HJ.
    + cbn [fst snd h_ca]. intros HS. inv HS. unfold cgiven. cbn [c_users c_set_users].
      rewrite alookup_aset, N.eqb_refl. cbn. eexists. split; [reflexivity|]. apply is_joiner_land in HJ. exact HJ.
Qed.

Lemma in_aset {A} k (v : A) l e : In e (aset k v l) -> e = (k, v) \/ In e l.
Proof.
  induction l as [|[k0 v0] l IH]; cbn.
  - intros [H|[]]; auto.
  - destruct (N.eqb k k0); cbn; intros [H|H]; auto. destruct (IH H); auto.
Qed.

(* sub_reply: with the stale-ban pattern excluded, the attached session's user has J *)
Lemma sub_reply_aj f s c n sid u want bkg :
  attached_joiners c -> stale_cond c u want = false ->
  attached_joiners (h_ca (sub_reply f s c n sid u want bkg)).
Proof.
  intros AJ NT. unfold sub_reply. rewrite tus_eq.
  set (nb := match alookup u (c_users c) with Some _ => false | None => true end).
  pose proof (tus_sess_incl f s c n u want nb) as I. pose proof (tus_jfwd f s c n u want nb) as F.
  pose proof (tus_joined f s c n u want) as TJ. cbv zeta in TJ. fold nb in TJ.
  destruct (tus f s c n u want nb) as [h r]. cbn [fst snd] in *.
  pose proof (aj_pres _ _ AJ I F) as AJ1.
  destruct r as [code|ch]; cbn [h_ca]; [exact AJ1|]. specialize (TJ ch eq_refl).
  destruct (match ch with Some (w, g) => is_joiner (N.land g w) | None => true end); [|exact AJ1].
  destruct (TJ eq_refl NT) as [p' [E' J']].
  assert (attached_joiners (c_set_sess (aset sid (u, bkg)) (h_ca h))) as AJ2.
  { intros sid' v b HI. cbn [c_sess c_set_sess c_users] in *. apply in_aset in HI.
    destruct HI as [HI|HI]; [inv HI; eauto|eapply AJ1; exact HI]. }
  destruct bkg; [exact AJ2|].
  intros sid' v b HI. cbn [c_sess c_set_users c_set_sess] in HI.
  destruct (AJ2 sid' v b HI) as [p [E J]]. cbn [c_users c_set_sess] in E.
  cbn [c_users c_set_users c_set_sess]. rewrite alookup_aset. eqb_cases v u; [|eauto].
  eexists. split; [reflexivity|]. unfold get_pud. cbn [c_users c_set_sess]. rewrite E. exact J.
Qed.

(* the same without the exclusion: membership only *)
Lemma sub_reply_sm f s c n sid u want bkg :
  sess_members c -> sess_members (h_ca (sub_reply f s c n sid u want bkg)).
Proof.
  intros SM. unfold sub_reply. rewrite tus_eq.
  set (nb := match alookup u (c_users c) with Some _ => false | None => true end).
  pose proof (tus_sess_incl f s c n u want nb) as I. pose proof (tus_jfwd f s c n u want nb) as F.
  pose proof (tus_ok_member f s c n u want nb) as M.
  destruct (tus f s c n u want nb) as [h r]. cbn [fst snd] in *.
  pose proof (sm_pres _ _ SM I F) as SM1.
  destruct r as [code|ch]; cbn [h_ca]; [exact SM1|]. specialize (M ch eq_refl).
  destruct (match ch with Some (w, g) => is_joiner (N.land g w) | None => true end); [|exact SM1].
  assert (sess_members (c_set_sess (aset sid (u, bkg)) (h_ca h))) as SM2.
  { intros sid' v b HI. cbn [c_sess c_set_sess] in HI. apply in_aset in HI.
    destruct HI as [HI|HI]; [inv HI; exact M|eapply SM1; exact HI]. }
  destruct bkg; [exact SM2|].
  intros sid' v b HI. cbn [c_sess c_set_users c_set_sess] in HI. rewrite member_aset.
  rewrite (SM2 sid' v b HI). apply orb_true_r.
Qed.

(* ---------- one request ---------- *)
Definition cpres (c c' : cache) : Prop := incl (c_sess c') (c_sess c) /\ jfwd c c'.
Lemma cpres_of_shrink c c' : cacl_shrink c c' -> cpres c c'.
Proof. intros H. split; [apply H|apply jfwd_of_shrink; exact H]. Qed.
Lemma cpres_refl c : cpres c c. Proof. split; [apply incl_refl|apply jfwd_refl]. Qed.

Definition inv_sm (x : state) : Prop := match ca x with Some c => sess_members c | None => True end.
Definition inv_aj (x : state) : Prop := match ca x with Some c => attached_joiners c | None => True end.

Lemma load_no_sess s : c_sess (load s) = []. Proof. reflexivity. Qed.
Lemma aj_load s : attached_joiners (load s). Proof. intros sid u b []. Qed.
Lemma sm_view x : inv_sm x -> sess_members (view x).
Proof. unfold inv_sm, view. destruct (ca x); [auto|]. intros _ sid u b []. Qed.

Section SessInv.
Variable dr : Z -> list (Z * Z) -> option (list (Z * Z)).
Variable nr : list (Z * Z) -> list (Z * Z).
Variable sm : sessmap.

Definition sess_goal (x : state) (o : op) (x' : state) : Prop :=
  inv_sm x' /\ (inv_aj x -> stale_ban_sub sm x o = false -> inv_aj x').

Lemma goal_of_cpres x o c s' c' n : ca x = Some c -> sess_members c -> cpres c c' -> sess_goal x o (mkState s' (Some c') n).
Proof.
  intros E SM [I F]. split; cbn [ca].
  - eapply sm_pres; eauto.
  - unfold inv_aj. rewrite E. cbn [ca]. intros AJ _. eapply aj_pres; eauto.
Qed.
Lemma goal_keep x o n : inv_sm x -> sess_goal x o (mkState (st x) (ca x) n).
Proof. intros SM. split; [exact SM|]. intros AJ _. exact AJ. Qed.
Lemma goal_unloaded x o s' n : sess_goal x o (mkState s' None n).
Proof. split; [exact I|]. intros _ _. exact I. Qed.

Lemma step_sess f x o : inv_sm x -> sess_goal x o (fst (step dr nr sm f x o)).
Proof.
  intros SM. unfold step.
  assert (forall n, sess_goal x o (mkState (st x) (ca x) n)) as KEEP by (intros; apply goal_keep; exact SM).
  assert (forall c h, ca x = Some c -> hsame (st x) c h -> sess_goal x o (mkState (h_st h) (Some (h_ca h)) (h_n h))) as NEU.
  { intros c h E [_ HS]. apply (goal_of_cpres x o c); [exact E| |apply cpres_of_shrink; exact HS].
    unfold inv_sm in SM. rewrite E in SM. exact SM. }
  destruct o; cbn [fst].
  - (* sub *)
    destruct (ca x) as [c|] eqn:EC.
    + destruct (attached c sid); cbn [fst]; [apply KEEP|].
      unfold inv_sm in SM. rewrite EC in SM. split; cbn [ca].
      * apply sub_reply_sm. exact SM.
      * unfold inv_aj, stale_ban_sub, view. rewrite EC. cbn [ca]. intros AJ NT. apply sub_reply_aj; assumption.
    + destruct (try_load f (st x) 0) as [n1 [c|code]] eqn:ET; cbn [fst]; [|apply goal_unloaded].
      unfold try_load in ET. repeat break_match_hyp; inv ET. split; cbn [ca].
      * apply sub_reply_sm. intros ? ? ? [].
      * unfold stale_ban_sub, view. rewrite EC. intros _ NT. apply sub_reply_aj; [apply aj_load|exact NT].
  - (* leave *)
    destruct (ca x) as [c|] eqn:EC; [|cbn [negb]; apply KEEP].
    destruct (attached c sid); cbn [negb]; [|apply KEEP].
    destruct unsub; cbn [fst].
    + apply (NEU c); [reflexivity|apply leave_unsub_same].
    + destruct (leave c sid _) as [c1 o1] eqn:EL. cbn [fst h_st h_ca h_n].
      unfold inv_sm in SM. rewrite EC in SM.
      apply (goal_of_cpres _ _ c); [exact EC|exact SM|]. apply cpres_of_shrink.
      match goal with H : leave c sid ?a = _ |- _ => pose proof (leave_same c sid a SM) as L; rewrite H in L end. exact L.
  - destruct (ca x) as [c|] eqn:EC; [|cbn [negb]; apply KEEP].
    destruct (attached c sid); cbn [negb fst]; [|apply KEEP].
    apply (NEU c); [reflexivity|apply publish_same].
  - destruct (ca x) as [c|] eqn:EC.
    + destruct (attached c sid); cbn [negb]; repeat break_match; cbn [fst]; try apply KEEP;
        apply (NEU c); try reflexivity; apply note_same.
    + cbn [negb]. repeat break_match; cbn [fst]; apply KEEP.
  - destruct (ca x) as [c|] eqn:EC; [|cbn [negb]; apply KEEP].
    destruct (attached c sid); cbn [negb fst]; [|apply KEEP].
    apply (NEU c); [reflexivity|apply get_data_same].
  - assert (forall n, sess_goal x (OGetDesc sid) (mkState (o_st (offline_get_desc f (st x) sid (sess_uid sm sid))) (ca x) n)) as OFF
      by (intros; rewrite offline_get_desc_frame; apply KEEP).
    destruct (ca x) as [c|] eqn:EC; [|cbn [negb fst]; apply OFF].
    destruct (attached c sid); cbn [negb fst]; [|apply OFF].
    apply (NEU c); [reflexivity|apply get_desc_same].
  - assert (forall n, sess_goal x (OGetSub sid) (mkState (o_st (offline_get_sub f (st x) sid (sess_uid sm sid))) (ca x) n)) as OFF
      by (intros; rewrite offline_get_sub_frame; apply KEEP).
    destruct (ca x) as [c|] eqn:EC; [|cbn [negb fst]; apply OFF].
    destruct (attached c sid); cbn [negb fst]; [|apply OFF].
    apply (NEU c); [reflexivity|apply get_sub_same].
  - destruct (ca x) as [c|] eqn:EC; [|cbn [negb]; apply KEEP].
    destruct (attached c sid); cbn [negb fst]; [|apply KEEP].
    apply (NEU c); [reflexivity|apply get_del_same].
  - destruct (ca x) as [c|] eqn:EC; [|cbn [negb]; apply KEEP].
    destruct (attached c sid); cbn [negb fst]; [|apply KEEP].
    apply (NEU c); [reflexivity|apply del_msg_same].
  - (* set sub *)
    assert (forall n s', sess_goal x (OSetSub sid target mode) (mkState s' (ca x) n)) as OFF.
    { intros n s'. split; [exact SM|]. intros AJ _. exact AJ. }
    destruct (ca x) as [c|] eqn:EC; [|cbn [negb fst]; apply OFF].
    destruct (attached c sid); cbn [negb fst]; [|apply OFF].
    unfold inv_sm in SM. rewrite EC in SM.
    pose proof (set_sub_res f (st x) c 0 sid (sess_uid sm sid) target mode) as R. cbv zeta in R.
    apply (goal_of_cpres _ _ c); [exact EC|exact SM|].
    destruct (_ || _); destruct R as [_ ->].
    + split; [apply tus_sess_incl|apply tus_jfwd].
    + apply aus_sess_jfwd.
  - destruct (ca x) as [c|] eqn:EC; [|cbn [negb]; apply KEEP].
    destruct (attached c sid); cbn [negb fst]; [|apply KEEP].
    apply (NEU c); [reflexivity|apply del_sub_same].
  - destruct (ca x) as [c|] eqn:EC.
    + destruct (c_sess c); cbn [fst]; [apply goal_unloaded|apply KEEP].
    + cbn [fst]. apply KEEP.
  - apply goal_unloaded.
Qed.

Lemma step_f_sess x fo : inv_sm x -> sess_goal x (snd fo) (fst (step_f dr nr sm x fo)).
Proof.
  intros H. unfold step_f. pose proof (step_sess (fst fo) x (snd fo) H) as S.
  destruct (step dr nr sm (fst fo) x (snd fo)) as [x1 o1]. cbn [fst] in S.
  destruct (fst fo); cbn [fst]; try exact S. apply goal_unloaded.
Qed.

Lemma run_inv_sm h : forall x, inv_sm x -> inv_sm (fst (run dr nr sm x h)).
Proof.
  induction h as [|fo h IH]; intros x H; cbn; [exact H|].
  pose proof (step_f_sess x fo H) as [S _]. destruct (step_f dr nr sm x fo) as [x1 o1]. cbn [fst] in S.
  specialize (IH x1 S). destruct (run dr nr sm x1 h) as [x2 os]. exact IH.
Qed.

(* histories without the stale-ban request pattern *)
Fixpoint no_stale (x : state) (h : list (fault * op)) : Prop :=
  match h with
  | [] => True
  | fo :: r => stale_ban_sub sm x (snd fo) = false /\ no_stale (fst (step_f dr nr sm x fo)) r
  end.

Lemma run_inv_aj h : forall x, inv_sm x -> inv_aj x -> no_stale x h -> inv_aj (fst (run dr nr sm x h)).
Proof.
  induction h as [|fo h IH]; intros x SM AJ NS; cbn; [exact AJ|].
  destruct NS as [NT NS]. pose proof (step_f_sess x fo SM) as [S A].
  destruct (step_f dr nr sm x fo) as [x1 o1]. cbn [fst] in *.
  specialize (IH x1 S (A AJ NT) NS). destruct (run dr nr sm x1 h) as [x2 os]. exact IH.
Qed.
End SessInv.
