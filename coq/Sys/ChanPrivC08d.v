(* C08 (part d): desc.private on a CHANNEL-ENABLED group topic.  Full subscribers have their subscription row under
   grpXXX, channel readers under chnXXX.  Go code modelled (server/topic.go), statement by statement, private part only:
     replySetDesc     sub["Private"] by mergeInterfaces against perUser[asUid].private; the row written is
                      (GrpToChn(t.name) if asChan else t.name, asUid), asChan = the request named the topic chnXXX;
                      then the cache; {ctrl 200}; nothing to write -> {ctrl 304};
     replyGetDesc     desc.private = perUser[asUid].private;
     thisUserSub      a channel reader (not permanently cached) is cached on attach with private = the request's
                      set.desc.private (nil when absent; the existing row under chnXXX is neither read nor written);
     loadSubscribers  the rows under grpXXX, with their private;
     store contract   SubsUpdate on a missing row: success, no effect (db/mysql/adapter.go, UPDATE ... 0 rows).
   Content values are the tokens of Sys/TopicDesc.v (0 = null, 1 = the DEL marker).  Definitions and proofs. *)
From Coq Require Import ZArith NArith List Bool.
From Tinode Require Import Base.Util Sys.Topic Sys.TopicDesc.
Import ListNotations.
Open Scope N_scope.

Record cstore_c08d := mkCS { cs_grp : list (N * N); cs_chn : list (N * N) }.       (* uid -> private, per name *)
Record ccache_c08d := mkCC { cc_users : list (N * (bool * N)) }.                   (* perUser: uid -> (isChan, private) *)

(* SubsUpdate(name, uid, {Private}) : a missing row is not an error *)
Definition cs_update_c08d (s : cstore_c08d) (aschan : bool) (u v : N) : cstore_c08d :=
  let upd l := match alookup u l with Some _ => aset u v l | None => l end in
  if aschan then mkCS (cs_grp s) (upd (cs_chn s)) else mkCS (upd (cs_grp s)) (cs_chn s).
Definition cs_own_c08d (s : cstore_c08d) (ischan : bool) (u : N) : option N :=
  alookup u (if ischan then cs_chn s else cs_grp s).

Definition cload_c08d (s : cstore_c08d) : ccache_c08d := mkCC (map (fun e => (fst e, (false, snd e))) (cs_grp s)).

Inductive cop_c08d :=
| CAttachReader (u : N) (priv : N)            (* {sub chnXXX} of a channel reader whose row exists *)
| CSetPriv (u : N) (aschan : bool) (tok : N)  (* {set desc private} from an attached session, topic named grp / chn *)
| CGetDesc (u : N)
| CDetachReader (u : N)
| CReload.

Inductive cframe_c08d := CCtrl (code : Z) | CDesc (priv : N).

Definition cstep_c08d (s : cstore_c08d) (c : ccache_c08d) (o : cop_c08d) : cstore_c08d * ccache_c08d * list cframe_c08d :=
  match o with
  | CAttachReader u priv =>
    match alookup u (cc_users c), alookup u (cs_chn s) with
    | None, Some _ => (s, mkCC (aset u (true, if (priv =? 1) then 0 else priv) (cc_users c)), [CCtrl 200])
    | _, _ => (s, c, [])                                          (* outside this model *)
    end
  | CSetPriv u aschan tok =>
    match alookup u (cc_users c) with
    | None => (s, c, [])
    | Some (ischan, cur) =>
      let '(nv, changed) := merge_val cur tok in
      if negb changed then (s, c, [CCtrl 304]) else
      (cs_update_c08d s aschan u nv, mkCC (aset u (ischan, nv) (cc_users c)), [CCtrl 200])
    end
  | CGetDesc u =>
    match alookup u (cc_users c) with
    | Some (_, p) => (s, c, [CDesc p])
    | None => (s, c, [])
    end
  | CDetachReader u =>
    match alookup u (cc_users c) with
    | Some (true, _) => (s, mkCC (aremove u (cc_users c)), [CCtrl 200])
    | _ => (s, c, [])
    end
  | CReload => (s, cload_c08d s, [])
  end.

Lemma alookup_aset_eq_c08d {A} (k : N) (v : A) l : alookup k (aset k v l) = Some v.
Proof.
  induction l as [|[k' v'] l IH]; cbn.
  - rewrite N.eqb_refl. reflexivity.
  - destruct (N.eqb_spec k k') as [E|NE]; cbn.
    + rewrite N.eqb_refl. reflexivity.
    + destruct (N.eqb_spec k k'); [contradiction|]. exact IH.
Qed.

(* ACK => STORED when the name used agrees with the kind of the requester: the requester's OWN row holds the value *)
Lemma chan_set_ack_stored_c08d s c u aschan tok ischan cur row :
  alookup u (cc_users c) = Some (ischan, cur) -> cs_own_c08d s ischan u = Some row ->
  aschan = ischan ->
  let '(s', c', fr) := cstep_c08d s c (CSetPriv u aschan tok) in
  fr = [CCtrl 200] ->
  cs_own_c08d s' ischan u = Some (fst (merge_val cur tok)) /\
  alookup u (cc_users c') = Some (ischan, fst (merge_val cur tok)).
Proof.
  intros LC LR E. subst aschan. unfold cstep_c08d. rewrite LC.
  destruct (merge_val cur tok) as [nv ch]. destruct ch; cbn [negb]; [|discriminate].
  intros _. cbn [fst]. split.
  - unfold cs_own_c08d, cs_update_c08d in *. destruct ischan; cbn [cs_grp cs_chn] in *; rewrite LR; apply alookup_aset_eq_c08d.
  - cbn [cc_users]. apply alookup_aset_eq_c08d.
Qed.

(* the full statement (whatever name was used) is refuted: a full subscriber naming the topic chnXXX *)
Definition chan_ack_stored_statement_c08d : Prop :=
  forall s c u aschan tok ischan cur row,
    alookup u (cc_users c) = Some (ischan, cur) -> cs_own_c08d s ischan u = Some row ->
    let '(s', _, fr) := cstep_c08d s c (CSetPriv u aschan tok) in
    fr = [CCtrl 200] -> cs_own_c08d s' ischan u = Some (fst (merge_val cur tok)).
Lemma chan_ack_stored_refuted_c08d : ~ chan_ack_stored_statement_c08d.
Proof.
  intros H. specialize (H (mkCS [(2, 21)] []) (mkCC [(2, (false, 21))]) 2 true 7 false 21 21 eq_refl eq_refl).
  cbv in H. specialize (H eq_refl). discriminate H.
Qed.

(* a channel reader's stored private is not what an attach caches: after attach without set.desc.private
   {get desc} reports null whatever the row holds *)
Lemma chan_reader_attach_null_c08d s c u row :
  alookup u (cc_users c) = None -> alookup u (cs_chn s) = Some row ->
  let '(s1, c1, _) := cstep_c08d s c (CAttachReader u 0) in
  snd (cstep_c08d s1 c1 (CGetDesc u)) = [CDesc 0].
Proof.
  intros LC LR. unfold cstep_c08d. rewrite LC, LR. cbn [N.eqb cc_users snd].
  rewrite alookup_aset_eq_c08d. reflexivity.
Qed.

(* full subscribers using their own name: coherence with the rows under grpXXX is kept, so a reload is invisible *)
Definition member_coh_c08d (s : cstore_c08d) (c : ccache_c08d) (u : N) : Prop :=
  forall cur, alookup u (cc_users c) = Some (false, cur) -> alookup u (cs_grp s) = Some cur.
Lemma alookup_aset_other_c08d {A} (k k' : N) (v : A) l : k' <> k -> alookup k' (aset k v l) = alookup k' l.
Proof.
  intros NE. induction l as [|[k0 v0] l IH]; cbn.
  - destruct (N.eqb_spec k' k); [contradiction|reflexivity].
  - destruct (N.eqb_spec k k0) as [E|NE0]; cbn.
    + subst. destruct (N.eqb_spec k' k0); [contradiction|reflexivity].
    + destruct (N.eqb_spec k' k0); [reflexivity|exact IH].
Qed.
Lemma member_set_coh_c08d s c u v tok :
  member_coh_c08d s c v ->
  let '(s', c', _) := cstep_c08d s c (CSetPriv u false tok) in member_coh_c08d s' c' v.
Proof.
  intros CO. unfold cstep_c08d. destruct (alookup u (cc_users c)) as [[ischan cur]|] eqn:LC; [|exact CO].
  destruct (merge_val cur tok) as [nv ch]. destruct ch; cbn [negb]; [|exact CO].
  unfold member_coh_c08d in *. cbn [cc_users cs_update_c08d cs_grp]. intros cur' L.
  destruct (N.eq_dec v u) as [E|NE].
  - subst v. rewrite alookup_aset_eq_c08d in L. injection L as E1 E2. subst.
    rewrite (CO _ LC). apply alookup_aset_eq_c08d.
  - rewrite alookup_aset_other_c08d in L by exact NE.
    destruct (alookup u (cs_grp s)); [rewrite alookup_aset_other_c08d by exact NE|]; apply CO; exact L.
Qed.
