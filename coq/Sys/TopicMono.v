(* C09: neither mark ever decreases; invalid notes are dropped silently.
   Proofs over the topic model Sys/Topic.v (definitions are there). *)
From Coq Require Import ZArith NArith List Bool Lia.
From Tinode Require Import Base.Util Pure.Acs Sys.Topic Sys.TopicTac Sys.TopicFrame Sys.TopicNum Sys.TopicMarks.
Import ListNotations.
Open Scope Z_scope.

(* ---------- the marks of one user in the cache, as a function ---------- *)
Definition mk (c : cache) (u : N) : option (Z * Z) :=
  match alookup u (c_users c) with Some p => Some (p_read p, p_recv p) | None => None end.

(* what a request other than publish / note may do to one user's cached marks:
   keep them, drop the entry (unsubscribe), or create a fresh entry for a user who had none *)
Inductive okT : option (Z * Z) -> option (Z * Z) -> Prop :=
| okT_kept a : okT a a
| okT_gone a : okT a None
| okT_new : okT None (Some (0, 0)).
Definition T (c c' : cache) : Prop := forall u, okT (mk c u) (mk c' u).
(* every entry comes from an entry with the same marks *)
Definition F (c c' : cache) : Prop := forall u, mk c' u = mk c u \/ mk c' u = None.

Lemma alookup_aremove_eq {A} (k k' : N) (l : list (N * A)) :
  alookup k' (aremove k l) = if N.eqb k' k then None else alookup k' l.
Proof.
  induction l as [|[k0 v0] l IH]; cbn.
  - destruct (N.eqb k' k); reflexivity.
  - destruct (N.eqb k k0) eqn:E.
    + apply N.eqb_eq in E. subst k0. rewrite IH. destruct (N.eqb k' k); reflexivity.
    + cbn. destruct (N.eqb k' k0) eqn:E2; [|exact IH].
      apply N.eqb_eq in E2. subst k0. rewrite N.eqb_sym, E. reflexivity.
Qed.

Lemma mk_sess f c u : mk (c_set_sess f c) u = mk c u. Proof. reflexivity. Qed.
Lemma mk_owner v c u : mk (c_set_owner v c) u = mk c u. Proof. reflexivity. Qed.
Lemma mk_delid v c u : mk (c_set_delid v c) u = mk c u. Proof. reflexivity. Qed.
Lemma mk_lastid v c u : mk (c_set_lastid v c) u = mk c u. Proof. reflexivity. Qed.
Lemma mk_aset k q c u : mk (c_set_users (aset k q) c) u = if N.eqb u k then Some (p_read q, p_recv q) else mk c u.
Proof. unfold mk. cbn [c_users c_set_users]. rewrite alookup_aset. destruct (N.eqb u k); reflexivity. Qed.
Lemma mk_aremove k c u : mk (c_set_users (aremove k) c) u = if N.eqb u k then None else mk c u.
Proof. unfold mk. cbn [c_users c_set_users]. rewrite alookup_aremove_eq. destruct (N.eqb u k); reflexivity. Qed.
Lemma mk_mapdel d c u : mk (c_set_users (map (fun e => (fst e, p_set_delid d (snd e)))) c) u = mk c u.
Proof. unfold mk. cbn [c_users c_set_users]. rewrite alookup_map. destruct (alookup u (c_users c)); reflexivity. Qed.

Lemma T_refl c : T c c. Proof. intros u. constructor. Qed.
Lemma F_refl c : F c c. Proof. intros u. now left. Qed.
Lemma T_F a b c : T a b -> F b c -> T a c.
Proof. intros H1 H2 u. destruct (H2 u) as [E|E]; rewrite E; [apply H1|constructor]. Qed.
Lemma F_T a b : F a b -> T a b.
Proof. intros H u. destruct (H u) as [E|E]; rewrite E; constructor. Qed.

Lemma F_evict c u b k c' o : evict_user c u b k = (c', o) -> F c c'.
Proof.
  unfold evict_user. intros H. inv H. intros u0. repeat break_match.
  - rewrite mk_aremove, mk_sess. destruct (N.eqb u0 u); auto.
  - rewrite mk_aset, mk_sess. destruct (N.eqb u0 u) eqn:E; [|now left].
    apply N.eqb_eq in E. subst u0. left. unfold mk. cbn [c_users c_set_sess] in Heqo. rewrite Heqo. reflexivity.
  - rewrite mk_sess. now left.
Qed.

Ltac mk_rw :=
  repeat first [ rewrite mk_sess | rewrite mk_owner | rewrite mk_delid | rewrite mk_lastid
               | rewrite mk_aset | rewrite mk_aremove | rewrite mk_mapdel ].
Ltac eqb_norm :=
  repeat match goal with
         | H : N.eqb ?a ?b = true |- _ => apply N.eqb_eq in H; try subst
         end.
Ltac dedup_lookup :=
  repeat match goal with
         | H1 : alookup ?k ?l = _, H2 : alookup ?k ?l = _ |- _ => rewrite H1 in H2; inv H2
         end.
(* goal: okT (mk c u) X with X explicit *)
Ltac okT_leaf :=
  eqb_norm;
  repeat match goal with
         | H : alookup _ (c_users (c_set_sess _ _)) = _ |- _ => cbn [c_users c_set_sess] in H
         end;
  dedup_lookup;
  unfold mk, get_pud, blank_pud;
  cbn [c_users c_set_users c_set_sess c_set_owner c_set_delid c_set_lastid];
  rewrite ?alookup_aset; rewrite ?N.eqb_refl;
  repeat match goal with
         | |- context [N.eqb ?a ?b] =>
           let E := fresh "E" in destruct (N.eqb a b) eqn:E; [apply N.eqb_eq in E; try subst|]
         end;
  dedup_lookup;
  repeat match goal with H : alookup ?k (c_users ?c) = _ |- _ => rewrite ?H end;
  repeat match goal with |- context [alookup ?k (c_users ?c)] => destruct (alookup k (c_users c)) eqn:? end;
  cbn; try solve [constructor].
Ltac T_leaf :=
  let u0 := fresh "u0" in
  intros u0; mk_rw;
  repeat match goal with
         | |- context [N.eqb u0 ?k] =>
           let E := fresh "E" in destruct (N.eqb u0 k) eqn:E; [apply N.eqb_eq in E; subst u0|]
         end;
  okT_leaf.
Ltac T_solve :=
  cbn [fst snd h_ca];
  first [ apply T_refl
        | match goal with
          | H : evict_user _ _ _ _ = (?c', _) |- T _ ?c' => eapply T_F; [|eapply F_evict; exact H]; T_leaf
          end
        | T_leaf ].

Lemma tus_T f s c n sid u want nb : T c (h_ca (fst (this_user_sub f s c n sid u want nb))).
Proof. unfold this_user_sub. repeat break_match; T_solve. Qed.
Lemma aus_T f s c n sid u t m : T c (h_ca (fst (another_user_sub f s c n sid u t m))).
Proof. unfold another_user_sub. repeat break_match; T_solve. Qed.

(* a successful (re)subscription leaves the user in the cache *)
Lemma tus_present f s c n sid u want nb ch :
  snd (this_user_sub f s c n sid u want nb) = SubOk ch ->
  exists p, alookup u (c_users (h_ca (fst (this_user_sub f s c n sid u want nb)))) = Some p.
Proof.
  unfold this_user_sub. repeat break_match; cbn [fst snd h_ca]; intros H; try discriminate;
    repeat match goal with
           | E : evict_user _ _ _ _ = (_, _) |- _ => unfold evict_user in E; inv E
           end;
    cbn [c_users c_set_users c_set_sess c_set_owner]; rewrite ?alookup_aset, ?N.eqb_refl;
    repeat break_match; cbn [c_users c_set_users c_set_sess c_set_owner]; rewrite ?alookup_aset, ?N.eqb_refl; eauto.
Qed.

Lemma F_online c u v p : alookup u (c_users c) = Some p ->
  F c (c_set_users (aset u (p_set_online v (get_pud c u))) c).
Proof.
  intros L u0. rewrite mk_aset. destruct (N.eqb u0 u) eqn:E; [|now left].
  apply N.eqb_eq in E. subst u0. left. unfold mk, get_pud. rewrite L. reflexivity.
Qed.

Lemma sub_reply_T f s c n sid u want bkg : T c (h_ca (sub_reply f s c n sid u want bkg)).
Proof.
  unfold sub_reply.
  pose proof (tus_T f s c n sid u want (match alookup u (c_users c) with Some _ => false | None => true end)) as HT.
  pose proof (tus_present f s c n sid u want (match alookup u (c_users c) with Some _ => false | None => true end)) as HP.
  destruct (this_user_sub f s c n sid u want _) as [h r]. cbn [fst snd] in *.
  destruct r as [code|ch]; cbn [h_ca]; [exact HT|].
  destruct (HP ch eq_refl) as [p L].
  assert (forall b, F (h_ca h) (c_set_sess (aset sid (u, b)) (h_ca h))) as FS by (intros b0 u0; rewrite mk_sess; now left).
  repeat break_match; try exact HT; try (eapply T_F; [exact HT|apply FS]).
  eapply T_F; [exact HT|]. intros u0.
  destruct (F_online (c_set_sess (aset sid (u, false)) (h_ca h)) u
              (p_online (get_pud (c_set_sess (aset sid (u, false)) (h_ca h)) u) + 1) p L u0) as [E|E];
    rewrite E; rewrite ?mk_sess; auto.
Qed.

Lemma set_sub_T f s c n sid u t m : T c (h_ca (set_sub f s c n sid u t m)).
Proof.
  unfold set_sub. pose proof (tus_T f s c n sid u m false) as T1. pose proof (aus_T f s c n sid u t m) as T2.
  destruct ((t =? 0)%N || (t =? u)%N);
    [destruct (this_user_sub f s c n sid u m false) as [h r]
    |destruct (another_user_sub f s c n sid u t m) as [h r]]; cbn [fst] in *;
    repeat break_match; cbn [h_ca]; assumption.
Qed.
Lemma del_sub_T f s c n sid u t : T c (h_ca (del_sub f s c n sid u t)).
Proof.
  unfold del_sub. repeat break_match; repeat break_match_hyp;
    repeat match goal with H : (_, _) = (_, _) |- _ => inv H end; T_solve.
Qed.
Lemma leave_unsub_T f s c n sid u : T c (h_ca (leave_unsub f s c n sid u)).
Proof. unfold leave_unsub. repeat break_match; T_solve. Qed.
Lemma leave_T c sid u : T c (fst (leave c sid u)).
Proof. unfold leave. repeat break_match; T_solve. Qed.
Lemma del_msg_T dr f s c n sid u req hard : T c (h_ca (del_msg dr f s c n sid u req hard)).
Proof. unfold del_msg. repeat break_match; T_solve. Qed.

Section StepMono.
Variable dr : Z -> list (Z * Z) -> option (list (Z * Z)).
Variable nr : list (Z * Z) -> list (Z * Z).
Variable sm : sessmap.

(* any request that is not a publish or a note, topic loaded before and after *)
Lemma step_T f x o c c' :
  ca x = Some c -> ca (fst (step dr nr sm f x o)) = Some c' ->
  (forall sid a b, o <> OPub sid a b) -> (forall sid a b, o <> ONote sid a b) ->
  T c c'.
Proof.
  intros Hc Hc' NP NN. destruct x as [s cx n0]. cbn [ca] in Hc. subst cx.
  destruct o; unfold step in Hc'; cbn [st ca negb] in Hc'.
  - destruct (attached c sid); cbn [fst ca] in Hc'; inv Hc'; [apply T_refl|apply sub_reply_T].
  - destruct (attached c sid); cbn [negb fst ca] in Hc'; [|inv Hc'; apply T_refl].
    destruct unsub; cbn [fst ca] in Hc'.
    + inv Hc'. apply leave_unsub_T.
    + pose proof (leave_T c sid (match alookup sid (c_sess c) with Some (a, _) => a | None => sess_uid sm sid end)) as LK.
      destruct (leave c sid _) as [c1 o1]. cbn [fst ca h_ca] in *. inv Hc'. exact LK.
  - exfalso. eapply NP. reflexivity.
  - exfalso. eapply NN. reflexivity.
  - destruct (attached c sid); cbn [negb fst ca] in Hc'; inv Hc'; [|apply T_refl].
    destruct (get_data_same f s c 0 sid (sess_uid sm sid) since before limit) as [_ ->]. apply T_refl.
  - destruct (attached c sid); cbn [negb fst ca] in Hc'; inv Hc'; [|apply T_refl].
    destruct (get_desc_same s c 0 sid (sess_uid sm sid)) as [_ ->]. apply T_refl.
  - destruct (attached c sid); cbn [negb fst ca] in Hc'; inv Hc'; [|apply T_refl].
    destruct (get_sub_same f s c 0 sid (sess_uid sm sid)) as [_ ->]. apply T_refl.
  - destruct (attached c sid); cbn [negb fst ca] in Hc'; inv Hc'; [|apply T_refl].
    destruct (get_del_same nr f s c 0 sid (sess_uid sm sid) since before limit) as [_ ->]. apply T_refl.
  - destruct (attached c sid); cbn [negb fst ca] in Hc'; inv Hc'; [apply del_msg_T|apply T_refl].
  - destruct (attached c sid); cbn [negb fst ca] in Hc'; inv Hc'; [apply set_sub_T|apply T_refl].
  - destruct (attached c sid); cbn [negb fst ca] in Hc'; inv Hc'; [apply del_sub_T|apply T_refl].
  - destruct (c_sess c); cbn [fst ca] in Hc'; [discriminate|inv Hc'; apply T_refl].
  - cbn [fst ca] in Hc'. discriminate.
Qed.

(* neither mark of a user who is in the cache before and after the request decreases *)
Definition mono (c c' : cache) : Prop :=
  forall u p p', alookup u (c_users c) = Some p -> alookup u (c_users c') = Some p' ->
    p_read p <= p_read p' /\ p_recv p <= p_recv p'.
(* ... and for every request other than that user's publish / note they are unchanged *)
Definition same_marks (c c' : cache) : Prop :=
  forall u p p', alookup u (c_users c) = Some p -> alookup u (c_users c') = Some p' ->
    p_read p' = p_read p /\ p_recv p' = p_recv p.

Lemma T_same c c' : T c c' -> same_marks c c'.
Proof.
  intros H u p p' L L'. specialize (H u). unfold mk in H. rewrite L, L' in H.
  inversion H; subst; auto.
Qed.
Lemma same_mono c c' : same_marks c c' -> mono c c'.
Proof. intros H u p p' L L'. destruct (H u p p' L L') as [-> ->]. lia. Qed.
Lemma mono_refl c : mono c c.
Proof. intros u p p' L L'. rewrite L in L'. inv L'. lia. Qed.

Lemma mono_aset c u rd rc : p_read (get_pud c u) <= rd -> p_recv (get_pud c u) <= rc ->
  mono c (c_set_users (aset u (p_set_marks rd rc (get_pud c u))) c).
Proof.
  intros H1 H2 u0 p p' L L'. cbn [c_users c_set_users] in L'. rewrite alookup_aset in L'.
  destruct (N.eqb u0 u) eqn:E.
  - apply N.eqb_eq in E. subst u0. inv L'. unfold get_pud in *. rewrite L in *. cbn. lia.
  - rewrite L in L'. inv L'. lia.
Qed.

Lemma step_mono f x o c c' :
  inv_marks x -> ca x = Some c -> ca (fst (step dr nr sm f x o)) = Some c' -> mono c c'.
Proof.
  intros IM Hc Hc'.
  destruct o; try (apply same_mono, T_same; eapply step_T; eauto; intros; discriminate).
  - (* OPub *)
    destruct x as [s cx n0]. cbn [ca] in Hc. subst cx. pose proof IM as [IN [_ MC]]. cbn [ca st] in *.
    unfold step in Hc'; cbn [st ca negb] in Hc'.
    destruct (attached c sid); cbn [negb fst ca] in Hc'; inv Hc'; [|apply mono_refl].
    destruct (publish_ca f s c 0 sid (sess_uid sm sid) content noecho) as [E|[E|E]]; rewrite E.
    + apply mono_refl.
    + intros u p p' L L'. cbn [c_users c_set_lastid] in L'. rewrite L in L'. inv L'. lia.
    + destruct IN as [_ [_ [C0 _]]].
      pose proof (get_pud_ok (c_lastid c) c (sess_uid sm sid) C0 MC) as [P1 P2].
      intros u p p' L L'. eapply (mono_aset c (sess_uid sm sid) (c_lastid c + 1) (c_lastid c + 1)); try lia; [exact L|].
      exact L'.
  - (* ONote *)
    destruct x as [s cx n0]. cbn [ca] in Hc. subst cx.
    unfold step in Hc'; cbn [st ca negb] in Hc'.
    assert (mono c (h_ca (note f s c 0 sid (sess_uid sm sid) what seq))) as MN.
    { destruct (note_cases f s c 0 sid (sess_uid sm sid) what seq) as [[_ [E _]]|[_ [_ [_ [rd [rc [E [R1 [R2 _]]]]]]]]]; rewrite E.
      - apply mono_refl.
      - apply mono_aset; assumption. }
    destruct (attached c sid); cbn [negb fst ca] in Hc';
      repeat match type of Hc' with context [if ?b then _ else _] => destruct b end;
      cbn [fst ca] in Hc'; inv Hc'; try apply mono_refl; exact MN.
Qed.
End StepMono.

(* ------------------------------------------------------------------ *)
(* invalid notes: dropped without any reply or side effect *)

(* what Session.note and handleNoteBroadcast drop: unknown kind; a typing note with a seq;
   read/recv with seq <= 0; and, for a note that reaches the topic (attached session, or a
   recv routed through the hub): seq beyond lastID, typing without W, read/recv without R
   (a sender without a subscription has no permissions), read/recv not above the sender's
   current mark (stale, duplicate) *)
Definition note_dropped (c : cache) (att : bool) (u what : N) (seq : Z) : bool :=
  negb (N.eqb what K_kp || (N.eqb what K_read || N.eqb what K_recv))
  || (N.eqb what K_kp && negb (seq =? 0))
  || ((N.eqb what K_read || N.eqb what K_recv) && (seq <=? 0))
  || ((att || N.eqb what K_recv) &&
      ((c_lastid c <? seq)
       || (N.eqb what K_kp && negb (is_writer (pud_mode (get_pud c u))))
       || ((N.eqb what K_read || N.eqb what K_recv) && negb (is_reader (pud_mode (get_pud c u))))
       || (N.eqb what K_read && (seq <=? p_read (get_pud c u)))
       || (N.eqb what K_recv && (seq <=? p_recv (get_pud c u))))).

Section Silent.
Variable dr : Z -> list (Z * Z) -> option (list (Z * Z)).
Variable nr : list (Z * Z) -> list (Z * Z).
Variable sm : sessmap.

Lemma step_note_silent f s c n0 sid what seq :
  note_dropped c (attached c sid) (sess_uid sm sid) what seq = true ->
  step dr nr sm f (mkState s (Some c) n0) (ONote sid what seq) = (mkState s (Some c) 0, []).
Proof.
  intros H. unfold note_dropped in H. unfold step. cbn [st ca].
  destruct (attached c sid); cbn [negb orb andb] in *;
  destruct (N.eqb what K_kp) eqn:EK; destruct (N.eqb what K_read) eqn:ER; destruct (N.eqb what K_recv) eqn:EC;
    cbn [negb orb andb] in *;
    try (apply N.eqb_eq in EK; subst what; vm_compute in ER; discriminate);
    try (apply N.eqb_eq in EK; subst what; vm_compute in EC; discriminate);
    try (apply N.eqb_eq in ER; subst what; vm_compute in EC; discriminate);
    try discriminate; try reflexivity;
    unfold note; rewrite ?EK, ?ER, ?EC; cbn [negb orb andb]; revert H;
    repeat match goal with
           | |- context [if ?b then _ else _] => let E := fresh "E" in destruct b eqn:E; cbn [negb orb andb]
           end;
    intros H; try discriminate; try reflexivity.
Qed.

(* topic not loaded: nothing changes; the only possible reply is 409 to a read/typing note *)
Lemma step_note_unloaded f s n0 sid what seq :
  fst (step dr nr sm f (mkState s None n0) (ONote sid what seq)) = mkState s None 0 /\
  (snd (step dr nr sm f (mkState s None n0) (ONote sid what seq)) = [] \/
   snd (step dr nr sm f (mkState s None n0) (ONote sid what seq)) = [(sid, Ctrl 409 [])]).
Proof. unfold step. cbn [st ca negb]. repeat break_match; cbn [fst snd]; auto. Qed.
End Silent.

(* ------------------------------------------------------------------ *)
(* the stored marks: a note never lowers a stored mark of its sender, PROVIDED the sender's
   stored marks are not ahead of the cached ones (cache/store agreement is C08's invariant;
   it is a hypothesis here, not proved) *)
Lemma Forall2_map_r {A} (R : A -> A -> Prop) (g : A -> A) l : (forall x, In x l -> R x (g x)) -> Forall2 R l (map g l).
Proof. induction l as [|x l IH]; intros H; cbn; constructor; [apply H; now left|apply IH; intros y Hy; apply H; now right]. Qed.

Definition row_le (r r' : subrow) : Prop :=
  s_user r' = s_user r /\ s_deleted r' = s_deleted r /\ s_read r <= s_read r' /\ s_recv r <= s_recv r'.

Lemma note_store_forward f s c n sid u what seq :
  u <> 0%N ->
  (forall r, In r (subs s) -> s_user r = u -> s_read r <= p_read (get_pud c u) /\ s_recv r <= p_recv (get_pud c u)) ->
  Forall2 row_le (subs s) (subs (h_st (note f s c n sid u what seq))).
Proof.
  intros NZ CO.
  assert (forall l : list subrow, Forall2 row_le l l) as RF.
  { induction l; constructor; auto. repeat split; lia. }
  destruct (note_cases f s c n sid u what seq) as [[E _]|[_ [_ [_ [rd [rc [_ [R1 [R2 [_ [_ [_ [E2 _]]]]]]]]]]]]].
  - rewrite E. apply RF.
  - assert ((u =? 0)%N = false) as NZ' by (apply N.eqb_neq; exact NZ).
    destruct E2 as [[_ [L [-> ->]]]|[_ [L ->]]]; unfold ad_subs_update; rewrite NZ'; cbn [subs st_subs]; unfold upd_sub;
      apply Forall2_map_r; intros r Hr; destruct (N.eqb (s_user r) u) eqn:EU;
      try (repeat split; lia); apply N.eqb_eq in EU; destruct (CO r Hr EU) as [C1 C2];
      unfold row_le, apply_upd; cbn; repeat split; lia.
Qed.
